import Cirbo.Proofs.GenSum
/-!
# Weighted sums (`add_sum_n_weighted_bits`, `…_naive`): value and distinct levels
-/
namespace Cirbo
open GateType

def wsum (v : Label → Bool) (l : List (Nat × Label)) : Nat := (l.map (fun p => 2 ^ p.1 * bv v p.2)).sum
def pwsum (v : Label → Bool) (l : List (Nat × Label × Label)) : Nat := (l.map (fun p => 2 ^ p.1 * pbv v p.2)).sum

theorem wsum_nil (v) : wsum v [] = 0 := rfl
theorem wsum_cons (v p r) : wsum v (p :: r) = 2 ^ p.1 * bv v p.2 + wsum v r := by simp [wsum]
theorem wsum_append (v a b) : wsum v (a ++ b) = wsum v a + wsum v b := by simp [wsum]
theorem pwsum_nil (v) : pwsum v [] = 0 := rfl
theorem pwsum_cons (v p r) : pwsum v (p :: r) = 2 ^ p.1 * pbv v p.2 + pwsum v r := by simp [pwsum]

theorem wsum_insertBy (v) (lt) (x : Nat × Label) (l) : wsum v (insertBy lt x l) = 2 ^ x.1 * bv v x.2 + wsum v l := by
  induction l with
  | nil => simp [insertBy, wsum_cons]
  | cons y r ih =>
    unfold insertBy
    split
    · simp [wsum_cons]
    · simp only [wsum_cons, ih]; omega

theorem pwsum_insertBy (v) (lt) (x : Nat × Label × Label) (l) :
    pwsum v (insertBy lt x l) = 2 ^ x.1 * pbv v x.2 + pwsum v l := by
  induction l with
  | nil => simp [insertBy, pwsum_cons]
  | cons y r ih =>
    unfold insertBy
    split
    · simp [pwsum_cons]
    · simp only [pwsum_cons, ih]; omega

theorem wsum_sortBy (v) (lt) (l : List (Nat × Label)) : wsum v (sortBy lt l) = wsum v l := by
  unfold sortBy
  suffices ∀ acc, wsum v (l.foldl (fun acc x => insertBy lt x acc) acc) = wsum v acc + wsum v l by
    simpa [wsum_nil] using this []
  induction l with
  | nil => intro acc; simp [wsum_nil]
  | cons x r ih => intro acc; simp only [List.foldl_cons, ih, wsum_insertBy, wsum_cons]; omega

/-- `takeLevel` splits off a prefix whose elements all have the level asked for -/
theorem takeLevel_spec {α} (lev : α → Nat) (now : Nat) (l : List α) :
    l = (takeLevel lev now l).1 ++ (takeLevel lev now l).2 ∧ ∀ x ∈ (takeLevel lev now l).1, lev x = now := by
  induction l with
  | nil => simp [takeLevel]
  | cons x r ih =>
    unfold takeLevel
    split
    · rename_i he
      simp only [List.cons_append, List.cons.injEq, true_and, List.mem_cons, forall_eq_or_imp]
      exact ⟨ih.1, by simpa using he, ih.2⟩
    · simp

theorem wsum_level (v) (now : Nat) (l : List (Nat × Label)) (h : ∀ x ∈ l, x.1 = now) :
    wsum v l = 2 ^ now * cnt v (l.map (·.2)) := by
  induction l with
  | nil => simp [wsum_nil, cnt_nil]
  | cons x r ih =>
    rw [wsum_cons, List.map_cons, cnt_cons, ih (fun y hy => h y (by simp [hy])), h x (by simp), Nat.mul_add]

theorem pwsum_level (v) (now : Nat) (l : List (Nat × Label × Label)) (h : ∀ x ∈ l, x.1 = now) :
    pwsum v l = 2 ^ now * pcnt v (l.map (·.2)) := by
  induction l with
  | nil => simp [pwsum_nil, pcnt_nil]
  | cons x r ih =>
    rw [pwsum_cons, List.map_cons, pcnt_cons, ih (fun y hy => h y (by simp [hy])), h x (by simp), Nat.mul_add]

/-! ### sorted-list bookkeeping -/

def LSorted {α} (lev : α → Nat) (l : List α) : Prop := l.Pairwise (fun a b => lev a ≤ lev b)

theorem mem_insertBy {α} (lt : α → α → Bool) (x : α) (l : List α) (y : α) :
    y ∈ insertBy lt x l ↔ y = x ∨ y ∈ l := by
  induction l with
  | nil => simp [insertBy]
  | cons z r ih =>
    unfold insertBy
    split
    · simp
    · simp only [List.mem_cons, ih]
      constructor
      · rintro (h | h | h)
        · exact Or.inr (Or.inl h)
        · exact Or.inl h
        · exact Or.inr (Or.inr h)
      · rintro (h | h | h)
        · exact Or.inr (Or.inl h)
        · exact Or.inl h
        · exact Or.inr (Or.inr h)

theorem length_insertBy {α} (lt : α → α → Bool) (x : α) (l : List α) : (insertBy lt x l).length = l.length + 1 := by
  induction l with
  | nil => simp [insertBy]
  | cons z r ih =>
    unfold insertBy
    split
    · simp
    · simp [ih]

theorem insertBy_sorted {α} {lt : α → α → Bool} {lev : α → Nat}
    (h1 : ∀ a b, lt a b = true → lev a ≤ lev b) (h2 : ∀ a b, lt a b = false → lev b ≤ lev a)
    (x : α) (l : List α) (hs : LSorted lev l) : LSorted lev (insertBy lt x l) := by
  induction l with
  | nil => simp [insertBy, LSorted]
  | cons z r ih =>
    unfold insertBy
    have hs' := List.pairwise_cons.mp hs
    split
    · rename_i hlt
      refine List.pairwise_cons.mpr ⟨?_, hs⟩
      intro y hy
      rcases List.mem_cons.mp hy with rfl | hy
      · exact h1 _ _ hlt
      · exact Nat.le_trans (h1 _ _ hlt) (hs'.1 y hy)
    · rename_i hlt
      refine List.pairwise_cons.mpr ⟨?_, ih hs'.2⟩
      intro y hy
      rcases (mem_insertBy _ _ _ _).mp hy with rfl | hy
      · exact h2 _ _ (by simpa using hlt)
      · exact hs'.1 y hy

theorem ltSingle_le : ∀ a b : Nat × Label, ltSingle a b = true → a.1 ≤ b.1 := by
  intro a b h
  simp only [ltSingle, Bool.or_eq_true, decide_eq_true_eq, Bool.and_eq_true, beq_iff_eq] at h
  omega

theorem ltSingle_ge : ∀ a b : Nat × Label, ltSingle a b = false → b.1 ≤ a.1 := by
  intro a b h
  simp only [ltSingle, Bool.or_eq_false_iff, decide_eq_false_iff_not, Bool.and_eq_false_iff] at h
  omega

theorem ltPair_le : ∀ a b : Nat × Label × Label, ltPair a b = true → a.1 ≤ b.1 := by
  intro a b h
  simp only [ltPair, Bool.or_eq_true, decide_eq_true_eq, Bool.and_eq_true, beq_iff_eq] at h
  omega

theorem ltPair_ge : ∀ a b : Nat × Label × Label, ltPair a b = false → b.1 ≤ a.1 := by
  intro a b h
  simp only [ltPair, Bool.or_eq_false_iff, decide_eq_false_iff_not, Bool.and_eq_false_iff] at h
  omega

theorem two_mul_pow (l : Nat) (a : Nat) : 2 ^ (l + 1) * a = 2 ^ l * (2 * a) := by
  rw [Nat.pow_succ]; ac_rfl

theorem sem_wReduce3 {blk3} (hb : Blk3Spec blk3) {v : Label → Bool} (lvl : Nat) :
    ∀ (fuel : Nat) (nowR : List Label) (single : List (Nat × Label)) (n' : List Label) (s' : List (Nat × Label)),
      Sem (wReduce3 blk3 lvl fuel nowR single) v (n', s') →
      2 ^ lvl * cnt v n' + wsum v s' = 2 ^ lvl * cnt v nowR + wsum v single ∧
      (nowR.length ≤ 2 * fuel + 2 → n'.length ≤ 2) ∧ (nowR ≠ [] → n' ≠ []) ∧
      n'.length + s'.length ≤ nowR.length + single.length ∧
      (∀ x ∈ s', x ∈ single ∨ x.1 = lvl + 1) ∧ (∀ x ∈ single, x ∈ s') ∧
      (LSorted (fun (x : Nat × Label) => x.1) single → LSorted (fun (x : Nat × Label) => x.1) s') := by
  intro fuel
  induction fuel with
  | zero =>
    intro nowR single n' s' h
    unfold wReduce3 at h
    rw [sem_pure] at h; cases h
    exact ⟨rfl, fun h => by simpa using h, fun h => h, Nat.le_refl _, fun _ h => Or.inl h, fun _ h => h, fun h => h⟩
  | succ fuel ih =>
    intro nowR single n' s' h
    rcases nowR with _ | ⟨a, _ | ⟨b, _ | ⟨c, rest⟩⟩⟩
    · simp only [wReduce3, sem_pure, Prod.mk.injEq] at h; obtain ⟨rfl, rfl⟩ := h; simp; exact fun _ _ h => Or.inl h
    · simp only [wReduce3, sem_pure, Prod.mk.injEq] at h; obtain ⟨rfl, rfl⟩ := h; simp; exact fun _ _ h => Or.inl h
    · simp only [wReduce3, sem_pure, Prod.mk.injEq] at h; obtain ⟨rfl, rfl⟩ := h; simp; exact fun _ _ h => Or.inl h
    · simp only [wReduce3, sem_bind] at h
      obtain ⟨r, hr, ⟨x, y⟩, hp, hrec⟩ := h
      have := sem_pair2 hp; subst this
      obtain ⟨x', y', z', s, cc, hin, hout, hval⟩ := hb _ _ _ hr
      cases hin; cases hout
      obtain ⟨i1, i2, i3, i4, i5, i6, i7⟩ := ih _ _ _ _ hrec
      refine ⟨?_, ?_, fun _ => i3 (by simp), ?_, ?_, ?_, ?_⟩
      · rw [i1, wsum_insertBy]
        simp only [cnt_cons, two_mul_pow]
        rw [← Nat.add_assoc, ← Nat.mul_add]
        have : bv v x + cnt v rest + 2 * bv v y = bv v a + (bv v b + (bv v c + cnt v rest)) := by omega
        rw [this]
      · intro hl; apply i2; simp only [List.length_cons] at hl ⊢; omega
      · rw [length_insertBy] at i4; simp only [List.length_cons] at i4 ⊢; omega
      · intro z hz
        rcases i5 z hz with h1 | h1
        · rcases (mem_insertBy _ _ _ _).mp h1 with rfl | h2
          · exact Or.inr rfl
          · exact Or.inl h2
        · exact Or.inr h1
      · intro z hz; exact i6 z ((mem_insertBy _ _ _ _).mpr (Or.inr hz))
      · intro hs; exact i7 (insertBy_sorted ltSingle_le ltSingle_ge _ _ hs)

theorem sem_wReduce2 {blk2} (hb : Blk2Spec blk2) {v : Label → Bool} (lvl : Nat) {nowR : List Label}
    {single : List (Nat × Label)} {n' : List Label} {s' : List (Nat × Label)}
    (h : Sem (wReduce2 blk2 lvl nowR single) v (n', s')) :
    2 ^ lvl * cnt v n' + wsum v s' = 2 ^ lvl * cnt v nowR + wsum v single ∧
      (nowR.length ≤ 2 → n'.length ≤ 1) ∧ (nowR ≠ [] → n' ≠ []) ∧
      n'.length + s'.length ≤ nowR.length + single.length ∧
      (∀ x ∈ s', x ∈ single ∨ x.1 = lvl + 1) ∧ (∀ x ∈ single, x ∈ s') ∧
      (LSorted (fun (x : Nat × Label) => x.1) single → LSorted (fun (x : Nat × Label) => x.1) s') := by
  rcases nowR with _ | ⟨a, _ | ⟨b, _ | ⟨c, rest⟩⟩⟩
  · simp only [wReduce2, sem_pure, Prod.mk.injEq] at h; obtain ⟨rfl, rfl⟩ := h; simp; exact fun _ _ h => Or.inl h
  · simp only [wReduce2, sem_pure, Prod.mk.injEq] at h; obtain ⟨rfl, rfl⟩ := h; simp; exact fun _ _ h => Or.inl h
  · simp only [wReduce2, sem_bind, sem_pure] at h
    obtain ⟨r, hr, ⟨x, y⟩, hp, heq⟩ := h
    have := sem_pair2 hp; subst this
    obtain ⟨x', y', s, cc, hin, hout, hval⟩ := hb _ _ _ hr
    cases hin; cases hout; cases heq
    refine ⟨?_, fun _ => by simp, fun _ => by simp, ?_, ?_, ?_, ?_⟩
    · rw [wsum_insertBy]
      simp only [cnt_cons, cnt_nil, two_mul_pow]
      rw [← Nat.add_assoc, ← Nat.mul_add]
      have : bv v x + 0 + 2 * bv v y = bv v a + (bv v b + 0) := by omega
      rw [this]
    · rw [length_insertBy]; simp; omega
    · intro z hz
      rcases (mem_insertBy _ _ _ _).mp hz with rfl | h2
      · exact Or.inr rfl
      · exact Or.inl h2
    · intro z hz; exact (mem_insertBy _ _ _ _).mpr (Or.inr hz)
    · intro hs; exact insertBy_sorted ltSingle_le ltSingle_ge _ _ hs
  · simp only [wReduce2, sem_pure, Prod.mk.injEq] at h; obtain ⟨rfl, rfl⟩ := h
    exact ⟨rfl, fun h => by simp at h, fun h => h, Nat.le_refl _, fun _ h => Or.inl h, fun _ h => h, fun h => h⟩

theorem sem_wSimpleLevelWith {blk3 blk2} (h3 : Blk3Spec blk3) (h2 : Blk2Spec blk2) {v : Label → Bool} {lvl : Nat}
    {nowS : List Label} {single : List (Nat × Label)} {r : Label} {s' : List (Nat × Label)}
    (h : Sem (wSimpleLevelWith blk3 blk2 lvl nowS single) v (r, s')) :
    2 ^ lvl * bv v r + wsum v s' = 2 ^ lvl * cnt v nowS + wsum v single ∧
    s'.length + 1 ≤ nowS.length + single.length ∧
    (∀ x ∈ s', x ∈ single ∨ x.1 = lvl + 1) ∧ (∀ x ∈ single, x ∈ s') ∧
    (LSorted (fun (x : Nat × Label) => x.1) single → LSorted (fun (x : Nat × Label) => x.1) s') := by
  simp only [wSimpleLevelWith, sem_bind, sem_pure, Prod.mk.injEq] at h
  obtain ⟨⟨n1, s1⟩, hr3, ⟨n2, s2⟩, hr2, r', hf, e1, e2⟩ := h
  subst e1 e2
  obtain ⟨a1, a2, a3, a4, a5, a6, a7⟩ := sem_wReduce3 h3 lvl _ _ _ _ _ hr3
  obtain ⟨b1, b2, b3, b4, b5, b6, b7⟩ := sem_wReduce2 h2 lvl hr2
  have hl : nowS.reverse.length ≤ 2 * nowS.length + 2 := by simp; omega
  have hn : n2 = [r] := single_of_getLast (sem_firstOfRev hf) (b2 (a2 hl))
  subst hn
  rw [cnt_reverse] at a1
  simp only [cnt_cons, cnt_nil, List.length_cons, List.length_nil, List.length_reverse, Nat.add_zero] at *
  refine ⟨by omega, by omega, ?_, fun x hx => b6 x (a6 x hx), fun hs => b7 (a7 hs)⟩
  intro x hx
  rcases b5 x hx with h1 | h1
  · exact a5 x h1
  · exact Or.inr h1

theorem sem_wSimpleLevel {v : Label → Bool} {b : Basis} {lvl : Nat} {nowS : List Label}
    {single : List (Nat × Label)} {r : Label} {s' : List (Nat × Label)}
    (h : Sem (wSimpleLevel b lvl nowS single) v (r, s')) :
    2 ^ lvl * bv v r + wsum v s' = 2 ^ lvl * cnt v nowS + wsum v single ∧
    s'.length + 1 ≤ nowS.length + single.length ∧
    (∀ x ∈ s', x ∈ single ∨ x.1 = lvl + 1) ∧ (∀ x ∈ single, x ∈ s') ∧
    (LSorted (fun (x : Nat × Label) => x.1) single → LSorted (fun (x : Nat × Label) => x.1) s') := by
  cases b
  · exact sem_wSimpleLevelWith blk3_sum3 blk2_sum2 h
  · exact sem_wSimpleLevelWith blk3_sum3Aig blk2_sum2Aig h

/-! ### the level loop invariant -/

theorem takeLevel_fst_ne {α} (lev : α → Nat) (now : Nat) (x : α) (r : List α) (h : lev x = now) :
    (takeLevel lev now (x :: r)).1 ≠ [] := by
  unfold takeLevel
  simp [h]

theorem takeLevel_rest {α} (lev : α → Nat) (now : Nat) (l : List α) (hs : LSorted lev l)
    (hmin : ∀ x ∈ l, now ≤ lev x) :
    (∀ x ∈ (takeLevel lev now l).2, now < lev x) ∧ LSorted lev (takeLevel lev now l).2 ∧
    (∀ x ∈ (takeLevel lev now l).2, x ∈ l) ∧
    l.length = (takeLevel lev now l).1.length + (takeLevel lev now l).2.length := by
  induction l with
  | nil => simp [takeLevel, LSorted]
  | cons x r ih =>
    have hs' := List.pairwise_cons.mp hs
    unfold takeLevel
    split
    · rename_i he
      obtain ⟨i1, i2, i3, i4⟩ := ih hs'.2 (fun y hy => hmin y (by simp [hy]))
      refine ⟨i1, i2, fun y hy => by simp [i3 y hy], ?_⟩
      simp only [List.length_cons]; omega
    · rename_i he
      refine ⟨?_, hs, fun y hy => hy, by simp⟩
      intro y hy
      have hx : now < lev x := by
        have := hmin x (by simp)
        have hne : lev x ≠ now := by simpa using he
        omega
      rcases List.mem_cons.mp hy with rfl | hy
      · exact hx
      · exact Nat.lt_of_lt_of_le hx (hs'.1 y hy)

structure WInv (inf : Nat) (single : List (Nat × Label)) (pairs : List (Nat × Label × Label))
    (res : List (Nat × Label)) : Prop where
  sS : LSorted (fun (x : Nat × Label) => x.1) single
  sP : LSorted (fun (x : Nat × Label × Label) => x.1) pairs
  bS : ∀ x ∈ single, x.1 + (single.length + 2 * pairs.length) < inf
  bP : ∀ p ∈ pairs, p.1 + (single.length + 2 * pairs.length) < inf
  rS : ∀ y ∈ res, ∀ x ∈ single, y.1 < x.1
  rP : ∀ y ∈ res, ∀ p ∈ pairs, y.1 < p.1
  rr : (res.map (·.1)).Pairwise (· < ·)

/-- bookkeeping of one level: the chosen level is below the sentinel, something is taken at it, and
whatever replaces the taken items at level+1 re-establishes the invariant -/
theorem winv_step {inf : Nat} {single : List (Nat × Label)} {pairs : List (Nat × Label × Label)}
    {res : List (Nat × Label)} (inv : WInv inf single pairs res) (hne : single ≠ [] ∨ pairs ≠ []) :
    let lvl := minLevel single pairs inf
    let tS := takeLevel (fun (x : Nat × Label) => x.1) lvl single
    let tP := takeLevel (fun (x : Nat × Label × Label) => x.1) lvl pairs
    lvl < inf ∧ (tS.1 ≠ [] ∨ tP.1 ≠ []) ∧
    single.length = tS.1.length + tS.2.length ∧ pairs.length = tP.1.length + tP.2.length ∧
    LSorted (fun (x : Nat × Label) => x.1) tS.2 ∧ LSorted (fun (x : Nat × Label × Label) => x.1) tP.2 ∧
    ∀ (s' : List (Nat × Label)) (p' : List (Nat × Label × Label)) (r : Label),
      LSorted (fun (x : Nat × Label) => x.1) s' → LSorted (fun (x : Nat × Label × Label) => x.1) p' →
      (∀ x ∈ s', x ∈ tS.2 ∨ x.1 = lvl + 1) → (∀ p ∈ p', p ∈ tP.2 ∨ p.1 = lvl + 1) →
      s'.length + 2 * p'.length + 1 ≤ single.length + 2 * pairs.length →
      WInv inf s' p' (res ++ [(lvl, r)]) := by
  intro lvl tS tP
  have T1 : 1 ≤ single.length + 2 * pairs.length := by
    rcases hne with h | h
    · cases single with
      | nil => exact absurd rfl h
      | cons _ _ => simp; omega
    · cases pairs with
      | nil => exact absurd rfl h
      | cons _ _ => simp; omega
  -- lvl is the smallest level present
  have hminS : ∀ x ∈ single, lvl ≤ x.1 := by
    intro x hx
    cases hsg : single with
    | nil => rw [hsg] at hx; cases hx
    | cons y r =>
      have hy : y.1 ≤ x.1 := by
        rw [hsg] at hx
        rcases List.mem_cons.mp hx with rfl | hx
        · exact Nat.le_refl _
        · have := inv.sS; rw [hsg] at this; exact (List.pairwise_cons.mp this).1 x hx
      show minLevel single pairs inf ≤ x.1
      simp only [minLevel, hsg]
      omega
  have hminP : ∀ p ∈ pairs, lvl ≤ p.1 := by
    intro x hx
    cases hsg : pairs with
    | nil => rw [hsg] at hx; cases hx
    | cons y r =>
      have hy : y.1 ≤ x.1 := by
        rw [hsg] at hx
        rcases List.mem_cons.mp hx with rfl | hx
        · exact Nat.le_refl _
        · have := inv.sP; rw [hsg] at this; exact (List.pairwise_cons.mp this).1 x hx
      show minLevel single pairs inf ≤ x.1
      simp only [minLevel, hsg]
      omega
  -- … and it is the level of a head
  have hhead : (∃ y r, single = y :: r ∧ y.1 = lvl) ∨ (∃ y r, pairs = y :: r ∧ y.1 = lvl) := by
    cases hsg : single with
    | nil =>
      cases hpg : pairs with
      | nil => rcases hne with h | h <;> simp_all
      | cons q qr =>
        right; refine ⟨q, qr, rfl, ?_⟩
        have := inv.bP q (by rw [hpg]; simp)
        show q.1 = minLevel single pairs inf
        simp only [minLevel, hsg, hpg]; omega
    | cons y r =>
      have hy := inv.bS y (by rw [hsg]; simp)
      cases hpg : pairs with
      | nil =>
        left; refine ⟨y, r, rfl, ?_⟩
        show y.1 = minLevel single pairs inf
        simp only [minLevel, hsg, hpg]; omega
      | cons q qr =>
        have hq := inv.bP q (by rw [hpg]; simp)
        by_cases hle : y.1 ≤ q.1
        · left; refine ⟨y, r, rfl, ?_⟩
          show y.1 = minLevel single pairs inf
          simp only [minLevel, hsg, hpg]; omega
        · right; refine ⟨q, qr, rfl, ?_⟩
          show q.1 = minLevel single pairs inf
          simp only [minLevel, hsg, hpg]; omega
  have hlt : lvl < inf := by
    rcases hhead with ⟨y, r, hs, hy⟩ | ⟨y, r, hs, hy⟩
    · have := inv.bS y (by rw [hs]; simp); omega
    · have := inv.bP y (by rw [hs]; simp); omega
  obtain ⟨s1, s2, s3, s4⟩ := takeLevel_rest (fun (x : Nat × Label) => x.1) lvl single inv.sS hminS
  obtain ⟨p1, p2, p3, p4⟩ := takeLevel_rest (fun (x : Nat × Label × Label) => x.1) lvl pairs inv.sP hminP
  have htaken : tS.1 ≠ [] ∨ tP.1 ≠ [] := by
    rcases hhead with ⟨y, r, hs, hy⟩ | ⟨y, r, hs, hy⟩
    · left; show (takeLevel _ lvl single).1 ≠ []; rw [hs]; exact takeLevel_fst_ne _ _ _ _ hy
    · right; show (takeLevel _ lvl pairs).1 ≠ []; rw [hs]; exact takeLevel_fst_ne _ _ _ _ hy
  -- all earlier results are below lvl
  have hres : ∀ y ∈ res, y.1 < lvl := by
    intro y hy
    rcases hhead with ⟨z, r, hs, hz⟩ | ⟨z, r, hs, hz⟩
    · have := inv.rS y hy z (by rw [hs]; simp); omega
    · have := inv.rP y hy z (by rw [hs]; simp); omega
  refine ⟨hlt, htaken, s4, p4, s2, p2, ?_⟩
  intro s' p' r hs' hp' hms hmp hlen
  have lvS : ∀ x ∈ s', lvl < x.1 := by
    intro x hx
    rcases hms x hx with h | h
    · exact s1 x h
    · omega
  have lvP : ∀ x ∈ p', lvl < x.1 := by
    intro x hx
    rcases hmp x hx with h | h
    · exact p1 x h
    · omega
  refine ⟨hs', hp', ?_, ?_, ?_, ?_, ?_⟩
  · intro x hx
    rcases hms x hx with h | h
    · have := inv.bS x (s3 x h); omega
    · rcases hhead with ⟨z, _, hs, hz⟩ | ⟨z, _, hs, hz⟩
      · have := inv.bS z (by rw [hs]; simp); omega
      · have := inv.bP z (by rw [hs]; simp); omega
  · intro x hx
    rcases hmp x hx with h | h
    · have := inv.bP x (p3 x h); omega
    · rcases hhead with ⟨z, _, hs, hz⟩ | ⟨z, _, hs, hz⟩
      · have := inv.bS z (by rw [hs]; simp); omega
      · have := inv.bP z (by rw [hs]; simp); omega
  · intro y hy x hx
    rcases List.mem_append.mp hy with h | h
    · exact Nat.lt_trans (hres y h) (lvS x hx)
    · simp only [List.mem_singleton] at h; subst h; exact lvS x hx
  · intro y hy x hx
    rcases List.mem_append.mp hy with h | h
    · exact Nat.lt_trans (hres y h) (lvP x hx)
    · simp only [List.mem_singleton] at h; subst h; exact lvP x hx
  · rw [List.map_append, List.pairwise_append]
    refine ⟨inv.rr, by simp, ?_⟩
    intro a ha b hb
    simp only [List.map_cons, List.map_nil, List.mem_singleton] at hb
    subst hb
    obtain ⟨y, hy, rfl⟩ := List.mem_map.mp ha
    exact hres y hy

theorem wsum_split (v) (now : Nat) (l : List (Nat × Label)) :
    wsum v l = 2 ^ now * cnt v ((takeLevel (fun (x : Nat × Label) => x.1) now l).1.map (·.2)) +
      wsum v (takeLevel (fun (x : Nat × Label) => x.1) now l).2 := by
  obtain ⟨h1, h2⟩ := takeLevel_spec (fun (x : Nat × Label) => x.1) now l
  conv => lhs; rw [h1]
  rw [wsum_append, wsum_level v now _ h2]

theorem pwsum_append (v a b) : pwsum v (a ++ b) = pwsum v a + pwsum v b := by simp [pwsum]

theorem pwsum_split (v) (now : Nat) (l : List (Nat × Label × Label)) :
    pwsum v l = 2 ^ now * pcnt v ((takeLevel (fun (x : Nat × Label × Label) => x.1) now l).1.map (·.2)) +
      pwsum v (takeLevel (fun (x : Nat × Label × Label) => x.1) now l).2 := by
  obtain ⟨h1, h2⟩ := takeLevel_spec (fun (x : Nat × Label × Label) => x.1) now l
  conv => lhs; rw [h1]
  rw [pwsum_append, pwsum_level v now _ h2]

/-- **`add_sum_n_weighted_bits_naive`, level loop** -/
theorem sem_weightedNaiveLoop {v : Label → Bool} {b : Basis} {inf : Nat} :
    ∀ (fuel : Nat) (single res out : List (Nat × Label)), Sem (weightedNaiveLoop b inf fuel single res) v out →
      WInv inf single [] res →
      wsum v out = wsum v res + wsum v single ∧ (out.map (·.1)).Pairwise (· < ·) := by
  intro fuel
  induction fuel with
  | zero => intro single res out h; unfold weightedNaiveLoop at h; exact absurd h sem_fail
  | succ fuel ih =>
    intro single res out h inv
    unfold weightedNaiveLoop at h
    split at h
    · rename_i he
      rw [sem_pure] at h; subst h
      have : single = [] := by simpa using he
      subst this
      exact ⟨by simp [wsum_nil], inv.rr⟩
    · rename_i he
      have hne : single ≠ [] := by intro e; subst e; simp at he
      obtain ⟨hlt, htk, hlen, _, hsr, _, hstep⟩ := winv_step inv (Or.inl hne)
      simp only at h
      split at h
      · rename_i hge; omega
      · have hsplit := wsum_split v (minLevel single [] inf) single
        generalize hts : takeLevel (fun (x : Nat × Label) => x.1) (minLevel single [] inf) single = t at h hlen hsr hstep hsplit
        obtain ⟨nowS, rest⟩ := t
        simp only [sem_bind] at h
        obtain ⟨⟨r, s'⟩, hlev, hrec⟩ := h
        obtain ⟨l1, l2, l3, l4, l5⟩ := sem_wSimpleLevel hlev
        simp only [List.length_map] at l2
        have inv' := hstep s' [] r (l5 hsr) (by simp [LSorted]) l3 (by simp) (by simp at hlen ⊢; omega)
        obtain ⟨i1, i2⟩ := ih _ _ _ hrec inv'
        refine ⟨?_, i2⟩
        rw [i1, wsum_append, wsum_cons, wsum_nil, hsplit]
        simp only at l1 ⊢
        omega

theorem maxLevel_ge (l : List (Nat × Label)) : ∀ x ∈ l, x.1 ≤ maxLevel l := by
  unfold maxLevel
  suffices ∀ (m : Nat), (m ≤ l.foldl (fun m x => max m x.1) m) ∧ ∀ x ∈ l, x.1 ≤ l.foldl (fun m x => max m x.1) m from
    (this 0).2
  induction l with
  | nil => intro m; simp
  | cons y r ih =>
    intro m
    simp only [List.foldl_cons, List.mem_cons, forall_eq_or_imp]
    obtain ⟨a, b⟩ := ih (max m y.1)
    exact ⟨by omega, by omega, b⟩

theorem sortBy_facts (l : List (Nat × Label)) :
    LSorted (fun (x : Nat × Label) => x.1) (sortBy ltSingle l) ∧ (sortBy ltSingle l).length = l.length ∧
    ∀ x, x ∈ sortBy ltSingle l ↔ x ∈ l := by
  unfold sortBy
  suffices ∀ acc, LSorted (fun (x : Nat × Label) => x.1) acc →
      LSorted (fun (x : Nat × Label) => x.1) (l.foldl (fun acc x => insertBy ltSingle x acc) acc) ∧
      (l.foldl (fun acc x => insertBy ltSingle x acc) acc).length = acc.length + l.length ∧
      ∀ x, x ∈ l.foldl (fun acc x => insertBy ltSingle x acc) acc ↔ x ∈ acc ∨ x ∈ l by
    simpa using this [] (by simp [LSorted])
  induction l with
  | nil => intro acc h; simp [h]
  | cons y r ih =>
    intro acc h
    simp only [List.foldl_cons]
    obtain ⟨a, b, c⟩ := ih (insertBy ltSingle y acc) (insertBy_sorted ltSingle_le ltSingle_ge _ _ h)
    refine ⟨a, by rw [b, length_insertBy]; simp; omega, fun x => ?_⟩
    rw [c, mem_insertBy]; simp only [List.mem_cons]
    constructor
    · rintro ((h | h) | h)
      · exact Or.inr (Or.inl h)
      · exact Or.inl h
      · exact Or.inr (Or.inr h)
    · rintro (h | h | h)
      · exact Or.inl (Or.inr h)
      · exact Or.inl (Or.inl h)
      · exact Or.inr h

theorem winv_init (ins : List (Nat × Label)) :
    WInv (maxLevel ins + ins.length + 1) (sortBy ltSingle ins) [] [] := by
  obtain ⟨a, b, c⟩ := sortBy_facts ins
  refine ⟨a, by simp [LSorted], ?_, by simp, by simp, by simp, by simp⟩
  intro x hx
  have := maxLevel_ge ins x ((c x).mp hx)
  simp only [b, List.length_nil]; omega

/-- **`add_sum_n_weighted_bits_naive`** (every basis spelling): `Σ out·2^level = Σ in·2^weight`, and
the output levels are strictly increasing (pairwise distinct) -/
theorem sem_addSumWeightedNaive {v : Label → Bool} {ins out : List (Nat × Label)} {basis : BasisArg}
    (h : Sem (addSumWeightedNaive ins basis) v out) :
    wsum v out = wsum v ins ∧ (out.map (·.1)).Pairwise (· < ·) := by
  unfold addSumWeightedNaive at h
  split at h
  · exact absurd h sem_fail
  · split at h
    · exact absurd h sem_fail
    · obtain ⟨a, b⟩ := sem_weightedNaiveLoop _ _ _ _ h (winv_init ins)
      exact ⟨by rw [a, wsum_nil, wsum_sortBy]; simp, b⟩

/-! ### the efficient variant -/

theorem foldInsertS_facts (v : Label → Bool) (k : Nat) (ls : List Label) : ∀ (rest : List (Nat × Label)),
    let r := ls.foldl (fun acc l => insertBy ltSingle (k, l) acc) rest
    wsum v r = wsum v rest + 2 ^ k * cnt v ls ∧ r.length = rest.length + ls.length ∧
    (∀ x ∈ r, x ∈ rest ∨ x.1 = k) ∧
    (LSorted (fun (x : Nat × Label) => x.1) rest → LSorted (fun (x : Nat × Label) => x.1) r) := by
  induction ls with
  | nil => intro rest; simp [cnt_nil]; exact fun _ _ h => Or.inl h
  | cons l r ih =>
    intro rest
    simp only [List.foldl_cons]
    obtain ⟨a, b, c, d⟩ := ih (insertBy ltSingle (k, l) rest)
    refine ⟨?_, ?_, ?_, ?_⟩
    · rw [a, wsum_insertBy, cnt_cons, Nat.mul_add]; simp only; omega
    · rw [b, length_insertBy]; simp; omega
    · intro x hx
      rcases c x hx with h | h
      · rcases (mem_insertBy _ _ _ _).mp h with rfl | h
        · exact Or.inr rfl
        · exact Or.inl h
      · exact Or.inr h
    · intro hs; exact d (insertBy_sorted ltSingle_le ltSingle_ge _ _ hs)

theorem foldInsertP_facts (v : Label → Bool) (k : Nat) (ls : List (Label × Label)) : ∀ (rest : List (Nat × Label × Label)),
    let r := ls.foldl (fun acc (l : Label × Label) => insertBy ltPair (k, l.1, l.2) acc) rest
    pwsum v r = pwsum v rest + 2 ^ k * pcnt v ls ∧ r.length = rest.length + ls.length ∧
    (∀ x ∈ r, x ∈ rest ∨ x.1 = k) ∧
    (LSorted (fun (x : Nat × Label × Label) => x.1) rest → LSorted (fun (x : Nat × Label × Label) => x.1) r) := by
  induction ls with
  | nil => intro rest; simp [pcnt_nil]; exact fun _ _ _ h => Or.inl h
  | cons l r ih =>
    intro rest
    simp only [List.foldl_cons]
    obtain ⟨a, b, c, d⟩ := ih (insertBy ltPair (k, l.1, l.2) rest)
    refine ⟨?_, ?_, ?_, ?_⟩
    · rw [a, pwsum_insertBy, pcnt_cons, Nat.mul_add]; simp only [Prod.eta]; omega
    · rw [b, length_insertBy]; simp; omega
    · intro x hx
      rcases c x hx with h | h
      · rcases (mem_insertBy _ _ _ _).mp h with rfl | h
        · exact Or.inr rfl
        · exact Or.inl h
      · exact Or.inr h
    · intro hs; exact d (insertBy_sorted ltPair_le ltPair_ge _ _ hs)

/-- **`add_sum_n_weighted_bits`, level loop** (MDFA scheme for XAIG, simple scheme for AIG) -/
theorem sem_weightedLoop {v : Label → Bool} {b : Basis} {inf : Nat} :
    ∀ (fuel : Nat) (single : List (Nat × Label)) (pairs : List (Nat × Label × Label)) (res out : List (Nat × Label)),
      Sem (weightedLoop b inf fuel single pairs res) v out → WInv inf single pairs res → (b = .aig → pairs = []) →
      wsum v out = wsum v res + wsum v single + pwsum v pairs ∧ (out.map (·.1)).Pairwise (· < ·) := by
  intro fuel
  induction fuel with
  | zero => intro single pairs res out h; unfold weightedLoop at h; exact absurd h sem_fail
  | succ fuel ih =>
    intro single pairs res out h inv haig
    unfold weightedLoop at h
    split at h
    · rename_i he
      rw [sem_pure] at h; subst h
      simp only [Bool.and_eq_true, List.isEmpty_iff] at he
      obtain ⟨rfl, rfl⟩ := he
      exact ⟨by simp [wsum_nil, pwsum_nil], inv.rr⟩
    · rename_i he
      have hne : single ≠ [] ∨ pairs ≠ [] := by
        by_cases h1 : single = []
        · right; intro h2; subst h1; subst h2; simp at he
        · exact Or.inl h1
      obtain ⟨hlt, htk, hlenS, hlenP, hsr, hpr, hstep⟩ := winv_step inv hne
      simp only at h
      split at h
      · rename_i hge; omega
      · have hsplitS := wsum_split v (minLevel single pairs inf) single
        have hsplitP := pwsum_split v (minLevel single pairs inf) pairs
        generalize hts : takeLevel (fun (x : Nat × Label) => x.1) (minLevel single pairs inf) single = tS
          at h hlenS hsr hstep hsplitS htk
        generalize htp : takeLevel (fun (x : Nat × Label × Label) => x.1) (minLevel single pairs inf) pairs = tP
          at h hlenP hpr hstep hsplitP htk
        obtain ⟨nowS, restS⟩ := tS
        obtain ⟨nowP, restP⟩ := tP
        simp only at h hlenS hlenP hsr hpr hstep hsplitS hsplitP htk
        cases b with
        | aig =>
          have hp0 : pairs = [] := haig rfl
          subst hp0
          simp only [takeLevel, Prod.mk.injEq] at htp
          obtain ⟨rfl, rfl⟩ := htp
          simp only [sem_bind] at h
          obtain ⟨⟨r, s'⟩, hlev, hrec⟩ := h
          obtain ⟨l1, l2, l3, l4, l5⟩ := sem_wSimpleLevel hlev
          simp only [List.length_map] at l2
          have inv' := hstep s' [] r (l5 hsr) (by simp [LSorted]) l3 (by simp) (by simp at hlenS ⊢; omega)
          obtain ⟨i1, i2⟩ := ih _ _ _ _ hrec inv' (fun _ => rfl)
          refine ⟨?_, i2⟩
          rw [i1, wsum_append, wsum_cons, wsum_nil, hsplitS]
          simp only [pwsum_nil] at l1 ⊢
          omega
        | xaig =>
          simp only [sem_bind] at h
          obtain ⟨⟨soloR, pairsR⟩, hpu, ⟨r, nextS, nextP⟩, hlev, hrec⟩ := h
          obtain ⟨u1, _, u3, u4⟩ := sem_pairUp _ _ _ _ _ hpu
          have hne1 : soloR ≠ [] ∨ pairsR ≠ [] := by
            apply u3
            rcases htk with h1 | h1
            · left; simpa using h1
            · right; simpa using h1
          obtain ⟨x1, x2⟩ := sem_xaigLevel hlev hne1
          obtain ⟨fs1, fs2, fs3, fs4⟩ := foldInsertS_facts v (minLevel single pairs inf + 1) nextS restS
          obtain ⟨fp1, fp2, fp3, fp4⟩ := foldInsertP_facts v (minLevel single pairs inf + 1) nextP restP
          have u1' : cnt v soloR + pcnt v pairsR = cnt v (nowS.map (·.2)) + pcnt v (nowP.map (·.2)) := by
            simpa [cnt_reverse, pcnt_reverse] using u1
          have u4' : soloR.length + 2 * pairsR.length ≤ nowS.length + 2 * nowP.length := by
            simpa using u4
          have x2' : 1 + nextS.length + 2 * nextP.length ≤ soloR.length + 2 * pairsR.length := x2
          have x1' : bv v r + 2 * (cnt v nextS + pcnt v nextP) = cnt v soloR + pcnt v pairsR := x1
          have inv' := hstep _ _ r (fs4 hsr) (fp4 hpr) fs3 fp3 (by rw [fs2, fp2]; omega)
          obtain ⟨i1, i2⟩ := ih _ _ _ _ hrec inv' (fun hb => by cases hb)
          refine ⟨?_, i2⟩
          rw [i1, wsum_append, wsum_cons, wsum_nil, fs1, fp1, hsplitS, hsplitP, two_mul_pow, two_mul_pow]
          simp only
          have key : bv v r + 2 * cnt v nextS + 2 * pcnt v nextP =
              cnt v (nowS.map (·.2)) + pcnt v (nowP.map (·.2)) := by omega
          generalize 2 ^ minLevel single pairs inf = P
          have : P * bv v r + P * (2 * cnt v nextS) + P * (2 * pcnt v nextP) =
              P * cnt v (nowS.map (·.2)) + P * pcnt v (nowP.map (·.2)) := by
            rw [← Nat.mul_add, ← Nat.mul_add, ← Nat.mul_add, key]
          omega

/-- **`add_sum_n_weighted_bits`** (every basis spelling): `Σ out·2^level = Σ in·2^weight`, and the
output levels are strictly increasing (pairwise distinct) -/
theorem sem_addSumWeighted {v : Label → Bool} {ins out : List (Nat × Label)} {basis : BasisArg}
    (h : Sem (addSumWeighted ins basis) v out) :
    wsum v out = wsum v ins ∧ (out.map (·.1)).Pairwise (· < ·) := by
  unfold addSumWeighted at h
  split at h
  · exact absurd h sem_fail
  · split at h
    · exact absurd h sem_fail
    · obtain ⟨a, b⟩ := sem_weightedLoop _ _ _ _ _ h (winv_init ins) (fun _ => rfl)
      exact ⟨by rw [a, wsum_nil, wsum_sortBy, pwsum_nil]; simp, b⟩

theorem wsum_congr {v v' : Label → Bool} {ls : List (Nat × Label)} (h : ∀ p ∈ ls, v' p.2 = v p.2) : wsum v' ls = wsum v ls := by
  unfold wsum; congr 1; apply List.map_congr_left; intro p hp; simp [bv, h p hp]


end Cirbo
