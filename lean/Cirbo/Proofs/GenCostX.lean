import Cirbo.Proofs.GenCostW
/-!
# Gate counts of the XAIG schemes (MDFA): exact cost of a level, the bit counter and the weighted sum
-/
namespace Cirbo
open GateType

/-- the pairing loop: one gate per pair -/
theorem cost_pairUp : ∀ (fuel : Nat) (solo s' : List Label) (pairs p' : List (Label × Label)) (k : Nat),
    solo.length ≤ 2 * fuel + 1 → Cost (pairUp fuel solo pairs) (s', p') k →
    k = solo.length / 2 ∧ s'.length = solo.length % 2 ∧ p'.length = pairs.length + solo.length / 2 := by
  intro fuel
  induction fuel with
  | zero =>
    intro solo s' pairs p' k hf h
    unfold pairUp at h
    obtain ⟨e, rfl⟩ := cost_pure.mp h
    cases e
    simp only [Nat.mul_zero, Nat.zero_add] at hf
    refine ⟨by omega, by omega, by omega⟩
  | succ f ih =>
    intro solo s' pairs p' k hf h
    match solo, hf, h with
    | [], _, h =>
      unfold pairUp at h
      obtain ⟨e, rfl⟩ := cost_pure.mp h
      cases e
      exact ⟨rfl, rfl, rfl⟩
    | [a], _, h =>
      unfold pairUp at h
      obtain ⟨e, rfl⟩ := cost_pure.mp h
      cases e
      exact ⟨by simp, by simp, by simp⟩
    | a :: b :: rest, hf, h =>
      unfold pairUp at h
      simp only [cost_bind] at h
      obtain ⟨xy, m1, m2, h1, h2, rfl⟩ := h
      have := cost_emitTT h1
      simp only [List.length_cons] at hf
      obtain ⟨hk, hs, hp⟩ := ih _ _ _ _ _ (by omega) h2
      simp only [List.length_cons] at hp ⊢
      refine ⟨by omega, by omega, by omega⟩

/-- the MDFA loop with at most one solo bit: `p / 2` blocks, the first one a simplified MDFA
(6 gates instead of 8) when there is no solo bit -/
theorem cost_mdfaLoop : ∀ (fuel : Nat) (soloR s1 : List Label) (pairsR p1 nextP nP : List (Label × Label)) (k : Nat),
    pairsR.length ≤ 2 * fuel + 1 → soloR.length ≤ 1 → Cost (mdfaLoop fuel soloR pairsR nextP) (s1, p1, nP) k →
    p1.length = pairsR.length % 2 ∧ nP.length = nextP.length + pairsR.length / 2 ∧
    s1.length = (if soloR.length = 0 ∧ 2 ≤ pairsR.length then 1 else soloR.length) ∧
    k + (if soloR.length = 0 ∧ 2 ≤ pairsR.length then 2 else 0) = 8 * (pairsR.length / 2) := by
  intro fuel
  induction fuel with
  | zero =>
    intro soloR s1 pairsR p1 nextP nP k hf hs h
    unfold mdfaLoop at h
    obtain ⟨e, rfl⟩ := cost_pure.mp h
    cases e
    simp only [Nat.mul_zero, Nat.zero_add] at hf
    have : ¬ (2 ≤ pairsR.length) := by omega
    simp only [this, and_false, if_false]
    refine ⟨by omega, by omega, trivial, by omega⟩
  | succ f ih =>
    intro soloR s1 pairsR p1 nextP nP k hf hs h
    match pairsR, hf, h with
    | [], _, h =>
      unfold mdfaLoop at h
      obtain ⟨e, rfl⟩ := cost_pure.mp h
      cases e
      simp
    | [q], _, h =>
      unfold mdfaLoop at h
      obtain ⟨e, rfl⟩ := cost_pure.mp h
      cases e
      simp
    | q1 :: q2 :: prest, hf, h =>
      simp only [List.length_cons] at hf
      match soloR, hs, h with
      | s :: srest, hs, h =>
        unfold mdfaLoop at h
        simp only [cost_bind] at h
        obtain ⟨r, m1, m2, hblk, ⟨t, m3, m4, ht, hrec, rfl⟩, rfl⟩ := h
        obtain ⟨hc, _⟩ := cost_addMdfa hblk
        have ht0 := cost_triple3 ht
        simp only [List.length_cons] at hs
        have hsr : srest.length = 0 := by omega
        obtain ⟨a1, a2, a3, a4⟩ := ih _ _ _ _ _ _ _ (by omega) (by simp only [List.length_cons]; omega) hrec
        simp only [List.length_cons, List.length_append, List.length_nil, hsr] at a1 a2 a3 a4 ⊢
        have hn1 : ¬ (0 + 1 = 0 ∧ 2 ≤ prest.length) := by omega
        have hn2 : ¬ (0 + 1 = 0 ∧ 2 ≤ prest.length + 1 + 1) := by omega
        simp only [hn1, hn2, if_false] at a3 a4 ⊢
        refine ⟨by omega, by omega, by omega, by omega⟩
      | [], _, h =>
        unfold mdfaLoop at h
        simp only [cost_bind] at h
        obtain ⟨r, m1, m2, hblk, ⟨t, m3, m4, ht, hrec, rfl⟩, rfl⟩ := h
        obtain ⟨hc, _⟩ := cost_addSimplifiedMdfa hblk
        have ht0 := cost_triple3 ht
        obtain ⟨a1, a2, a3, a4⟩ := ih _ _ _ _ _ _ _ (by omega) (by simp) hrec
        simp only [List.length_cons, List.length_append, List.length_nil] at a1 a2 a3 a4 ⊢
        have hn1 : ¬ (0 + 1 = 0 ∧ 2 ≤ prest.length) := by omega
        have hy : (0 = 0 ∧ 2 ≤ prest.length + 1 + 1) := ⟨rfl, by omega⟩
        simp only [hn1, if_false] at a3 a4
        simp only [hy, and_self, if_true]
        refine ⟨by omega, by omega, by omega, by omega⟩

/-- the last pair: a Stockmeyer block (4 gates) with the solo bit, or 1 gate when there is none -/
theorem cost_lastPair {soloR s2 : List Label} {pairsR : List (Label × Label)} {nextS nS : List Label} {k : Nat}
    (hp : pairsR.length ≤ 1) (hs : soloR.length ≤ 1) (h : Cost (lastPair soloR pairsR nextS) (s2, nS) k) :
    (pairsR.length = 1 → s2.length = 1 ∧ nS.length = nextS.length + 1 ∧ k + 3 * (1 - soloR.length) = 4) ∧
    (pairsR.length = 0 → s2 = soloR ∧ nS = nextS ∧ k = 0) := by
  unfold lastPair at h
  split at h
  · rename_i p
    refine ⟨fun _ => ?_, fun e => by simp at e⟩
    split at h
    · rename_i s srest
      simp only [cost_bind, cost_pure] at h
      obtain ⟨r, m1, m2, hblk, ⟨t, m3, m4, ht, ⟨e, rfl⟩, rfl⟩, rfl⟩ := h
      cases e
      obtain ⟨hc, _⟩ := cost_addStockmeyer hblk
      have := cost_pair2 ht
      simp only [List.length_cons] at hs ⊢
      refine ⟨by omega, by simp, by omega⟩
    · simp only [cost_bind, cost_pure] at h
      obtain ⟨cy, m1, m2, h1, ⟨e, rfl⟩, rfl⟩ := h
      cases e
      have := cost_emitTT h1
      refine ⟨by simp, by simp, by simp; omega⟩
  · rename_i hno
    obtain ⟨e, rfl⟩ := cost_pure.mp h
    cases e
    refine ⟨fun e => ?_, fun _ => ⟨rfl, rfl, rfl⟩⟩
    cases pairsR with
    | nil => simp at e
    | cons a r =>
      cases r with
      | nil => exact absurd rfl (hno a)
      | cons _ _ => simp at hp

/-- **one XAIG level, exactly** (at most one solo bit on entry, `p` pairs): `p / 2` pairs and `p % 2`
single carries go up, and the level costs `8·(p/2) + 4·(p%2)` gates, minus 2 when the first block is a
simplified MDFA, minus 3 when the level is a lone pair -/
theorem cost_xaigLevel {soloR : List Label} {pairsR : List (Label × Label)} {r : Label} {nextS : List Label}
    {nextP : List (Label × Label)} {k : Nat} (hs : soloR.length ≤ 1)
    (h : Cost (xaigLevel soloR pairsR) (r, nextS, nextP) k) :
    nextP.length = pairsR.length / 2 ∧ nextS.length = pairsR.length % 2 ∧ 1 ≤ soloR.length + pairsR.length ∧
    k + (if soloR.length = 0 then (if 2 ≤ pairsR.length then 2 else 3) else 0) =
      8 * (pairsR.length / 2) + 4 * (pairsR.length % 2) := by
  unfold xaigLevel at h
  simp only [cost_bind, cost_pure] at h
  obtain ⟨⟨s1, p1, nP⟩, k1, _, h1, ⟨⟨s2, nS0⟩, k2, _, h2, ⟨⟨s3, nS1⟩, k3, _, h3, ⟨⟨s4, nS2⟩, k4, _, h4,
    ⟨x, k5, _, h5, ⟨e, rfl⟩, rfl⟩, rfl⟩, rfl⟩, rfl⟩, rfl⟩ := h
  simp only at h2 h3 h4 h5 e
  cases e
  obtain ⟨a1, a2, a3, a4⟩ := cost_mdfaLoop _ _ _ _ _ _ _ _ (by omega) hs h1
  simp only [List.length_nil, Nat.zero_add] at a2
  have hs1 : s1.length ≤ 1 := by rw [a3]; split <;> omega
  have hp1 : p1.length ≤ 1 := by omega
  obtain ⟨b1, b2⟩ := cost_lastPair hp1 hs1 h2
  obtain ⟨j, c1, c2, c3, _⟩ := cost_reduce3 blockCost_sum3 _ _ _ _ _ _ h3
  obtain ⟨hk5, hne⟩ := cost_firstOfRev h5
  have hs4 : 1 ≤ s4.length := by
    cases s4 with
    | nil => exact absurd rfl hne
    | cons _ _ => simp
  -- the two `if`s, decided
  have hcases : (soloR.length = 1 ∧ s1.length = 1 ∧ k1 = 8 * (pairsR.length / 2)) ∨
      (soloR.length = 0 ∧ 2 ≤ pairsR.length ∧ s1.length = 1 ∧ k1 + 2 = 8 * (pairsR.length / 2)) ∨
      (soloR.length = 0 ∧ pairsR.length < 2 ∧ s1.length = 0 ∧ k1 = 8 * (pairsR.length / 2)) := by
    by_cases hs0 : soloR.length = 0
    · by_cases hp2 : 2 ≤ pairsR.length
      · have hy : soloR.length = 0 ∧ 2 ≤ pairsR.length := ⟨hs0, hp2⟩
        simp only [hy, and_self, if_true] at a3 a4
        exact Or.inr (Or.inl ⟨hs0, hp2, a3, a4⟩)
      · have hn : ¬ (soloR.length = 0 ∧ 2 ≤ pairsR.length) := fun h => hp2 h.2
        simp only [hn, if_false] at a3 a4
        exact Or.inr (Or.inr ⟨hs0, by omega, by omega, by omega⟩)
    · have hn : ¬ (soloR.length = 0 ∧ 2 ≤ pairsR.length) := fun h => hs0 h.1
      simp only [hn, if_false] at a3 a4
      exact Or.inl ⟨by omega, by omega, by omega⟩
  by_cases hodd : p1.length = 1
  · obtain ⟨d1, d2, d3⟩ := b1 hodd
    have hj : j = 0 := by omega
    subst hj
    simp only [Nat.mul_zero, Nat.add_zero] at c1 c2 c3
    rcases cost_reduce2 blockCost_sum2 h4 with ⟨_, _, _, h2le⟩ | ⟨e4, f1, f2⟩
    · omega
    · subst f1 f2
      simp only [List.length_nil, Nat.zero_add] at d2
      refine ⟨a2, by omega, by omega, ?_⟩
      rcases hcases with ⟨q1, q2, q3⟩ | ⟨q1, q2, q3, q4⟩ | ⟨q1, q2, q3, q4⟩
      · have : ¬ soloR.length = 0 := by omega
        simp only [this, if_false]; omega
      · simp only [q1, if_true, q2]; omega
      · have : ¬ (2 ≤ pairsR.length) := by omega
        simp only [q1, if_true, this, if_false]; omega
  · have hz : p1.length = 0 := by omega
    obtain ⟨d1, d2, d3⟩ := b2 hz
    subst d1 d2
    have hj : j = 0 := by omega
    subst hj
    simp only [Nat.mul_zero, Nat.add_zero] at c1 c2 c3
    rcases cost_reduce2 blockCost_sum2 h4 with ⟨_, _, _, h2le⟩ | ⟨e4, f1, f2⟩
    · omega
    · subst f1 f2
      simp only [List.length_nil] at c3
      rcases hcases with ⟨q1, q2, q3⟩ | ⟨q1, q2, q3, q4⟩ | ⟨q1, q2, q3, q4⟩
      · refine ⟨a2, by omega, by omega, ?_⟩
        have : ¬ soloR.length = 0 := by omega
        simp only [this, if_false]; omega
      · refine ⟨a2, by omega, by omega, ?_⟩
        simp only [q1, if_true, q2]; omega
      · omega

/-- **the XAIG bit counter's level loop**: with a carried solo bit valued 8 and a pair valued 16 (in
half gates), every level pays for itself and leaves 4 -/
theorem cost_xaigLevels : ∀ (fuel : Nat) (soloR : List Label) (pairsR : List (Label × Label)) (res r : List Label)
    (k : Nat), soloR.length ≤ 1 → Cost (xaigLevels fuel soloR pairsR res) r k →
    ∃ lv, r.length = res.length + lv ∧ 2 * k + 4 * lv ≤ 8 * soloR.length + 16 * pairsR.length := by
  intro fuel
  induction fuel with
  | zero => intro soloR pairsR res r k _ h; unfold xaigLevels at h; exact absurd h cost_fail
  | succ f ih =>
    intro soloR pairsR res r k hs h
    unfold xaigLevels at h
    split at h
    · obtain ⟨rfl, rfl⟩ := cost_pure.mp h
      exact ⟨0, by simp, by omega⟩
    · simp only [cost_bind] at h
      obtain ⟨⟨x, nextS, nextP⟩, k1, k2, h1, h2, rfl⟩ := h
      simp only at h2
      obtain ⟨a1, a2, a3, a4⟩ := cost_xaigLevel hs h1
      obtain ⟨lv, hl, hk⟩ := ih _ _ _ _ _ (by simp only [List.length_reverse]; omega) h2
      simp only [List.length_reverse, List.length_append, List.length_singleton] at hl hk
      refine ⟨lv + 1, by omega, ?_⟩
      by_cases hs0 : soloR.length = 0
      · by_cases hp2 : 2 ≤ pairsR.length
        · simp only [hs0, if_true, hp2] at a4; omega
        · simp only [hs0, if_true, hp2, if_false] at a4; omega
      · simp only [hs0, if_false] at a4; omega

/-- the XAIG bit counter: at most `4.5n - 2m` gates, as documented -/
theorem cost_addSumNBitsXaig {ins r : List Label} {k : Nat} (h : Cost (addSumNBitsXaig ins) r k) :
    2 * k + 4 * r.length ≤ 9 * ins.length := by
  unfold addSumNBitsXaig at h
  simp only [cost_bind] at h
  obtain ⟨⟨soloR, pairsR⟩, k1, k2, h1, h2, rfl⟩ := h
  simp only at h2
  obtain ⟨a1, a2, a3⟩ := cost_pairUp _ _ _ _ _ _ (by simp only [List.length_reverse]; omega) h1
  simp only [List.length_reverse, List.length_nil, Nat.zero_add] at a1 a2 a3
  obtain ⟨lv, hl, hk⟩ := cost_xaigLevels _ _ _ _ _ _ (by omega) h2
  simp only [List.length_nil, Nat.zero_add] at hl
  omega

theorem length_revIf_c (l : List Label) (be : Bool) : (revIf l be).length = l.length := by
  cases be <;> simp [revIf]

/-- **`add_sum_n_bits` stays within its documented bounds**: `4.5n - 2m` gates in XAIG, `7n - 3m` in
AIG (`n` operands, `m` result bits), however the basis is spelled -/
theorem cost_addSumNBits {ins r : List Label} {basis : BasisArg} {be : Bool} {k : Nat}
    (h : Cost (addSumNBits ins basis be) r k) :
    ∃ b, basis.resolve = .ok b ∧ (b = .xaig → 2 * k + 4 * r.length ≤ 9 * ins.length) ∧
      (b = .aig → k + 3 * r.length ≤ 7 * ins.length) := by
  unfold addSumNBits at h
  split at h
  · exact absurd h cost_fail
  · rename_i b hb
    simp only [cost_bind, cost_pure] at h
    obtain ⟨r0, k1, _, h1, ⟨rfl, rfl⟩, rfl⟩ := h
    refine ⟨b, hb, ?_, ?_⟩
    · intro e; subst e
      have := cost_addSumNBitsXaig h1
      rw [length_revIf_c] at this ⊢; omega
    · intro e; subst e
      have := cost_addSumNBitsAig h1
      rw [length_revIf_c] at this ⊢; omega

/-! ## the weighted sum -/

theorem foldl_insert_length {α β} (lt : α → α → Bool) (f : β → α) : ∀ (xs : List β) (acc : List α),
    (xs.foldl (fun acc x => insertBy lt (f x) acc) acc).length = acc.length + xs.length := by
  intro xs
  induction xs with
  | nil => intro acc; simp
  | cons x r ih => intro acc; simp only [List.foldl_cons, ih, insertBy_length, List.length_cons]; omega

/-- **the weighted loop, AIG**: the simple scheme on the single bits (no pairs are ever formed) -/
theorem cost_weightedLoop_aig (inf : Nat) :
    ∀ (fuel : Nat) (single : List (Nat × Label)) (pairs : List (Nat × Label × Label)) (res r : List (Nat × Label))
      (k : Nat), Cost (weightedLoop .aig inf fuel single pairs res) r k →
      ∃ J3 J2 lv, k = 7 * J3 + 3 * J2 ∧ r.length = res.length + lv ∧ J3 + lv ≤ single.length ∧ J2 ≤ lv := by
  intro fuel
  induction fuel with
  | zero => intro single pairs res r k h; unfold weightedLoop at h; exact absurd h cost_fail
  | succ f ih =>
    intro single pairs res r k h
    unfold weightedLoop at h
    split at h
    · obtain ⟨rfl, rfl⟩ := cost_pure.mp h
      exact ⟨0, 0, 0, by simp, by simp, by simp, by simp⟩
    · simp only at h
      split at h
      · obtain ⟨rfl, rfl⟩ := cost_pure.mp h
        exact ⟨0, 0, 0, by simp, by simp, by simp, by simp⟩
      · cases htl : takeLevel (fun (x : Nat × Label) => x.1) (minLevel single pairs inf) single with
        | mk nowS restS =>
          cases htp : takeLevel (fun (x : Nat × Label × Label) => x.1) (minLevel single pairs inf) pairs with
          | mk nowP restP =>
            rw [htl, htp] at h
            simp only [cost_bind] at h
            obtain ⟨⟨x, s'⟩, k1, k2, h1, h2, rfl⟩ := h
            simp only at h2
            obtain ⟨j, fl, hk1, hf, hs', hL⟩ := cost_wSimpleLevel h1
            obtain ⟨J3, J2, lv, hk2, hrl, hJ3, hJ2⟩ := ih _ _ _ _ _ h2
            have hlen := takeLevel_length _ _ _ _ _ htl
            simp only [List.length_map] at hL
            simp only [List.length_append, List.length_singleton] at hrl
            simp only [basisCosts] at hk1
            refine ⟨J3 + j, J2 + fl, lv + 1, by omega, by omega, by omega, by omega⟩

/-- **the weighted loop, XAIG**: with a single bit valued 9 and a pair valued 16 (in half gates), every
level pays for its pairing gates and blocks and leaves 3 -/
theorem cost_weightedLoop_xaig (inf : Nat) :
    ∀ (fuel : Nat) (single : List (Nat × Label)) (pairs : List (Nat × Label × Label)) (res r : List (Nat × Label))
      (k : Nat), Cost (weightedLoop .xaig inf fuel single pairs res) r k →
      ∃ lv, r.length = res.length + lv ∧ 2 * k + 3 * lv ≤ 9 * single.length + 16 * pairs.length := by
  intro fuel
  induction fuel with
  | zero => intro single pairs res r k h; unfold weightedLoop at h; exact absurd h cost_fail
  | succ f ih =>
    intro single pairs res r k h
    unfold weightedLoop at h
    split at h
    · obtain ⟨rfl, rfl⟩ := cost_pure.mp h
      exact ⟨0, by simp, by omega⟩
    · simp only at h
      split at h
      · obtain ⟨rfl, rfl⟩ := cost_pure.mp h
        exact ⟨0, by simp, by omega⟩
      · cases htl : takeLevel (fun (x : Nat × Label) => x.1) (minLevel single pairs inf) single with
        | mk nowS restS =>
          cases htp : takeLevel (fun (x : Nat × Label × Label) => x.1) (minLevel single pairs inf) pairs with
          | mk nowP restP =>
            rw [htl, htp] at h
            simp only [cost_bind] at h
            obtain ⟨⟨soloR, pairsR⟩, k1, _, h1, ⟨⟨x, nextS, nextP⟩, k2, k3, h2, h3, rfl⟩, rfl⟩ := h
            simp only at h2 h3
            obtain ⟨a1, a2, a3⟩ := cost_pairUp _ _ _ _ _ _ (by simp only [List.length_reverse, List.length_map]; omega) h1
            simp only [List.length_reverse, List.length_map] at a1 a2 a3
            obtain ⟨b1, b2, b3, b4⟩ := cost_xaigLevel (by omega) h2
            obtain ⟨lv, hrl, hk⟩ := ih _ _ _ _ _ h3
            rw [foldl_insert_length ltSingle (fun l => (minLevel single pairs inf + 1, l)),
              foldl_insert_length ltPair (fun (l : Label × Label) => (minLevel single pairs inf + 1, l.1, l.2))] at hk
            have hl1 := takeLevel_length _ _ _ _ _ htl
            have hl2 := takeLevel_length _ _ _ _ _ htp
            simp only [List.length_append, List.length_singleton] at hrl
            refine ⟨lv + 1, by omega, ?_⟩
            by_cases hs0 : soloR.length = 0
            · by_cases hp2 : 2 ≤ pairsR.length
              · simp only [hs0, if_true, hp2] at b4; omega
              · simp only [hs0, if_true, hp2, if_false] at b4; omega
            · simp only [hs0, if_false] at b4; omega

/-- **`add_sum_n_weighted_bits`**: AIG: at most `7n - 4m` gates (documented `7n - 3m`); XAIG: at most
`4.5n - 1.5m` gates — the documented `4.5n - 2m` does NOT hold (see the Props file) -/
theorem cost_addSumWeighted {ins r : List (Nat × Label)} {basis : BasisArg} {k : Nat}
    (h : Cost (addSumWeighted ins basis) r k) :
    ∃ b, basis.resolve = .ok b ∧
      (b = .xaig → 2 * k + 3 * r.length ≤ 9 * ins.length) ∧ (b = .aig → k + 4 * r.length ≤ 7 * ins.length) := by
  unfold addSumWeighted at h
  split at h
  · exact absurd h cost_fail
  · rename_i b hb
    split at h
    · exact absurd h cost_fail
    · refine ⟨b, hb, ?_, ?_⟩
      · intro e; subst e
        obtain ⟨lv, hl, hk⟩ := cost_weightedLoop_xaig _ _ _ _ _ _ _ h
        rw [sortBy_length] at hk
        simp only [List.length_nil, Nat.zero_add, Nat.mul_zero, Nat.add_zero] at hl hk
        omega
      · intro e; subst e
        obtain ⟨J3, J2, lv, hk, hl, hJ3, hJ2⟩ := cost_weightedLoop_aig _ _ _ _ _ _ _ h
        rw [sortBy_length] at hJ3
        simp only [List.length_nil, Nat.zero_add] at hl
        omega

end Cirbo
