import Cirbo.Proofs.Gen
/-!
# Value theorems for the summation generators (over `Sem`)
-/
namespace Cirbo
open GateType

def bv (v : Label → Bool) (l : Label) : Nat := (v l).toNat
/-- number of true bits -/
def cnt (v : Label → Bool) (ls : List Label) : Nat := (ls.map (bv v)).sum
/-- little-endian value of a list of bits -/
def valLE (v : Label → Bool) : List Label → Nat
  | [] => 0
  | x :: r => bv v x + 2 * valLE v r

def ttApply (t : TT) (a b : Bool) : Bool :=
  if a then (if b then t.2.2.2 else t.2.2.1) else (if b then t.2.1 else t.1)

/-- the regenerated `binary_tt_to_type` table maps every 4-bit string to a gate type computing
exactly that truth table -/
theorem ttType_sem {a b c d : Bool} {ty : GateType} (h : Gen.ttType a b c d = some ty) (x y : Bool) :
    bfun ty [x, y] = some (ttApply (a, b, c, d) x y) := by
  cases a <;> cases b <;> cases c <;> cases d <;> simp only [Gen.ttType, Option.some.injEq] at h <;>
    subst h <;> cases x <;> cases y <;> rfl

theorem sem_emitTT {x y : Label} {t : TT} {v : Label → Bool} {l : Label}
    (h : Sem (emitTT x y t) v l) : v l = ttApply t (v x) (v y) := by
  unfold emitTT at h
  split at h
  · cases h with
    | fresh l0 h0 => cases h0
  · rename_i ty hty
    unfold emit at h
    cases h with
    | fresh l0 h0 =>
      cases h0 with
      | add hb hp =>
        cases hp
        simp only [List.map_cons, List.map_nil] at hb
        rw [ttType_sem hty] at hb
        exact (Option.some.inj hb).symm

theorem cnt_nil (v) : cnt v [] = 0 := rfl
theorem cnt_cons (v x r) : cnt v (x :: r) = bv v x + cnt v r := by simp [cnt]
theorem cnt_append (v a b) : cnt v (a ++ b) = cnt v a + cnt v b := by simp [cnt]
theorem cnt_reverse (v a) : cnt v a.reverse = cnt v a := by
  induction a with
  | nil => rfl
  | cons x r ih => simp [cnt_append, cnt_cons, ih, cnt_nil, Nat.add_comm]

theorem valLE_append (v a b) : valLE v (a ++ b) = valLE v a + 2 ^ a.length * valLE v b := by
  induction a with
  | nil => simp [valLE]
  | cons x r ih => simp only [List.cons_append, valLE, ih, List.length_cons, Nat.pow_succ]; rw [Nat.mul_add]; ac_rfl

/-! ## blocks -/

theorem sem_addSum2 {ins : List Label} {v : Label → Bool} {r : List Label} (h : Sem (addSum2 ins) v r) :
    ∃ x y s c, ins = [x, y] ∧ r = [s, c] ∧ bv v s + 2 * bv v c = bv v x + bv v y := by
  unfold addSum2 at h
  split at h
  · rename_i x y
    simp only [sem_bind, sem_pure] at h
    obtain ⟨g1, h1, g2, h2, rfl⟩ := h
    refine ⟨x, y, g1, g2, rfl, rfl, ?_⟩
    simp only [bv, sem_emitTT h1, sem_emitTT h2]
    cases v x <;> cases v y <;> rfl
  · exact absurd h sem_fail

theorem sem_addSum3 {ins : List Label} {v : Label → Bool} {r : List Label} (h : Sem (addSum3 ins) v r) :
    ∃ x y z s c, ins = [x, y, z] ∧ r = [s, c] ∧ bv v s + 2 * bv v c = bv v x + bv v y + bv v z := by
  unfold addSum3 at h
  split at h
  · rename_i x y z
    simp only [sem_bind, sem_pure] at h
    obtain ⟨g1, h1, g2, h2, g3, h3, g4, h4, g5, h5, rfl⟩ := h
    refine ⟨x, y, z, g4, g5, rfl, rfl, ?_⟩
    simp only [bv, sem_emitTT h5, sem_emitTT h4, sem_emitTT h3, sem_emitTT h2, sem_emitTT h1]
    cases v x <;> cases v y <;> cases v z <;> rfl
  · exact absurd h sem_fail

theorem sem_addSum2Aig {ins : List Label} {v : Label → Bool} {r : List Label} (h : Sem (addSum2Aig ins) v r) :
    ∃ x y s c, ins = [x, y] ∧ r = [s, c] ∧ bv v s + 2 * bv v c = bv v x + bv v y := by
  unfold addSum2Aig at h
  split at h
  · rename_i x y
    simp only [sem_bind, sem_pure] at h
    obtain ⟨g1, h1, g2, h2, g3, h3, rfl⟩ := h
    refine ⟨x, y, g3, g2, rfl, rfl, ?_⟩
    simp only [bv, sem_emitTT h3, sem_emitTT h2, sem_emitTT h1]
    cases v x <;> cases v y <;> rfl
  · exact absurd h sem_fail

theorem sem_addSum3Aig {ins : List Label} {v : Label → Bool} {r : List Label} (h : Sem (addSum3Aig ins) v r) :
    ∃ x y z s c, ins = [x, y, z] ∧ r = [s, c] ∧ bv v s + 2 * bv v c = bv v x + bv v y + bv v z := by
  unfold addSum3Aig at h
  split at h
  · rename_i x y z
    simp only [sem_bind, sem_pure] at h
    obtain ⟨g1, h1, g2, h2, g3, h3, g4, h4, g5, h5, g6, h6, g7, h7, rfl⟩ := h
    refine ⟨x, y, z, g6, g7, rfl, rfl, ?_⟩
    simp only [bv, sem_emitTT h7, sem_emitTT h6, sem_emitTT h5, sem_emitTT h4, sem_emitTT h3, sem_emitTT h2, sem_emitTT h1]
    cases v x <;> cases v y <;> cases v z <;> rfl
  · exact absurd h sem_fail

/-- Stockmeyer block: from `x1`, `x2` and `x2 ⊕ x3` the two bits of `x1 + x2 + x3` -/
theorem sem_addStockmeyer {ins : List Label} {v : Label → Bool} {r : List Label} (h : Sem (addStockmeyer ins) v r) :
    ∃ x1 x2 x23 w0 w1, ins = [x1, x2, x23] ∧ r = [w0, w1] ∧
      bv v w0 + 2 * bv v w1 = bv v x1 + bv v x2 + (xor (v x2) (v x23)).toNat := by
  unfold addStockmeyer at h
  split at h
  · rename_i x1 x2 x23
    simp only [sem_bind, sem_pure] at h
    obtain ⟨w0, h1, g2, h2, g3, h3, w1, h4, rfl⟩ := h
    refine ⟨x1, x2, x23, w0, w1, rfl, rfl, ?_⟩
    simp only [bv, sem_emitTT h4, sem_emitTT h3, sem_emitTT h2, sem_emitTT h1]
    cases v x1 <;> cases v x2 <;> cases v x23 <;> rfl
  · exact absurd h sem_fail

/-- a pair `(x, x ⊕ y)` stands for the two bits `x` and `y` -/
def pbv (v : Label → Bool) (p : Label × Label) : Nat := bv v p.1 + (xor (v p.1) (v p.2)).toNat

/-- MDFA: `z + x1 + y1 + x2 + y2 = z' + 2·(a + b)`, the carries again as a pair `(a, a ⊕ b)` -/
theorem sem_addMdfa {ins : List Label} {v : Label → Bool} {r : List Label} (h : Sem (addMdfa ins) v r) :
    ∃ z x1 xy1 x2 xy2 z' a ab, ins = [z, x1, xy1, x2, xy2] ∧ r = [z', a, ab] ∧
      bv v z' + 2 * pbv v (a, ab) = bv v z + pbv v (x1, xy1) + pbv v (x2, xy2) := by
  unfold addMdfa at h
  split at h
  · rename_i z x1 xy1 x2 xy2
    simp only [sem_bind, sem_pure] at h
    obtain ⟨g1, h1, g2, h2, g3, h3, g4, h4, g5, h5, g6, h6, g7, h7, g8, h8, rfl⟩ := h
    refine ⟨z, x1, xy1, x2, xy2, g6, g4, g8, rfl, rfl, ?_⟩
    simp only [pbv, bv, sem_emitTT h8, sem_emitTT h7, sem_emitTT h6, sem_emitTT h5, sem_emitTT h4, sem_emitTT h3,
      sem_emitTT h2, sem_emitTT h1]
    cases v z <;> cases v x1 <;> cases v xy1 <;> cases v x2 <;> cases v xy2 <;> rfl
  · exact absurd h sem_fail

theorem sem_addSimplifiedMdfa {ins : List Label} {v : Label → Bool} {r : List Label}
    (h : Sem (addSimplifiedMdfa ins) v r) :
    ∃ x1 xy1 x2 xy2 z' a ab, ins = [x1, xy1, x2, xy2] ∧ r = [z', a, ab] ∧
      bv v z' + 2 * pbv v (a, ab) = pbv v (x1, xy1) + pbv v (x2, xy2) := by
  unfold addSimplifiedMdfa at h
  split at h
  · rename_i x1 xy1 x2 xy2
    simp only [sem_bind, sem_pure] at h
    obtain ⟨g2, h2, g4, h4, g5, h5, g6, h6, g7, h7, g8, h8, rfl⟩ := h
    refine ⟨x1, xy1, x2, xy2, g6, g4, g8, rfl, rfl, ?_⟩
    simp only [pbv, bv, sem_emitTT h8, sem_emitTT h7, sem_emitTT h6, sem_emitTT h5, sem_emitTT h4, sem_emitTT h2]
    cases v x1 <;> cases v xy1 <;> cases v x2 <;> cases v xy2 <;> rfl
  · exact absurd h sem_fail

/-! ## level loops of the simple (3→2 / 2→2 compressor) bit counters -/

def Blk3Spec (blk3 : List Label → Prog (List Label)) : Prop :=
  ∀ ins v r, Sem (blk3 ins) v r →
    ∃ x y z s c, ins = [x, y, z] ∧ r = [s, c] ∧ bv v s + 2 * bv v c = bv v x + bv v y + bv v z
def Blk2Spec (blk2 : List Label → Prog (List Label)) : Prop :=
  ∀ ins v r, Sem (blk2 ins) v r →
    ∃ x y s c, ins = [x, y] ∧ r = [s, c] ∧ bv v s + 2 * bv v c = bv v x + bv v y

theorem blk3_sum3 : Blk3Spec addSum3 := fun _ _ _ h => sem_addSum3 h
theorem blk3_sum3Aig : Blk3Spec addSum3Aig := fun _ _ _ h => sem_addSum3Aig h
theorem blk2_sum2 : Blk2Spec addSum2 := fun _ _ _ h => sem_addSum2 h
theorem blk2_sum2Aig : Blk2Spec addSum2Aig := fun _ _ _ h => sem_addSum2Aig h

theorem sem_pair2 {r : List Label} {v} {x y : Label} (h : Sem (pair2 r) v (x, y)) : r = [x, y] := by
  unfold pair2 at h
  split at h
  · rw [sem_pure] at h; cases h; rfl
  · exact absurd h sem_fail

theorem sem_triple3 {r : List Label} {v} {x y z : Label} (h : Sem (triple3 r) v (x, y, z)) : r = [x, y, z] := by
  unfold triple3 at h
  split at h
  · rw [sem_pure] at h; cases h; rfl
  · exact absurd h sem_fail

theorem sem_reduce3 {blk3} (hb : Blk3Spec blk3) {v : Label → Bool} :
    ∀ (fuel : Nat) (nowR next n' nx' : List Label), Sem (reduce3 blk3 fuel nowR next) v (n', nx') →
      cnt v n' + 2 * cnt v nx' = cnt v nowR + 2 * cnt v next ∧
      (nowR.length ≤ 2 * fuel + 2 → n'.length ≤ 2) ∧ (nowR ≠ [] → n' ≠ []) ∧
      n'.length + nx'.length ≤ nowR.length + next.length := by
  intro fuel
  induction fuel with
  | zero =>
    intro nowR next n' nx' h
    unfold reduce3 at h
    rw [sem_pure] at h; cases h
    exact ⟨rfl, fun h => by simpa using h, fun h => h, Nat.le_refl _⟩
  | succ fuel ih =>
    intro nowR next n' nx' h
    rcases nowR with _ | ⟨a, _ | ⟨b, _ | ⟨c, rest⟩⟩⟩
    · simp only [reduce3, sem_pure, Prod.mk.injEq] at h; obtain ⟨rfl, rfl⟩ := h; simp
    · simp only [reduce3, sem_pure, Prod.mk.injEq] at h; obtain ⟨rfl, rfl⟩ := h; simp
    · simp only [reduce3, sem_pure, Prod.mk.injEq] at h; obtain ⟨rfl, rfl⟩ := h; simp
    · simp only [reduce3, sem_bind] at h
      obtain ⟨r, hr, ⟨x, y⟩, hp, hrec⟩ := h
      have := sem_pair2 hp; subst this
      obtain ⟨x', y', z', s, cc, hin, hout, hval⟩ := hb _ _ _ hr
      cases hin; cases hout
      obtain ⟨i1, i2, i3, i4⟩ := ih _ _ _ _ hrec
      refine ⟨?_, ?_, fun _ => i3 (by simp), ?_⟩
      · rw [i1]; simp only [cnt_cons, cnt_append, cnt_nil]; omega
      · intro hl; apply i2; simp only [List.length_cons] at hl ⊢; omega
      · simp only [List.length_cons, List.length_append, List.length_nil] at i4 ⊢; omega

theorem sem_reduce2 {blk2} (hb : Blk2Spec blk2) {v : Label → Bool} {nowR next n' nx' : List Label}
    (h : Sem (reduce2 blk2 nowR next) v (n', nx')) :
    cnt v n' + 2 * cnt v nx' = cnt v nowR + 2 * cnt v next ∧
      (nowR.length ≤ 2 → n'.length ≤ 1) ∧ (nowR ≠ [] → n' ≠ []) ∧
      n'.length + nx'.length ≤ nowR.length + next.length := by
  rcases nowR with _ | ⟨a, _ | ⟨b, rest⟩⟩
  · simp only [reduce2, sem_pure, Prod.mk.injEq] at h; obtain ⟨rfl, rfl⟩ := h; simp
  · simp only [reduce2, sem_pure, Prod.mk.injEq] at h; obtain ⟨rfl, rfl⟩ := h; simp
  · simp only [reduce2, sem_bind, sem_pure] at h
    obtain ⟨r, hr, ⟨x, y⟩, hp, heq⟩ := h
    have := sem_pair2 hp; subst this
    obtain ⟨x', y', s, cc, hin, hout, hval⟩ := hb _ _ _ hr
    cases hin; cases hout; cases heq
    refine ⟨?_, ?_, fun _ => by simp, ?_⟩
    · simp only [cnt_cons, cnt_append, cnt_nil]; omega
    · intro hl; simp only [List.length_cons] at hl ⊢; omega
    · simp only [List.length_cons, List.length_append, List.length_nil]; omega

theorem sem_firstOfRev {n : List Label} {v} {r : Label} (h : Sem (firstOfRev n) v r) : n.getLast? = some r := by
  unfold firstOfRev at h
  split at h
  · rename_i x hx; rw [sem_pure] at h; subst h; exact hx
  · exact absurd h sem_fail

theorem single_of_getLast {n : List Label} {r : Label} (h : n.getLast? = some r) (hl : n.length ≤ 1) : n = [r] := by
  match n, hl with
  | [], _ => simp at h
  | [x], _ => simp at h; subst h; rfl

/-- **the bit counters of `add_sum_n_bits_easy` / `_add_sum_n_bits_aig`**: the result, read
little-endian, is the number of true input bits -/
theorem sem_levelsSimple {blk3 blk2} (h3 : Blk3Spec blk3) (h2 : Blk2Spec blk2) {v : Label → Bool} :
    ∀ (fuel : Nat) (nowR res out : List Label), Sem (levelsSimple blk3 blk2 fuel nowR res) v out →
      valLE v out = valLE v res + 2 ^ res.length * cnt v nowR := by
  intro fuel
  induction fuel with
  | zero => intro nowR res out h; unfold levelsSimple at h; exact absurd h sem_fail
  | succ fuel ih =>
    intro nowR res out h
    unfold levelsSimple at h
    split at h
    · rename_i he
      rw [sem_pure] at h; subst h
      have : nowR = [] := by simpa using he
      subst this; simp [cnt_nil]
    · rename_i he
      have hne : nowR ≠ [] := by intro e; subst e; simp at he
      simp only [sem_bind] at h
      obtain ⟨⟨n1, nx1⟩, hr3, ⟨n2, nx2⟩, hr2, r, hf, hrec⟩ := h
      obtain ⟨a1, a2, a3, _⟩ := sem_reduce3 h3 _ _ _ _ _ hr3
      obtain ⟨b1, b2, b3, _⟩ := sem_reduce2 h2 hr2
      have hn2 : n2 = [r] := single_of_getLast (sem_firstOfRev hf) (b2 (a2 (by omega)))
      subst hn2
      rw [ih _ _ _ hrec, valLE_append, cnt_reverse]
      simp only [cnt_cons, cnt_nil, valLE, List.length_append, List.length_cons, List.length_nil, Nat.pow_succ] at *
      have : cnt v nowR = bv v r + 2 * cnt v nx2 := by omega
      rw [this]
      generalize 2 ^ res.length = P
      generalize valLE v res = A
      generalize bv v r = B
      generalize cnt v nx2 = C
      rw [Nat.mul_assoc, Nat.mul_add, Nat.mul_add, Nat.mul_zero]
      omega

/-! ## the XAIG bit counter (`_add_sum_n_bits`): MDFA blocks over `(x, x ⊕ y)` pairs -/

def pcnt (v : Label → Bool) (ps : List (Label × Label)) : Nat := (ps.map (pbv v)).sum
theorem pcnt_nil (v) : pcnt v [] = 0 := rfl
theorem pcnt_cons (v p r) : pcnt v (p :: r) = pbv v p + pcnt v r := by simp [pcnt]
theorem pcnt_append (v a b) : pcnt v (a ++ b) = pcnt v a + pcnt v b := by simp [pcnt]
theorem pcnt_reverse (v a) : pcnt v a.reverse = pcnt v a := by
  induction a with
  | nil => rfl
  | cons x r ih => simp [pcnt_append, pcnt_cons, ih, pcnt_nil, Nat.add_comm]

theorem sem_pairUp {v : Label → Bool} : ∀ (fuel : Nat) (nowR : List Label) (pairsR : List (Label × Label))
    (s' : List Label) (p' : List (Label × Label)), Sem (pairUp fuel nowR pairsR) v (s', p') →
      cnt v s' + pcnt v p' = cnt v nowR + pcnt v pairsR ∧ (nowR.length ≤ 2 * fuel + 1 → s'.length ≤ 1) ∧
      (nowR ≠ [] ∨ pairsR ≠ [] → s' ≠ [] ∨ p' ≠ []) ∧
      s'.length + 2 * p'.length ≤ nowR.length + 2 * pairsR.length := by
  intro fuel
  induction fuel with
  | zero =>
    intro nowR pairsR s' p' h
    unfold pairUp at h
    rw [sem_pure] at h; cases h
    exact ⟨rfl, fun h => by simpa using h, fun h => h, Nat.le_refl _⟩
  | succ fuel ih =>
    intro nowR pairsR s' p' h
    rcases nowR with _ | ⟨a, _ | ⟨b, rest⟩⟩
    · simp only [pairUp, sem_pure, Prod.mk.injEq] at h; obtain ⟨rfl, rfl⟩ := h; simp
    · simp only [pairUp, sem_pure, Prod.mk.injEq] at h; obtain ⟨rfl, rfl⟩ := h; simp
    · simp only [pairUp, sem_bind] at h
      obtain ⟨xy, hxy, hrec⟩ := h
      obtain ⟨i1, i2, i3, i4⟩ := ih _ _ _ _ hrec
      refine ⟨?_, ?_, fun _ => i3 (Or.inr (by simp)), ?_⟩
      · rw [i1]; simp only [cnt_cons, pcnt_cons, pbv, bv, sem_emitTT hxy]
        cases v a <;> cases v b <;> simp [ttApply, t0110] <;> omega
      · intro hl; apply i2; simp only [List.length_cons] at hl ⊢; omega
      · simp only [List.length_cons] at i4 ⊢; omega

theorem sem_mdfaLoop {v : Label → Bool} : ∀ (fuel : Nat) (soloR : List Label) (pairsR nextP : List (Label × Label))
    (s' : List Label) (p' np' : List (Label × Label)), Sem (mdfaLoop fuel soloR pairsR nextP) v (s', p', np') →
      cnt v s' + pcnt v p' + 2 * pcnt v np' = cnt v soloR + pcnt v pairsR + 2 * pcnt v nextP ∧
      (pairsR.length ≤ 2 * fuel + 1 → p'.length ≤ 1) ∧
      (soloR ≠ [] ∨ pairsR ≠ [] → s' ≠ [] ∨ p' ≠ []) ∧
      s'.length + 2 * p'.length + 2 * np'.length ≤ soloR.length + 2 * pairsR.length + 2 * nextP.length := by
  intro fuel
  induction fuel with
  | zero =>
    intro soloR pairsR nextP s' p' np' h
    unfold mdfaLoop at h
    rw [sem_pure] at h; cases h
    exact ⟨rfl, fun h => by simpa using h, fun h => h, Nat.le_refl _⟩
  | succ fuel ih =>
    intro soloR pairsR nextP s' p' np' h
    rcases pairsR with _ | ⟨p1, _ | ⟨p2, prest⟩⟩
    · simp only [mdfaLoop, sem_pure, Prod.mk.injEq] at h; obtain ⟨rfl, rfl, rfl⟩ := h; simp
    · simp only [mdfaLoop, sem_pure, Prod.mk.injEq] at h; obtain ⟨rfl, rfl, rfl⟩ := h; simp
    · rcases soloR with _ | ⟨s, srest⟩
      · simp only [mdfaLoop, sem_bind] at h
        obtain ⟨r, hr, ⟨z, x1, x1y1⟩, ht, hrec⟩ := h
        have := sem_triple3 ht; subst this
        obtain ⟨a1, a2, a3, a4, z', a, ab, hin, hout, hval⟩ := sem_addSimplifiedMdfa hr
        cases hin; cases hout
        obtain ⟨i1, i2, i3, i4⟩ := ih _ _ _ _ _ _ hrec
        refine ⟨?_, ?_, fun _ => i3 (Or.inl (by simp)), ?_⟩
        · rw [i1]; simp only [cnt_cons, cnt_nil, pcnt_cons, pcnt_append, pcnt_nil, Prod.eta] at *; omega
        · intro hl; apply i2; simp only [List.length_cons] at hl ⊢; omega
        · simp only [List.length_cons, List.length_append, List.length_nil] at i4 ⊢; omega
      · simp only [mdfaLoop, sem_bind] at h
        obtain ⟨r, hr, ⟨z, x1, x1y1⟩, ht, hrec⟩ := h
        have := sem_triple3 ht; subst this
        obtain ⟨a0, a1, a2, a3, a4, z', a, ab, hin, hout, hval⟩ := sem_addMdfa hr
        cases hin; cases hout
        obtain ⟨i1, i2, i3, i4⟩ := ih _ _ _ _ _ _ hrec
        refine ⟨?_, ?_, fun _ => i3 (Or.inl (by simp)), ?_⟩
        · rw [i1]; simp only [cnt_cons, cnt_nil, pcnt_cons, pcnt_append, pcnt_nil, Prod.eta] at *; omega
        · intro hl; apply i2; simp only [List.length_cons] at hl ⊢; omega
        · simp only [List.length_cons, List.length_append, List.length_nil] at i4 ⊢; omega

theorem sem_lastPair {v : Label → Bool} {soloR : List Label} {pairsR : List (Label × Label)} {nextS s' ns' : List Label}
    (h : Sem (lastPair soloR pairsR nextS) v (s', ns')) (hl : pairsR.length ≤ 1) :
    cnt v s' + 2 * cnt v ns' = cnt v soloR + pcnt v pairsR + 2 * cnt v nextS ∧
    (soloR ≠ [] ∨ pairsR ≠ [] → s' ≠ []) ∧
    s'.length + ns'.length ≤ soloR.length + 2 * pairsR.length + nextS.length := by
  rcases pairsR with _ | ⟨p, _ | ⟨p2, prest⟩⟩
  · simp only [lastPair, sem_pure, Prod.mk.injEq] at h; obtain ⟨rfl, rfl⟩ := h
    exact ⟨by simp [pcnt_nil], fun h => by simpa using h, by simp⟩
  · rcases soloR with _ | ⟨s, srest⟩
    · simp only [lastPair, sem_bind, sem_pure, Prod.mk.injEq] at h
      obtain ⟨cy, hcy, rfl, rfl⟩ := h
      refine ⟨?_, fun _ => by simp, by simp; omega⟩
      simp only [cnt_cons, cnt_nil, cnt_append, pcnt_cons, pcnt_nil, pbv, bv, sem_emitTT hcy]
      cases v p.1 <;> cases v p.2 <;> simp [ttApply, t0010] <;> omega
    · simp only [lastPair, sem_bind, sem_pure, Prod.mk.injEq] at h
      obtain ⟨r, hr, ⟨x, y⟩, hp, rfl, rfl⟩ := h
      have := sem_pair2 hp; subst this
      obtain ⟨x1, x2, x23, w0, w1, hin, hout, hval⟩ := sem_addStockmeyer hr
      cases hin; cases hout
      refine ⟨?_, fun _ => by simp, by simp; omega⟩
      simp only [cnt_cons, cnt_nil, cnt_append, pcnt_cons, pcnt_nil, pbv] at *; omega
  · simp at hl

theorem sem_xaigLevel {v : Label → Bool} {soloR : List Label} {pairsR : List (Label × Label)} {r : Label}
    {nextS : List Label} {nextP : List (Label × Label)}
    (h : Sem (xaigLevel soloR pairsR) v (r, nextS, nextP)) (hne : soloR ≠ [] ∨ pairsR ≠ []) :
    bv v r + 2 * (cnt v nextS + pcnt v nextP) = cnt v soloR + pcnt v pairsR ∧
    1 + nextS.length + 2 * nextP.length ≤ soloR.length + 2 * pairsR.length := by
  simp only [xaigLevel, sem_bind, sem_pure, Prod.mk.injEq] at h
  obtain ⟨⟨s1, p1, nP⟩, hm, ⟨s2, nS0⟩, hl, ⟨s3, nS1⟩, h3, ⟨s4, nS2⟩, h2, r', hf, e1, e2, e3⟩ := h
  subst e1 e2 e3
  obtain ⟨m1, m2, m3, m4⟩ := sem_mdfaLoop _ _ _ _ _ _ _ hm
  have hp1 : p1.length ≤ 1 := m2 (by omega)
  obtain ⟨l1, l2, l3⟩ := sem_lastPair hl hp1
  have hs2 : s2 ≠ [] := l2 (m3 hne)
  obtain ⟨a1, a2, a3, a4⟩ := sem_reduce3 blk3_sum3 _ _ _ _ _ h3
  obtain ⟨b1, b2, b3, b4⟩ := sem_reduce2 blk2_sum2 h2
  have hn : s4 = [r] := single_of_getLast (sem_firstOfRev hf) (b2 (a2 (by omega)))
  subst hn
  simp only [cnt_cons, cnt_nil, pcnt_nil, List.length_cons, List.length_nil] at *
  omega

theorem sem_xaigLevels {v : Label → Bool} : ∀ (fuel : Nat) (soloR : List Label) (pairsR : List (Label × Label))
    (res out : List Label), Sem (xaigLevels fuel soloR pairsR res) v out →
      valLE v out = valLE v res + 2 ^ res.length * (cnt v soloR + pcnt v pairsR) := by
  intro fuel
  induction fuel with
  | zero => intro soloR pairsR res out h; unfold xaigLevels at h; exact absurd h sem_fail
  | succ fuel ih =>
    intro soloR pairsR res out h
    unfold xaigLevels at h
    split at h
    · rename_i he
      rw [sem_pure] at h; subst h
      simp only [Bool.and_eq_true, List.isEmpty_iff] at he
      obtain ⟨rfl, rfl⟩ := he
      simp [cnt_nil, pcnt_nil]
    · rename_i he
      have hne : soloR ≠ [] ∨ pairsR ≠ [] := by
        by_cases h1 : soloR = []
        · right; intro h2; subst h1; subst h2; simp at he
        · exact Or.inl h1
      simp only [sem_bind] at h
      obtain ⟨⟨r, nS, nP⟩, hlev, hrec⟩ := h
      have hv := (sem_xaigLevel hlev hne).1
      rw [ih _ _ _ _ hrec, valLE_append, cnt_reverse, pcnt_reverse, ← hv]
      simp only [valLE, List.length_append, List.length_cons, List.length_nil, Nat.pow_succ]
      generalize 2 ^ res.length = P
      generalize valLE v res = A
      generalize bv v r = B
      generalize cnt v nS + pcnt v nP = C
      rw [Nat.mul_assoc, Nat.mul_add, Nat.mul_add, Nat.mul_zero]
      omega

/-- **`_add_sum_n_bits`** (XAIG, ≤ 4.5n gates): the result is the number of true input bits -/
theorem sem_addSumNBitsXaig {v : Label → Bool} {ins out : List Label} (h : Sem (addSumNBitsXaig ins) v out) :
    valLE v out = cnt v ins := by
  simp only [addSumNBitsXaig, sem_bind] at h
  obtain ⟨⟨s, p⟩, hp, hl⟩ := h
  obtain ⟨e, _, _, _⟩ := sem_pairUp _ _ _ _ _ hp
  rw [sem_xaigLevels _ _ _ _ _ hl, e, cnt_reverse]
  simp [valLE, pcnt_nil]

theorem sem_addSumNBitsAig {v : Label → Bool} {ins out : List Label} (h : Sem (addSumNBitsAig ins) v out) :
    valLE v out = cnt v ins := by
  rw [addSumNBitsAig] at h
  rw [sem_levelsSimple blk3_sum3Aig blk2_sum2Aig _ _ _ _ h, cnt_reverse]
  simp [valLE]

theorem revIf_revIf (l : List Label) (be : Bool) :
    revIf (revIf l be) be = l := by
  cases be <;> simp [revIf]

/-- **`add_sum_n_bits`** for every basis spelling and both endiannesses: read in the requested
endianness, the returned bits are the number of true input bits -/
theorem sem_addSumNBits {v : Label → Bool} {ins out : List Label} {basis : BasisArg} {be : Bool}
    (h : Sem (addSumNBits ins basis be) v out) : valLE v (revIf out be) = cnt v ins := by
  unfold addSumNBits at h
  split at h
  · exact absurd h sem_fail
  · rename_i b _
    simp only [sem_bind, sem_pure] at h
    obtain ⟨r, hr, rfl⟩ := h
    rw [revIf_revIf]
    have : valLE v r = cnt v (revIf ins be) := by
      cases b
      · exact sem_addSumNBitsXaig hr
      · exact sem_addSumNBitsAig hr
    rw [this]
    cases be <;> simp [revIf, cnt_reverse]

theorem sem_addSumNBitsEasy {v : Label → Bool} {ins out : List Label} {be : Bool}
    (h : Sem (addSumNBitsEasy ins be) v out) : valLE v (revIf out be) = cnt v ins := by
  simp only [addSumNBitsEasy, sem_bind, sem_pure] at h
  obtain ⟨r, hr, rfl⟩ := h
  rw [revIf_revIf, sem_levelsSimple blk3_sum3 blk2_sum2 _ _ _ _ hr, cnt_reverse]
  cases be <;> simp [revIf, cnt_reverse, valLE]

/-! ## ripple adders -/

theorem sem_sumPair {r : List Label} {v} {x y : Label} (h : Sem (sumPair r) v (x, y)) : r = [x, y] := by
  unfold sumPair at h
  split at h
  · rw [sem_pure] at h; cases h; rfl
  · exact absurd h sem_fail

theorem pow_succ_mul (n c : Nat) : 2 ^ (n + 1) * c = 2 * (2 ^ n * c) := by
  rw [Nat.pow_succ]; ac_rfl

theorem sem_sumChain {v : Label → Bool} : ∀ (xs ys outs : List Label) (carry : Label) (outs' : List Label) (c' : Label),
    Sem (sumChain xs ys outs carry) v (outs', c') → ys.length ≤ xs.length →
      ∃ ss, outs' = outs ++ ss ∧
        valLE v ss + 2 ^ ss.length * bv v c' = bv v carry + valLE v xs + valLE v ys := by
  intro xs
  induction xs with
  | nil =>
    intro ys outs carry outs' c' h hl
    have : ys = [] := by simpa using hl
    subst this
    simp only [sumChain, sem_pure, Prod.mk.injEq] at h
    obtain ⟨rfl, rfl⟩ := h
    exact ⟨[], by simp, by simp [valLE]⟩
  | cons x xs ih =>
    intro ys outs carry outs' c' h hl
    simp only [sumChain, sem_bind] at h
    obtain ⟨r, hr, ⟨s, c⟩, hp, hrec⟩ := h
    have := sem_sumPair hp; subst this
    have hv := sem_addSumNBits hr
    simp only [revIf, Bool.false_eq_true, if_false, valLE] at hv
    have hl' : ys.tail.length ≤ xs.length := by
      cases ys with
      | nil => simp
      | cons y yr => simpa using hl
    obtain ⟨ss, hss, hval⟩ := ih _ _ _ _ _ hrec hl'
    refine ⟨s :: ss, by rw [hss]; simp, ?_⟩
    simp only [valLE, List.length_cons, pow_succ_mul]
    cases ys with
    | nil =>
      simp only [cnt_cons, cnt_nil, List.tail_nil, valLE] at hv hval ⊢
      omega
    | cons y yr =>
      simp only [cnt_cons, cnt_nil, List.tail_cons, valLE] at hv hval ⊢
      omega

theorem sem_sumTwoCore {v : Label → Bool} {la lb out : List Label} (h : Sem (sumTwoCore la lb) v out)
    (hl : lb.length ≤ la.length) : valLE v out = valLE v la + valLE v lb := by
  unfold sumTwoCore at h
  split at h
  · rename_i x xs y ys
    simp only [sem_bind, sem_pure] at h
    obtain ⟨r, hr, ⟨s0, c0⟩, hp, ⟨outs, carry⟩, hc, rfl⟩ := h
    have := sem_sumPair hp; subst this
    have hv := sem_addSumNBits hr
    simp only [revIf, Bool.false_eq_true, if_false, valLE, cnt_cons, cnt_nil] at hv
    obtain ⟨ss, hss, hval⟩ := sem_sumChain _ _ _ _ _ _ hc (by simpa using hl)
    subst hss
    simp only [List.cons_append, List.nil_append, valLE, valLE_append, Nat.mul_zero, Nat.add_zero] at hval ⊢
    omega
  · exact absurd h sem_fail

/-- **`add_sum_two_numbers`**: read in the requested endianness, the result is `a + b` -/
theorem sem_addSumTwoNumbers {v : Label → Bool} {a b out : List Label} {be : Bool}
    (h : Sem (addSumTwoNumbers a b be) v out) :
    valLE v (revIf out be) = valLE v (revIf a be) + valLE v (revIf b be) := by
  unfold addSumTwoNumbers at h
  simp only [sem_bind, sem_pure] at h
  obtain ⟨r, hr, rfl⟩ := h
  rw [revIf_revIf]
  split at hr
  · rename_i hlt
    rw [sem_sumTwoCore hr (Nat.le_of_lt hlt), Nat.add_comm]
  · rename_i hlt
    exact sem_sumTwoCore hr (Nat.le_of_not_lt hlt)

theorem valLE_replicate_false {v : Label → Bool} {z : Label} (hz : v z = false) (n : Nat) :
    valLE v (List.replicate n z) = 0 := by
  induction n with
  | zero => rfl
  | succ n ih => simp [List.replicate_succ, valLE, ih, bv, hz]

/-- **`add_sum_two_numbers_with_shift`** for every shift: the result is `a + b·2^shift` -/
theorem sem_addSumTwoNumbersWithShift {v : Label → Bool} {a b out : List Label} {be : Bool} {shift : Nat}
    (h : Sem (addSumTwoNumbersWithShift shift a b be) v out) :
    valLE v (revIf out be) = valLE v (revIf a be) + 2 ^ shift * valLE v (revIf b be) := by
  unfold addSumTwoNumbersWithShift at h
  simp only [sem_bind, sem_pure] at h
  split at h
  · rename_i hge
    split at h
    · rename_i hne
      split at h
      · rename_i x xs hx
        simp only [sem_bind, sem_pure] at h
        obtain ⟨zero, hz, rfl⟩ := h
        have hzv : v zero = false := by
          rw [sem_emitTT hz]; cases v x <;> rfl
        rw [revIf_revIf, valLE_append, valLE_append, valLE_replicate_false hzv]
        simp only [List.length_append, List.length_replicate]
        have : (revIf a be).length + (shift - (revIf a be).length) = shift := by omega
        rw [this]; simp
      · exact absurd h sem_fail
    · rename_i heq
      rw [sem_pure] at h; subst h
      have : shift = (revIf a be).length := by simpa using heq
      rw [revIf_revIf, valLE_append, this]
  · rename_i hlt
    simp only [sem_bind, sem_pure] at h
    obtain ⟨res, hr, rfl⟩ := h
    have hv := sem_addSumTwoNumbers hr
    simp only [revIf, Bool.false_eq_true, if_false] at hv
    rw [revIf_revIf, valLE_append, hv]
    have hlen : (List.take shift (revIf a be)).length = shift := by
      rw [List.length_take]; omega
    rw [hlen]
    conv => rhs; rw [← List.take_append_drop shift (revIf a be), valLE_append, hlen]
    simp only [revIf, Bool.false_eq_true, if_false]
    rw [Nat.mul_add]; omega

/-- running a program on a host: every valuation of the host extends to one of the result that
agrees on the host and satisfies the program's gate equations -/
theorem run_total {α} {p : Prog α} {st st' : GSt} {a : α} (h : p.run st = .ok (a, st')) (hw : WFS st.c)
    {b v : Label → Bool} (hv : IsValB st.c b v) :
    ∃ v', IsValB st'.c b v' ∧ (∀ l ∈ st.c.labels, v' l = v l) ∧ Sem p v' a := by
  obtain ⟨v', hv', hag⟩ := (run_frame p h hw).ext b v hv
  exact ⟨v', hv', hag, run_sound p h b v' hv'⟩

theorem cnt_congr {v v' : Label → Bool} {ls : List Label} (h : ∀ l ∈ ls, v' l = v l) : cnt v' ls = cnt v ls := by
  unfold cnt; congr 1; apply List.map_congr_left; intro l hl; simp [bv, h l hl]

theorem valLE_congr {v v' : Label → Bool} {ls : List Label} (h : ∀ l ∈ ls, v' l = v l) : valLE v' ls = valLE v ls := by
  induction ls with
  | nil => rfl
  | cons x r ih =>
    simp only [valLE, bv, h x (by simp)]
    rw [ih (fun l hl => h l (by simp [hl]))]

theorem mem_revIf {l : List Label} {be : Bool} {x : Label} : x ∈ revIf l be ↔ x ∈ l := by
  cases be <;> simp [revIf]


end Cirbo
