import Cirbo.Proofs.BitIO
/-! # The binary dictionary writer/reader are mutual inverses; truncated or trailing data is
rejected (C16) -/
namespace Cirbo

def beDigits (k len : Nat) : List Nat := (List.range len).reverse.map (fun i => (k / 256 ^ i) % 256)

theorem beDigits_succ (k len : Nat) :
    beDigits k (len + 1) = ((k / 256 ^ len) % 256) :: beDigits k len := by
  simp [beDigits, List.range_succ]

theorem foldl_beDigits (k len acc : Nat) :
    (beDigits k len).foldl (fun acc b => acc * 256 + b) acc = acc * 256 ^ len + k % 256 ^ len := by
  induction len generalizing acc with
  | zero => simp [beDigits, Nat.mod_one]
  | succ len ih =>
    rw [beDigits_succ, List.foldl_cons, ih, Nat.mod_pow_succ, Nat.pow_succ]
    rw [Nat.add_mul]
    have : acc * 256 * 256 ^ len = acc * (256 ^ len * 256) := by
      rw [Nat.mul_assoc, Nat.mul_comm 256]
    rw [this, Nat.mul_comm (k / 256 ^ len % 256)]
    omega

theorem beBytes_spec {k len : Nat} {bs : List Nat} (h : beBytes k len = some bs) :
    ofBeBytes bs = k ∧ bs.length = len := by
  unfold beBytes at h
  split at h
  · rename_i hk
    simp only [Option.some.injEq] at h
    subst h
    refine ⟨?_, by simp⟩
    have := foldl_beDigits k len 0
    simp only [Nat.zero_mul, Nat.zero_add, Nat.mod_eq_of_lt hk] at this
    exact this
  · cases h

theorem takeExact_append (a b : List Nat) : takeExact (a ++ b) a.length = some (a, b) := by
  simp [takeExact]

theorem takeExact_append' (a b : List Nat) (n : Nat) (h : a.length = n) :
    takeExact (a ++ b) n = some (a, b) := by subst h; exact takeExact_append a b

theorem readEntries_written : ∀ (d : BDict) (body : List (List Nat)) (rest : List Nat),
    d.mapM entryBytes = some body → readEntries d.length (body.flatten ++ rest) = some (d, rest) := by
  intro d
  induction d with
  | nil => intro body rest h; simp at h; subst h; rfl
  | cons kv r ih =>
    intro body rest h
    rw [List.mapM_cons] at h
    cases he : entryBytes kv with
    | none => simp [he] at h
    | some e =>
      cases hr : r.mapM entryBytes with
      | none => simp [he, hr] at h
      | some body' =>
        simp [he, hr] at h
        subst h
        unfold entryBytes at he
        cases hkl : beBytes kv.1.length 2 with
        | none => simp [hkl] at he
        | some kl =>
          cases hvl : beBytes kv.2.length 2 with
          | none => simp [hkl, hvl] at he
          | some vl =>
            simp only [hkl, hvl, Option.some.injEq] at he
            subst he
            obtain ⟨k1, k2⟩ := beBytes_spec hkl
            obtain ⟨v1, v2⟩ := beBytes_spec hvl
            simp only [List.length_cons, readEntries, List.flatten_cons, List.append_assoc]
            rw [takeExact_append' kl _ 2 k2]
            simp only [Option.bind_eq_bind, Option.bind_some, k1]
            rw [takeExact_append' kv.1 _ _ rfl]
            simp only [Option.bind_some]
            rw [takeExact_append' vl _ 2 v2]
            simp only [Option.bind_some, v1]
            rw [takeExact_append' kv.2 _ _ rfl]
            simp only [Option.bind_some]
            have := ih body' rest hr
            rw [this]
            rfl

def keysNodup (d : BDict) : Prop := (d.map (·.1)).Nodup

theorem dictOfEntries_nodup (d : BDict) (h : keysNodup d) : dictOfEntries d = d := by
  unfold dictOfEntries
  suffices ∀ (acc rest : BDict), keysNodup (acc ++ rest) →
      rest.foldl (fun acc kv => if acc.any (fun p => p.1 == kv.1)
        then acc.map (fun p => if p.1 == kv.1 then (p.1, kv.2) else p) else acc ++ [kv]) acc = acc ++ rest by
    simpa using this [] d (by simpa using h)
  intro acc rest
  induction rest generalizing acc with
  | nil => intro _; simp
  | cons kv r ih =>
    intro hnd
    have hnot : acc.any (fun p => p.1 == kv.1) = false := by
      rw [List.any_eq_false]
      intro p hp hpe
      simp only [beq_iff_eq] at hpe
      unfold keysNodup at hnd
      rw [List.map_append, List.nodup_append] at hnd
      exact hnd.2.2 p.1 (List.mem_map.mpr ⟨p, hp, rfl⟩) kv.1 (by simp) hpe
    simp only [List.foldl_cons, hnot, Bool.false_eq_true, if_false]
    have := ih (acc ++ [kv]) (by simpa using hnd)
    simpa using this

/-- **Dictionary round trip**: for every dictionary with distinct keys whose sizes fit the
length fields, reading what was written gives the dictionary back. -/
theorem readDict_writeDict (d : BDict) (h : keysNodup d) {bs : List Nat} (hw : writeDict d = some bs) :
    readDict bs = some d := by
  unfold writeDict at hw
  cases hh : beBytes d.length 8 with
  | none => simp [hh] at hw
  | some hdr =>
    cases hb : d.mapM entryBytes with
    | none => simp [hh, hb] at hw
    | some body =>
      simp only [hh, hb, Option.some.injEq] at hw
      subst hw
      obtain ⟨h1, h2⟩ := beBytes_spec hh
      unfold readDict
      rw [takeExact_append' hdr _ 8 h2]
      simp only [Option.bind_eq_bind, Option.bind_some, h1]
      have := readEntries_written d body [] hb
      simp only [List.append_nil] at this
      rw [this]
      simp [dictOfEntries_nodup d h]

/-- **Trailing data is rejected.** -/
theorem readDict_trailing (d : BDict) {bs : List Nat} (hw : writeDict d = some bs) (x : Nat) (t : List Nat) :
    readDict (bs ++ x :: t) = none := by
  unfold writeDict at hw
  cases hh : beBytes d.length 8 with
  | none => simp [hh] at hw
  | some hdr =>
    cases hb : d.mapM entryBytes with
    | none => simp [hh, hb] at hw
    | some body =>
      simp only [hh, hb, Option.some.injEq] at hw
      subst hw
      obtain ⟨h1, h2⟩ := beBytes_spec hh
      unfold readDict
      rw [List.append_assoc, takeExact_append' hdr _ 8 h2]
      simp only [Option.bind_eq_bind, Option.bind_some, h1]
      rw [readEntries_written d body (x :: t) hb]
      simp

theorem takeExact_mono {p s a r : List Nat} {n : Nat} (h : takeExact p n = some (a, r)) :
    takeExact (p ++ s) n = some (a, r ++ s) := by
  unfold takeExact at h ⊢
  split at h
  · cases h
  · rename_i hl
    simp only [Option.some.injEq, Prod.mk.injEq] at h
    obtain ⟨rfl, rfl⟩ := h
    have hl' : ¬ (p ++ s).length < n := by simp; omega
    have hn : n ≤ p.length := by omega
    simp only [hl', if_false, Option.some.injEq, Prod.mk.injEq]
    exact ⟨List.take_append_of_le_length hn, List.drop_append_of_le_length hn⟩

theorem readEntries_mono : ∀ (n : Nat) (p s : List Nat) (es : BDict) (r : List Nat),
    readEntries n p = some (es, r) → readEntries n (p ++ s) = some (es, r ++ s) := by
  intro n
  induction n with
  | zero => intro p s es r h; simp [readEntries] at h ⊢; obtain ⟨rfl, rfl⟩ := h; exact ⟨rfl, rfl⟩
  | succ n ih =>
    intro p s es r h
    simp only [readEntries, Option.bind_eq_bind] at h ⊢
    cases h1 : takeExact p 2 with
    | none => simp [h1] at h
    | some x1 =>
      obtain ⟨kl, r1⟩ := x1
      rw [takeExact_mono h1]
      simp only [h1, Option.bind_some] at h ⊢
      cases h2 : takeExact r1 (ofBeBytes kl) with
      | none => simp [h2] at h
      | some x2 =>
        obtain ⟨k, r2⟩ := x2
        rw [takeExact_mono h2]
        simp only [h2, Option.bind_some] at h ⊢
        cases h3 : takeExact r2 2 with
        | none => simp [h3] at h
        | some x3 =>
          obtain ⟨vl, r3⟩ := x3
          rw [takeExact_mono h3]
          simp only [h3, Option.bind_some] at h ⊢
          cases h4 : takeExact r3 (ofBeBytes vl) with
          | none => simp [h4] at h
          | some x4 =>
            obtain ⟨v, r4⟩ := x4
            rw [takeExact_mono h4]
            simp only [h4, Option.bind_some] at h ⊢
            cases h5 : readEntries n r4 with
            | none => simp [h5] at h
            | some x5 =>
              obtain ⟨rest, r5⟩ := x5
              rw [ih r4 s rest r5 h5]
              simp only [h5, Option.bind_some, Option.pure_def, Option.some.injEq, Prod.mk.injEq] at h ⊢
              exact ⟨h.1, by rw [h.2]⟩

/-- **Truncated data is rejected**: no strict prefix of a written dictionary can be read. -/
theorem readDict_truncated (d : BDict) {bs : List Nat} (hw : writeDict d = some bs) (m : Nat)
    (hm : m < bs.length) : readDict (bs.take m) = none := by
  unfold writeDict at hw
  cases hh : beBytes d.length 8 with
  | none => simp [hh] at hw
  | some hdr =>
    cases hb : d.mapM entryBytes with
    | none => simp [hh, hb] at hw
    | some body =>
      simp only [hh, hb, Option.some.injEq] at hw
      subst hw
      obtain ⟨h1, h2⟩ := beBytes_spec hh
      have hfull := readEntries_written d body [] hb
      simp only [List.append_nil] at hfull
      unfold readDict
      by_cases hm8 : m < 8
      · have : takeExact ((hdr ++ body.flatten).take m) 8 = none := by
          unfold takeExact; simp [List.length_take]; omega
        simp [this]
      · have hm8' : 8 ≤ m := by omega
        have hsplit : (hdr ++ body.flatten).take m = hdr ++ body.flatten.take (m - 8) := by
          rw [List.take_append, h2]
          have : hdr.take m = hdr := List.take_of_length_le (by omega)
          rw [this]
        rw [hsplit, takeExact_append' hdr _ 8 h2]
        simp only [Option.bind_eq_bind, Option.bind_some, h1]
        cases hr : readEntries d.length (body.flatten.take (m - 8)) with
        | none => rfl
        | some x =>
          obtain ⟨es, rest⟩ := x
          simp only [Option.bind_some]
          have hmono := readEntries_mono _ _ (body.flatten.drop (m - 8)) _ _ hr
          rw [List.take_append_drop, hfull] at hmono
          simp only [Option.some.injEq, Prod.mk.injEq] at hmono
          have hdrop : body.flatten.drop (m - 8) ≠ [] := by
            intro e
            have := congrArg List.length e
            simp [List.length_drop] at this hm
            omega
          have : rest ++ body.flatten.drop (m - 8) = [] := hmono.2.symm
          have := List.append_eq_nil_iff.mp this
          exact absurd this.2 hdrop

end Cirbo
