import Cirbo.Proofs.Rewrite
/-!
# `remove_gate` keeps the C02 invariant
-/
namespace Cirbo
open GateType Circuit

theorem usersOf_removeUser (c : Circuit) (x u l : Label) :
    (c.removeUser x u).usersOf l = if l = x then (c.usersOf l).erase u else c.usersOf l := by
  rw [usersOf_eq, usersOf_eq]
  unfold removeUser
  cases h : Dict.get? c.users x with
  | none =>
    by_cases hl : l = x
    · subst hl; simp [h]
    · simp [hl]
  | some us =>
    simp only
    by_cases hc : us.contains u = true
    · simp only [hc, if_true, Dict.get?_set]
      by_cases hl : l = x
      · subst hl; simp [h]
      · simp [hl]
    · simp only [hc, Bool.false_eq_true, if_false]
      by_cases hl : l = x
      · subst hl
        simp only [h, Option.getD_some, if_true]
        have : u ∉ us := by simpa using hc
        rw [List.erase_of_not_mem this]
      · simp [hl]

/-- erase `u` `k` times -/
def eraseN (u : Label) : Nat → List Label → List Label
  | 0, l => l
  | k + 1, l => eraseN u k (l.erase u)

theorem usersOf_foldl_removeUser (ops : List Label) (c : Circuit) (u l : Label) :
    (ops.foldl (fun c o => c.removeUser o u) c).usersOf l = eraseN u (ops.count l) (c.usersOf l) := by
  induction ops generalizing c with
  | nil => simp [eraseN]
  | cons o r ih =>
    simp only [List.foldl_cons, ih, usersOf_removeUser, List.count_cons]
    by_cases h : l = o
    · subst h; simp [eraseN]
    · have : (o == l) = false := by simp [Ne.symm h]
      simp [h, this]

theorem count_eraseN (u x : Label) : ∀ (k : Nat) (l : List Label),
    (eraseN u k l).count x = if x = u then l.count x - k else l.count x := by
  intro k
  induction k with
  | zero => intro l; simp [eraseN]
  | succ k ih =>
    intro l
    simp only [eraseN, ih]
    by_cases h : x = u
    · subst h; simp [List.count_erase_self]; omega
    · simp [h, List.count_erase_of_ne h]

theorem mem_eraseN {u : Label} : ∀ (k : Nat) (l : List Label) (x : Label), x ∈ eraseN u k l → x ∈ l := by
  intro k
  induction k with
  | zero => intro l x h; exact h
  | succ k ih => intro l x h; exact List.mem_of_mem_erase (ih _ _ h)

theorem get?_erase {α} (d : Dict α) (k k' : Label) : (Dict.erase d k).get? k' = if k' = k then none else d.get? k' := by
  induction d with
  | nil => simp [Dict.erase, Dict.get?]
  | cons p r ih =>
    obtain ⟨a, b⟩ := p
    simp only [Dict.erase, List.filter] at ih ⊢
    by_cases hak : a = k
    · subst hak
      simp only [beq_self_eq_true, Bool.not_true]
      rw [ih]
      by_cases hk : k' = a
      · simp [hk]
      · simp [hk, Dict.get?]
    · have : (a == k) = false := by simp [hak]
      simp only [this, Bool.not_false, Dict.get?, ih]
      by_cases hk : k' = k
      · subst hk; simp [Ne.symm hak]
      · simp [hk]

/-- the state after removing a user-free gate `g` (label `l`) -/
theorem removed_wfs {c : Circuit} (hw : WFS c) {l : Label} {g : Gate} (hgm : g ∈ c.gates) (hgl : g.label = l)
    (hU : c.usersOf l = []) (c1 : Circuit) (a : c1.gates = c.gates) (b : c1.inputs = c.inputs)
    (d : c1.outputs = c.outputs) (e : c1.blocks = c.blocks)
    (hc1 : ∀ x, c1.usersOf x = eraseN l (g.ops.count x) (c.usersOf x)) (ins' : List Label)
    (hins : ins' = if g.ty = INPUT then c.inputs.erase l else c.inputs) :
    WFS { gates := c1.gates.filter (fun x => !(x.label == l)), inputs := ins',
          outputs := c1.outputs.filter (fun o => !(o == l)), users := Dict.erase c1.users l,
          blocks := c1.blocks.filter (fun b => !(b.gates.contains l || b.inputs.contains l || b.outputs.contains l)) } := by
    simp only [a, d, e]
    have hnouse : ∀ x ∈ c.gates, l ∉ x.ops := by
      intro x hx hm
      have h1 := hw.usersC l x hx
      rw [hU] at h1
      have h2 : 0 < x.ops.count l := List.count_pos_iff.mpr hm
      simp only [List.count_nil] at h1
      omega
    -- names for the pieces
    have hgates : ∀ y, y ∈ c.gates.filter (fun y => !(y.label == l)) ↔ y ∈ c.gates ∧ y.label ≠ l := by
      intro y; simp [List.mem_filter]
    have hlabels : ∀ x, x ∈ (c.gates.filter (fun y => !(y.label == l))).map (·.label) ↔ x ∈ c.labels ∧ x ≠ l := by
      intro x
      simp only [List.mem_map, hgates, labels]
      constructor
      · rintro ⟨y, ⟨hy, hne⟩, rfl⟩; exact ⟨⟨y, hy, rfl⟩, hne⟩
      · rintro ⟨⟨y, hy, rfl⟩, hne⟩; exact ⟨y, ⟨hy, hne⟩, rfl⟩
    -- users of every label afterwards
    have husers : ∀ x, (Dict.get? (Dict.erase c1.users l) x).getD [] =
        if x = l then [] else eraseN l (g.ops.count x) (c.usersOf x) := by
      intro x
      simp only [get?_erase]
      by_cases hx : x = l
      · simp [hx]
      · simp only [hx, if_false]
        rw [← usersOf_eq, hc1]
    -- the users index no longer mentions l
    have hcountl : ∀ x, (eraseN l (g.ops.count x) (c.usersOf x)).count l = 0 := by
      intro x
      rw [count_eraseN]; simp only [if_true]
      have := hw.usersC x g hgm
      rw [hgl] at this; omega
    refine ⟨?_, ?_, ?_, ?_, ?_, ?_, ?_, ?_, ?_, ?_⟩
    · -- nodup
      show ((c.gates.filter _).map (·.label)).Nodup
      have := hw.nodup
      unfold labels at this
      exact (List.Nodup.sublist (List.Sublist.map _ List.filter_sublist) this)
    · -- closed
      intro y hy o ho
      obtain ⟨hy1, hy2⟩ := (hgates y).mp hy
      show o ∈ ((c.gates.filter _).map (·.label))
      exact (hlabels o).mpr ⟨hw.closed y hy1 o ho, fun e => hnouse y hy1 (e ▸ ho)⟩
    · -- rank
      obtain ⟨r, hr⟩ := hw.rank
      refine ⟨r, fun y hy o ho => ?_⟩
      exact hr y ((hgates y).mp hy).1 o ho
    · -- inputs nodup
      show ins'.Nodup
      rw [hins]
      split
      · exact hw.inputsNodup.erase _
      · exact hw.inputsNodup
    · -- inputs = INPUT gates
      intro x
      show x ∈ ins' ↔ _
      rw [hins]
      constructor
      · intro hx
        have hx' : x ∈ c.inputs ∧ x ≠ l := by
          split at hx
          · rename_i hgi
            exact ⟨List.mem_of_mem_erase hx, fun e => by
              subst e; exact (List.Nodup.mem_erase_iff hw.inputsNodup).mp hx |>.1 rfl⟩
          · rename_i hgi
            refine ⟨hx, fun e => ?_⟩
            subst e
            obtain ⟨g', hg', hl', ht'⟩ := (hw.inputsOK x).mp hx
            have : g' = g := gate_unique hw.nodup hg' hgm (hl'.trans hgl.symm)
            subst this; exact hgi ht'
        obtain ⟨g', hg', hl', ht'⟩ := (hw.inputsOK x).mp hx'.1
        exact ⟨g', (hgates g').mpr ⟨hg', by rw [hl']; exact hx'.2⟩, hl', ht'⟩
      · rintro ⟨g', hg', hl', ht'⟩
        obtain ⟨h1, h2⟩ := (hgates g').mp hg'
        have hin : x ∈ c.inputs := (hw.inputsOK x).mpr ⟨g', h1, hl', ht'⟩
        split
        · exact (List.Nodup.mem_erase_iff hw.inputsNodup).mpr ⟨by rw [← hl']; exact h2, hin⟩
        · exact hin
    · -- outputs exist
      intro o ho
      obtain ⟨ho1, ho2⟩ := List.mem_filter.mp ho
      show o ∈ ((c.gates.filter _).map (·.label))
      exact (hlabels o).mpr ⟨hw.outputsOK o ho1, by simpa using ho2⟩
    · -- users are labels
      intro x s hs
      rw [usersOf_eq] at hs
      have hs' : s ∈ (if x = l then [] else eraseN l (g.ops.count x) (c.usersOf x)) := by
        rw [← husers x]; exact hs
      clear hs
      have hs := hs'
      all_goals (
        by_cases hx : x = l
        · simp [hx] at hs
        · simp only [hx, if_false] at hs
          show s ∈ ((c.gates.filter _).map (·.label))
          refine (hlabels s).mpr ⟨hw.usersL x s (mem_eraseN _ _ _ hs), fun es => ?_⟩
          subst es
          have := hcountl x
          exact absurd (List.count_pos_iff.mpr hs) (by omega))
    · -- users index = inverse operand multiset
      intro x y hy
      obtain ⟨hy1, hy2⟩ := (hgates y).mp hy
      rw [usersOf_eq]
      have hgoal : ∀ L : List Label, L = (if x = l then [] else eraseN l (g.ops.count x) (c.usersOf x)) →
          L.count y.label = y.ops.count x := by
        intro L hL; rw [hL]
        by_cases hx : x = l
        · subst hx
          simp only [if_true, List.count_nil]
          exact (List.count_eq_zero.mpr (hnouse y hy1)).symm
        · simp only [hx, if_false]
          rw [count_eraseN, if_neg hy2]
          exact hw.usersC x y hy1
      exact hgoal _ (husers x)
      all_goals (
        by_cases hx : x = l
        · subst hx
          simp only [if_true, List.count_nil]
          exact (List.count_eq_zero.mpr (hnouse y hy1)).symm
        · simp only [hx, if_false]
          rw [count_eraseN, if_neg hy2]
          exact hw.usersC x y hy1)
    · -- blocks
      intro bk hbk
      obtain ⟨hb1, hb2⟩ := List.mem_filter.mp hbk
      simp only [Bool.not_eq_true', Bool.or_eq_false_iff, List.contains_eq_mem, decide_eq_false_iff_not] at hb2
      obtain ⟨h1, h2⟩ := hw.blocksOK bk hb1
      constructor
      · intro x hx
        show x ∈ ((c.gates.filter _).map (·.label))
        exact (hlabels x).mpr ⟨h1 x hx, fun ex => hb2.1.1 (ex ▸ hx)⟩
      · intro x hx
        show x ∈ ((c.gates.filter _).map (·.label))
        exact (hlabels x).mpr ⟨h2 x hx, fun ex => hb2.1.2 (ex ▸ hx)⟩
    · -- INPUT gates have no operands
      intro y hy ht
      exact hw.inputOps y ((hgates y).mp hy).1 ht


/-- **`remove_gate`** (a gate without users) keeps every clause of the C02 invariant -/
theorem removeGate_wfs {c c' : Circuit} {l : Label} (hw : WFS c) (h : c.removeGate l = .ok c') : WFS c' := by
  unfold removeGate at h
  split at h
  · cases h
  · split at h
    · cases h
    · rename_i hex hus
      have hU : c.usersOf l = [] := by simpa using hus
      unfold rawRemoveGate at h
      cases hf : c.find? l with
      | none => simp [hf] at h
      | some g =>
        simp only [hf] at h
        obtain ⟨hgm, hgl⟩ := find_some_mem hf
        obtain ⟨a, b, d, e⟩ := foldl_removeUser_fields g.ops c l
        split at h
        · cases h
        · simp only [Except.ok.injEq] at h
          subst h
          by_cases hgi : g.ty = INPUT
          · simp only [hgi, if_true]
            exact removed_wfs hw hgm hgl hU _ a b d e (fun x => usersOf_foldl_removeUser _ _ _ _) _ (by simp [hgi, b])
          · simp only [hgi, if_false]
            exact removed_wfs hw hgm hgl hU _ a b d e (fun x => usersOf_foldl_removeUser _ _ _ _) _ (by simp [hgi, b])

/-! ### histories that also remove gates -/

inductive HOp
  | base (op : MOp)
  | removeGate (l : Label)

def HOp.valid : HOp → Prop
  | .base op => op.valid
  | .removeGate _ => True

def runHOp (c : Circuit) : HOp → R Circuit
  | .base op => runOp c op
  | .removeGate l => c.removeGate l

def runHOps : Circuit → List HOp → R Circuit
  | c, [] => .ok c
  | c, op :: r => match runHOp c op with
    | .error e => .error e
    | .ok c' => runHOps c' r

theorem runHOps_wfs : ∀ (ops : List HOp) {c c' : Circuit}, WFS c → (∀ op ∈ ops, op.valid) →
    runHOps c ops = .ok c' → WFS c' := by
  intro ops
  induction ops with
  | nil => intro c c' hw _ h; simp only [runHOps, Except.ok.injEq] at h; subst h; exact hw
  | cons op r ih =>
    intro c c' hw hv h
    simp only [runHOps] at h
    cases hs : runHOp c op with
    | error e => rw [hs] at h; cases h
    | ok c1 =>
      rw [hs] at h
      have hw1 : WFS c1 := by
        cases op with
        | base o => exact runOp_wfs hw (hv (.base o) (by simp)) hs
        | removeGate l => exact removeGate_wfs hw hs
      exact ih hw1 (fun o ho => hv o (by simp [ho])) h

end Cirbo
