import Cirbo.Proofs.Connect
/-!
# connect_circuit (left direction): the attached gates compute the attached circuit's function
-/
namespace Cirbo
open GateType Circuit

theorem mapLabels_error_sticky (m : Dict Label) : ∀ (xs : List Label) (e : String),
    xs.foldl (fun (acc : R (List Label)) l => match acc with
      | .error e => .error e
      | .ok r => match Dict.get? m l with
        | none => .error "Py:KeyError"
        | some x => .ok (r ++ [x])) (.error e) = .error e := by
  intro xs e; induction xs with
  | nil => rfl
  | cons a b ih => simpa using ih

/-- `mapLabels` looks every label up -/
theorem mapLabels_spec (m : Dict Label) : ∀ (ls r : List Label), mapLabels m ls = .ok r →
    All2 (fun l x => Dict.get? m l = some x) ls r := by
  intro ls
  unfold mapLabels
  suffices ∀ (ls : List Label) (acc r : List Label),
      ls.foldl (fun (acc : R (List Label)) l => match acc with
        | .error e => .error e
        | .ok r => match Dict.get? m l with
          | none => .error "Py:KeyError"
          | some x => .ok (r ++ [x])) (.ok acc) = .ok r → ∃ t, r = acc ++ t ∧ All2 (fun l x => Dict.get? m l = some x) ls t by
    intro r h
    obtain ⟨t, h1, h2⟩ := this ls [] r h
    simp only [List.nil_append] at h1; subst h1; exact h2
  intro ls
  induction ls with
  | nil => intro acc r h; simp at h; subst h; exact ⟨[], by simp, .nil⟩
  | cons l t ih =>
    intro acc r h
    simp only [List.foldl_cons] at h
    cases hg : Dict.get? m l with
    | none => simp only [hg] at h; rw [mapLabels_error_sticky] at h; cases h
    | some x =>
      simp only [hg] at h
      obtain ⟨t', h1, h2⟩ := ih (acc ++ [x]) r h
      exact ⟨x :: t', by rw [h1]; simp, .cons hg h2⟩

theorem all2_map_eq {α β γ} {R : α → β → Prop} {f : α → γ} {g : β → γ} (hR : ∀ a b, R a b → f a = g b) :
    ∀ {l1 : List α} {l2 : List β}, All2 R l1 l2 → l1.map f = l2.map g := by
  intro l1 l2 h
  induction h with
  | nil => rfl
  | cons h1 _ ih => simp [hR _ _ h1, ih]

theorem all2_mono {α β} {R S : α → β → Prop} : ∀ {l1 : List α} {l2 : List β}, All2 R l1 l2 →
    (∀ a ∈ l1, ∀ b, R a b → S a b) → All2 S l1 l2 := by
  intro l1 l2 h
  induction h with
  | nil => intro _; exact .nil
  | cons h1 _ ih => intro hm; exact .cons (hm _ (by simp) _ h1) (ih (fun a ha b => hm a (by simp [ha]) b))

/-- what the loop has established for the gates of `other` processed so far -/
structure CInv (other : Circuit) (mapping : Dict Label) (pre : String) (done : List Label) (st : ConnSt) : Prop where
  added : ∀ cur ∈ done, ∀ g, other.find? cur = some g → Dict.contains mapping cur = false →
    Dict.get? st.o2n cur = some (pre ++ cur) ∧
    ∃ ops', All2 (fun l x => Dict.get? st.o2n l = some x) g.ops ops' ∧ (⟨pre ++ cur, g.ty, ops'⟩ : Gate) ∈ st.c.gates
  mapped : ∀ l x, Dict.get? mapping l = some x → Dict.get? st.o2n l = some x

theorem connLoop_sem {other : Circuit} {mapping : Dict Label} {pre : String} :
    ∀ (rest done : List Label) (st0 st : ConnSt), (done ++ rest).Nodup →
      (∀ cur ∈ done ++ rest, ∀ g, other.find? cur = some g → ∀ o ∈ g.ops, ∀ p q, done ++ rest = p ++ cur :: q → o ∈ p) →
      CInv other mapping pre done st0 →
      rest.foldl (connStep other mapping pre false) (.ok st0) = .ok st →
      CInv other mapping pre (done ++ rest) st ∧ st.c.outputs = st0.c.outputs := by
  intro rest
  induction rest with
  | nil => intro done st0 st _ _ hi h; simp at h; subst h; exact ⟨by simpa using hi, rfl⟩
  | cons cur rest ih =>
    intro done st0 st hnd hto hi h
    simp only [List.foldl_cons] at h
    cases hs : connStep other mapping pre false (.ok st0) cur with
    | error e => rw [hs, foldl_connStep_error] at h; cases h
    | ok st1 =>
      rw [hs] at h
      have hcur : cur ∉ done := by
        intro hm
        have := List.nodup_append.mp hnd
        exact this.2.2 cur hm cur (by simp) rfl
      have key : CInv other mapping pre (done ++ [cur]) st1 ∧ st1.c.outputs = st0.c.outputs := by
        unfold connStep at hs
        simp only at hs
        cases hf : other.find? cur with
        | none => simp [hf] at hs
        | some g =>
          simp only [hf] at hs
          split at hs
          · rename_i hnm
            have hnm' : Dict.contains mapping cur = false := by simpa using hnm
            cases hm : mapLabels (Dict.set st0.o2n cur (pre ++ cur)) g.ops with
            | error e => simp [hm] at hs
            | ok ops =>
              simp only [hm] at hs
              cases ha : st0.c.addGate ⟨pre ++ cur, g.ty, ops⟩ with
              | error e => simp [ha] at hs
              | ok c1 =>
                simp only [ha, Except.ok.injEq] at hs
                subst hs
                obtain ⟨_, _, hg1, _, ho1, _⟩ := addGate_fields ha
                refine ⟨⟨?_, ?_⟩, ho1⟩
                · intro x hx gx hfx hnx
                  simp only [List.mem_append, List.mem_singleton] at hx
                  rcases hx with hx | rfl
                  · obtain ⟨e1, ops', e2, e3⟩ := hi.added x hx gx hfx hnx
                    have hxc : x ≠ cur := fun e => hcur (e ▸ hx)
                    refine ⟨by simp [Dict.get?_set, hxc, e1], ops', ?_, by rw [hg1]; simp [e3]⟩
                    apply all2_mono e2
                    intro o ho y hy
                    -- operands of an earlier gate are earlier themselves, hence not `cur`
                    have hoc : o ≠ cur := by
                      intro e; subst e
                      obtain ⟨p, q, hpq⟩ := List.append_of_mem hx
                      have := hto x (by simp [hx]) gx hfx o ho p (q ++ o :: rest) (by rw [hpq]; simp)
                      have hd : o ∈ done := by rw [hpq]; simp [this]
                      exact hcur hd
                    simp [Dict.get?_set, hoc, hy]
                  · rw [hf] at hfx; cases hfx
                    refine ⟨by simp [Dict.get?_set], ops, mapLabels_spec _ _ _ hm, by rw [hg1]; simp⟩
                · intro l x hl
                  have : l ≠ cur := by
                    intro e; subst e
                    simp [Dict.contains, hl] at hnm'
                  simp [Dict.get?_set, this, hi.mapped l x hl]
          · rename_i hnm
            simp only [Bool.false_eq_true, if_false, Except.ok.injEq] at hs
            subst hs
            refine ⟨⟨?_, hi.mapped⟩, rfl⟩
            intro x hx gx hfx hnx
            simp only [List.mem_append, List.mem_singleton] at hx
            rcases hx with hx | rfl
            · exact hi.added x hx gx hfx hnx
            · simp at hnm; rw [hnm] at hnx; cases hnx
      obtain ⟨k1, k2⟩ := key
      have := ih (done ++ [cur]) st1 st (by simpa using hnd) (by simpa using hto) k1 h
      simp only [List.append_assoc, List.singleton_append] at this
      exact ⟨this.1, this.2.trans k2⟩

theorem find_of_mem {c : Circuit} (hnd : c.labels.Nodup) {g : Gate} (hg : g ∈ c.gates) : c.find? g.label = some g := by
  unfold Circuit.find?
  cases hf : c.gates.find? (fun x => x.label == g.label) with
  | none =>
    have := List.find?_eq_none.mp hf g hg
    simp at this
  | some g' =>
    have hm := List.mem_of_find?_eq_some hf
    have hl : g'.label = g.label := by simpa using List.find?_some hf
    rw [gate_unique hnd hm hg hl]

theorem contains_zipFold : ∀ (ps : List (Label × Label)) (m : Dict Label) (l : Label),
    Dict.contains (ps.foldl (fun m p => Dict.set m p.1 p.2) m) l = true → Dict.contains m l = true ∨ l ∈ ps.map (·.1) := by
  intro ps
  induction ps with
  | nil => intro m l h; exact Or.inl h
  | cons p r ih =>
    intro m l h
    simp only [List.foldl_cons] at h
    rcases ih _ _ h with h1 | h1
    · simp only [Dict.contains, Dict.get?_set] at h1
      by_cases hl : l = p.1
      · right; simp [hl]
      · simp only [hl, if_false] at h1; exact Or.inl h1
    · right; simp [h1]

/-- **composition, left direction**: after `connect_circuit(other, this_connectors, other_connectors,
right_connect=False, …)` (hence `connect_left`, `extend_circuit`, `add_circuit`) there is a renaming
`φ` of `other`'s labels — connectors go to the base gates they were identified with, every other
gate to its (prefixed) copy — such that every valuation `v` of the result, read through `φ`, is a
valuation of `other`: the attached gates compute `other`'s function of the values at the connectors. -/
theorem connect_left_semantics {c other c' : Circuit} {thisC otherC : List Label} {name : Label} {addP : Bool}
    (hwo : WFG other) (h : c.connectCircuit other thisC otherC false name addP = .ok c') :
    ∃ φ : Label → Label,
      (∀ b v, IsValB c' b v → IsValB other (v ∘ φ) (v ∘ φ)) ∧
      (∀ l x, Dict.get? ((otherC.zip thisC).foldl (fun m p => Dict.set m p.1 p.2) ([] : Dict Label)) l = some x → φ l = x) ∧
      (∀ g ∈ other.gates, g.ty ≠ INPUT → φ g.label = (if name != "" && addP then name ++ "@" else "") ++ g.label) := by
  unfold connectCircuit at h
  simp only [Bool.false_eq_true, if_false] at h
  split at h
  · cases h
  · cases hc1 : c.checkGatesExist thisC with
    | error e => simp [hc1] at h
    | ok u1 =>
      simp only [hc1] at h
      cases hc2 : other.checkGatesExist otherC with
      | error e => simp [hc2] at h
      | ok u2 =>
        simp only [hc2] at h
        split at h
        · cases h
        · split at h
          · cases h
          · split at h
            · cases h
            · rename_i hty
              cases hts : other.topSort true with
              | cyclic => simp [hts] at h
              | ok order =>
                simp only [hts] at h
                split at h
                · cases h
                · rename_i st hfold
                  obtain ⟨order', ho1, hperm, hord⟩ := topSort_inv_spec hwo
                  rw [hts] at ho1
                  cases ho1
                  have hnd : order.Nodup := hperm.nodup_iff.mpr hwo.nodup
                  obtain ⟨hinv, _⟩ := connLoop_sem order [] ⟨c, _, []⟩ st (by simpa using hnd)
                    (by
                      intro cur hcur g hf o ho p q hpq
                      obtain ⟨hgm, hgl⟩ := find_some_mem hf
                      exact hord p cur q (by simpa using hpq) g hgm hgl o ho)
                    ⟨by intro cur hc; simp at hc, fun _ _ h => h⟩ hfold
                  simp only [List.nil_append] at hinv
                  have hg := connFinish_gates h
                  refine ⟨fun l => (Dict.get? st.o2n l).getD l, ?_, ?_, ?_⟩
                  · intro b v hv g hgm
                    by_cases ht : g.ty = INPUT
                    · simp [ht]
                    · simp only [ht, if_false]
                      have hfg := find_of_mem hwo.nodup hgm
                      have hin : g.label ∈ order := hperm.mem_iff.mpr (mem_labels_of_mem hgm)
                      have hnm : Dict.contains ((otherC.zip thisC).foldl (fun m p => Dict.set m p.1 p.2) ([] : Dict Label)) g.label = false := by
                        cases hcm : Dict.contains ((otherC.zip thisC).foldl (fun m p => Dict.set m p.1 p.2) ([] : Dict Label)) g.label with
                        | false => rfl
                        | true =>
                          exfalso
                          rcases contains_zipFold _ _ _ hcm with h1 | h1
                          · simp [Dict.contains, Dict.get?] at h1
                          · have hmem : g.label ∈ otherC := by
                              obtain ⟨p, hp, hpe⟩ := List.mem_map.mp h1
                              rw [← hpe]; exact (List.of_mem_zip hp).1
                            have := hty
                            simp only [List.any_eq_true, bne_iff_ne, ne_eq, not_exists, not_and, Decidable.not_not] at this
                            have h2 := this g.label hmem
                            rw [hfg] at h2
                            simp at h2
                            exact ht h2
                      obtain ⟨e1, ops', e2, e3⟩ := hinv.added g.label hin g hfg hnm
                      have hv' := hv _ (hg ▸ e3)
                      simp only [ht, if_false] at hv'
                      have hmap : g.ops.map (v ∘ fun l => (Dict.get? st.o2n l).getD l) = ops'.map v :=
                        all2_map_eq (fun a b hab => by simp [Function.comp, hab]) e2
                      rw [hmap, hv']
                      simp [Function.comp, e1]
                  · intro l x hl
                    simp [hinv.mapped l x hl]
                  · intro g hgm ht
                    have hfg := find_of_mem hwo.nodup hgm
                    have hin : g.label ∈ order := hperm.mem_iff.mpr (mem_labels_of_mem hgm)
                    have hnm : Dict.contains ((otherC.zip thisC).foldl (fun m p => Dict.set m p.1 p.2) ([] : Dict Label)) g.label = false := by
                      cases hcm : Dict.contains ((otherC.zip thisC).foldl (fun m p => Dict.set m p.1 p.2) ([] : Dict Label)) g.label with
                      | false => rfl
                      | true =>
                        exfalso
                        rcases contains_zipFold _ _ _ hcm with h1 | h1
                        · simp [Dict.contains, Dict.get?] at h1
                        · have hmem : g.label ∈ otherC := by
                            obtain ⟨p, hp, hpe⟩ := List.mem_map.mp h1
                            rw [← hpe]; exact (List.of_mem_zip hp).1
                          have := hty
                          simp only [List.any_eq_true, bne_iff_ne, ne_eq, not_exists, not_and, Decidable.not_not] at this
                          have h2 := this g.label hmem
                          rw [hfg] at h2
                          simp at h2
                          exact ht h2
                    simp [(hinv.added g.label hin g hfg hnm).1]

end Cirbo
