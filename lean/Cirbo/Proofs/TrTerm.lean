import Cirbo.Proofs.Dfs
import Cirbo.Proofs.Mutate
/-!
# The traversal loop terminates within its fuel
-/
namespace Cirbo
open Circuit

/-- weight still to be spent on unvisited gates: one unit for entering plus one per successor -/
def unvWeight (next : Label → List Label) (st : Label → TState) (ls : List Label) : Nat :=
  ((ls.filter (fun l => st l = .unv)).map (fun l => (next l).length + 1)).sum

def potential (c : Circuit) (next : Label → List Label) (s : TrSt) : Nat :=
  s.queue.length + unvWeight next s.st c.labels

theorem unvWeight_set_other (next : Label → List Label) (st : Label → TState) (k : Label) (v : TState) :
    ∀ (ls : List Label), k ∉ ls → unvWeight next (setSt st k v) ls = unvWeight next st ls := by
  intro ls
  induction ls with
  | nil => intro _; rfl
  | cons x r ih =>
    intro hk
    simp only [List.mem_cons, not_or] at hk
    have hx : setSt st k v x = st x := by simp [setSt, Ne.symm hk.1]
    simp only [unvWeight, List.filter_cons, hx] at ih ⊢
    split <;> simp [List.sum_cons, ih hk.2] <;> exact ih hk.2

/-- marking an unvisited gate as entered/visited frees its weight -/
theorem unvWeight_set (next : Label → List Label) (st : Label → TState) (k : Label) (v : TState) (hv : v ≠ .unv) :
    ∀ (ls : List Label), ls.Nodup → k ∈ ls → st k = .unv →
      unvWeight next (setSt st k v) ls + ((next k).length + 1) = unvWeight next st ls := by
  intro ls
  induction ls with
  | nil => intro _ h; cases h
  | cons x r ih =>
    intro hnd hk hst
    have hnd' := List.nodup_cons.mp hnd
    by_cases hx : x = k
    · subst hx
      have h1 : setSt st x v x = v := by simp [setSt]
      have hr := unvWeight_set_other next st x v r hnd'.1
      simp only [unvWeight, List.filter_cons, h1, hst] at hr ⊢
      simp only [hv, decide_false, Bool.false_eq_true, if_false, decide_true, if_true, List.map_cons, List.sum_cons]
      rw [hr]; omega
    · have hk' : k ∈ r := by
        rcases List.mem_cons.mp hk with h | h
        · exact absurd h.symm hx
        · exact h
      have hxs : setSt st k v x = st x := by simp [setSt, hx]
      have := ih hnd'.2 hk' hst
      simp only [unvWeight, List.filter_cons, hxs] at this ⊢
      split
      · simp only [List.map_cons, List.sum_cons]; omega
      · exact this

theorem filter_length_le {α} (p : α → Bool) (l : List α) : (l.filter p).length ≤ l.length := List.length_filter_le p l

/-- every step strictly decreases the potential -/
theorem trStep_potential {c : Circuit} (hnd : c.labels.Nodup) {bfs ab : Bool} {next : Label → List Label}
    {s s' : TrSt} (h : trStep c bfs ab next s = .next s') : potential c next s' < potential c next s := by
  unfold trStep at h
  cases hq : (if bfs then s.queue.head? else s.queue.getLast?) with
  | none => simp [hq] at h
  | some cur =>
    simp only [hq] at h
    have hqne : s.queue ≠ [] := by
      intro e; rw [e] at hq; cases bfs <;> simp at hq
    have hqlen : 0 < s.queue.length := List.length_pos_iff.mpr hqne
    split at h
    · cases h
    · rename_i hhas
      have hcur : cur ∈ c.labels := (hasGate_iff' c cur).mp (by simpa using hhas)
      cases hst : s.st cur with
      | unv =>
        simp only [hst] at h
        split at h
        · cases h
        · have hw := unvWeight_set next s.st cur .ent (by decide) c.labels hnd hcur hst
          have hpush : ((next cur).filter (fun x => setSt s.st cur .ent x = .unv)).length ≤ (next cur).length :=
            List.length_filter_le _ _
          cases bfs
          · simp only [Bool.false_eq_true, if_false, StepRes.next.injEq] at h
            subst h
            simp only [potential, List.length_append]
            omega
          · simp only [if_true, StepRes.next.injEq] at h
            subst h
            have hw2 : unvWeight next (setSt (setSt s.st cur .ent) cur .vis) c.labels = unvWeight next (setSt s.st cur .ent) c.labels := by
              have : setSt (setSt s.st cur .ent) cur .vis = setSt s.st cur .vis := by
                funext l; simp only [setSt]; split <;> rfl
              rw [this]
              have hw3 := unvWeight_set next s.st cur .vis (by decide) c.labels hnd hcur hst
              omega
            simp only [potential, List.length_tail, List.length_append]
            omega
      | ent =>
        simp only [hst, StepRes.next.injEq] at h
        subst h
        have hsame : unvWeight next (setSt s.st cur .vis) c.labels = unvWeight next s.st c.labels := by
          unfold unvWeight
          congr 2
          apply List.filter_congr
          intro x _
          by_cases hx : x = cur
          · subst hx; simp [setSt, hst]
          · simp [setSt, hx]
        simp only [potential, hsame]
        cases bfs <;> simp <;> omega
      | vis =>
        simp only [hst, StepRes.next.injEq] at h
        subst h
        simp only [potential]
        cases bfs <;> simp <;> omega

theorem childProblem_err (c : Circuit) (ab : Bool) (st : Label → TState) :
    ∀ (ls : List Label) (e : String), childProblem c ab st ls = some e →
      e = "GateDoesntExistError" ∨ e = "CircuitValidationError" := by
  intro ls
  induction ls with
  | nil => intro e h; simp [childProblem] at h
  | cons x r ih2 =>
    intro e h
    unfold childProblem at h
    split at h
    · simp at h; exact Or.inl h.symm
    · split at h
      · simp at h; exact Or.inr h.symm
      · exact ih2 e h

/-- a step only ever reports the code's own two errors -/
theorem trStep_error {c : Circuit} {bfs ab : Bool} {next : Label → List Label} {s : TrSt} {e : String}
    (h : trStep c bfs ab next s = .error e) : e = "GateDoesntExistError" ∨ e = "CircuitValidationError" := by
  unfold trStep at h
  cases hq : (if bfs then s.queue.head? else s.queue.getLast?) with
  | none => simp [hq] at h
  | some cur =>
    simp only [hq] at h
    split at h
    · simp at h; exact Or.inl h.symm
    · cases hst : s.st cur with
      | unv =>
        simp only [hst] at h
        cases hcp : childProblem c ab (setSt s.st cur .ent) (next cur) with
        | some e' =>
          simp only [hcp, StepRes.error.injEq] at h
          subst h
          exact childProblem_err c ab _ _ _ hcp
        | none =>
          simp only [hcp] at h
          cases bfs <;> simp at h
      | ent => simp [hst] at h
      | vis => simp [hst] at h

/-- **the traversal loop never runs out of fuel** (on a circuit with distinct labels): with fuel above
the potential it ends by finishing or by one of the code's own errors -/
theorem trLoop_terminates {c : Circuit} (hnd : c.labels.Nodup) {bfs ab : Bool} {next : Label → List Label} :
    ∀ (fuel : Nat) (s : TrSt), potential c next s < fuel → trLoop c bfs ab next fuel s ≠ .error "fuel" := by
  intro fuel
  induction fuel with
  | zero => intro s h; omega
  | succ fuel ih =>
    intro s h
    unfold trLoop
    cases hs : trStep c bfs ab next s with
    | finished => simp
    | error e =>
      simp only [ne_eq, Except.error.injEq]
      intro he; subst he
      rcases trStep_error hs with h1 | h1 <;> simp at h1
    | next s' =>
      simp only
      exact ih s' (by have := trStep_potential hnd hs; omega)

theorem foldl_add_eq_sum (l : List Nat) (a : Nat) : l.foldl (· + ·) a = a + l.sum := by
  induction l generalizing a with
  | nil => simp
  | cons x r ih => simp [List.foldl_cons, ih, List.sum_cons]; omega

theorem unvWeight_init (next : Label → List Label) (ls : List Label) :
    unvWeight next (fun _ => .unv) ls = (ls.map (fun l => (next l).length)).sum + ls.length := by
  induction ls with
  | nil => rfl
  | cons x r ih =>
    simp only [unvWeight, List.filter_cons, decide_true, if_true, List.map_cons, List.sum_cons, List.length_cons] at ih ⊢
    omega

/-- **`dfs` / `bfs` terminate**: on a circuit with distinct labels the fuel the model gives the loop is
never exhausted, for every start list, direction and hook configuration -/
theorem traverse_terminates (c : Circuit) (hnd : c.labels.Nodup) (bfs inverse : Bool)
    (start : Option (List Label)) (tu ab : Bool) : traverse c bfs inverse start tu ab ≠ .error "fuel" := by
  unfold traverse
  split
  · simp
  · simp only
    have key : ∀ (next : Label → List Label) (q0 : List Label),
        trLoop c bfs ab next (2 * (q0.length + c.gates.length + totalDeg c next) + 2) ⟨q0, fun _ => .unv, []⟩
          ≠ .error "fuel" := by
      intro next q0
      apply trLoop_terminates hnd
      simp only [potential, unvWeight_init, totalDeg, foldl_add_eq_sum]
      have : c.labels.length = c.gates.length := by simp [Circuit.labels]
      omega
    have k := key (if inverse then c.usersOf else c.opsOf) (start.getD (if inverse then c.inputs else c.outputs))
    split
    · rename_i e he
      intro h
      simp only [Except.error.injEq] at h
      subst h
      exact k he
    · split
      · split <;> simp
      · simp

theorem childProblem_none_of_closed (c : Circuit) (st : Label → TState) :
    ∀ (ls : List Label), (∀ x ∈ ls, x ∈ c.labels) → childProblem c false st ls = none := by
  intro ls
  induction ls with
  | nil => intro _; rfl
  | cons x r ih =>
    intro h
    unfold childProblem
    have hx : c.hasGate x = true := (hasGate_iff' c x).mpr (h x (by simp))
    simp only [hx, Bool.not_true, Bool.false_eq_true, if_false, Bool.false_and]
    exact ih (fun y hy => h y (by simp [hy]))

theorem mem_tail_of {α} {x : α} {l : List α} (h : x ∈ l.tail) : x ∈ l := List.mem_of_mem_tail h

/-- with no aborting hook and a successor relation that stays inside the circuit, a step from a queue
of existing labels never raises, and the queue keeps to existing labels -/
theorem trStep_no_error {c : Circuit} {bfs : Bool} {next : Label → List Label}
    (hcl : ∀ l x, x ∈ next l → x ∈ c.labels) {s : TrSt} (hq : ∀ x ∈ s.queue, x ∈ c.labels) :
    trStep c bfs false next s = .finished ∨
      ∃ s', trStep c bfs false next s = .next s' ∧ ∀ x ∈ s'.queue, x ∈ c.labels := by
  unfold trStep
  cases hh : (if bfs then s.queue.head? else s.queue.getLast?) with
  | none => left; rfl
  | some cur =>
    right
    have hcq : cur ∈ s.queue := by
      cases bfs
      · simp only [Bool.false_eq_true, if_false] at hh; exact List.mem_of_getLast? hh
      · simp only [if_true] at hh; exact List.mem_of_head? hh
    have hcur : c.hasGate cur = true := (hasGate_iff' c cur).mpr (hq cur hcq)
    simp only [hcur, Bool.not_true, Bool.false_eq_true, if_false]
    have hpop : ∀ x ∈ (if bfs then s.queue.tail else s.queue.dropLast), x ∈ c.labels := by
      intro x hx
      cases bfs
      · simp only [Bool.false_eq_true, if_false] at hx; exact hq x (List.dropLast_subset _ hx)
      · simp only [if_true] at hx; exact hq x (List.mem_of_mem_tail hx)
    cases hst : s.st cur with
    | unv =>
      simp only [childProblem_none_of_closed c _ (next cur) (fun x hx => hcl cur x hx)]
      have hpush : ∀ x ∈ s.queue ++ (next cur).filter (fun x => setSt s.st cur .ent x = .unv), x ∈ c.labels := by
        intro x hx
        rcases List.mem_append.mp hx with h | h
        · exact hq x h
        · exact hcl cur x (List.mem_filter.mp h).1
      cases bfs
      · exact ⟨_, rfl, hpush⟩
      · exact ⟨_, rfl, fun x hx => hpush x (List.mem_of_mem_tail hx)⟩
    | ent => exact ⟨_, rfl, hpop⟩
    | vis => exact ⟨_, rfl, hpop⟩

theorem trLoop_ok {c : Circuit} (hnd : c.labels.Nodup) {bfs : Bool} {next : Label → List Label}
    (hcl : ∀ l x, x ∈ next l → x ∈ c.labels) :
    ∀ (fuel : Nat) (s : TrSt), potential c next s < fuel → (∀ x ∈ s.queue, x ∈ c.labels) →
      ∃ s', trLoop c bfs false next fuel s = .ok s' := by
  intro fuel
  induction fuel with
  | zero => intro s h; omega
  | succ fuel ih =>
    intro s h hq
    unfold trLoop
    rcases trStep_no_error (bfs := bfs) hcl hq with hf | ⟨s', hs, hq'⟩
    · rw [hf]; exact ⟨s, rfl⟩
    · rw [hs]
      exact ih s' (by have := trStep_potential hnd hs; omega) hq'

/-- **`dfs` / `bfs` return on every well-formed circuit**: from the default start or any start list
of existing gates, in either direction, with or without `topsort_unvisited`, the traversal (without an
aborting hook) terminates and raises nothing -/
theorem traverse_ok {c : Circuit} (h : WFU c) (bfs inverse : Bool) (start : Option (List Label))
    (hstart : ∀ q, start = some q → ∀ x ∈ q, x ∈ c.labels) (tu : Bool) :
    ∃ log, traverse c bfs inverse start tu false = .ok log := by
  unfold traverse
  split
  · exact ⟨_, rfl⟩
  · simp only
    have hcl : ∀ l x, x ∈ (if inverse then c.usersOf else c.opsOf) l → x ∈ c.labels := by
      intro l x hx
      cases inverse
      · simp only [Bool.false_eq_true, if_false] at hx
        by_cases hl : l ∈ c.labels
        · obtain ⟨g, hg, hgl⟩ : ∃ g ∈ c.gates, g.label = l := by simpa [Circuit.labels] using hl
          rw [← hgl, opsOf_gate h.nodup hg] at hx
          exact h.closed g hg x hx
        · rw [opsOf_not_mem hl] at hx; cases hx
      · simp only [if_true] at hx
        exact h.usersL l x hx
    have hq0 : ∀ x ∈ start.getD (if inverse then c.inputs else c.outputs), x ∈ c.labels := by
      intro x hx
      cases start with
      | some q => exact hstart q rfl x hx
      | none =>
        simp only [Option.getD_none] at hx
        cases inverse
        · simp only [Bool.false_eq_true, if_false] at hx; exact h.outputsOK x hx
        · simp only [if_true] at hx
          obtain ⟨g, hg, hgl, _⟩ := (h.inputsOK x).mp hx
          rw [← hgl]; exact mem_labels_of_mem hg
    obtain ⟨s', hs'⟩ := trLoop_ok h.nodup (bfs := bfs) hcl
      (2 * ((start.getD (if inverse then c.inputs else c.outputs)).length + c.gates.length
        + totalDeg c (if inverse then c.usersOf else c.opsOf)) + 2)
      ⟨start.getD (if inverse then c.inputs else c.outputs), fun _ => .unv, []⟩
      (by
        simp only [potential, unvWeight_init, totalDeg, foldl_add_eq_sum]
        have : c.labels.length = c.gates.length := by simp [Circuit.labels]
        omega) hq0
    rw [hs']
    simp only
    cases tu
    · exact ⟨_, rfl⟩
    · obtain ⟨order, ho, _⟩ := topSort_inv_spec h.toWFG
      simp only [if_true, ho]
      exact ⟨_, rfl⟩

end Cirbo
