import Cirbo.Proofs.GenTotalB
import Cirbo.Model.Gen2
/-!
# Totality of the generators of `subtraction.py`, `equality.py`, `generation.py` (first part of `Model/Gen2.lean`)
-/
namespace Cirbo
open GateType Circuit

/-! ## helpers -/

theorem ca_Inv_sub {st : GSt} {P Q : List Label} (h : Inv st P) (hnd : Q.Nodup) (hs : ∀ d ∈ Q, d ∈ P) : Inv st Q :=
  ⟨hnd, fun d hd => h.pend d (hs d hd)⟩

theorem ca_Inv_tail {st : GSt} {l : Label} {P : List Label} (h : Inv st (l :: P)) : Inv st P :=
  ca_Inv_sub h (List.nodup_cons.mp h.nd).2 (fun d hd => by simp [hd])

/-- `P` without the labels of `G` -/
def ca_minus (P G : List Label) : List Label := P.filter (fun d => !G.contains d)

theorem ca_mem_minus {P G : List Label} {d : Label} : d ∈ ca_minus P G ↔ d ∈ P ∧ d ∉ G := by
  simp [ca_minus]

theorem ca_minus_nodup {P : List Label} (G : List Label) (h : P.Nodup) : (ca_minus P G).Nodup := h.filter _

theorem ca_minus_disj {P G : List Label} (h : ∀ d ∈ G, d ∉ P) : ca_minus P G = P := by
  unfold ca_minus
  apply List.filter_eq_self.mpr
  intro d hd
  simp only [Bool.not_eq_true', List.contains_eq_mem, decide_eq_false_iff_not]
  exact fun hg => h d hg hd

theorem ca_minus_nil (P : List Label) : ca_minus P [] = P := ca_minus_disj (fun d hd => by cases hd)

/-! ## `progFold` -/

/-- the general rule: an invariant that may depend on the indices still to be visited -/
theorem ca_ok_progFold_gen {σ : Type} {f : σ → Nat → Prog σ} (J : List Nat → σ → GSt → Prop) :
    ∀ (xs : List Nat) (s : σ) (st : GSt),
      (∀ i r s st, (∃ pre, pre ++ i :: r = xs) → J (i :: r) s st → Ok (f s i) st (J r)) → J xs s st →
      Ok (progFold xs s f) st (J []) := by
  intro xs
  induction xs with
  | nil => intro s st _ h; unfold progFold; exact Ok.ret h
  | cons i r ih =>
    intro s st hstep h
    unfold progFold
    apply Ok.bind (hstep i r s st ⟨[], rfl⟩ h)
    intro s' st' h'
    exact ih s' st' (fun i' r' s st ⟨pre, e⟩ hj => hstep i' r' s st ⟨i :: pre, by simp [e]⟩ hj) h'

/-- the rule in contract form: a state whose labels `lab s` are gates and whose shape is `S s` -/
theorem ca_ok_progFold {σ : Type} {f : σ → Nat → Prog σ} {P : List Label} (lab : σ → List Label) (S : σ → Prop)
    (xs : List Nat)
    (hstep : ∀ i ∈ xs, ∀ (s : σ) (st : GSt) (K : List Label), Inv st P → Kn st K → (∀ l ∈ lab s, l ∈ K) → S s →
      Ok (f s i) st (GPost P K lab S))
    (s : σ) (st : GSt) (K : List Label) (hinv : Inv st P) (hk : Kn st K) (hl : ∀ l ∈ lab s, l ∈ K) (hs : S s) :
    Ok (progFold xs s f) st (GPost P K lab S) := by
  refine (ca_ok_progFold_gen (f := f) (fun _ s st => Inv st P ∧ Kn st (K ++ lab s) ∧ S s) xs s st ?_ ?_).mono ?_
  · intro i r s st ⟨pre, e⟩ ⟨h1, h2, h3⟩
    refine (hstep i (by rw [← e]; simp) s st (K ++ lab s) h1 h2 (by intro l hl; kmem) h3).mono ?_
    intro s' st' ⟨i1, k1, s1⟩
    exact ⟨i1, k1.mono (by intro l hl; kmem), s1⟩
  · exact ⟨hinv, fun l hl' => by
      rcases List.mem_append.mp hl' with h | h
      · exact hk l h
      · exact hk l (hl l h), hs⟩
  · intro s' st' h; exact h

/-! ## `subtraction.py` -/

theorem ca_ok_addSub2_le {x1 x2 : Label} {st : GSt} {P K : List Label} (hinv : Inv st P) (hk : Kn st K)
    (h1 : x1 ∈ K) (h2 : x2 ∈ K) : Ok (addSub2 [x1, x2] false) st (GPost P K id (fun a => a.length = 2)) := by
  show Ok (do let g1 ← emitTT x1 x2 t0110; let g2 ← emitTT x1 x2 t0100; pure [g1, g2]) st _
  apply Ok.stepK (okK_emitTT hinv hk (by decide) h1 h2); intro g1 s1 i1 k1 _
  apply Ok.stepK (okK_emitTT i1 k1 (by decide) (by kmem) (by kmem)); intro g2 s2 i2 k2 _
  exact Ok.ret ⟨i2, k2.mono (by intro l hl; kmem), rfl⟩

/-- **`add_sub2`** returns on two operands that are gates -/
theorem ca_ok_addSub2 {x1 x2 : Label} {be : Bool} {st : GSt} {P K : List Label} (hinv : Inv st P) (hk : Kn st K)
    (h1 : x1 ∈ K) (h2 : x2 ∈ K) : Ok (addSub2 [x1, x2] be) st (GPost P K id (fun a => a.length = 2)) := by
  cases be
  · exact ca_ok_addSub2_le hinv hk h1 h2
  · exact ca_ok_addSub2_le (x1 := x2) (x2 := x1) hinv hk h2 h1

theorem ca_ok_addSub3_le {x0 x1 x2 : Label} {st : GSt} {P K : List Label} (hinv : Inv st P) (hk : Kn st K)
    (h0 : x0 ∈ K) (h1 : x1 ∈ K) (h2 : x2 ∈ K) :
    Ok (addSub3 [x0, x1, x2] false) st (GPost P K id (fun a => a.length = 2)) := by
  show Ok (do
    let x3 ← emitTT x0 x1 t0110
    let x4 ← emitTT x1 x2 t0110
    let x5 ← emitTT x3 x4 t0111
    let x6 ← emitTT x2 x3 t0110
    let x7 ← emitTT x0 x5 t0110
    pure [x6, x7]) st _
  apply Ok.stepK (okK_emitTT hinv hk (by decide) h0 h1); intro g1 s1 i1 k1 _
  apply Ok.stepK (okK_emitTT i1 k1 (by decide) (by kmem) (by kmem)); intro g2 s2 i2 k2 _
  apply Ok.stepK (okK_emitTT i2 k2 (by decide) (by kmem) (by kmem)); intro g3 s3 i3 k3 _
  apply Ok.stepK (okK_emitTT i3 k3 (by decide) (by kmem) (by kmem)); intro g4 s4 i4 k4 _
  apply Ok.stepK (okK_emitTT i4 k4 (by decide) (by kmem) (by kmem)); intro g5 s5 i5 k5 _
  exact Ok.ret ⟨i5, k5.mono (by intro l hl; kmem), rfl⟩

/-- **`add_sub3`** returns on three operands that are gates -/
theorem ca_ok_addSub3 {x0 x1 x2 : Label} {be : Bool} {st : GSt} {P K : List Label} (hinv : Inv st P) (hk : Kn st K)
    (h0 : x0 ∈ K) (h1 : x1 ∈ K) (h2 : x2 ∈ K) :
    Ok (addSub3 [x0, x1, x2] be) st (GPost P K id (fun a => a.length = 2)) := by
  cases be
  · exact ca_ok_addSub3_le hinv hk h0 h1 h2
  · exact ca_ok_addSub3_le (x0 := x2) (x1 := x1) (x2 := x0) hinv hk h2 h1 h0

/-- the borrow chain: one result bit per bit of `a` left, whatever the number of bits of `b` left -/
theorem ca_ok_subChain : ∀ (xs ys res : List Label) (bal : Label) (st : GSt) (P K : List Label), Inv st P → Kn st K →
    (∀ l ∈ xs, l ∈ K) → (∀ l ∈ ys, l ∈ K) → (∀ l ∈ res, l ∈ K) → bal ∈ K →
    Ok (subChain xs ys res bal) st (GPost P K (fun r => r.1 ++ [r.2]) (fun r => r.1.length = res.length + xs.length)) := by
  intro xs
  induction xs with
  | nil =>
    intro ys res bal st P K hinv hk _ _ hr hb
    unfold subChain
    exact Ok.ret ⟨hinv, fun l hl => hk l (by kmem), rfl⟩
  | cons x xs ih =>
    intro ys res bal st P K hinv hk hx hy hr hb
    unfold subChain
    have hblk : Ok (match ys with
        | y :: _ => addSub3 [x, y, bal] false
        | [] => addSub2 [x, bal] false) st (GPost P K id (fun a => a.length = 2)) := by
      cases ys with
      | nil => exact ca_ok_addSub2 hinv hk (hx x (by simp)) hb
      | cons y _ => exact ca_ok_addSub3 hinv hk (hx x (by simp)) (hy y (by simp)) hb
    apply Ok.stepK hblk; intro r s1 i1 k1 hr2
    apply ok_pair2_bind hr2; intro d b' e2
    subst e2
    simp only [id] at k1
    refine (ih ys.tail (res ++ [d]) b' s1 P (K ++ [d, b']) i1 k1 (by intro l hl; have := hx l (by simp [hl]); kmem)
      (by intro l hl; have := hy l (List.mem_of_mem_tail hl); kmem) (by intro l hl; kmem) (by kmem)).mono ?_
    intro out s2 ⟨i2, k2, h⟩
    refine ⟨i2, k2.mono (by intro l hl; kmem), ?_⟩
    simp only [List.length_append, List.length_cons, List.length_nil] at h ⊢
    omega

/-- the little-endian core: both operands non-empty (`input_labels_a[0]`, `input_labels_b[0]`), any widths -/
theorem ca_ok_subCore {a b : List Label} {st : GSt} {P K : List Label} (hinv : Inv st P) (hk : Kn st K)
    (ha : ∀ l ∈ a, l ∈ K) (hb : ∀ l ∈ b, l ∈ K) (hane : a ≠ []) (hbne : b ≠ []) :
    Ok (subCore a b) st (GPost P K (fun r => r.1 ++ [r.2]) (fun r => r.1.length = a.length)) := by
  match a, b, hane, hbne with
  | x :: xs, y :: ys, _, _ =>
    unfold subCore
    apply Ok.stepK (ca_ok_addSub2 hinv hk (ha x (by simp)) (hb y (by simp))); intro r s1 i1 k1 hr2
    apply ok_pair2_bind hr2; intro d bal e2
    subst e2
    simp only [id] at k1
    refine (ca_ok_subChain xs ys [d] bal s1 P (K ++ [d, bal]) i1 k1 (by intro l hl; have := ha l (by simp [hl]); kmem)
      (by intro l hl; have := hb l (by simp [hl]); kmem) (by intro l hl; kmem) (by kmem)).mono ?_
    intro out s2 ⟨i2, k2, h⟩
    refine ⟨i2, k2.mono (by intro l hl; kmem), ?_⟩
    simp only [List.length_cons, List.length_nil] at h ⊢
    omega

theorem ca_revIf_ne {l : List Label} {b : Bool} (h : l ≠ []) : revIf l b ≠ [] := by
  unfold revIf; split <;> simp [h]

/-- **`add_sub_two_numbers`** returns on two non-empty operands (any widths, both endiannesses): one result
bit per bit of the first operand -/
theorem ca_ok_addSubTwoNumbers {a b : List Label} {be : Bool} {st : GSt} {P K : List Label} (hinv : Inv st P) (hk : Kn st K)
    (ha : ∀ l ∈ a, l ∈ K) (hb : ∀ l ∈ b, l ∈ K) (hane : a ≠ []) (hbne : b ≠ []) :
    Ok (addSubTwoNumbers a b be) st (GPost P K id (fun r => r.length = a.length)) := by
  unfold addSubTwoNumbers
  apply Ok.stepK (ca_ok_subCore hinv hk (fun l hl => ha l (mem_revIf.mp hl)) (fun l hl => hb l (mem_revIf.mp hl))
    (ca_revIf_ne hane) (ca_revIf_ne hbne))
  intro r s1 i1 k1 h
  obtain ⟨res, bal⟩ := r
  refine Ok.ret ⟨i1, k1.mono ?_, ?_⟩
  · intro l hl
    simp only [id, List.mem_append, mem_revIf] at hl
    kmem
  · simp only [length_revIf_t] at h ⊢
    exact h

/-- **`add_subtract_with_compare`** returns on two non-empty operands (any widths, both endiannesses): the
difference has the width of the wider operand, plus the final borrow -/
theorem ca_ok_addSubtractWithCompare {a b : List Label} {be : Bool} {st : GSt} {P K : List Label} (hinv : Inv st P)
    (hk : Kn st K) (ha : ∀ l ∈ a, l ∈ K) (hb : ∀ l ∈ b, l ∈ K) (hane : a ≠ []) (hbne : b ≠ []) :
    Ok (addSubtractWithCompare a b be) st
      (GPost P K (fun r => r.1 ++ [r.2]) (fun r => r.1.length = max a.length b.length)) := by
  match a, b, hane, hbne with
  | x :: xs, y :: ys, _, _ =>
    unfold addSubtractWithCompare
    apply Ok.stepK (okK_emitTT hinv hk (by decide) (ha x (by simp)) (hb y (by simp))); intro af s1 i1 k1 _
    apply Ok.stepK (ca_ok_subCore (a := revIf (x :: xs) be ++ List.replicate _ af)
      (b := revIf (y :: ys) be ++ List.replicate _ af) i1 k1 ?_ ?_ ?_ ?_)
    · intro r s2 i2 k2 h
      obtain ⟨res, bal⟩ := r
      refine Ok.ret ⟨i2, k2.mono ?_, ?_⟩
      · intro l hl
        simp only [List.mem_append, mem_revIf] at hl
        kmem
      · simp only [length_revIf_t, List.length_append, List.length_replicate] at h ⊢
        omega
    · intro l hl
      rcases List.mem_append.mp hl with h | h
      · have := ha l (mem_revIf.mp h); kmem
      · have := (List.mem_replicate.mp h).2; kmem
    · intro l hl
      rcases List.mem_append.mp hl with h | h
      · have := hb l (mem_revIf.mp h); kmem
      · have := (List.mem_replicate.mp h).2; kmem
    · intro h; exact ca_revIf_ne (l := x :: xs) (b := be) (by simp) (List.append_eq_nil_iff.mp h).1
    · intro h; exact ca_revIf_ne (l := y :: ys) (b := be) (by simp) (List.append_eq_nil_iff.mp h).1

/-! ## moving `Kn` along the primitives; labels that are never drawn again -/

theorem ca_Kn_c {st st' : GSt} {K : List Label} (h : st'.c = st.c) (hk : Kn st K) : Kn st' K := by
  intro l hl; rw [h]; exact hk l hl

theorem ca_Kn_labels {st st' : GSt} {K : List Label} (h : st'.c.labels = st.c.labels) (hk : Kn st K) : Kn st' K := by
  intro l hl; rw [h]; exact hk l hl

theorem ca_Kn_add {st st' : GSt} {K : List Label} {x : Label} (h : st'.c.labels = st.c.labels ++ [x]) (hk : Kn st K) :
    Kn st' (K ++ [x]) := by
  intro l hl
  rw [h]
  rcases List.mem_append.mp hl with h1 | h1
  · exact List.mem_append_left _ (hk l h1)
  · exact List.mem_append_right _ h1

/-- `r` is not one of the labels still to be drawn from this state on -/
def ca_NF (st : GSt) (r : Label) : Prop := ∀ j, st.ctr ≤ j → j < 16 ^ 32 → r ≠ newLabel j

theorem ca_NF_mono {st st' : GSt} {r : Label} (h : st.ctr ≤ st'.ctr) (hr : ca_NF st r) : ca_NF st' r :=
  fun j hj hj2 => hr j (by omega) hj2

/-- a pending label is never drawn again -/
theorem ca_NF_pend {st : GSt} {P : List Label} {d : Label} (hinv : Inv st P) (hd : d ∈ P) : ca_NF st d := by
  intro j hj hj2 e
  obtain ⟨_, j', hj', hj'2, e'⟩ := hinv.pend d hd
  have := newLabel_inj hj'2 hj2 (e'.symm.trans e)
  omega

/-- drawing a label, with everything one knows about it: it is pending, not a gate, not restricted, and none
of the labels that are never drawn again -/
theorem ca_fresh {α} {r : List Label} {k : Label → Prog α} {st : GSt} {P K : List Label} {Q : α → GSt → Prop}
    (hinv : Inv st P) (hk : Kn st K)
    (h : ∀ l st', st'.c = st.c → st.ctr ≤ st'.ctr → Inv st' (l :: P) → Kn st' K → l ∉ r → (∀ x, ca_NF st x → x ≠ l) →
      Ok (k l) st' Q) : Ok (Prog.fresh r k) st Q := by
  apply Ok.fresh
  intro l ctr' hl hr hlt hle ⟨j, hj1, hj2, hj3⟩
  refine h l ⟨st.c, ctr'⟩ rfl (Nat.le_of_lt hlt) ⟨?_, ?_⟩ (ca_Kn_c rfl hk) hr ?_
  · refine List.nodup_cons.mpr ⟨?_, hinv.nd⟩
    intro hm
    obtain ⟨_, j', hj', hj'2, e⟩ := hinv.pend l hm
    have := newLabel_inj (by omega) hj'2 (hj3.symm.trans e)
    omega
  · intro d hd
    rcases List.mem_cons.mp hd with rfl | hd
    · exact ⟨hl, j, hj2, by omega, hj3⟩
    · obtain ⟨a, j', hj', hj'2, e⟩ := hinv.pend d hd
      exact ⟨a, j', by simp only; omega, hj'2, e⟩
  · intro x hx e
    exact hx j hj1 (by omega) (e.trans hj3)

theorem ca_add {α} {lb : Label} {ty : GateType} {ops : List Label} {ok : tyOk ty ops.length = true} {k : Prog α} {st : GSt}
    {P K : List Label} {Q : α → GSt → Prop} (hinv : Inv st P) (hk : Kn st K) (hl : lb ∉ st.c.labels) (ho : ∀ o ∈ ops, o ∈ K)
    (h : ∀ st', st'.c.labels = st.c.labels ++ [lb] → st'.ctr = st.ctr → Inv st' (P.erase lb) →
      Kn st' (K ++ [lb]) → Ok k st' Q) : Ok (Prog.add ⟨lb, ty, ops⟩ ok k) st Q :=
  Ok.add_inv (g := ⟨lb, ty, ops⟩) hinv hl (fun o h' => hk o (ho o h')) (fun st' h1 h2 h3 => h st' h1 h2 h3 (ca_Kn_add h1 hk))

theorem ca_mark {α} {l : Label} {k : Prog α} {st : GSt} {P K : List Label} {Q : α → GSt → Prop}
    (hinv : Inv st P) (hk : Kn st K) (hl : l ∈ K)
    (h : ∀ st', st'.c.labels = st.c.labels → st'.ctr = st.ctr → Inv st' P → Kn st' K → Ok k st' Q) :
    Ok (Prog.mark l k) st Q :=
  Ok.mark_inv hinv (hk l hl) (fun st' h1 h2 h3 => h st' h1 h2 h3 (ca_Kn_labels h1 hk))

/-! ## `equality.py` -/

theorem ca_eqBits_pos (num width : Nat) : 1 ≤ (eqBits num width).length := by
  have : 1 ≤ (binDigitsLE (num + 1) num).length := by
    unfold binDigitsLE; split <;> simp
  unfold eqBits
  simp only [List.length_append]
  omega

theorem ca_ok_eqLiterals : ∀ (bits : List Bool) (ins acc : List Label) (st : GSt) (P K : List Label), Inv st P → Kn st K →
    (∀ l ∈ ins, l ∈ K) → (∀ l ∈ acc, l ∈ K) →
    Ok (eqLiterals bits ins acc) st (GPost P K id (fun r => r.length = acc.length + min bits.length ins.length)) := by
  intro bits
  induction bits with
  | nil =>
    intro ins acc st P K hinv hk hi ha
    unfold eqLiterals
    exact Ok.ret ⟨hinv, fun l hl => hk l (by kmem), by simp⟩
  | cons bit bits ih =>
    intro ins acc st P K hinv hk hi ha
    cases ins with
    | nil =>
      unfold eqLiterals
      exact Ok.ret ⟨hinv, fun l hl => hk l (by kmem), by simp⟩
    | cons inp ins =>
      unfold eqLiterals
      have hin : inp ∈ K := hi inp (by simp)
      have hi' : ∀ l ∈ ins, l ∈ K := fun l hl => hi l (by simp [hl])
      cases bit with
      | true =>
        simp only [if_true]
        refine (ih ins (acc ++ [inp]) st P K hinv hk hi' (by intro l hl; kmem)).mono ?_
        intro r s1 ⟨i1, k1, h⟩
        refine ⟨i1, k1, ?_⟩
        simp only [List.length_append, List.length_cons, List.length_nil] at h ⊢
        omega
      | false =>
        simp only [Bool.false_eq_true, if_false]
        apply Ok.stepK (okK_emit hinv hk (by intro o ho; simp only [List.mem_singleton] at ho; subst ho; exact hin))
        intro l s1 i1 k1 _
        refine (ih ins (acc ++ [l]) s1 P (K ++ [l]) i1 k1 (by intro x hx; have := hi' x hx; kmem)
          (by intro x hx; kmem)).mono ?_
        intro r s2 ⟨i2, k2, h⟩
        refine ⟨i2, k2.mono (by intro x hx; kmem), ?_⟩
        simp only [List.length_append, List.length_cons, List.length_nil] at h ⊢
        omega

theorem ca_ok_andChain : ∀ (rest : List Label) (last : Label) (st : GSt) (P K : List Label), Inv st P → Kn st K →
    (∀ l ∈ rest, l ∈ K) → last ∈ K → Ok (andChain rest last) st (GPost P K (fun l => [l]) (fun _ => True)) := by
  intro rest
  induction rest with
  | nil =>
    intro last st P K hinv hk _ hl
    unfold andChain
    exact Ok.ret ⟨hinv, fun l hl' => hk l (by kmem), trivial⟩
  | cons o r ih =>
    intro last st P K hinv hk hr hl
    unfold andChain
    have ho : o ∈ K := hr o (by simp)
    apply Ok.stepK (okK_emit hinv hk (by intro x hx; kmem))
    intro l s1 i1 k1 _
    refine (ih l s1 P (K ++ [l]) i1 k1 (by intro x hx; have := hr x (by simp [hx]); kmem) (by kmem)).mono ?_
    intro out s2 ⟨i2, k2, _⟩
    exact ⟨i2, k2.mono (by intro x hx; kmem), trivial⟩

/-- **`add_equal`** returns on any operands that are gates (any width, also none) and any constant -/
theorem ca_ok_addEqual {ins : List Label} {num : Nat} {st : GSt} {P K : List Label} (hinv : Inv st P) (hk : Kn st K)
    (hi : ∀ l ∈ ins, l ∈ K) : Ok (addEqual ins num) st (GPost P K (fun l => [l]) (fun _ => True)) := by
  unfold addEqual
  simp only []
  split
  · exact okK_emit hinv hk (by intro o ho; cases ho)
  · rename_i hlen
    apply Ok.stepK (ca_ok_eqLiterals _ ins [] st P K hinv hk hi (by intro l hl; cases hl))
    intro lits s1 i1 k1 hl
    simp only [id] at k1
    have hpos := ca_eqBits_pos num ins.length
    have hl1 : 1 ≤ lits.length := by
      simp only [List.length_nil, Nat.zero_add] at hl
      omega
    apply ca_fresh i1 k1
    intro last s2 hc hctr i2 k2 _ _
    match lits, hl1 with
    | [g], _ => exact Ok.pure ⟨ca_Inv_tail i2, k2.mono (by intro x hx; kmem), trivial⟩
    | g0 :: g1 :: rest, _ =>
      apply ca_add i2 k2 (i2.pend last (by simp)).1 (by intro o ho; kmem)
      intro s3 _ _ i3 k3
      have : (last :: P).erase last = P := by simp
      rw [this] at i3
      refine (ca_ok_andChain rest last s3 P _ i3 k3 (by intro x hx; kmem) (by kmem)).mono ?_
      intro out s4 ⟨i4, k4, _⟩
      exact ⟨i4, k4.mono (by intro x hx; kmem), trivial⟩

/-- **`add_equal`** with any integer constant -/
theorem ca_ok_addEqualZ {ins : List Label} {num : Int} {st : GSt} {P K : List Label} (hinv : Inv st P) (hk : Kn st K)
    (hi : ∀ l ∈ ins, l ∈ K) : Ok (addEqualZ ins num) st (GPost P K (fun l => [l]) (fun _ => True)) := by
  unfold addEqualZ
  cases num with
  | ofNat n => exact ca_ok_addEqual hinv hk hi
  | negSucc n => exact okK_emit hinv hk (by intro o ho; cases ho)

/-! ## `generation.py`: drawing labels, marking -/

/-- `_get_new_labels`: `n` new pending labels, none of them restricted, a gate, or a label never drawn again -/
theorem ca_ok_freshLabels : ∀ (n : Nat) (restr acc : List Label) (st : GSt) (P K : List Label), Inv st P → Kn st K →
    Ok (freshLabels n restr acc) st (fun r st' => st'.c = st.c ∧ st.ctr ≤ st'.ctr ∧ Kn st' K ∧
      ∃ new, r = acc ++ new ∧ new.length = n ∧ Inv st' (new.reverse ++ P) ∧ (∀ l ∈ new, l ∉ restr ∧ l ∉ acc) ∧
        ∀ x, ca_NF st x → x ∉ new) := by
  intro n
  induction n with
  | zero =>
    intro restr acc st P K hinv hk
    unfold freshLabels
    exact Ok.ret ⟨rfl, Nat.le_refl _, hk, [], by simp, rfl, by simpa using hinv, by simp, by simp⟩
  | succ n ih =>
    intro restr acc st P K hinv hk
    unfold freshLabels
    apply ca_fresh hinv hk
    intro l s1 hc hctr i1 k1 hr hnf
    refine (ih restr (acc ++ [l]) s1 (l :: P) K i1 k1).mono ?_
    intro r s2 ⟨hc2, hctr2, k2, new, e, hlen, i2, hnr, hnf2⟩
    refine ⟨hc2.trans hc, by omega, k2, l :: new, by simp [e], by simp [hlen], by simpa using i2, ?_, ?_⟩
    · intro x hx
      rcases List.mem_cons.mp hx with rfl | hx
      · exact ⟨fun h => hr (List.mem_append_left _ h), fun h => hr (List.mem_append_right _ h)⟩
      · exact ⟨(hnr x hx).1, fun h => (hnr x hx).2 (List.mem_append_left _ h)⟩
    · intro x hx hm
      rcases List.mem_cons.mp hm with rfl | hm
      · exact hnf x hx rfl
      · exact hnf2 x (ca_NF_mono hctr hx) hm

/-- `for i in range(n): result_labels.append(_get_new_label(circuit))` -/
theorem ca_ok_freshPlain : ∀ (n : Nat) (acc : List Label) (st : GSt) (P K : List Label), Inv st P → Kn st K →
    Ok (freshPlain n acc) st (fun r st' => st'.c = st.c ∧ st.ctr ≤ st'.ctr ∧ Kn st' K ∧
      ∃ new, r = acc ++ new ∧ new.length = n ∧ Inv st' (new.reverse ++ P) ∧ ∀ x, ca_NF st x → x ∉ new) := by
  intro n
  induction n with
  | zero =>
    intro acc st P K hinv hk
    unfold freshPlain
    exact Ok.ret ⟨rfl, Nat.le_refl _, hk, [], by simp, rfl, by simpa using hinv, by simp⟩
  | succ n ih =>
    intro acc st P K hinv hk
    unfold freshPlain
    apply ca_fresh hinv hk
    intro l s1 hc hctr i1 k1 hr hnf
    refine (ih (acc ++ [l]) s1 (l :: P) K i1 k1).mono ?_
    intro r s2 ⟨hc2, hctr2, k2, new, e, hlen, i2, hnf2⟩
    refine ⟨hc2.trans hc, by omega, k2, l :: new, by simp [e], by simp [hlen], by simpa using i2, ?_⟩
    intro x hx hm
    rcases List.mem_cons.mp hm with rfl | hm
    · exact hnf x hx rfl
    · exact hnf2 x (ca_NF_mono hctr hx) hm

/-- marking gates -/
theorem ca_ok_markAll : ∀ (ls : List Label) (st : GSt) (P K : List Label), Inv st P → Kn st K → (∀ l ∈ ls, l ∈ K) →
    Ok (markAll ls) st (fun _ st' => st'.c.labels = st.c.labels ∧ st'.ctr = st.ctr ∧ Inv st' P ∧ Kn st' K) := by
  intro ls
  induction ls with
  | nil => intro st P K hinv hk _; unfold markAll; exact Ok.ret ⟨rfl, rfl, hinv, hk⟩
  | cons l r ih =>
    intro st P K hinv hk hl
    unfold markAll
    apply ca_mark hinv hk (hl l (by simp))
    intro s1 h1 h2 i1 k1
    refine (ih s1 P K i1 k1 (fun x hx => hl x (by simp [hx]))).mono ?_
    intro _ s2 ⟨a, b, c, d⟩
    exact ⟨a.trans h1, b.trans h2, c, d⟩

/-! ## `add_plus_one` -/

theorem ca_plusOneLoop_nil (xs cs : List Label) (cprev : Label) (ended : Bool) :
    plusOneLoop xs [] cs cprev ended = pure () := by
  unfold plusOneLoop; rfl

/-- the loop of `add_plus_one`: the result labels `zs` and the carry labels `cs` are pairwise different and not
gates, there is a carry label for every position that needs one, the carry of the previous position is a gate
as long as operand bits are left -/
theorem ca_ok_plusOneLoop : ∀ (zs xs cs : List Label) (cprev : Label) (ended : Bool) (st : GSt) (P K : List Label),
    Inv st P → Kn st K → (∀ l ∈ xs, l ∈ K) → (ended = false → cprev ∈ K) → (ended = true → xs = []) →
    (zs ++ cs).Nodup → (∀ l ∈ zs ++ cs, l ∉ st.c.labels) → min xs.length zs.length ≤ cs.length →
    Ok (plusOneLoop xs zs cs cprev ended) st
      (fun _ st' => Inv st' (ca_minus P (zs ++ cs)) ∧ Kn st' (K ++ zs) ∧ st'.ctr = st.ctr) := by
  intro zs
  induction zs with
  | nil =>
    intro xs cs cprev ended st P K hinv hk _ _ _ _ _ _
    rw [ca_plusOneLoop_nil]
    exact Ok.ret ⟨ca_Inv_sub hinv (ca_minus_nodup _ hinv.nd) (fun d hd => (ca_mem_minus.mp hd).1),
      hk.mono (by intro l hl; kmem), rfl⟩
  | cons z zs ih =>
    intro xs cs cprev ended st P K hinv hk hx hc he hnd hng hlen
    have hz : z ∉ st.c.labels := hng z (by simp)
    have hnd' := List.nodup_cons.mp hnd
    cases xs with
    | cons x xs =>
      have hef : ended = false := by
        cases ended with
        | false => rfl
        | true => exact absurd (he rfl) (by simp)
      have hcp : cprev ∈ K := hc hef
      have hxK : x ∈ K := hx x (by simp)
      cases cs with
      | nil => simp at hlen
      | cons ci cr =>
        unfold plusOneLoop
        simp only []
        cases zs with
        | nil =>
          simp only [List.isEmpty_nil, if_true]
          apply ca_add hinv hk hz (by intro o ho; kmem)
          intro s1 h1 hc1 i1 k1
          rw [ca_plusOneLoop_nil]
          refine Ok.ret ⟨ca_Inv_sub i1 (ca_minus_nodup _ hinv.nd) ?_, k1, hc1⟩
          intro d hd
          obtain ⟨hd1, hd2⟩ := ca_mem_minus.mp hd
          exact (List.mem_erase_of_ne (by intro e; subst e; exact hd2 (by simp))).mpr hd1
        | cons z' zs' =>
          simp only [List.isEmpty_cons, Bool.false_eq_true, if_false]
          have hci : ci ∉ st.c.labels := hng ci (by simp)
          have hne : z ≠ ci := by intro e; subst e; exact hnd'.1 (by simp)
          apply ca_add hinv hk hci (by intro o ho; kmem)
          intro s1 h1 hc1 i1 k1
          apply ca_add i1 k1 (by show z ∉ s1.c.labels; rw [h1]; simp [hz, hne]) (by intro o ho; kmem)
          intro s2 h2 hc2 i2 k2
          have hsub : (z' :: zs' ++ cr).Sublist (z :: (z' :: zs') ++ ci :: cr) :=
            List.Sublist.cons z (List.Sublist.append (List.Sublist.refl _) (List.Sublist.cons ci (List.Sublist.refl _)))
          have hnd2 : (z' :: zs' ++ cr).Nodup := hnd.sublist hsub
          have hdis := (List.nodup_append.mp hnd'.2).2.2
          refine (ih xs cr ci ended s2 _ _ i2 k2 (by intro l hl; have := hx l (by simp [hl]); kmem) (by intro _; kmem)
            (by intro h; rw [hef] at h; cases h) hnd2 ?_ (by simp only [List.length_cons] at hlen ⊢; omega)).mono ?_
          · intro l hl
            have hl0 : l ∉ st.c.labels := hng l (hsub.subset hl)
            have hlz : l ≠ z := by
              intro e; subst e
              exact hnd'.1 (List.mem_append.mpr ((List.mem_append.mp hl).imp id (List.mem_cons_of_mem _)))
            have hlc : l ≠ ci := by
              intro e; subst e
              rcases List.mem_append.mp hl with h | h
              · exact hdis l h l (by simp) rfl
              · exact (List.nodup_cons.mp (List.nodup_append.mp hnd'.2).2.1).1 h
            show l ∉ s2.c.labels
            rw [h2, h1]
            simp [hl0, hlz, hlc]
          · intro _ s3 ⟨i3, k3, hc3⟩
            refine ⟨ca_Inv_sub i3 (ca_minus_nodup _ hinv.nd) ?_, k3.mono (by intro l hl; kmem), by omega⟩
            intro d hd
            obtain ⟨hd1, hd2⟩ := ca_mem_minus.mp hd
            simp only [List.mem_append, List.mem_cons, not_or] at hd2
            refine ca_mem_minus.mpr ⟨?_, by simp only [List.mem_append, List.mem_cons, not_or]; grind⟩
            exact (List.mem_erase_of_ne (by grind)).mpr ((List.mem_erase_of_ne (by grind)).mpr hd1)
    | nil =>
      have hsub : (zs ++ cs.tail).Sublist (z :: zs ++ cs) :=
        List.Sublist.cons z (List.Sublist.append (List.Sublist.refl _) (List.tail_sublist cs))
      have hng2 : ∀ s1 : GSt, s1.c.labels = st.c.labels ++ [z] → ∀ l ∈ zs ++ cs.tail, l ∉ s1.c.labels := by
        intro s1 h1 l hl
        have hl0 : l ∉ st.c.labels := hng l (hsub.subset hl)
        have hlz : l ≠ z := by
          intro e; subst e
          exact hnd'.1 (List.mem_append.mpr ((List.mem_append.mp hl).imp id List.mem_of_mem_tail))
        rw [h1]; simp [hl0, hlz]
      have hpost : ∀ (s1 s3 : GSt), Inv s3 (ca_minus (P.erase z) (zs ++ cs.tail)) → Inv s3 (ca_minus P (z :: zs ++ cs)) := by
        intro _ s3 i3
        refine ca_Inv_sub i3 (ca_minus_nodup _ hinv.nd) ?_
        intro d hd
        obtain ⟨hd1, hd2⟩ := ca_mem_minus.mp hd
        simp only [List.cons_append, List.mem_append, List.mem_cons, not_or] at hd2
        refine ca_mem_minus.mpr ⟨(List.mem_erase_of_ne (by grind)).mpr hd1, ?_⟩
        simp only [List.mem_append, not_or]
        exact ⟨hd2.2.1, fun h => hd2.2.2 (List.mem_of_mem_tail h)⟩
      cases ended with
      | false =>
        unfold plusOneLoop
        apply ca_add hinv hk hz (by intro o ho; have := hc rfl; kmem)
        intro s1 h1 hc1 i1 k1
        refine (ih [] cs.tail (cs.headD cprev) true s1 _ _ i1 k1 (by intro l hl; cases hl) (by intro h; cases h)
          (fun _ => rfl) (hnd.sublist hsub) (hng2 s1 h1) (by simp)).mono ?_
        intro _ s3 ⟨i3, k3, hc3⟩
        exact ⟨hpost s1 s3 i3, k3.mono (by intro l hl; kmem), by omega⟩
      | true =>
        unfold plusOneLoop
        apply ca_add hinv hk hz (by intro o ho; cases ho)
        intro s1 h1 hc1 i1 k1
        refine (ih [] cs.tail cprev true s1 _ _ i1 k1 (by intro l hl; cases hl) (by intro h; cases h)
          (fun _ => rfl) (hnd.sublist hsub) (hng2 s1 h1) (by simp)).mono ?_
        intro _ s3 ⟨i3, k3, hc3⟩
        exact ⟨hpost s1 s3 i3, k3.mono (by intro l hl; kmem), by omega⟩

/-- `add_plus_one` once the result labels are there -/
def ca_plusOneRest (ins : List Label) (addOutputs bigEndian : Bool) (given : List Label) : Prog (List Label) := do
  let ins0 := revIf ins bigEndian
  let res0 := revIf given bigEndian
  let outLen := res0.length
  let carries ← freshLabels outLen res0 []
  match carries, ins0, res0 with
  | c0 :: cr, x0 :: xs, z0 :: zs =>
    .add ⟨c0, IFF, [x0]⟩ rfl (.add ⟨z0, NOT, [x0]⟩ rfl (do
      plusOneLoop xs zs cr c0 false
      if addOutputs then markAll given
      pure given))
  | _, _, _ => .fail "Py:IndexError"

theorem ca_addPlusOne_eq (ins : List Label) (rl : Option (List Label)) (ao be : Bool) :
    addPlusOne ins rl ao be = (match rl with
      | some l => pure l
      | none => freshPlain (ins.length + 1) []) >>= ca_plusOneRest ins ao be := rfl

theorem ca_nodup_reverse {l : List Label} : l.reverse.Nodup ↔ l.Nodup := (List.reverse_perm l).nodup_iff

theorem ca_nodup_revIf {l : List Label} {b : Bool} (h : l.Nodup) : (revIf l b).Nodup := by
  unfold revIf; split
  · exact ca_nodup_reverse.mpr h
  · exact h

theorem ca_ok_plusOneRest {ins given : List Label} {ao be : Bool} {st : GSt} {P K : List Label} (hinv : Inv st P)
    (hk : Kn st K) (hi : ∀ l ∈ ins, l ∈ K) (hine : ins ≠ []) (hgne : given ≠ []) (hgnd : given.Nodup)
    (hgng : ∀ l ∈ given, l ∉ st.c.labels) :
    Ok (ca_plusOneRest ins ao be given) st (GPost (ca_minus P given) K id (fun r => r = given)) := by
  unfold ca_plusOneRest
  simp only []
  have hmemz : ∀ l, l ∈ revIf given be ↔ l ∈ given := fun l => mem_revIf
  have hndz := ca_nodup_revIf (b := be) hgnd
  obtain ⟨ins0, hins0⟩ : ∃ i0, revIf ins be = i0 := ⟨_, rfl⟩
  obtain ⟨res0, hres0⟩ : ∃ r0, revIf given be = r0 := ⟨_, rfl⟩
  have hi0 : ∀ l ∈ ins0, l ∈ K := by intro l hl; rw [← hins0] at hl; exact hi l (mem_revIf.mp hl)
  have hine0 : ins0 ≠ [] := by rw [← hins0]; exact ca_revIf_ne hine
  have hgne0 : res0 ≠ [] := by rw [← hres0]; exact ca_revIf_ne hgne
  rw [hins0, hres0]
  rw [hres0] at hmemz hndz
  apply Ok.bind (ca_ok_freshLabels res0.length res0 [] st P K hinv hk)
  intro carries s1 ⟨hc1, _, k1, new, e, hlen, i1, hnr, _⟩
  simp only [List.nil_append] at e
  subst e
  obtain ⟨x0, xs, rfl⟩ := List.exists_cons_of_ne_nil hine0
  obtain ⟨z0, zs, rfl⟩ := List.exists_cons_of_ne_nil hgne0
  obtain ⟨c0, cr, rfl⟩ : ∃ c0 cr, carries = c0 :: cr := by
    cases carries with
    | nil => simp at hlen
    | cons a b => exact ⟨a, b, rfl⟩
  · simp only []
    have hndP1 := i1.nd
    have hndc : (c0 :: cr).Nodup := ca_nodup_reverse.mp (List.nodup_append.mp hndP1).1
    have hcP : ∀ c ∈ c0 :: cr, c ∉ P := fun c hc hp =>
      (List.nodup_append.mp hndP1).2.2 c (List.mem_reverse.mpr hc) c hp rfl
    have hcng : ∀ c ∈ c0 :: cr, c ∉ s1.c.labels := fun c hc =>
      (i1.pend c (List.mem_append_left _ (List.mem_reverse.mpr hc))).1
    have hzng : ∀ z ∈ z0 :: zs, z ∉ s1.c.labels := fun z hz => by rw [hc1]; exact hgng z ((hmemz z).mp hz)
    have hcz : ∀ c ∈ c0 :: cr, c ∉ z0 :: zs := fun c hc => (hnr c hc).1
    have hx0 : x0 ∈ K := hi0 x0 (by simp)
    apply ca_add i1 k1 (hcng c0 (by simp)) (by intro o ho; kmem)
    intro s2 h2 hc2 i2 k2
    have hz0c0 : z0 ≠ c0 := fun e => hcz c0 (by simp) (by simp [e])
    apply ca_add i2 k2 (by rw [h2]; simp [hzng z0 (by simp), hz0c0]) (by intro o ho; kmem)
    intro s3 h3 hc3 i3 k3
    have hndz' := List.nodup_cons.mp hndz
    have hndc' := List.nodup_cons.mp hndc
    apply Ok.bind (ca_ok_plusOneLoop zs xs cr c0 false s3 _ _ i3 k3 (by intro l hl; have := hi0 l (by simp [hl]); kmem)
      (by intro _; kmem) (by intro h; cases h) ?_ ?_ ?_)
    · intro _ s4 ⟨i4, k4, _⟩
      have hgK : ∀ l ∈ given, l ∈ K ++ [c0] ++ [z0] ++ zs := by
        intro l hl
        have := (hmemz l).mpr hl
        kmem
      have hfin : ∀ s5 : GSt, Inv s5 (ca_minus (((c0 :: cr).reverse ++ P).erase c0 |>.erase z0) (zs ++ cr)) →
          Kn s5 (K ++ [c0] ++ [z0] ++ zs) → Ok (pure given : Prog (List Label)) s5
            (GPost (ca_minus P given) K id (fun r => r = given)) := by
        intro s5 i5 k5
        refine Ok.ret ⟨ca_Inv_sub i5 (ca_minus_nodup _ hinv.nd) ?_, ?_, rfl⟩
        · intro d hd
          obtain ⟨hd1, hd2⟩ := ca_mem_minus.mp hd
          have hdz : d ∉ z0 :: zs := fun h => hd2 ((hmemz d).mp h)
          have hdc : d ∉ c0 :: cr := fun h => hcP d h hd1
          simp only [List.mem_cons, not_or] at hdz hdc
          refine ca_mem_minus.mpr ⟨?_, by simp only [List.mem_append, not_or]; exact ⟨hdz.2, hdc.2⟩⟩
          exact (List.mem_erase_of_ne hdz.1).mpr ((List.mem_erase_of_ne hdc.1).mpr (List.mem_append_right _ hd1))
        · intro l hl
          simp only [id] at hl
          rcases List.mem_append.mp hl with h | h
          · exact k5 l (by kmem)
          · exact k5 l (hgK l h)
      cases ao with
      | false =>
        simp only [Bool.false_eq_true, if_false]
        exact hfin _ i4 k4
      | true =>
        simp only [if_true]
        apply Ok.bind (ca_ok_markAll given s4 _ _ i4 k4 hgK)
        intro _ s5 ⟨_, _, i5, k5⟩
        exact hfin s5 i5 k5
    · refine List.nodup_append.mpr ⟨hndz'.2, hndc'.2, ?_⟩
      intro a ha b hb e
      subst e
      exact hcz a (by simp [hb]) (by simp [ha])
    · intro l hl
      rw [h3, h2]
      rcases List.mem_append.mp hl with h | h
      · have hl0 := hzng l (by simp [h])
        have hlc : l ≠ c0 := fun e => hcz c0 (by simp) (by simp [← e, h])
        have hlz : l ≠ z0 := fun e => hndz'.1 (e ▸ h)
        simp [hl0, hlc, hlz]
      · have hl0 := hcng l (by simp [h])
        have hlc : l ≠ c0 := fun e => hndc'.1 (e ▸ h)
        have hlz : l ≠ z0 := fun e => hcz l (by simp [h]) (by simp [e])
        simp [hl0, hlc, hlz]
    · simp only [List.length_cons] at hlen
      omega

/-- **`add_plus_one`** with result labels given by the caller: at least one operand bit, at least one result label
(any number: the result is truncated or zero-extended), the result labels are pairwise different and not gates.
They may be pending labels of the caller (then they are not pending afterwards) or any other strings: the
carry labels are drawn with the result labels as restrictions, so no collision with a label drawn here is
possible. -/
theorem ca_ok_addPlusOne_given {ins given : List Label} {ao be : Bool} {st : GSt} {P K : List Label} (hinv : Inv st P)
    (hk : Kn st K) (hi : ∀ l ∈ ins, l ∈ K) (hine : ins ≠ []) (hgne : given ≠ []) (hgnd : given.Nodup)
    (hgng : ∀ l ∈ given, l ∉ st.c.labels) :
    Ok (addPlusOne ins (some given) ao be) st (GPost (ca_minus P given) K id (fun r => r = given)) := by
  rw [ca_addPlusOne_eq]
  exact Ok.bind (Ok.ret (Q := fun a s => a = given ∧ s = st) ⟨rfl, rfl⟩)
    (fun a s ⟨e1, e2⟩ => by subst e1; subst e2; exact ca_ok_plusOneRest hinv hk hi hine hgne hgnd hgng)

/-- **`add_plus_one`** with generated result labels: at least one operand bit -/
theorem ca_ok_addPlusOne_none {ins : List Label} {ao be : Bool} {st : GSt} {P K : List Label} (hinv : Inv st P)
    (hk : Kn st K) (hi : ∀ l ∈ ins, l ∈ K) (hine : ins ≠ []) :
    Ok (addPlusOne ins none ao be) st (GPost P K id (fun r => r.length = ins.length + 1)) := by
  rw [ca_addPlusOne_eq]
  apply Ok.bind (ca_ok_freshPlain (ins.length + 1) [] st P K hinv hk)
  intro given s1 ⟨hc1, _, k1, new, e, hlen, i1, _⟩
  simp only [List.nil_append] at e
  subst e
  have hnd := List.nodup_append.mp i1.nd
  refine (ca_ok_plusOneRest (ao := ao) (be := be) i1 k1 hi hine (by intro e; subst e; simp at hlen)
    (ca_nodup_reverse.mp hnd.1)
    (fun l hl => (i1.pend l (List.mem_append_left _ (List.mem_reverse.mpr hl))).1)).mono ?_
  intro r s2 ⟨i2, k2, e⟩
  refine ⟨ca_Inv_sub i2 hinv.nd ?_, k2, by rw [e]; exact hlen⟩
  intro d hd
  exact ca_mem_minus.mpr ⟨List.mem_append_right _ hd, fun h => hnd.2.2 d (List.mem_reverse.mpr h) d hd rfl⟩

/-! ## `add_if_then_else` -/

/-- `add_if_then_else` once the result label is there -/
def ca_iteRest (i t e : Label) (addOutputs : Bool) (res : Label) : Prog Label := do
  let tmp ← freshLabels 3 [res] []
  match tmp with
  | [t0, t1, t2] =>
    .add ⟨t0, AND, [i, t]⟩ rfl (.add ⟨t1, NOT, [i]⟩ rfl (.add ⟨t2, AND, [t1, e]⟩ rfl
      (.add ⟨res, OR, [t0, t2]⟩ rfl (if addOutputs then .mark res (pure res) else pure res))))
  | _ => .fail "Py:IndexError"

theorem ca_addIfThenElse_eq (i t e : Label) (rl : Option Label) (ao : Bool) :
    addIfThenElse i t e rl ao = (match rl with
      | some l => pure l
      | none => .fresh [] (fun l => pure l)) >>= ca_iteRest i t e ao := rfl

/-- the full contract: besides the usual one, the counter only grows and every label that is neither a gate nor
drawn later (`ca_NF`) — other than the result label — still is no gate afterwards -/
theorem ca_ok_iteRest {i t e res : Label} {ao : Bool} {st : GSt} {P K : List Label} (hinv : Inv st P) (hk : Kn st K)
    (hi : i ∈ K) (ht : t ∈ K) (he : e ∈ K) (hres : res ∉ st.c.labels) :
    Ok (ca_iteRest i t e ao res) st (fun a st' => a = res ∧ Inv st' (ca_minus P [res]) ∧ Kn st' (K ++ [res]) ∧
      st.ctr ≤ st'.ctr ∧ ∀ r, r ∉ st.c.labels → ca_NF st r → r ≠ res → r ∉ st'.c.labels) := by
  unfold ca_iteRest
  apply Ok.bind (ca_ok_freshLabels 3 [res] [] st P K hinv hk)
  intro tmp s1 ⟨hc1, hctr1, k1, new, e1, hlen, i1, hnr, hnf⟩
  simp only [List.nil_append] at e1
  subst e1
  match tmp, hlen with
  | [t0, t1, t2], _ =>
    simp only []
    have hnd : [t2, t1, t0].Nodup ∧ P.Nodup ∧ ∀ a ∈ [t2, t1, t0], ∀ b ∈ P, a ≠ b := List.nodup_append.mp i1.nd
    have h01 : t0 ≠ t1 := by have := hnd.1; simp only [List.nodup_cons, List.mem_cons, List.not_mem_nil, or_false, not_or] at this; grind
    have h02 : t0 ≠ t2 := by have := hnd.1; simp only [List.nodup_cons, List.mem_cons, List.not_mem_nil, or_false, not_or] at this; grind
    have h12 : t1 ≠ t2 := by have := hnd.1; simp only [List.nodup_cons, List.mem_cons, List.not_mem_nil, or_false, not_or] at this; grind
    have hr0 : res ≠ t0 := fun e => (hnr t0 (by simp)).1 (by simp [e])
    have hr1 : res ≠ t1 := fun e => (hnr t1 (by simp)).1 (by simp [e])
    have hr2 : res ≠ t2 := fun e => (hnr t2 (by simp)).1 (by simp [e])
    have hrev : ∀ x ∈ [t0, t1, t2], x ∈ [t0, t1, t2].reverse := fun x hx => List.mem_reverse.mpr hx
    have hng : ∀ x ∈ [t0, t1, t2], x ∉ s1.c.labels := fun x hx => (i1.pend x (List.mem_append_left _ (hrev x hx))).1
    have htP : ∀ x ∈ [t0, t1, t2], x ∉ P := fun x hx hp => hnd.2.2 x (hrev x hx) x hp rfl
    apply ca_add i1 k1 (hng t0 (by simp)) (by intro o ho; kmem)
    intro s2 h2 hc2 i2 k2
    apply ca_add i2 k2 (by rw [h2]; simp [hng t1 (by simp), Ne.symm h01]) (by intro o ho; kmem)
    intro s3 h3 hc3 i3 k3
    apply ca_add i3 k3 (by rw [h3, h2]; simp [hng t2 (by simp), Ne.symm h02, Ne.symm h12]) (by intro o ho; kmem)
    intro s4 h4 hc4 i4 k4
    apply ca_add i4 k4 (by rw [h4, h3, h2, hc1]; simp [hres, hr0, hr1, hr2]) (by intro o ho; kmem)
    intro s5 h5 hc5 i5 k5
    have hfin : ∀ s6 : GSt, s6.c.labels = s5.c.labels → s6.ctr = s5.ctr → Ok (Prog.pure res : Prog Label) s6
        (fun a st' => a = res ∧ Inv st' (ca_minus P [res]) ∧ Kn st' (K ++ [res]) ∧
          st.ctr ≤ st'.ctr ∧ ∀ r, r ∉ st.c.labels → ca_NF st r → r ≠ res → r ∉ st'.c.labels) := by
      intro s6 hl6 hc6
      have i6 : Inv s6 ((((([t2, t1, t0] ++ P).erase t0).erase t1).erase t2).erase res) :=
        ⟨i5.nd, fun d hd => by rw [hl6, hc6]; exact i5.pend d hd⟩
      refine Ok.pure ⟨rfl, ca_Inv_sub i6 (ca_minus_nodup _ hinv.nd) ?_, ?_, by omega, ?_⟩
      · intro d hd
        obtain ⟨hd1, hd2⟩ := ca_mem_minus.mp hd
        have hdr : d ≠ res := by simpa using hd2
        have hd0 : d ≠ t0 := fun e => htP t0 (by simp) (e ▸ hd1)
        have hd1' : d ≠ t1 := fun e => htP t1 (by simp) (e ▸ hd1)
        have hd2' : d ≠ t2 := fun e => htP t2 (by simp) (e ▸ hd1)
        exact (List.mem_erase_of_ne hdr).mpr ((List.mem_erase_of_ne hd2').mpr ((List.mem_erase_of_ne hd1').mpr
          ((List.mem_erase_of_ne hd0).mpr (List.mem_append_right _ hd1))))
      · intro l hl
        rw [hl6]
        exact k5 l (by kmem)
      · intro r hr hnfr hrr
        have hrn : r ∉ [t0, t1, t2] := hnf r hnfr
        simp only [List.mem_cons, List.not_mem_nil, or_false, not_or] at hrn
        rw [hl6, h5, h4, h3, h2, hc1]
        simp [hr, hrr, hrn.1, hrn.2.1, hrn.2.2]
    cases ao with
    | false =>
      simp only [Bool.false_eq_true, if_false]
      exact hfin s5 rfl rfl
    | true =>
      simp only [if_true]
      apply ca_mark i5 k5 (by kmem)
      intro s6 hl6 hc6 _ _
      exact hfin s6 hl6 hc6

/-- **`add_if_then_else`** with a result label given by the caller: it must not be a gate.  It may be a pending
label of the caller or any other string: the three auxiliary labels are drawn with it as a restriction.
The post-condition also says that the counter only grows and which labels still are not gates. -/
theorem ca_ok_addIfThenElse_some_fr {i t e res : Label} {ao : Bool} {st : GSt} {P K : List Label} (hinv : Inv st P)
    (hk : Kn st K) (hi : i ∈ K) (ht : t ∈ K) (he : e ∈ K) (hres : res ∉ st.c.labels) :
    Ok (addIfThenElse i t e (some res) ao) st (fun a st' => a = res ∧ Inv st' (ca_minus P [res]) ∧ Kn st' (K ++ [res]) ∧
      st.ctr ≤ st'.ctr ∧ ∀ r, r ∉ st.c.labels → ca_NF st r → r ≠ res → r ∉ st'.c.labels) := by
  rw [ca_addIfThenElse_eq]
  exact Ok.bind (Ok.ret (Q := fun a s => a = res ∧ s = st) ⟨rfl, rfl⟩)
    (fun a s ⟨e1, e2⟩ => by subst e1; subst e2; exact ca_ok_iteRest hinv hk hi ht he hres)

/-- the same in contract form -/
theorem ca_ok_addIfThenElse_some {i t e res : Label} {ao : Bool} {st : GSt} {P K : List Label} (hinv : Inv st P)
    (hk : Kn st K) (hi : i ∈ K) (ht : t ∈ K) (he : e ∈ K) (hres : res ∉ st.c.labels) :
    Ok (addIfThenElse i t e (some res) ao) st (GPost (ca_minus P [res]) K (fun l => [l]) (fun a => a = res)) := by
  refine (ca_ok_addIfThenElse_some_fr hinv hk hi ht he hres).mono ?_
  intro a s ⟨e, i1, k1, _, _⟩
  subst e
  exact ⟨i1, k1, rfl⟩

/-- **`add_if_then_else`** with a generated result label -/
theorem ca_ok_addIfThenElse_none {i t e : Label} {ao : Bool} {st : GSt} {P K : List Label} (hinv : Inv st P)
    (hk : Kn st K) (hi : i ∈ K) (ht : t ∈ K) (he : e ∈ K) :
    Ok (addIfThenElse i t e none ao) st (GPost P K (fun l => [l]) (fun _ => True)) := by
  rw [ca_addIfThenElse_eq]
  show Ok (Prog.fresh [] (fun l => Prog.pure l) >>= ca_iteRest i t e ao) st _
  apply Ok.bind (Q := fun l s => Inv s (l :: P) ∧ Kn s K) (ca_fresh hinv hk (fun l s _ _ i1 k1 _ _ => Ok.pure ⟨i1, k1⟩))
  intro res s1 ⟨i1, k1⟩
  refine (ca_ok_iteRest (ao := ao) i1 k1 hi ht he (i1.pend res (by simp)).1).mono ?_
  intro a s2 ⟨e, i2, k2, _, _⟩
  subst e
  refine ⟨ca_Inv_sub i2 hinv.nd ?_, k2, trivial⟩
  intro d hd
  have hne : d ≠ a := fun e => (List.nodup_cons.mp i1.nd).1 (e ▸ hd)
  exact ca_mem_minus.mpr ⟨by simp [hd], by simpa using hne⟩

/-- **`add_if_then_else`**, both ways to get the result label at once -/
theorem ca_ok_addIfThenElse {i t e : Label} {rl : Option Label} {ao : Bool} {st : GSt} {P K : List Label} (hinv : Inv st P)
    (hk : Kn st K) (hi : i ∈ K) (ht : t ∈ K) (he : e ∈ K) (hres : ∀ res, rl = some res → res ∉ st.c.labels) :
    Ok (addIfThenElse i t e rl ao) st (GPost (ca_minus P rl.toList) K (fun l => [l]) (fun a => ∀ res, rl = some res → a = res)) := by
  cases rl with
  | none =>
    refine (ca_ok_addIfThenElse_none hinv hk hi ht he).mono ?_
    intro a s ⟨i1, k1, _⟩
    exact ⟨by simpa [ca_minus_nil] using i1, k1, fun _ h => by cases h⟩
  | some res =>
    refine (ca_ok_addIfThenElse_some hinv hk hi ht he (hres res rfl)).mono ?_
    intro a s ⟨i1, k1, e⟩
    exact ⟨by simpa using i1, k1, fun _ h => by cases h; exact e⟩

/-! ## `add_pairwise_if_then_else` -/

theorem ca_iteLoop_stop (ao : Bool) (is ts es rs : List Label) (h : is = [] ∨ ts = [] ∨ es = [] ∨ rs = []) :
    iteLoop ao is ts es rs = pure () := by
  unfold iteLoop
  split
  · simp at h
  · rfl

theorem ca_minus_minus_sub {P rs : List Label} {r d : Label} (hd : d ∈ ca_minus P (r :: rs)) :
    d ∈ ca_minus (ca_minus P [r]) rs := by
  obtain ⟨h1, h2⟩ := ca_mem_minus.mp hd
  simp only [List.mem_cons, not_or] at h2
  exact ca_mem_minus.mpr ⟨ca_mem_minus.mpr ⟨h1, by simpa using h2.1⟩, h2.2⟩

/-- the loop of `add_pairwise_if_then_else`: the result labels are pairwise different, not gates, and not labels
drawn later (the auxiliary labels of one position are drawn with only *that* position's result label as a
restriction, so they could collide with the result label of a later position).  The loop stops at the
shortest list; if there are operands for every result label, all result labels are gates afterwards. -/
theorem ca_ok_iteLoop (ao : Bool) : ∀ (rs is ts es : List Label) (st : GSt) (P K : List Label), Inv st P → Kn st K →
    (∀ l ∈ is, l ∈ K) → (∀ l ∈ ts, l ∈ K) → (∀ l ∈ es, l ∈ K) → rs.Nodup → (∀ r ∈ rs, r ∉ st.c.labels ∧ ca_NF st r) →
    Ok (iteLoop ao is ts es rs) st (fun _ st' => Inv st' (ca_minus P rs) ∧ Kn st' K ∧ st.ctr ≤ st'.ctr ∧
      (rs.length ≤ is.length → rs.length ≤ ts.length → rs.length ≤ es.length → Kn st' rs) ∧
      ∀ x, x ∉ st.c.labels → ca_NF st x → x ∉ rs → x ∉ st'.c.labels) := by
  intro rs
  induction rs with
  | nil =>
    intro is ts es st P K hinv hk _ _ _ _ _
    rw [ca_iteLoop_stop ao is ts es [] (by simp)]
    exact Ok.ret ⟨by simpa [ca_minus_nil] using hinv, hk, Nat.le_refl _, fun _ _ _ l hl => (by cases hl), fun x hx _ _ => hx⟩
  | cons r rs ih =>
    intro is ts es st P K hinv hk hi ht he hnd hres
    have hstop : (is = [] ∨ ts = [] ∨ es = [] ∨ r :: rs = []) →
        Ok (iteLoop ao is ts es (r :: rs)) st (fun _ st' => Inv st' (ca_minus P (r :: rs)) ∧ Kn st' K ∧ st.ctr ≤ st'.ctr ∧
          ((r :: rs).length ≤ is.length → (r :: rs).length ≤ ts.length → (r :: rs).length ≤ es.length → Kn st' (r :: rs)) ∧
          ∀ x, x ∉ st.c.labels → ca_NF st x → x ∉ r :: rs → x ∉ st'.c.labels) := by
      intro h
      rw [ca_iteLoop_stop ao is ts es _ h]
      refine Ok.ret ⟨ca_Inv_sub hinv (ca_minus_nodup _ hinv.nd) (fun d hd => (ca_mem_minus.mp hd).1), hk, Nat.le_refl _,
        ?_, fun x hx _ _ => hx⟩
      intro h1 h2 h3
      rcases h with h | h | h | h
      · subst h; simp at h1
      · subst h; simp at h2
      · subst h; simp at h3
      · cases h
    cases is with
    | nil => exact hstop (by simp)
    | cons i is =>
    cases ts with
    | nil => exact hstop (by simp)
    | cons t ts =>
    cases es with
    | nil => exact hstop (by simp)
    | cons e es =>
      unfold iteLoop
      have hnd' := List.nodup_cons.mp hnd
      apply Ok.bind (ca_ok_addIfThenElse_some_fr (ao := ao) hinv hk (hi i (by simp)) (ht t (by simp)) (he e (by simp))
        (hres r (by simp)).1)
      intro a s1 ⟨_, i1, k1, hc1, hfr1⟩
      refine (ih is ts es s1 _ _ i1 k1 (by intro l hl; have := hi l (by simp [hl]); kmem)
        (by intro l hl; have := ht l (by simp [hl]); kmem) (by intro l hl; have := he l (by simp [hl]); kmem) hnd'.2 ?_).mono ?_
      · intro r' hr'
        have h := hres r' (by simp [hr'])
        exact ⟨hfr1 r' h.1 h.2 (fun e => hnd'.1 (e ▸ hr')), ca_NF_mono hc1 h.2⟩
      · intro _ s2 ⟨i2, k2, hc2, hall, hfr2⟩
        refine ⟨ca_Inv_sub i2 (ca_minus_nodup _ hinv.nd) (fun d hd => ca_minus_minus_sub hd),
          k2.mono (by intro l hl; kmem), by omega, ?_, ?_⟩
        · intro h1 h2 h3
          simp only [List.length_cons] at h1 h2 h3
          have := hall (by omega) (by omega) (by omega)
          intro l hl
          rcases List.mem_cons.mp hl with rfl | hl
          · exact k2 l (by kmem)
          · exact this l hl
        · intro x hx hnf hxr
          simp only [List.mem_cons, not_or] at hxr
          exact hfr2 x (hfr1 x hx hnf hxr.1) (ca_NF_mono hc1 hnf) hxr.2

/-- `add_pairwise_if_then_else` once the result labels are there -/
def ca_pairIteRest (is ts es : List Label) (addOutputs : Bool) (res : List Label) : Prog (List Label) :=
  if res.length != is.length then .fail "PairwiseIfThenElseDifferentShapesError" else do
    iteLoop addOutputs is ts es res
    pure res

theorem ca_addPairwiseIfThenElse_eq (is ts es : List Label) (rl : Option (List Label)) (ao : Bool) :
    addPairwiseIfThenElse is ts es rl ao =
      if is.length != ts.length || ts.length != es.length then .fail "PairwiseIfThenElseDifferentShapesError" else
        (match rl with
          | some l => pure l
          | none => freshPlain is.length []) >>= ca_pairIteRest is ts es ao := rfl

theorem ca_ok_pairIteRest {is ts es res : List Label} {ao : Bool} {st : GSt} {P K : List Label} (hinv : Inv st P)
    (hk : Kn st K) (hi : ∀ l ∈ is, l ∈ K) (ht : ∀ l ∈ ts, l ∈ K) (he : ∀ l ∈ es, l ∈ K)
    (h1 : is.length = ts.length) (h2 : ts.length = es.length) (h3 : res.length = is.length)
    (hnd : res.Nodup) (hres : ∀ r ∈ res, r ∉ st.c.labels ∧ ca_NF st r) :
    Ok (ca_pairIteRest is ts es ao res) st (GPost (ca_minus P res) K id (fun r => r = res)) := by
  unfold ca_pairIteRest
  rw [if_neg (by simp [h3])]
  apply Ok.bind (ca_ok_iteLoop ao res is ts es st P K hinv hk hi ht he hnd hres)
  intro _ s1 ⟨i1, k1, _, hall, _⟩
  refine Ok.ret ⟨i1, ?_, rfl⟩
  have := hall (by omega) (by omega) (by omega)
  intro l hl
  rcases List.mem_append.mp hl with h | h
  · exact k1 l h
  · exact this l h

/-- **`add_pairwise_if_then_else`** with result labels given by the caller: equal lengths; the result labels are
pairwise different, not gates, and — this is necessary, see `NOTES.md` — none of them is a label that is drawn
later (`ca_NF`: it is not `"new_" ++ hex32 j` for a counter value `j` from the current one on).  Pending labels of
the caller qualify (`ca_NF_pend`). -/
theorem ca_ok_addPairwiseIfThenElse_given {is ts es given : List Label} {ao : Bool} {st : GSt} {P K : List Label}
    (hinv : Inv st P) (hk : Kn st K) (hi : ∀ l ∈ is, l ∈ K) (ht : ∀ l ∈ ts, l ∈ K) (he : ∀ l ∈ es, l ∈ K)
    (h1 : is.length = ts.length) (h2 : ts.length = es.length) (h3 : given.length = is.length)
    (hnd : given.Nodup) (hres : ∀ r ∈ given, r ∉ st.c.labels ∧ ca_NF st r) :
    Ok (addPairwiseIfThenElse is ts es (some given) ao) st (GPost (ca_minus P given) K id (fun r => r = given)) := by
  rw [ca_addPairwiseIfThenElse_eq, if_neg (by simp [h1, h2])]
  exact Ok.bind (Ok.ret (Q := fun a s => a = given ∧ s = st) ⟨rfl, rfl⟩)
    (fun a s ⟨e1, e2⟩ => by subst e1; subst e2; exact ca_ok_pairIteRest hinv hk hi ht he h1 h2 h3 hnd hres)

/-- **`add_pairwise_if_then_else`** with generated result labels: equal lengths -/
theorem ca_ok_addPairwiseIfThenElse_none {is ts es : List Label} {ao : Bool} {st : GSt} {P K : List Label}
    (hinv : Inv st P) (hk : Kn st K) (hi : ∀ l ∈ is, l ∈ K) (ht : ∀ l ∈ ts, l ∈ K) (he : ∀ l ∈ es, l ∈ K)
    (h1 : is.length = ts.length) (h2 : ts.length = es.length) :
    Ok (addPairwiseIfThenElse is ts es none ao) st (GPost P K id (fun r => r.length = is.length)) := by
  rw [ca_addPairwiseIfThenElse_eq, if_neg (by simp [h1, h2])]
  apply Ok.bind (ca_ok_freshPlain is.length [] st P K hinv hk)
  intro given s1 ⟨hc1, _, k1, new, e, hlen, i1, _⟩
  simp only [List.nil_append] at e
  subst e
  have hnd := List.nodup_append.mp i1.nd
  have hmem : ∀ l ∈ given, l ∈ given.reverse ++ P := fun l hl => List.mem_append_left _ (List.mem_reverse.mpr hl)
  refine (ca_ok_pairIteRest (ao := ao) i1 k1 hi ht he h1 h2 hlen (ca_nodup_reverse.mp hnd.1)
    (fun l hl => ⟨(i1.pend l (hmem l hl)).1, ca_NF_pend i1 (hmem l hl)⟩)).mono ?_
  intro r s2 ⟨i2, k2, e⟩
  refine ⟨ca_Inv_sub i2 hinv.nd ?_, k2, by rw [e]; exact hlen⟩
  intro d hd
  exact ca_mem_minus.mpr ⟨List.mem_append_right _ hd, fun h => hnd.2.2 d (List.mem_reverse.mpr h) d hd rfl⟩

/-! ## `add_pairwise_xor` -/

theorem ca_xorLoop_stop (ao : Bool) (xs ys rs : List Label) (h : xs = [] ∨ ys = [] ∨ rs = []) :
    xorLoop ao xs ys rs = pure () := by
  unfold xorLoop
  split
  · simp at h
  · rfl

/-- the loop of `add_pairwise_xor`: the result labels are pairwise different and not gates -/
theorem ca_ok_xorLoop (ao : Bool) : ∀ (rs xs ys : List Label) (st : GSt) (P K : List Label), Inv st P → Kn st K →
    (∀ l ∈ xs, l ∈ K) → (∀ l ∈ ys, l ∈ K) → rs.Nodup → (∀ r ∈ rs, r ∉ st.c.labels) →
    Ok (xorLoop ao xs ys rs) st (fun _ st' => Inv st' (ca_minus P rs) ∧ Kn st' K ∧ st'.ctr = st.ctr ∧
      (rs.length ≤ xs.length → rs.length ≤ ys.length → Kn st' rs)) := by
  intro rs
  induction rs with
  | nil =>
    intro xs ys st P K hinv hk _ _ _ _
    rw [ca_xorLoop_stop ao xs ys [] (by simp)]
    exact Ok.ret ⟨by simpa [ca_minus_nil] using hinv, hk, rfl, fun _ _ l hl => (by cases hl)⟩
  | cons r rs ih =>
    intro xs ys st P K hinv hk hx hy hnd hres
    have hstop : (xs = [] ∨ ys = [] ∨ r :: rs = []) →
        Ok (xorLoop ao xs ys (r :: rs)) st (fun _ st' => Inv st' (ca_minus P (r :: rs)) ∧ Kn st' K ∧ st'.ctr = st.ctr ∧
          ((r :: rs).length ≤ xs.length → (r :: rs).length ≤ ys.length → Kn st' (r :: rs))) := by
      intro h
      rw [ca_xorLoop_stop ao xs ys _ h]
      refine Ok.ret ⟨ca_Inv_sub hinv (ca_minus_nodup _ hinv.nd) (fun d hd => (ca_mem_minus.mp hd).1), hk, rfl, ?_⟩
      intro h1 h2
      rcases h with h | h | h
      · subst h; simp at h1
      · subst h; simp at h2
      · cases h
    cases xs with
    | nil => exact hstop (by simp)
    | cons x xs =>
    cases ys with
    | nil => exact hstop (by simp)
    | cons y ys =>
      unfold xorLoop
      have hnd' := List.nodup_cons.mp hnd
      apply ca_add hinv hk (hres r (by simp)) (by intro o ho; have := hx x (by simp); have := hy y (by simp); kmem)
      intro s1 hl1 hc1 i1 k1
      have hrec : ∀ s2 : GSt, s2.c.labels = s1.c.labels → s2.ctr = s1.ctr → Inv s2 (P.erase r) → Kn s2 (K ++ [r]) →
          Ok (xorLoop ao xs ys rs) s2 (fun _ st' => Inv st' (ca_minus P (r :: rs)) ∧ Kn st' K ∧ st'.ctr = st.ctr ∧
            ((r :: rs).length ≤ (x :: xs).length → (r :: rs).length ≤ (y :: ys).length → Kn st' (r :: rs))) := by
        intro s2 hl2 hc2 i2 k2
        refine (ih xs ys s2 _ _ i2 k2 (by intro l hl; have := hx l (by simp [hl]); kmem)
          (by intro l hl; have := hy l (by simp [hl]); kmem) hnd'.2 ?_).mono ?_
        · intro r' hr'
          rw [hl2, hl1]
          have : r' ≠ r := fun e => hnd'.1 (e ▸ hr')
          simp [hres r' (by simp [hr']), this]
        · intro _ s3 ⟨i3, k3, hc3, hall⟩
          refine ⟨ca_Inv_sub i3 (ca_minus_nodup _ hinv.nd) ?_, k3.mono (by intro l hl; kmem), by omega, ?_⟩
          · intro d hd
            obtain ⟨hd1, hd2⟩ := ca_mem_minus.mp hd
            simp only [List.mem_cons, not_or] at hd2
            exact ca_mem_minus.mpr ⟨(List.mem_erase_of_ne hd2.1).mpr hd1, hd2.2⟩
          · intro h1 h2
            simp only [List.length_cons] at h1 h2
            have := hall (by omega) (by omega)
            intro l hl
            rcases List.mem_cons.mp hl with rfl | hl
            · exact k3 l (by kmem)
            · exact this l hl
      cases ao with
      | false =>
        simp only [Bool.false_eq_true, if_false]
        exact hrec s1 rfl rfl i1 k1
      | true =>
        simp only [if_true]
        apply ca_mark i1 k1 (by kmem)
        intro s2 hl2 hc2 i2 k2
        exact hrec s2 hl2 hc2 i2 k2

/-- `add_pairwise_xor` once the result labels are there -/
def ca_pairXorRest (xs ys : List Label) (addOutputs : Bool) (res : List Label) : Prog (List Label) :=
  if res.length != xs.length then .fail "PairwiseXorDifferentShapesError" else do
    xorLoop addOutputs xs ys res
    pure res

theorem ca_addPairwiseXor_eq (xs ys : List Label) (rl : Option (List Label)) (ao : Bool) :
    addPairwiseXor xs ys rl ao =
      if xs.length != ys.length then .fail "PairwiseXorDifferentShapesError" else
        (match rl with
          | some l => pure l
          | none => freshPlain xs.length []) >>= ca_pairXorRest xs ys ao := rfl

theorem ca_ok_pairXorRest {xs ys res : List Label} {ao : Bool} {st : GSt} {P K : List Label} (hinv : Inv st P)
    (hk : Kn st K) (hx : ∀ l ∈ xs, l ∈ K) (hy : ∀ l ∈ ys, l ∈ K) (h1 : xs.length = ys.length) (h3 : res.length = xs.length)
    (hnd : res.Nodup) (hres : ∀ r ∈ res, r ∉ st.c.labels) :
    Ok (ca_pairXorRest xs ys ao res) st (GPost (ca_minus P res) K id (fun r => r = res)) := by
  unfold ca_pairXorRest
  rw [if_neg (by simp [h3])]
  apply Ok.bind (ca_ok_xorLoop ao res xs ys st P K hinv hk hx hy hnd hres)
  intro _ s1 ⟨i1, k1, _, hall⟩
  refine Ok.ret ⟨i1, ?_, rfl⟩
  have := hall (by omega) (by omega)
  intro l hl
  rcases List.mem_append.mp hl with h | h
  · exact k1 l h
  · exact this l h

/-- **`add_pairwise_xor`** with result labels given by the caller: equal lengths; the result labels are pairwise
different and not gates (nothing is drawn, so nothing else is needed; with `add_outputs` every result label is
marked right after its gate was added) -/
theorem ca_ok_addPairwiseXor_given {xs ys given : List Label} {ao : Bool} {st : GSt} {P K : List Label}
    (hinv : Inv st P) (hk : Kn st K) (hx : ∀ l ∈ xs, l ∈ K) (hy : ∀ l ∈ ys, l ∈ K)
    (h1 : xs.length = ys.length) (h3 : given.length = xs.length) (hnd : given.Nodup) (hres : ∀ r ∈ given, r ∉ st.c.labels) :
    Ok (addPairwiseXor xs ys (some given) ao) st (GPost (ca_minus P given) K id (fun r => r = given)) := by
  rw [ca_addPairwiseXor_eq, if_neg (by simp [h1])]
  exact Ok.bind (Ok.ret (Q := fun a s => a = given ∧ s = st) ⟨rfl, rfl⟩)
    (fun a s ⟨e1, e2⟩ => by subst e1; subst e2; exact ca_ok_pairXorRest hinv hk hx hy h1 h3 hnd hres)

/-- **`add_pairwise_xor`** with generated result labels: equal lengths -/
theorem ca_ok_addPairwiseXor_none {xs ys : List Label} {ao : Bool} {st : GSt} {P K : List Label}
    (hinv : Inv st P) (hk : Kn st K) (hx : ∀ l ∈ xs, l ∈ K) (hy : ∀ l ∈ ys, l ∈ K) (h1 : xs.length = ys.length) :
    Ok (addPairwiseXor xs ys none ao) st (GPost P K id (fun r => r.length = xs.length)) := by
  rw [ca_addPairwiseXor_eq, if_neg (by simp [h1])]
  apply Ok.bind (ca_ok_freshPlain xs.length [] st P K hinv hk)
  intro given s1 ⟨hc1, _, k1, new, e, hlen, i1, _⟩
  simp only [List.nil_append] at e
  subst e
  have hnd := List.nodup_append.mp i1.nd
  have hmem : ∀ l ∈ given, l ∈ given.reverse ++ P := fun l hl => List.mem_append_left _ (List.mem_reverse.mpr hl)
  refine (ca_ok_pairXorRest (ao := ao) i1 k1 hx hy h1 hlen (ca_nodup_reverse.mp hnd.1)
    (fun l hl => (i1.pend l (hmem l hl)).1)).mono ?_
  intro r s2 ⟨i2, k2, e⟩
  refine ⟨ca_Inv_sub i2 hinv.nd ?_, k2, by rw [e]; exact hlen⟩
  intro d hd
  exact ca_mem_minus.mpr ⟨List.mem_append_right _ hd, fun h => hnd.2.2 d (List.mem_reverse.mpr h) d hd rfl⟩

/-! ## the contracts with the optional argument as it is passed -/

/-- **`add_plus_one`** -/
theorem ca_ok_addPlusOne {ins : List Label} {rl : Option (List Label)} {ao be : Bool} {st : GSt} {P K : List Label}
    (hinv : Inv st P) (hk : Kn st K) (hi : ∀ l ∈ ins, l ∈ K) (hine : ins ≠ [])
    (hrl : ∀ g, rl = some g → g ≠ [] ∧ g.Nodup ∧ ∀ l ∈ g, l ∉ st.c.labels) :
    Ok (addPlusOne ins rl ao be) st (GPost (ca_minus P (rl.getD [])) K id
      (fun r => (∀ g, rl = some g → r = g) ∧ (rl = none → r.length = ins.length + 1))) := by
  cases rl with
  | none =>
    refine (ca_ok_addPlusOne_none hinv hk hi hine).mono ?_
    intro a s ⟨i1, k1, h⟩
    exact ⟨by simpa [ca_minus_nil] using i1, k1, fun _ h' => (by cases h'), fun _ => h⟩
  | some g =>
    obtain ⟨h1, h2, h3⟩ := hrl g rfl
    refine (ca_ok_addPlusOne_given hinv hk hi hine h1 h2 h3).mono ?_
    intro a s ⟨i1, k1, e⟩
    exact ⟨by simpa using i1, k1, fun _ h' => (by cases h'; exact e), fun h' => by cases h'⟩

/-- **`add_pairwise_if_then_else`** -/
theorem ca_ok_addPairwiseIfThenElse {is ts es : List Label} {rl : Option (List Label)} {ao : Bool} {st : GSt}
    {P K : List Label} (hinv : Inv st P) (hk : Kn st K) (hi : ∀ l ∈ is, l ∈ K) (ht : ∀ l ∈ ts, l ∈ K) (he : ∀ l ∈ es, l ∈ K)
    (h1 : is.length = ts.length) (h2 : ts.length = es.length)
    (hrl : ∀ g, rl = some g → g.length = is.length ∧ g.Nodup ∧ ∀ l ∈ g, l ∉ st.c.labels ∧ ca_NF st l) :
    Ok (addPairwiseIfThenElse is ts es rl ao) st (GPost (ca_minus P (rl.getD [])) K id
      (fun r => (∀ g, rl = some g → r = g) ∧ r.length = is.length)) := by
  cases rl with
  | none =>
    refine (ca_ok_addPairwiseIfThenElse_none hinv hk hi ht he h1 h2).mono ?_
    intro a s ⟨i1, k1, h⟩
    exact ⟨by simpa [ca_minus_nil] using i1, k1, fun _ h' => (by cases h'), h⟩
  | some g =>
    obtain ⟨h3, h4, h5⟩ := hrl g rfl
    refine (ca_ok_addPairwiseIfThenElse_given hinv hk hi ht he h1 h2 h3 h4 h5).mono ?_
    intro a s ⟨i1, k1, e⟩
    exact ⟨by simpa using i1, k1, fun _ h' => (by cases h'; exact e), by rw [e]; exact h3⟩

/-- **`add_pairwise_xor`** -/
theorem ca_ok_addPairwiseXor {xs ys : List Label} {rl : Option (List Label)} {ao : Bool} {st : GSt}
    {P K : List Label} (hinv : Inv st P) (hk : Kn st K) (hx : ∀ l ∈ xs, l ∈ K) (hy : ∀ l ∈ ys, l ∈ K)
    (h1 : xs.length = ys.length)
    (hrl : ∀ g, rl = some g → g.length = xs.length ∧ g.Nodup ∧ ∀ l ∈ g, l ∉ st.c.labels) :
    Ok (addPairwiseXor xs ys rl ao) st (GPost (ca_minus P (rl.getD [])) K id
      (fun r => (∀ g, rl = some g → r = g) ∧ r.length = xs.length)) := by
  cases rl with
  | none =>
    refine (ca_ok_addPairwiseXor_none hinv hk hx hy h1).mono ?_
    intro a s ⟨i1, k1, h⟩
    exact ⟨by simpa [ca_minus_nil] using i1, k1, fun _ h' => (by cases h'), h⟩
  | some g =>
    obtain ⟨h3, h4, h5⟩ := hrl g rfl
    refine (ca_ok_addPairwiseXor_given hinv hk hx hy h1 h3 h4 h5).mono ?_
    intro a s ⟨i1, k1, e⟩
    exact ⟨by simpa using i1, k1, fun _ h' => (by cases h'; exact e), by rw [e]; exact h3⟩

/-- `add_pairwise_if_then_else` does fail when a given result label is drawn as an auxiliary label of an earlier
position (model run; the Python code raises the same `CircuitValidationError` under the pinned `uuid4`) -/
theorem ca_pairIte_collision :
    ∃ c : Circuit, (∀ l ∈ ["i0", "i1", "t0", "t1", "e0", "e1"], l ∈ c.labels) ∧ (∀ l ∈ ["z", newLabel 0], l ∉ c.labels) ∧
      (addPairwiseIfThenElse ["i0", "i1"] ["t0", "t1"] ["e0", "e1"] (some ["z", newLabel 0]) false).run ⟨c, 0⟩
        = .error "CircuitValidationError" := by
  refine ⟨⟨[⟨"i0", INPUT, []⟩, ⟨"i1", INPUT, []⟩, ⟨"t0", INPUT, []⟩, ⟨"t1", INPUT, []⟩, ⟨"e0", INPUT, []⟩, ⟨"e1", INPUT, []⟩],
    ["i0", "i1", "t0", "t1", "e0", "e1"], [], [], []⟩, by decide, by decide, by rfl⟩

end Cirbo
