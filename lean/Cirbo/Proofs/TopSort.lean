import Cirbo.Model.TopSort
import Cirbo.Spec.WF
import Cirbo.Proofs.Val
/-!
# Correctness of the Kahn model (C20, used by C01/C02/C03)

`kahn_perm`: every node exactly once; `kahn_order`: every node after all of its predecessors.
-/
namespace Cirbo

/-! ### relax lemmas -/

theorem relax_indeg (indeg : Label → Nat) (q : List Label) (us : List Label) (l : Label) :
    (relax indeg q us).1 l = indeg l - us.count l := by
  induction us generalizing indeg q with
  | nil => simp [relax]
  | cons s rest ih =>
    simp only [relax]
    split
    · rename_i h0
      rw [ih]
      by_cases h : l = s
      · subst h; simp [h0]
      · have : (s == l) = false := by simp [Ne.symm h]
        simp [List.count_cons, this]
    · rw [ih]
      by_cases h : l = s
      · subst h; simp [upd]; omega
      · have : (s == l) = false := by simp [Ne.symm h]
        simp [upd, h, List.count_cons, this]

theorem relax_queue_mem (indeg : Label → Nat) (q us : List Label) (l : Label)
    (hpos : ∀ s ∈ us, us.count s ≤ indeg s) :
    l ∈ (relax indeg q us).2 ↔ l ∈ q ∨ (l ∈ us ∧ indeg l = us.count l) := by
  induction us generalizing indeg q with
  | nil => simp [relax]
  | cons s rest ih =>
    simp only [relax]
    have hs : 1 ≤ indeg s := by
      have := hpos s (by simp); simp [List.count_cons] at this; omega
    have hne : ¬ indeg s = 0 := by omega
    simp only [hne, if_false]
    have hpos' : ∀ t ∈ rest, rest.count t ≤ upd indeg s (indeg s - 1) t := by
      intro t ht
      have := hpos t (by simp [ht])
      by_cases hts : t = s
      · subst hts; simp [upd, List.count_cons] at *; omega
      · have e : (s == t) = false := by simp [Ne.symm hts]
        simp [upd, hts, List.count_cons, e] at *; exact this
    rw [ih _ _ hpos']
    by_cases hls : l = s
    · subst hls
      simp only [upd, if_true, List.count_cons, beq_self_eq_true, List.mem_cons, true_or, true_and]
      by_cases hd : indeg l - 1 = 0
      · have h1 : indeg l = 1 := by omega
        have hc : rest.count l = 0 := by
          have := hpos l (by simp); simp [List.count_cons] at this; omega
        simp [hd, h1, hc]
      · simp only [hd, if_false]
        constructor
        · rintro (h | ⟨hm, he⟩)
          · exact Or.inl h
          · right; omega
        · rintro (h | he)
          · exact Or.inl h
          · right
            refine ⟨?_, by omega⟩
            have : rest.count l ≠ 0 := by omega
            exact List.count_pos_iff.mp (Nat.pos_of_ne_zero this)
    · have e : (s == l) = false := by simp [Ne.symm hls]
      simp only [upd, hls, if_false, List.count_cons, e, List.mem_cons, false_or]
      by_cases hd : indeg s - 1 = 0
      · simp [hd, List.mem_append, hls]
      · simp [hd]

theorem relax_queue_nodup (indeg : Label → Nat) (q us : List Label)
    (hq : q.Nodup) (hdisj : ∀ l ∈ q, l ∉ us)
    (hpos : ∀ s ∈ us, us.count s ≤ indeg s) : (relax indeg q us).2.Nodup := by
  induction us generalizing indeg q with
  | nil => simpa [relax]
  | cons s rest ih =>
    simp only [relax]
    have hs : 1 ≤ indeg s := by
      have := hpos s (by simp); simp at this; omega
    have hne : ¬ indeg s = 0 := by omega
    simp only [hne, if_false]
    have hpos' : ∀ t ∈ rest, rest.count t ≤ upd indeg s (indeg s - 1) t := by
      intro t ht
      have := hpos t (by simp [ht])
      by_cases hts : t = s
      · subst hts; simp [upd, List.count_cons] at *; omega
      · have e : (s == t) = false := by simp [Ne.symm hts]
        simp [upd, hts, List.count_cons, e] at *; exact this
    apply ih _ _ _ _ hpos'
    · by_cases hd : indeg s - 1 = 0
      · simp only [hd, if_true]
        rw [List.nodup_append]
        refine ⟨hq, by simp, ?_⟩
        intro a ha b hb
        simp at hb; subst hb
        intro hab; subst hab
        exact hdisj a ha (by simp)
      · simpa [hd] using hq
    · intro l hl
      by_cases hd : indeg s - 1 = 0
      · simp only [hd, if_true, List.mem_append, List.mem_singleton] at hl
        rcases hl with hl | hl
        · intro hmem; exact hdisj l hl (by simp [hmem])
        · subst hl
          intro hmem
          have := hpos l (by simp)
          have h2 : 1 ≤ rest.count l := List.count_pos_iff.mpr hmem
          simp [List.count_cons] at this; omega
      · simp only [hd, if_false] at hl
        intro hmem; exact hdisj l hl (by simp [hmem])

/-! ### well-formed graphs and the loop invariant -/

structure GWF (G : Graph) : Prop where
  nodup  : G.nodes.Nodup
  closed : ∀ l ∈ G.nodes, ∀ p ∈ G.pre l, p ∈ G.nodes
  succL  : ∀ l s, s ∈ G.succ l → s ∈ G.nodes
  dual   : ∀ l, ∀ s ∈ G.nodes, (G.succ l).count s = (G.pre s).count l
  rank   : ∃ r : Label → Nat, ∀ l ∈ G.nodes, ∀ p ∈ G.pre l, r p < r l

/-- number of predecessor occurrences not yet output -/
def pending (out : List Label) : List Label → Nat
  | [] => 0
  | o :: r => (if o ∈ out then 0 else 1) + pending out r

theorem count_le_pending (out ops : List Label) (cur : Label) (h : cur ∉ out) :
    ops.count cur ≤ pending out ops := by
  induction ops with
  | nil => simp [pending]
  | cons p ps ih =>
    simp only [pending, List.count_cons]
    by_cases hp : p = cur
    · subst hp; simp [h]; omega
    · have e' : (p == cur) = false := by simp [hp]
      simp only [e']
      by_cases hpo : p ∈ out <;> simp [hpo] <;> omega

theorem pending_snoc (out ops : List Label) (cur : Label) (h : cur ∉ out) :
    pending (out ++ [cur]) ops = pending out ops - ops.count cur := by
  induction ops with
  | nil => simp [pending]
  | cons o rest ih =>
    have hle := count_le_pending out rest cur h
    simp only [pending, List.count_cons, ih, List.mem_append, List.mem_singleton]
    by_cases hoc : o = cur
    · subst hoc; simp [h]; omega
    · have e : (o == cur) = false := by simp [hoc]
      by_cases hoo : o ∈ out
      · simp [hoo, hoc, e]
      · simp [hoo, hoc, e]; omega

theorem pending_zero (out ops : List Label) : pending out ops = 0 ↔ ∀ o ∈ ops, o ∈ out := by
  induction ops with
  | nil => simp [pending]
  | cons o rest ih =>
    simp only [pending, List.mem_cons, forall_eq_or_imp]
    by_cases hoo : o ∈ out
    · simp [hoo, ih]
    · simp [hoo]

theorem pending_nil (ops : List Label) : pending [] ops = ops.length := by
  induction ops with
  | nil => rfl
  | cons o r ih => simp [pending, ih]; omega

structure KInv (G : Graph) (st : KState) : Prop where
  deg   : ∀ l ∈ G.nodes, st.indeg l = pending st.out (G.pre l)
  qOK   : ∀ l ∈ st.queue, l ∈ G.nodes ∧ st.indeg l = 0 ∧ l ∉ st.out
  qND   : st.queue.Nodup
  oND   : st.out.Nodup
  zero  : ∀ l ∈ G.nodes, st.indeg l = 0 → l ∈ st.out ∨ l ∈ st.queue
  oL    : ∀ l ∈ st.out, l ∈ G.nodes
  order : ∀ pre l post, st.out = pre ++ l :: post → ∀ o ∈ G.pre l, o ∈ pre

theorem kstep_inv {G : Graph} (h : GWF G) {st st' : KState} (inv : KInv G st)
    (hs : kstep G st = some st') : KInv G st' := by
  unfold kstep at hs
  cases hq : st.queue.getLast? with
  | none => simp [hq] at hs
  | some cur =>
    simp only [hq, Option.some.injEq] at hs
    subst hs
    have hcurq : cur ∈ st.queue := List.mem_of_getLast? hq
    obtain ⟨hcurL, hcur0, hcurO⟩ := inv.qOK cur hcurq
    have hqsplit : st.queue = st.queue.dropLast ++ [cur] := by
      obtain ⟨ys, hys⟩ := List.getLast?_eq_some_iff.mp hq
      rw [hys]; simp
    have hdropND : st.queue.dropLast.Nodup := by
      have := inv.qND; rw [hqsplit] at this
      exact (List.nodup_append.mp this).1
    have hcurNotDrop : cur ∉ st.queue.dropLast := by
      have := inv.qND; rw [hqsplit] at this
      have := (List.nodup_append.mp this).2.2
      intro hm; exact this cur hm cur (by simp) rfl
    have hdropSub : ∀ l ∈ st.queue.dropLast, l ∈ st.queue := fun l hl => List.dropLast_subset _ hl
    have hcurOps : ∀ o ∈ G.pre cur, o ∈ st.out := by
      have := inv.deg cur hcurL; rw [hcur0] at this
      exact (pending_zero _ _).mp this.symm
    have hpos : ∀ s ∈ G.succ cur, (G.succ cur).count s ≤ st.indeg s := by
      intro s hsU
      have hsL := h.succL cur s hsU
      rw [h.dual cur s hsL, inv.deg s hsL]
      exact count_le_pending _ _ _ hcurO
    have hdisj : ∀ l ∈ st.queue.dropLast, l ∉ G.succ cur := by
      intro l hl hm
      have h0 := (inv.qOK l (hdropSub l hl)).2.1
      have h1 := hpos l hm
      have : 1 ≤ (G.succ cur).count l := List.count_pos_iff.mpr hm
      omega
    have degNew : ∀ l ∈ G.nodes, (relax st.indeg st.queue.dropLast (G.succ cur)).1 l
        = pending (st.out ++ [cur]) (G.pre l) := by
      intro l hl
      rw [relax_indeg, pending_snoc _ _ _ hcurO, h.dual cur l hl, inv.deg l hl]
    refine ⟨degNew, ?_, ?_, ?_, ?_, ?_, ?_⟩
    · intro l hl
      rw [relax_queue_mem _ _ _ _ hpos] at hl
      rcases hl with hl | ⟨hlU, hle⟩
      · obtain ⟨a, b, d⟩ := inv.qOK l (hdropSub l hl)
        refine ⟨a, ?_, ?_⟩
        · show (relax _ _ _).1 l = 0
          rw [relax_indeg, b]; omega
        · simp only [List.mem_append, List.mem_singleton, not_or]
          exact ⟨d, fun e => hcurNotDrop (e ▸ hl)⟩
      · have hlL := h.succL cur l hlU
        refine ⟨hlL, ?_, ?_⟩
        · show (relax _ _ _).1 l = 0
          rw [relax_indeg, hle]; omega
        · have hcnt : 1 ≤ (G.pre l).count cur := by
            rw [← h.dual cur l hlL]; exact List.count_pos_iff.mpr hlU
          have hcurIn : cur ∈ G.pre l := List.count_pos_iff.mp hcnt
          simp only [List.mem_append, List.mem_singleton, not_or]
          constructor
          · intro hlo
            obtain ⟨pre, post, hsplit⟩ := List.append_of_mem hlo
            have := inv.order pre l post hsplit cur hcurIn
            exact hcurO (by rw [hsplit]; simp [this])
          · intro e
            obtain ⟨r, hr⟩ := h.rank
            have := hr l hlL cur hcurIn
            rw [e] at this; omega
    · exact relax_queue_nodup _ _ _ hdropND hdisj hpos
    · rw [List.nodup_append]
      refine ⟨inv.oND, by simp, ?_⟩
      intro a ha b hb; simp at hb; subst hb; intro e; subst e; exact hcurO ha
    · intro l hl hz
      replace hz : (relax st.indeg st.queue.dropLast (G.succ cur)).1 l = 0 := hz
      rw [relax_indeg] at hz
      by_cases hg0 : st.indeg l = 0
      · rcases inv.zero l hl hg0 with ho | hq'
        · left; simp [ho]
        · rw [hqsplit] at hq'
          simp only [List.mem_append, List.mem_singleton] at hq'
          rcases hq' with hq' | hq'
          · right; rw [relax_queue_mem _ _ _ _ hpos]; exact Or.inl hq'
          · left; simp [hq']
      · right
        rw [relax_queue_mem _ _ _ _ hpos]
        right
        have hle : (G.succ cur).count l ≤ st.indeg l := by
          rw [h.dual cur l hl, inv.deg l hl]; exact count_le_pending _ _ _ hcurO
        refine ⟨?_, by omega⟩
        have : 1 ≤ (G.succ cur).count l := by omega
        exact List.count_pos_iff.mp this
    · intro l hl
      simp only [List.mem_append, List.mem_singleton] at hl
      rcases hl with hl | hl
      · exact inv.oL l hl
      · exact hl ▸ hcurL
    · intro pre l post hsplit o ho
      by_cases hpost : post = []
      · subst hpost
        have : st.out = pre ∧ cur = l := by
          have := List.append_inj' hsplit (by simp)
          exact ⟨this.1, by simpa using this.2⟩
        obtain ⟨e1, e2⟩ := this
        subst e2
        exact e1 ▸ hcurOps o ho
      · obtain ⟨post', hp'⟩ : ∃ post', post = post' ++ [cur] := by
          rcases List.eq_nil_or_concat post with hnil | ⟨p', b, hpb⟩
          · exact absurd hnil hpost
          · refine ⟨p', ?_⟩
            rw [List.concat_eq_append] at hpb
            subst hpb
            have h1 : (st.out ++ [cur]).getLast? = some cur := by simp
            have h2 : (pre ++ l :: (p' ++ [b])).getLast? = some b := by
              have e3 : pre ++ l :: (p' ++ [b]) = (pre ++ l :: p') ++ [b] := by simp
              rw [e3, List.getLast?_concat]
            have hs' : st.out ++ [cur] = pre ++ l :: (p' ++ [b]) := hsplit
            rw [hs'] at h1
            rw [h1] at h2
            simp at h2; rw [h2]
        subst hp'
        have : st.out = pre ++ l :: post' := by
          have : st.out ++ [cur] = (pre ++ l :: post') ++ [cur] := by simpa using hsplit
          exact List.append_cancel_right this
        exact inv.order pre l post' this o ho

theorem kahnLoop_inv {G : Graph} (h : GWF G) : ∀ fuel st, KInv G st → KInv G (kahnLoop G fuel st)
  | 0, _, inv => inv
  | fuel+1, st, inv => by
    unfold kahnLoop
    cases hs : kstep G st with
    | none => exact inv
    | some st' => exact kahnLoop_inv h fuel st' (kstep_inv h inv hs)

theorem kstep_out {G : Graph} {st st' : KState} (hs : kstep G st = some st') :
    st'.out.length = st.out.length + 1 := by
  unfold kstep at hs
  cases hq : st.queue.getLast? with
  | none => simp [hq] at hs
  | some cur => simp only [hq, Option.some.injEq] at hs; subst hs; simp

theorem queue_empty_of_full {G : Graph} {st : KState} (inv : KInv G st)
    (hfull : G.nodes.length ≤ st.out.length) : st.queue = [] := by
  cases hq : st.queue with
  | nil => rfl
  | cons cur rest =>
    exfalso
    have hc : cur ∈ st.queue := by simp [hq]
    obtain ⟨hl, _, hno⟩ := inv.qOK cur hc
    have hnd : (cur :: st.out).Nodup := List.nodup_cons.mpr ⟨hno, inv.oND⟩
    have hsub : (cur :: st.out) ⊆ G.nodes := by
      intro x hx; simp only [List.mem_cons] at hx
      rcases hx with rfl | hx
      · exact hl
      · exact inv.oL x hx
    have := hnd.length_le_of_subset hsub
    simp at this; omega

theorem kahnLoop_done {G : Graph} (h : GWF G) : ∀ fuel st, KInv G st →
    G.nodes.length ≤ fuel + st.out.length → (kahnLoop G fuel st).queue = []
  | 0, st, inv, hf => by simpa [kahnLoop] using queue_empty_of_full inv (by simpa using hf)
  | fuel+1, st, inv, hf => by
    unfold kahnLoop
    cases hs : kstep G st with
    | none =>
      simp only
      unfold kstep at hs
      cases hq : st.queue.getLast? with
      | none => simpa using hq
      | some cur => simp [hq] at hs
    | some st' =>
      simp only
      exact kahnLoop_done h fuel st' (kstep_inv h inv hs) (by rw [kstep_out hs]; omega)

theorem complete_of_empty {G : Graph} (h : GWF G) {st : KState} (inv : KInv G st)
    (hq : st.queue = []) : ∀ l ∈ G.nodes, l ∈ st.out := by
  obtain ⟨r, hr⟩ := h.rank
  suffices ∀ n, ∀ l ∈ G.nodes, r l < n → l ∈ st.out from
    fun l hl => this _ l hl (Nat.lt_succ_self _)
  intro n
  induction n with
  | zero => intro l _ h0; exact absurd h0 (Nat.not_lt_zero _)
  | succ n ih =>
    intro l hl hlt
    have hops : ∀ o ∈ G.pre l, o ∈ st.out := by
      intro o ho
      exact ih o (h.closed l hl o ho) (Nat.lt_of_lt_of_le (hr l hl o ho) (Nat.le_of_lt_succ hlt))
    have hz : st.indeg l = 0 := by rw [inv.deg l hl]; exact (pending_zero _ _).mpr hops
    rcases inv.zero l hl hz with ho | hq'
    · exact ho
    · rw [hq] at hq'; cases hq'

theorem init_inv {G : Graph} (h : GWF G) : KInv G (initState G) := by
  refine ⟨?_, ?_, ?_, ?_, ?_, ?_, ?_⟩
  · intro l _; simp [initState, pending_nil]
  · intro l hl
    simp only [initState, List.mem_filter, decide_eq_true_eq] at hl
    exact ⟨hl.1, hl.2, by simp [initState]⟩
  · exact (List.filter_sublist).nodup h.nodup
  · simp [initState]
  · intro l hl hz
    right
    simp only [initState, List.mem_filter, decide_eq_true_eq]
    exact ⟨hl, hz⟩
  · intro l hl; simp [initState] at hl
  · intro pre l post hs; simp [initState] at hs

/-- Kahn on a well-formed graph yields every node exactly once … -/
theorem kahn_perm {G : Graph} (h : GWF G) : (kahn G).Perm G.nodes := by
  have inv := kahnLoop_inv h G.nodes.length _ (init_inv h)
  have hq := kahnLoop_done h G.nodes.length _ (init_inv h) (by simp [initState])
  show (kahnLoop G G.nodes.length (initState G)).out.Perm G.nodes
  rw [List.perm_ext_iff_of_nodup inv.oND h.nodup]
  intro l
  exact ⟨inv.oL l, fun hl => complete_of_empty h inv hq l hl⟩

/-- … and every node after all of its predecessors. -/
theorem kahn_order {G : Graph} (h : GWF G) (pre post : List Label) (l : Label)
    (hs : kahn G = pre ++ l :: post) : ∀ o ∈ G.pre l, o ∈ pre :=
  (kahnLoop_inv h G.nodes.length _ (init_inv h)).order pre l post hs

theorem kahn_nodup {G : Graph} (h : GWF G) : (kahn G).Nodup :=
  (kahnLoop_inv h G.nodes.length _ (init_inv h)).oND

end Cirbo
