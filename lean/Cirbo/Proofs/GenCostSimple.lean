import Cirbo.Proofs.GenCost
/-!
# Gate counts of the "simple" schemes (full adders and half adders only): `add_sum_n_bits_easy`,
the AIG bit counter, the naive weighted sum and the AIG weighted sum
-/
namespace Cirbo
open GateType

/-- what is assumed of a block: a fixed cost and a two-element result -/
def BlockCost (blk : List Label → Prog (List Label)) (c : Nat) : Prop :=
  ∀ ins r n, Cost (blk ins) r n → n = c ∧ r.length = 2

theorem blockCost_sum3 : BlockCost addSum3 5 := fun _ _ _ h => cost_addSum3 h
theorem blockCost_sum2 : BlockCost addSum2 2 := fun _ _ _ h => cost_addSum2 h
theorem blockCost_sum3Aig : BlockCost addSum3Aig 7 := fun _ _ _ h => cost_addSum3Aig h
theorem blockCost_sum2Aig : BlockCost addSum2Aig 3 := fun _ _ _ h => cost_addSum2Aig h

/-- the full-adder loop: `j` blocks, each removes two of the current bits and sends one carry up -/
theorem cost_reduce3 {blk3 : List Label → Prog (List Label)} {c3 : Nat} (hb : BlockCost blk3 c3) :
    ∀ (fuel : Nat) (nowR next n' nx' : List Label) (k : Nat),
      Cost (reduce3 blk3 fuel nowR next) (n', nx') k →
      ∃ j, k = c3 * j ∧ n'.length + 2 * j = nowR.length ∧ nx'.length = next.length + j ∧ (nowR ≠ [] → n' ≠ []) := by
  intro fuel
  induction fuel with
  | zero =>
    intro nowR next n' nx' k h
    unfold reduce3 at h
    obtain ⟨e, rfl⟩ := cost_pure.mp h
    cases e
    exact ⟨0, by simp, by simp, by simp, fun h => h⟩
  | succ f ih =>
    intro nowR next n' nx' k h
    unfold reduce3 at h
    split at h
    · rename_i fuel' a b c rest nxt heq
      cases heq
      simp only [cost_bind] at h
      obtain ⟨r, m1, m2, hblk, ⟨p, m3, m4, hp2, hrec, rfl⟩, rfl⟩ := h
      obtain ⟨hc, _⟩ := hb _ _ _ hblk
      have hp0 := cost_pair2 hp2
      obtain ⟨j, hk, hl, hn, hne⟩ := ih _ _ _ _ _ hrec
      refine ⟨j + 1, ?_, ?_, ?_, fun _ => hne (by simp)⟩
      · rw [hk, hc, hp0, Nat.mul_add, Nat.mul_one]; omega
      · simp only [List.length_cons] at hl ⊢; omega
      · simp only [List.length_append, List.length_singleton] at hn; omega
    · obtain ⟨e, rfl⟩ := cost_pure.mp h
      cases e
      exact ⟨0, by simp, by simp, by simp, fun h => h⟩

/-- the half adder: at most once -/
theorem cost_reduce2 {blk2 : List Label → Prog (List Label)} {c2 : Nat} (hb : BlockCost blk2 c2)
    {nowR next n' nx' : List Label} {k : Nat} (h : Cost (reduce2 blk2 nowR next) (n', nx') k) :
    (k = c2 ∧ n'.length + 1 = nowR.length ∧ nx'.length = next.length + 1 ∧ 2 ≤ nowR.length) ∨
    (k = 0 ∧ n' = nowR ∧ nx' = next) := by
  unfold reduce2 at h
  split at h
  · simp only [cost_bind, cost_pure] at h
    obtain ⟨r, m1, m2, hblk, ⟨p, m3, m4, hp2, ⟨e, rfl⟩, rfl⟩, rfl⟩ := h
    cases e
    obtain ⟨hc, _⟩ := hb _ _ _ hblk
    left
    exact ⟨by rw [hc, cost_pair2 hp2]; rfl, by simp, by simp, by simp⟩
  · obtain ⟨e, rfl⟩ := cost_pure.mp h
    cases e
    exact Or.inr ⟨rfl, rfl, rfl⟩

/-- **the level loop of the simple schemes**: `J3` full adders and `J2` half adders were placed over
`lv` levels, every full adder and every level uses up one bit, at most one half adder per level -/
theorem cost_levelsSimple {blk3 blk2 : List Label → Prog (List Label)} {c3 c2 : Nat}
    (hb3 : BlockCost blk3 c3) (hb2 : BlockCost blk2 c2) :
    ∀ (fuel : Nat) (nowR res r : List Label) (k : Nat), Cost (levelsSimple blk3 blk2 fuel nowR res) r k →
      ∃ J3 J2 lv, k = c3 * J3 + c2 * J2 ∧ r.length = res.length + lv ∧ J3 + lv ≤ nowR.length ∧ J2 ≤ lv := by
  intro fuel
  induction fuel with
  | zero => intro nowR res r k h; unfold levelsSimple at h; exact absurd h cost_fail
  | succ f ih =>
    intro nowR res r k h
    unfold levelsSimple at h
    split at h
    · obtain ⟨rfl, rfl⟩ := cost_pure.mp h
      exact ⟨0, 0, 0, by simp, by simp, by simp, by simp⟩
    · rename_i hne
      simp only [cost_bind] at h
      obtain ⟨⟨s1, nx1⟩, k1, _, h1, ⟨⟨s2, nx2⟩, k2, _, h2, ⟨x, k3, k4, h3, h4, rfl⟩, rfl⟩, rfl⟩ := h
      simp only at h2 h3 h4
      obtain ⟨j, hk1, hl1, hn1, hne1⟩ := cost_reduce3 hb3 _ _ _ _ _ _ h1
      obtain ⟨hk3, hn2ne⟩ := cost_firstOfRev h3
      obtain ⟨J3, J2, lv, hk4, hrl, hJ3, hJ2⟩ := ih _ _ _ _ h4
      have hnow : nowR ≠ [] := by intro e; rw [e] at hne; simp at hne
      have hn1ne := hne1 hnow
      simp only [List.length_nil, Nat.zero_add] at hn1
      simp only [List.length_reverse] at hJ3
      simp only [List.length_append, List.length_singleton] at hrl
      rcases cost_reduce2 hb2 h2 with ⟨hk2, hl2, hn2, h2le⟩ | ⟨hk2, e1, e2⟩
      · refine ⟨J3 + j, J2 + 1, lv + 1, ?_, by omega, by omega, by omega⟩
        rw [hk1, hk2, hk3, hk4, Nat.mul_add, Nat.mul_add, Nat.mul_one]; omega
      · have : 1 ≤ s1.length := by
          cases s1 with
          | nil => exact absurd rfl hn1ne
          | cons _ _ => simp
        rw [e2] at hJ3
        refine ⟨J3 + j, J2, lv + 1, ?_, by omega, by omega, by omega⟩
        rw [hk1, hk2, hk3, hk4, Nat.mul_add]; omega

/-- `add_sum_n_bits_easy`: at most `5n - 3m` gates (documented: `5n`) -/
theorem cost_addSumNBitsEasy {ins r : List Label} {be : Bool} {k : Nat}
    (h : Cost (addSumNBitsEasy ins be) r k) : k + 3 * r.length ≤ 5 * ins.length := by
  unfold addSumNBitsEasy at h
  simp only [cost_bind, cost_pure] at h
  obtain ⟨res, k1, k2, h1, ⟨rfl, rfl⟩, rfl⟩ := h
  obtain ⟨J3, J2, lv, hk, hl, hJ3, hJ2⟩ := cost_levelsSimple blockCost_sum3 blockCost_sum2 _ _ _ _ _ h1
  have : (revIf res be).length = res.length := by cases be <;> simp [revIf]
  have h2 : (revIf ins be).length = ins.length := by cases be <;> simp [revIf]
  simp only [List.length_reverse, h2, List.length_nil, Nat.zero_add] at hJ3 hl
  rw [this]; omega

/-- the AIG bit counter: at most `7n - 4m` gates (documented: `7n - 3m`) -/
theorem cost_addSumNBitsAig {ins r : List Label} {k : Nat}
    (h : Cost (addSumNBitsAig ins) r k) : k + 4 * r.length ≤ 7 * ins.length := by
  unfold addSumNBitsAig at h
  obtain ⟨J3, J2, lv, hk, hl, hJ3, hJ2⟩ := cost_levelsSimple blockCost_sum3Aig blockCost_sum2Aig _ _ _ _ _ h
  simp only [List.length_reverse, List.length_nil, Nat.zero_add] at hJ3 hl
  omega

end Cirbo
