import Cirbo.Proofs.Norm
import Cirbo.Proofs.Gen
/-!
# `NormalizationInfo.denormalize` on a circuit (C17): the returned outputs compute the denormalised
values of the stored circuit's outputs
-/
namespace Cirbo
namespace Norm
open GateType Circuit

/-! ## the rearrangements commute with mapping a function over the items -/

def rmap {α β} (f : α → β) : R α → R β
  | .ok a => .ok (f a)
  | .error e => .error e

theorem undelete_map {α β} (f : α → β) (mapping : List Nat) (outs : List α) :
    undelete mapping (outs.map f) = rmap (List.map f) (undelete mapping outs) := by
  induction mapping with
  | nil => rfl
  | cons m ms ih =>
    simp only [undelete, List.foldr_cons] at ih ⊢
    rw [ih]
    cases hu : List.foldr (fun i acc => match acc, outs[i]? with
        | .ok l, some x => Except.ok (x :: l)
        | .error e, _ => .error e
        | _, none => .error "Py:IndexError") (Except.ok []) ms with
    | error e => simp [rmap]
    | ok l =>
      simp only [rmap, List.getElem?_map]
      cases outs[m]? with
      | none => simp [rmap]
      | some x => simp [rmap]

theorem foldl_set_map {α β} (f : α → β) : ∀ (ps : List (Nat × α)) (acc : List α),
    (ps.foldl (fun acc (p : Nat × α) => acc.set p.1 p.2) acc).map f =
      (ps.map (fun p => (p.1, f p.2))).foldl (fun acc (p : Nat × β) => acc.set p.1 p.2) (acc.map f) := by
  intro ps
  induction ps with
  | nil => intro acc; rfl
  | cons p r ih =>
    intro acc
    simp only [List.foldl_cons, List.map_cons]
    rw [ih, List.map_set]

theorem unsort_map {α β} (f : α → β) (d : α) (perm : List Nat) (outs : List α) :
    unsort (f d) perm (outs.map f) = rmap (List.map f) (unsort d perm outs) := by
  unfold unsort
  simp only [List.length_map]
  split
  · rfl
  · simp only [rmap]
    congr 1
    rw [foldl_set_map, List.zip_map_right]
    simp only [List.map_replicate]
    congr 1

/-- the initial content does not matter where a position is written -/
theorem foldl_set_agree {α} : ∀ (ps : List (Nat × α)) (acc acc' : List α), acc.length = acc'.length →
    ∀ j, (j ∈ ps.map (·.1) ∨ acc[j]? = acc'[j]?) →
    (ps.foldl (fun acc (p : Nat × α) => acc.set p.1 p.2) acc)[j]? =
      (ps.foldl (fun acc (p : Nat × α) => acc.set p.1 p.2) acc')[j]? := by
  intro ps
  induction ps with
  | nil =>
    intro acc acc' _ j hj
    rcases hj with hj | hj
    · cases hj
    · exact hj
  | cons p r ih =>
    intro acc acc' hl j hj
    simp only [List.foldl_cons]
    apply ih _ _ (by simp [hl])
    by_cases hjr : j ∈ r.map (·.1)
    · exact Or.inl hjr
    · right
      rcases hj with hj | hj
      · simp only [List.map_cons, List.mem_cons] at hj
        rcases hj with hj | hj
        · subst hj
          simp only [List.getElem?_set, if_true, hl]
        · exact absurd hj hjr
      · by_cases e : p.1 = j
        · subst e; simp only [List.getElem?_set, if_true, hl]
        · simp [List.getElem?_set, e, hj]

theorem unsort_default {α} (d d' : α) (perm : List Nat) (outs : List α)
    (hcov : ∀ j, j < outs.length → j ∈ perm) : unsort d perm outs = unsort d' perm outs := by
  unfold unsort
  split
  · rfl
  · rename_i hlen
    congr 1
    apply List.ext_getElem?
    intro j
    apply foldl_set_agree _ _ _ (by simp)
    by_cases hj : j < outs.length
    · left
      rw [List.map_fst_zip (by simp at hlen; omega)]
      exact hcov j hj
    · right
      rw [List.getElem?_eq_none (by simp; omega), List.getElem?_eq_none (by simp; omega)]

/-! ## the values of the outputs after `denormalize` -/

def negVec (xs : List Bool) (negs : List Bool) : List Bool :=
  (xs.zip negs).map (fun p => if p.2 then !p.1 else p.1)

/-- `denormalize` on the vector of output values of the stored circuit (for one input assignment) -/
def denormVec (d : Bool) (info : Info) (xs : List Bool) : R (List Bool) :=
  match undelete info.mapping xs with
  | .error e => .error e
  | .ok u =>
    match unsort d info.permutation u with
    | .error e => .error e
    | .ok s =>
      if info.negations.length != s.length then .error "CircuitIsNotCompatibleWithNormalizationParameters" else
      .ok (negVec s info.negations)

/-- column `j` of a table -/
def col (j : Nat) (t : List Row) : List Bool := t.map (fun r => r.getD j false)

/-- the row-level `denormRows` specialises to `denormVec` on every column -/
theorem denormRows_col {info : Info} {stored t : List Row} (h : denormRows info stored = .ok t) (j : Nat)
    (hlen : ∀ r ∈ t, j < r.length) : denormVec false info (col j stored) = .ok (col j t) := by
  unfold denormRows at h
  unfold denormVec col
  rw [undelete_map]
  cases hu : undelete info.mapping stored with
  | error e => rw [hu] at h; cases h
  | ok u =>
    rw [hu] at h
    simp only [rmap] at h ⊢
    have hun := unsort_map (fun (r : Row) => r.getD j false) [] info.permutation u
    simp only [List.getD_nil] at hun
    rw [hun]
    cases hs : unsort [] info.permutation u with
    | error e => rw [hs] at h; cases h
    | ok s =>
      rw [hs] at h
      simp only [rmap, List.length_map] at h ⊢
      split at h
      · cases h
      · rename_i hl
        rw [if_neg hl]
        simp only [Except.ok.injEq] at h
        subst h
        congr 1
        unfold negVec
        rw [List.map_map, List.zip_map_left, List.map_map]
        apply List.map_congr_left
        intro p hp
        have hrow : j < p.1.length := by
          have := hlen _ (List.mem_map.mpr ⟨p, hp, rfl⟩)
          split at this
          · simpa using this
          · exact this
        simp only [Function.comp, Prod.map_fst, Prod.map_snd, id]
        by_cases hn : p.2 = true
        · simp [hn, List.getD_eq_getElem?_getD, hrow]
        · simp [hn]

/-! ## the negation loop -/

/-- the loop's (implicit) assumption: a gate called `not_<o>` is the negation of `o` -/
def NotOK (c : Circuit) : Prop := ∀ o, ("not_" ++ o) ∈ c.labels → (⟨"not_" ++ o, NOT, [o]⟩ : Gate) ∈ c.gates

theorem not_gate_val {c : Circuit} {o : Label} {b v : Label → Bool} (hv : IsValB c b v)
    (hg : (⟨"not_" ++ o, NOT, [o]⟩ : Gate) ∈ c.gates) : v ("not_" ++ o) = !v o := by
  have := hv _ hg
  simp [bfun] at this
  rw [this]; simp

theorem negateOutputs_spec : ∀ (pairs : List (Label × Bool)) (c : Circuit) (acc : List Label) (c3 : Circuit)
    (outs : List Label), WFS c → NotOK c → (∀ p ∈ pairs, p.1 ∈ c.labels) →
    negateOutputs pairs c acc = .ok (c3, outs) →
    WFS c3 ∧ c3.inputs = c.inputs ∧ (∀ l ∈ c.labels, l ∈ c3.labels) ∧
    ∃ tail, outs = acc ++ tail ∧ (∀ l ∈ tail, l ∈ c3.labels) ∧
      ∀ b v, IsValB c b v → ∃ v', IsValB c3 b v' ∧ (∀ l ∈ c.labels, v' l = v l) ∧
        tail.map v' = pairs.map (fun p => if p.2 then !v p.1 else v p.1) := by
  intro pairs
  induction pairs with
  | nil =>
    intro c acc c3 outs hw _ _ h
    simp only [negateOutputs, Except.ok.injEq, Prod.mk.injEq] at h
    obtain ⟨rfl, rfl⟩ := h
    exact ⟨hw, rfl, fun _ h => h, [], by simp, by simp, fun b v hv => ⟨v, hv, fun _ _ => rfl, rfl⟩⟩
  | cons p rest ih =>
    obtain ⟨o, neg⟩ := p
    intro c acc c3 outs hw hn hin h
    have hoin : o ∈ c.labels := hin (o, neg) (by simp)
    have hrest : ∀ q ∈ rest, q.1 ∈ c.labels := fun q hq => hin q (by simp [hq])
    unfold negateOutputs at h
    cases neg with
    | false =>
      simp only [Bool.false_eq_true, if_false] at h
      obtain ⟨w3, i3, l3, tail, ht, htl, hval⟩ := ih c (acc ++ [o]) c3 outs hw hn hrest h
      refine ⟨w3, i3, l3, o :: tail, by rw [ht]; simp, ?_, ?_⟩
      · intro l hl
        rcases List.mem_cons.mp hl with rfl | hl
        · exact l3 _ hoin
        · exact htl l hl
      · intro b v hv
        obtain ⟨v', a1, a2, a3⟩ := hval b v hv
        refine ⟨v', a1, a2, ?_⟩
        simp only [List.map_cons, Bool.false_eq_true, if_false, a3, a2 o hoin]
    | true =>
      simp only [if_true] at h
      by_cases hex : c.hasGate ("not_" ++ o) = true
      · simp only [hex, if_true] at h
        have hng : ("not_" ++ o) ∈ c.labels := (hasGate_iff' c _).mp hex
        obtain ⟨w3, i3, l3, tail, ht, htl, hval⟩ := ih c (acc ++ ["not_" ++ o]) c3 outs hw hn hrest h
        refine ⟨w3, i3, l3, ("not_" ++ o) :: tail, by rw [ht]; simp, ?_, ?_⟩
        · intro l hl
          rcases List.mem_cons.mp hl with rfl | hl
          · exact l3 _ hng
          · exact htl l hl
        · intro b v hv
          obtain ⟨v', a1, a2, a3⟩ := hval b v hv
          refine ⟨v', a1, a2, ?_⟩
          simp only [List.map_cons, if_true, a3, a2 _ hng, not_gate_val hv (hn o hng)]
      · simp only [hex, Bool.false_eq_true, if_false] at h
        cases hadd : c.addGate ⟨"not_" ++ o, NOT, [o]⟩ with
        | error e => rw [hadd] at h; cases h
        | ok c1 =>
          rw [hadd] at h
          simp only at h
          obtain ⟨hfresh, _, fg, fi, _, _, _⟩ := addGate_fields hadd
          have w1 : WFS c1 := addGate_wfs hw (by intro e; cases e) hadd
          have hlab1 : ∀ l ∈ c.labels, l ∈ c1.labels := by
            intro l hl
            unfold Circuit.labels at hl ⊢; rw [fg]; simp only [List.map_append, List.mem_append]
            exact Or.inl hl
          have hngm : (⟨"not_" ++ o, NOT, [o]⟩ : Gate) ∈ c1.gates := by rw [fg]; simp
          have hn1 : NotOK c1 := by
            intro x hx
            unfold Circuit.labels at hx
            rw [fg] at hx ⊢
            simp only [List.map_append, List.map_cons, List.map_nil, List.mem_append, List.mem_singleton] at hx ⊢
            rcases hx with hx | hx
            · exact Or.inl (hn x hx)
            · have : x = o := (String.append_right_inj _).mp hx
              subst this; exact Or.inr rfl
          obtain ⟨w3, i3, l3, tail, ht, htl, hval⟩ := ih c1 (acc ++ ["not_" ++ o]) c3 outs w1 hn1
            (fun q hq => hlab1 _ (hrest q hq)) h
          have hi1 : c1.inputs = c.inputs := by rw [fi]; simp
          refine ⟨w3, by rw [i3, hi1], fun l hl => l3 l (hlab1 l hl), ("not_" ++ o) :: tail, by rw [ht]; simp, ?_, ?_⟩
          · intro l hl
            rcases List.mem_cons.mp hl with rfl | hl
            · exact l3 _ (mem_labels_of_mem hngm)
            · exact htl l hl
          · intro b v hv
            obtain ⟨v1, b1, b2⟩ := addGate_ext hw.closed hadd (by rfl) hv
            obtain ⟨v', a1, a2, a3⟩ := hval b v1 b1
            refine ⟨v', a1, fun l hl => by rw [a2 l (hlab1 l hl), b2 l hl], ?_⟩
            simp only [List.map_cons, if_true, a3]
            congr 1
            · rw [a2 _ (mem_labels_of_mem hngm), not_gate_val b1 hngm, b2 o hoin]
            · apply List.map_congr_left
              intro q hq
              rw [b2 _ (hrest q hq)]

/-! ## `order_outputs` with a full list, `undelete` picks from the list -/

theorem orderList_go_spec : ∀ (ordered new oldc new' oldc' : List Label),
    orderList.go ordered new oldc = .ok (new', oldc') → new' = new ++ ordered ∧ ∀ e ∈ ordered, e ∈ oldc := by
  intro ordered
  induction ordered with
  | nil =>
    intro new oldc new' oldc' h
    simp only [orderList.go, Except.ok.injEq, Prod.mk.injEq] at h
    exact ⟨by rw [← h.1]; simp, by simp⟩
  | cons e r ih =>
    intro new oldc new' oldc' h
    unfold orderList.go at h
    split at h
    · rename_i hc
      obtain ⟨a, b⟩ := ih _ _ _ _ h
      refine ⟨by rw [a]; simp, ?_⟩
      intro x hx
      rcases List.mem_cons.mp hx with rfl | hx
      · simpa using hc
      · exact List.mem_of_mem_erase (b x hx)
    · cases h

theorem orderList_full {ordered old l : List Label} (h : orderList ordered old = .ok l)
    (hl : ordered.length = old.length) : l = ordered ∧ ∀ e ∈ ordered, e ∈ old := by
  unfold orderList at h
  split at h
  · cases h
  · rename_i new oldc hgo
    obtain ⟨a, b⟩ := orderList_go_spec _ _ _ _ _ hgo
    simp only [List.nil_append] at a
    subst a
    simp only [hl, beq_self_eq_true, if_true, Except.ok.injEq] at h
    exact ⟨h.symm, b⟩

theorem undelete_mem {α} : ∀ (mapping : List Nat) (outs l : List α), undelete mapping outs = .ok l →
    ∀ x ∈ l, x ∈ outs := by
  intro mapping
  induction mapping with
  | nil => intro outs l h x hx; simp [undelete] at h; subst h; cases hx
  | cons m ms ih =>
    intro outs l h x hx
    have ih' := ih outs
    simp only [undelete, List.foldr_cons] at h ih'
    generalize List.foldr _ (Except.ok []) ms = r at h ih'
    cases r with
    | error e => simp at h
    | ok l0 =>
      cases ho : outs[m]? with
      | none => rw [ho] at h; simp at h
      | some y =>
        rw [ho] at h
        simp only [Except.ok.injEq] at h
        subst h
        rcases List.mem_cons.mp hx with rfl | hx
        · exact List.mem_of_getElem? ho
        · exact ih' l0 rfl x hx

theorem unsort_length {α} {d : α} {perm : List Nat} {outs l : List α} (h : unsort d perm outs = .ok l) :
    l.length = outs.length ∧ perm.length = outs.length := by
  unfold unsort at h
  split at h
  · cases h
  · rename_i hl
    simp only [Except.ok.injEq] at h
    subst h
    have hlen : ∀ (ps : List (Nat × α)) (acc : List α),
        (ps.foldl (fun acc (p : Nat × α) => acc.set p.1 p.2) acc).length = acc.length := by
      intro ps; induction ps with
      | nil => intro acc; rfl
      | cons p r ih => intro acc; simp only [List.foldl_cons, ih, List.length_set]
    exact ⟨by rw [hlen]; simp, by simpa using hl⟩

/-- **`denormalize(circuit)`**: the inputs are untouched and, for every valuation of the stored
circuit, the outputs of the returned circuit carry the denormalised values of the stored outputs -/
theorem denormalizeCircuit_sem {info : Info} {c c' : Circuit} (hw : WFS c) (hn : NotOK c)
    (h : denormalizeCircuit info c = .ok c') :
    c'.inputs = c.inputs ∧ WFS c' ∧
    ∀ b v, IsValB c b v → ∃ v', IsValB c' b v' ∧ (∀ l ∈ c.labels, v' l = v l) ∧
      denormVec (v "") info (c.outputs.map v) = .ok (c'.outputs.map v') := by
  unfold denormalizeCircuit at h
  cases hu : undelete info.mapping c.outputs with
  | error e => rw [hu] at h; cases h
  | ok o1 =>
    rw [hu] at h
    simp only at h
    cases hs : unsort "" info.permutation o1 with
    | error e => rw [hs] at h; cases h
    | ok o2 =>
      rw [hs] at h
      simp only at h
      cases hord : Circuit.orderOutputs { c with outputs := o1 } o2 with
      | error e => rw [hord] at h; cases h
      | ok c2 =>
        rw [hord] at h
        simp only at h
        split at h
        · cases h
        · rename_i hnl
          cases hneg : negateOutputs (c2.outputs.zip info.negations) c2 [] with
          | error e => rw [hneg] at h; cases h
          | ok pr =>
            obtain ⟨c3, outs⟩ := pr
            rw [hneg] at h
            simp only [Except.ok.injEq] at h
            subst h
            -- order_outputs
            obtain ⟨l2, _⟩ := unsort_length hs
            unfold Circuit.orderOutputs at hord
            cases hol : orderList o2 o1 with
            | error e => simp only [hol] at hord; cases hord
            | ok l =>
              simp only [hol, Except.ok.injEq] at hord
              obtain ⟨hle, hmem⟩ := orderList_full hol l2
              subst hle
              have hc2 : c2 = { c with outputs := l } := hord.symm
              have hg2 : c2.gates = c.gates := by rw [hc2]
              have hlab2 : c2.labels = c.labels := by unfold Circuit.labels; rw [hg2]
              have hout2 : c2.outputs = l := by rw [hc2]
              have ho1 : ∀ x ∈ o1, x ∈ c.labels := fun x hx => hw.outputsOK x (undelete_mem _ _ _ hu x hx)
              have w2 : WFS c2 := by
                rw [hc2]
                exact ⟨hw.nodup, hw.closed, hw.rank, hw.inputsNodup, hw.inputsOK,
                  fun o ho => ho1 o (hmem o ho), hw.usersL, hw.usersC, hw.blocksOK, hw.inputOps⟩
              have hn2 : NotOK c2 := by
                intro o ho; rw [hlab2] at ho; rw [hg2]; exact hn o ho
              obtain ⟨w3, i3, l3, tail, ht, htl, hval⟩ := negateOutputs_spec _ c2 [] c3 outs w2 hn2
                (by
                  intro p hp
                  rw [hlab2, hout2] at *
                  exact ho1 _ (hmem _ (List.of_mem_zip hp).1)) hneg
              simp only [List.nil_append] at ht
              subst ht
              refine ⟨by simp only; rw [i3, hc2], ?_, ?_⟩
              · exact ⟨w3.nodup, w3.closed, w3.rank, w3.inputsNodup, w3.inputsOK, fun o ho => htl o ho,
                  w3.usersL, w3.usersC, w3.blocksOK, w3.inputOps⟩
              · intro b v hv
                have hv2 : IsValB c2 b v := by unfold IsValB; rw [hg2]; exact hv
                obtain ⟨v', a1, a2, a3⟩ := hval b v hv2
                refine ⟨v', a1, fun l hl => a2 l (by rw [hlab2]; exact hl), ?_⟩
                unfold denormVec
                rw [undelete_map, hu]
                simp only [rmap]
                rw [unsort_map, hs]
                simp only [rmap, List.length_map]
                have hnl' : ¬ (info.negations.length != l.length) = true := by rw [← hout2]; exact hnl
                rw [if_neg hnl']
                congr 1
                show negVec (l.map v) info.negations = outs.map v'
                rw [a3, hout2]
                unfold negVec
                rw [List.zip_map_left, List.map_map]
                apply List.map_congr_left
                intro p _
                rfl

theorem normalize_perm {tt : List Row} {info : Info} (h : normalize tt = .ok info) :
    info.permutation.Perm (List.range info.permutation.length) := by
  unfold normalize at h
  split at h
  · cases h
  · rename_i negs rows hno
    simp only at h
    split at h
    · cases h
    · cases hdl : dedupLoop _ _ _ _ with
      | mk new mapping =>
        rw [hdl] at h
        simp only [Except.ok.injEq] at h
        subst h
        simp only
        have hperm := sortBy_perm (fun (a b : Nat × Row) => rowLt a.2 b.2) (rows.zipIdx.map (fun ri => (ri.2, ri.1)))
        obtain ⟨e1, _⟩ := enumerate_spec rows
        have hp1 : ((sortOutputs rows).map (·.1)).Perm (List.range rows.length) := by rw [← e1]; exact hperm.map _
        have : ((sortOutputs rows).map (·.1)).length = rows.length := by rw [hp1.length_eq]; simp
        rw [this]; exact hp1

theorem denormVec_default {info : Info} (d d' : Bool) (xs : List Bool)
    (hp : info.permutation.Perm (List.range info.permutation.length)) :
    denormVec d info xs = denormVec d' info xs := by
  unfold denormVec
  cases hu : undelete info.mapping xs with
  | error e => rfl
  | ok u =>
    simp only
    by_cases hl : info.permutation.length = u.length
    · rw [unsort_default d d' info.permutation u (by
        intro k hk
        exact hp.mem_iff.mpr (List.mem_range.mpr (by omega)))]
    · have : ∀ x : Bool, unsort x info.permutation u = .error "CircuitIsNotCompatibleWithNormalizationParameters" := by
        intro x; unfold unsort; simp [hl]
      rw [this d, this d']

/-- **a looked-up entry, denormalised, computes the requested table**: if the stored circuit computes
the normalised table of `tt` on an input assignment (column `j`), the circuit returned by
`denormalize` computes column `j` of `tt` itself, in the requested output order, on the same inputs -/
theorem lookup_entry_correct {tt : List Row} {info : Info} {c c' : Circuit} (hnorm : normalize tt = .ok info)
    (hw : WFS c) (hn : NotOK c) (hd : denormalizeCircuit info c = .ok c') (j : Nat)
    (hrows : ∀ r ∈ tt, j < r.length) {b v : Label → Bool} (hv : IsValB c b v)
    (hstored : c.outputs.map v = col j info.table) :
    ∃ v', IsValB c' b v' ∧ c'.outputs.map v' = col j tt ∧ c'.inputs = c.inputs := by
  obtain ⟨hi, _, hsem⟩ := denormalizeCircuit_sem hw hn hd
  obtain ⟨v', a1, _, a3⟩ := hsem b v hv
  refine ⟨v', a1, ?_, hi⟩
  have h1 := denormRows_col (normalize_roundtrip tt info hnorm) j hrows
  rw [hstored, denormVec_default (v "") false _ (normalize_perm hnorm), h1] at a3
  exact (Except.ok.inj a3).symm

end Norm
end Cirbo
