import Cirbo.Proofs.GatesTT
import Cirbo.Proofs.PassMdg
/-!
# MergeEquivalentGates preserves the function and the interface
-/
namespace Cirbo
open GateType Circuit V3

/-! ### groups of labels with equal rows -/

theorem megGroupStep_inv (gtt : Dict (List V3)) : ∀ (ps : List (Label × List V3)) (gs : List (List V3 × List Label)),
    (∀ p ∈ ps, p ∈ gtt) → (∀ q ∈ gs, ∀ x ∈ q.2, (x, q.1) ∈ gtt) →
    ∀ q ∈ ps.foldl megGroupStep gs, ∀ x ∈ q.2, (x, q.1) ∈ gtt := by
  intro ps
  induction ps with
  | nil => intro gs _ h; exact h
  | cons p r ih =>
    intro gs hps hgs
    simp only [List.foldl_cons]
    apply ih _ (fun p' hp' => hps p' (by simp [hp']))
    intro q hq x hx
    unfold megGroupStep at hq
    split at hq
    · obtain ⟨q0, hq0, rfl⟩ := List.mem_map.mp hq
      by_cases heq : (q0.1 == p.2) = true
      · have heq' : q0.1 = p.2 := by simpa using heq
        simp only [heq, if_true] at hx ⊢
        simp only [List.mem_append, List.mem_singleton] at hx
        rcases hx with hx | rfl
        · exact hgs q0 hq0 x hx
        · rw [heq']; exact hps p (by simp)
      · simp only [heq, Bool.false_eq_true, if_false] at hx ⊢
        exact hgs q0 hq0 x hx
    · rcases List.mem_append.mp hq with hq | hq
      · exact hgs q hq x hx
      · simp only [List.mem_singleton] at hq; subst hq
        simp only [List.mem_singleton] at hx; subst hx
        exact hps p (by simp)

theorem megIndex_inv : ∀ (qs : List ((List V3 × List Label) × Nat)) (d : Dict Nat),
    ∀ l i, (qs.foldl megIndexStep d).get? l = some i → d.get? l = some i ∨ ∃ q ∈ qs, q.2 = i ∧ l ∈ q.1.2 := by
  intro qs
  induction qs with
  | nil => intro d l i h; exact Or.inl h
  | cons q r ih =>
    intro d l i h
    simp only [List.foldl_cons] at h
    rcases ih _ l i h with h1 | ⟨q', hq', h2⟩
    · -- inside one group
      have : ∀ (ls : List Label) (d : Dict Nat), (ls.foldl (fun d l => Dict.set d l q.2) d).get? l = some i →
          d.get? l = some i ∨ (q.2 = i ∧ l ∈ ls) := by
        intro ls
        induction ls with
        | nil => intro d h; exact Or.inl h
        | cons x t ih2 =>
          intro d h
          simp only [List.foldl_cons] at h
          rcases ih2 _ h with h3 | ⟨h3, h4⟩
          · rw [Dict.get?_set] at h3
            by_cases hx : l = x
            · simp only [hx, if_true, Option.some.injEq] at h3
              exact Or.inr ⟨h3, by simp [hx]⟩
            · simp only [hx, if_false] at h3; exact Or.inl h3
          · exact Or.inr ⟨h3, by simp [h4]⟩
      rcases this _ _ h1 with h3 | ⟨h3, h4⟩
      · exact Or.inl h3
      · exact Or.inr ⟨q, by simp, h3, h4⟩
    · exact Or.inr ⟨q', by simp [hq'], h2⟩

theorem nodupKeys_gtt_fold : ∀ (fulls : List (Dict V3)) (acc : Dict (List V3)), NodupKeys acc →
    NodupKeys (fulls.foldl (fun acc full => full.foldl (fun acc p => acc.set p.1 ((acc.get? p.1).getD [] ++ [p.2])) acc) acc) := by
  intro fulls
  induction fulls with
  | nil => intro acc h; exact h
  | cons f r ih =>
    intro acc h
    simp only [List.foldl_cons]
    apply ih
    have : ∀ (ps : List (Label × V3)) (acc : Dict (List V3)), NodupKeys acc →
        NodupKeys (ps.foldl (fun acc p => acc.set p.1 ((acc.get? p.1).getD [] ++ [p.2])) acc) := by
      intro ps; induction ps with
      | nil => intro acc h; exact h
      | cons p t ih2 => intro acc h; exact ih2 _ (nodupKeys_set _ _ _ h)
    exact this _ _ h

/-- two labels in the same group have the same row of the per-gate truth table -/
theorem megGroups_sound {c : Circuit} {groups : Dict Nat} (h : megGroups c = .ok groups) :
    ∃ gtt, gatesTruthTable c = .ok gtt ∧ ∀ l l' i, groups.get? l = some i → groups.get? l' = some i →
      (gtt.get? l).getD [] = (gtt.get? l').getD [] := by
  unfold megGroups at h
  cases hg : gatesTruthTable c with
  | error e => simp [hg] at h
  | ok gtt =>
    simp only [hg, Except.ok.injEq] at h
    refine ⟨gtt, rfl, ?_⟩
    intro l l' i h1 h2
    subst h
    have hnk : NodupKeys gtt := by
      unfold gatesTruthTable at hg
      simp only [bind, Except.bind] at hg
      split at hg
      · cases hg
      · simp only [Except.ok.injEq] at hg; subst hg
        exact nodupKeys_gtt_fold _ _ (by simp [NodupKeys])
    have hinv := megGroupStep_inv gtt gtt [] (fun p hp => hp) (by intro q hq; cases hq)
    rcases megIndex_inv _ _ l i h1 with h3 | ⟨q, hq, hqi, hql⟩
    · simp [Dict.get?] at h3
    rcases megIndex_inv _ _ l' i h2 with h3 | ⟨q', hq', hqi', hql'⟩
    · simp [Dict.get?] at h3
    -- same index in `zipIdx` ⇒ same group
    have hsame : q = q' := by
      rw [List.mem_zipIdx_iff_getElem?] at hq hq'
      obtain ⟨⟨row, ls⟩, j⟩ := q
      obtain ⟨⟨row', ls'⟩, j'⟩ := q'
      simp only at hqi hqi'
      subst hqi; subst hqi'
      simp only [Nat.zero_add] at hq hq'
      rw [hq] at hq'
      simp only [Option.some.injEq, Prod.mk.injEq] at hq'
      simp [hq'.1, hq'.2]
    subst hsame
    have hmem : q.1 ∈ gtt.foldl megGroupStep [] := by
      have := List.fst_mem_of_mem_zipIdx hq
      exact (List.mem_filter.mp this).1
    have e1 := get?_eq_of_mem hnk (hinv q.1 hmem l hql)
    have e2 := get?_eq_of_mem hnk (hinv q.1 hmem l' hql')
    rw [e1, e2]

/-! ### the rebuild loop -/

theorem WFU.ofWFS {c : Circuit} (hw : WFS c) (har : ArOK c) : WFU c :=
  ⟨⟨hw.nodup, hw.closed, hw.rank, har, hw.inputsNodup, hw.inputsOK, hw.outputsOK⟩, hw.usersL, hw.usersC⟩

structure MegInv (c : Circuit) (groups : Dict Nat) (b v : Label → Bool) (st : Circuit × Keep) : Prop where
  wfs : WFS st.1
  val : IsValB st.1 b v
  keep : ∀ p ∈ st.2, groups.get? p.2 = some p.1 ∧ p.2 ∈ c.labels
  shape : ∀ g' ∈ st.1.gates, ∃ g ∈ c.gates, g'.label = g.label ∧ g'.ty = g.ty ∧ g'.ops.length = g.ops.length

theorem megName_sound {c : Circuit} (hu : WFU c) {groups : Dict Nat} (hgr : megGroups c = .ok groups)
    {b v : Label → Bool} (hv : IsValB c b v) {keep : Keep}
    (hk : ∀ p ∈ keep, groups.get? p.2 = some p.1 ∧ p.2 ∈ c.labels) {l : Label} (hl : l ∈ c.labels) :
    v (megName groups keep l).1 = v l ∧ (∀ p ∈ (megName groups keep l).2, groups.get? p.2 = some p.1 ∧ p.2 ∈ c.labels) := by
  obtain ⟨gtt, hgtt, hrows⟩ := megGroups_sound hgr
  unfold megName
  cases hg : groups.get? l with
  | none => exact ⟨rfl, hk⟩
  | some gid =>
    simp only
    cases hlk : keep.lookup gid with
    | none =>
      refine ⟨rfl, ?_⟩
      intro p hp
      rcases List.mem_append.mp hp with hp | hp
      · exact hk p hp
      · simp only [List.mem_singleton] at hp; subst hp; exact ⟨hg, hl⟩
    | some r =>
      refine ⟨?_, hk⟩
      obtain ⟨h1, h2⟩ := hk _ (lookup_mem hlk)
      simp only at h1 h2
      exact gtt_equal_rows_sound hu hgtt h2 hl (hrows r l gid h1 hg) hv

theorem megNames_sound {c : Circuit} (hu : WFU c) {groups : Dict Nat} (hgr : megGroups c = .ok groups)
    {b v : Label → Bool} (hv : IsValB c b v) : ∀ (ls : List Label) (keep : Keep),
    (∀ p ∈ keep, groups.get? p.2 = some p.1 ∧ p.2 ∈ c.labels) → (∀ l ∈ ls, l ∈ c.labels) →
    (megNames groups keep ls).1.map v = ls.map v ∧ (megNames groups keep ls).1.length = ls.length ∧
    (∀ p ∈ (megNames groups keep ls).2, groups.get? p.2 = some p.1 ∧ p.2 ∈ c.labels) := by
  intro ls
  induction ls with
  | nil => intro keep hk _; exact ⟨rfl, rfl, hk⟩
  | cons l r ih =>
    intro keep hk hls
    obtain ⟨a1, a2⟩ := megName_sound hu hgr hv hk (hls l (by simp))
    obtain ⟨b1, b2, b3⟩ := ih (megName groups keep l).2 a2 (fun x hx => hls x (by simp [hx]))
    simp only [megNames, List.map_cons, List.length_cons]
    exact ⟨by rw [a1, b1], by rw [b2], b3⟩

theorem megStep_error (c : Circuit) (groups : Dict Nat) (e : String) :
    ∀ (xs : List Label), xs.foldl (megStep c groups) (.error e) = .error e := by
  intro xs; induction xs with
  | nil => rfl
  | cons a b ih => simpa [megStep] using ih

theorem megStep_inv {c : Circuit} (hw : WFS c) (hu : WFU c) {groups : Dict Nat} (hgr : megGroups c = .ok groups)
    {b v : Label → Bool} (hv : IsValB c b v) {st st' : Circuit × Keep} {l : Label}
    (hi : MegInv c groups b v st) (h : megStep c groups (.ok st) l = .ok st') : MegInv c groups b v st' := by
  obtain ⟨n, keep⟩ := st
  unfold megStep at h
  simp only at h
  cases hf : c.find? l with
  | none => simp [hf] at h
  | some g =>
    simp only [hf] at h
    obtain ⟨hgm, hgl⟩ := find_some_mem hf
    obtain ⟨m1, m2, m3⟩ := megNames_sound hu hgr hv g.ops keep hi.keep (fun o ho => hw.closed g hgm o ho)
    cases ha : n.addGate ⟨g.label, g.ty, (megNames groups keep g.ops).1⟩ with
    | error e => simp [ha] at h
    | ok n' =>
      simp only [ha, Except.ok.injEq] at h
      subst h
      obtain ⟨_, _, hg1, _⟩ := addGate_fields ha
      have hg := hv g hgm
      refine ⟨addGate_wfs (g := ⟨g.label, g.ty, _⟩) hi.wfs (fun e => ?_) ha, ?_, m3, ?_⟩
      · simp only at e ⊢
        have := hw.inputOps g hgm e
        have hlen := m2
        rw [this] at hlen
        exact List.eq_nil_of_length_eq_zero (by simpa [this] using m2)
      · intro x hx
        simp only at hx
        rw [hg1] at hx
        simp only [List.mem_append, List.mem_singleton] at hx
        rcases hx with hx | rfl
        · exact hi.val x hx
        · simp only
          by_cases ht : g.ty = INPUT
          · simp only [ht, if_true] at hg ⊢; exact hg
          · simp only [ht, if_false] at hg ⊢; rw [m1]; exact hg
      · intro g' hg'
        simp only at hg'
        rw [hg1] at hg'
        simp only [List.mem_append, List.mem_singleton] at hg'
        rcases hg' with hg' | rfl
        · exact hi.shape g' hg'
        · exact ⟨g, hgm, rfl, rfl, m2⟩

theorem megFold_inv {c : Circuit} (hw : WFS c) (hu : WFU c) {groups : Dict Nat} (hgr : megGroups c = .ok groups)
    {b v : Label → Bool} (hv : IsValB c b v) : ∀ (ls : List Label) (st st' : Circuit × Keep),
    MegInv c groups b v st → ls.foldl (megStep c groups) (.ok st) = .ok st' → MegInv c groups b v st' := by
  intro ls
  induction ls with
  | nil => intro st st' hi h; simp only [List.foldl_nil, Except.ok.injEq] at h; subst h; exact hi
  | cons l r ih =>
    intro st st' hi h
    simp only [List.foldl_cons] at h
    cases hs : megStep c groups (.ok st) l with
    | error e => rw [hs, megStep_error] at h; cases h
    | ok s1 => rw [hs] at h; exact ih s1 st' (megStep_inv hw hu hgr hv hi hs) h

/-- **MergeEquivalentGates**: every valuation of the argument is a valuation of the result; inputs
kept; outputs redirected to gates of equal value (equal rows of the per-gate truth table) -/
theorem meg_spec {c c' : Circuit} (hw : WFS c) (har : ArOK c) (h : meg c = .ok c') :
    c'.inputs = c.inputs ∧ c'.outputs.length = c.outputs.length ∧
    (∀ b v, IsValB c b v → WFS c' ∧ IsValB c' b v ∧ c'.outputs.map v = c.outputs.map v ∧
      ∀ g' ∈ c'.gates, ∃ g ∈ c.gates, g'.label = g.label ∧ g'.ty = g.ty ∧ g'.ops.length = g.ops.length) := by
  have hu := WFU.ofWFS hw har
  unfold meg at h
  cases hgr : megGroups c with
  | error e => simp [hgr] at h
  | ok groups =>
    simp only [hgr] at h
    cases htr : traverse c false false (some c.outputs) true with
    | error e => simp [htr] at h
    | ok log =>
      simp only [htr] at h
      cases hf : (hookLabels log true).foldl (megStep c groups) (.ok (Circuit.empty, [])) with
      | error e => simp [hf] at h
      | ok st =>
        obtain ⟨n1, keep⟩ := st
        simp only [hf] at h
        cases hsi : n1.setInputs c.inputs with
        | error e => simp [hsi] at h
        | ok n2 =>
          simp only [hsi] at h
          obtain ⟨hoc, hic⟩ := setOutputs_outputs h
          obtain ⟨hi3, _⟩ := setInputs_inputs hsi
          have hg2 : n2.gates = n1.gates := setInputs_gates hsi
          refine ⟨by rw [hic, hi3], ?_, ?_⟩
          · rw [hoc]
            -- the length of the renamed output list does not depend on a valuation
            have : ∀ (ls : List Label) (k : Keep), (megNames groups k ls).1.length = ls.length := by
              intro ls; induction ls with
              | nil => intro k; rfl
              | cons l r ih => intro k; simp [megNames, ih]
            exact this _ _
          · intro b v hv
            have hi0 : MegInv c groups b v (Circuit.empty, []) :=
              ⟨wfs_empty, by intro g hg; simp [Circuit.empty] at hg, by intro p hp; simp at hp,
                by intro g hg; simp [Circuit.empty] at hg⟩
            have hi := megFold_inv hw hu hgr hv _ _ _ hi0 hf
            obtain ⟨m1, _, _⟩ := megNames_sound hu hgr hv c.outputs keep hi.keep hw.outputsOK
            have w2 : WFS n2 := setInputs_wfs hi.wfs hsi
            refine ⟨setOutputs_wfs w2 h, ?_, by rw [hoc]; exact m1, ?_⟩
            · intro g hg
              rw [setOutputs_gates h, hg2] at hg
              exact hi.val g hg
            · intro g' hg'
              rw [setOutputs_gates h, hg2] at hg'
              exact hi.shape g' hg'

/-- MEG, packaged: invariant kept, interface kept, gate shapes kept, valuations preserved -/
theorem meg_spec' {c c' : Circuit} (hw : WFS c) (har : ArOK c) (h : meg c = .ok c') :
    WFS c' ∧ c'.inputs = c.inputs ∧ c'.outputs.length = c.outputs.length ∧ SameShape c c' ∧
    (∀ b v, IsValB c b v → IsValB c' b v ∧ c'.outputs.map v = c.outputs.map v) := by
  obtain ⟨h1, h2, h3⟩ := meg_spec hw har h
  obtain ⟨v0, hv0⟩ := valB_exists (WFU.ofWFS hw har) (fun _ => false)
  obtain ⟨w, _, _, sh⟩ := h3 _ v0 hv0
  exact ⟨w, h1, h2, sh, fun b v hv => ⟨(h3 b v hv).2.1, (h3 b v hv).2.2.1⟩⟩

end Cirbo
