import Cirbo.Proofs.EvalLazy
import Cirbo.Proofs.DfsOrder
/-!
# The explicit-stack loop of `evaluate_circuit` terminates within its step budget (C01, C15)
-/
namespace Cirbo
open Circuit GateType

def entryCost (X : Label → Bool) (l : Label) : Nat := if X l then 1 else 2
def stackCost (X : Label → Bool) (s : List Label) : Nat := (s.map (entryCost X)).sum
/-- twice the operand count of the gates not examined yet -/
def arW (c : Circuit) (X : Label → Bool) (ls : List Label) : Nat :=
  ((ls.filter (fun l => !X l)).map (fun l => 2 * (c.opsOf l).length)).sum
def lazyPot (c : Circuit) (X : Label → Bool) (s : List Label) : Nat := stackCost X s + arW c X c.labels

def addX (X : Label → Bool) (k : Label) : Label → Bool := fun l => if l = k then true else X l

/-- every examined gate either has all operands evaluated, or sits in the stack below descendants
that include the operands still missing -/
def LGInv (c : Circuit) (r : Label → Nat) (X : Label → Bool) (s : List Label) (d : Asg) : Prop :=
  ∀ u, X u = true → (∀ o ∈ c.opsOf u, d.contains o = true) ∨
    ∃ pre post, s = pre ++ u :: post ∧ (∀ x ∈ post, r x < r u) ∧ ∀ o ∈ c.opsOf u, d.contains o = true ∨ o ∈ post

theorem contains_set (d : Asg) (k o : Label) (v : V3) : (d.set k v).contains o = (decide (o = k) || d.contains o) := by
  unfold Dict.contains
  rw [Dict.get?_set]
  by_cases h : o = k <;> simp [h]

theorem stackCost_append (X : Label → Bool) (a b : List Label) : stackCost X (a ++ b) = stackCost X a + stackCost X b := by
  simp [stackCost, List.map_append, List.sum_append]

theorem stackCost_le_two (X : Label → Bool) (s : List Label) : stackCost X s ≤ 2 * s.length := by
  induction s with
  | nil => simp [stackCost]
  | cons x t ih =>
    simp only [stackCost, List.map_cons, List.sum_cons, List.length_cons] at ih ⊢
    have : entryCost X x ≤ 2 := by unfold entryCost; split <;> omega
    omega

theorem stackCost_addX_le (X : Label → Bool) (k : Label) (s : List Label) : stackCost (addX X k) s ≤ stackCost X s := by
  induction s with
  | nil => simp [stackCost]
  | cons x t ih =>
    simp only [stackCost, List.map_cons, List.sum_cons] at ih ⊢
    have : entryCost (addX X k) x ≤ entryCost X x := by
      unfold entryCost addX
      by_cases h : x = k <;> simp [h] <;> split <;> omega
    omega

theorem arW_addX_other (c : Circuit) (X : Label → Bool) (k : Label) : ∀ (ls : List Label), k ∉ ls →
    arW c (addX X k) ls = arW c X ls := by
  intro ls
  induction ls with
  | nil => intro _; rfl
  | cons x t ih =>
    intro hk
    simp only [List.mem_cons, not_or] at hk
    have hx : addX X k x = X x := by simp [addX, Ne.symm hk.1]
    simp only [arW, List.filter_cons, hx] at ih ⊢
    split <;> simp [ih hk.2]

theorem arW_addX (c : Circuit) (X : Label → Bool) (k : Label) (hk : X k = false) : ∀ (ls : List Label), ls.Nodup → k ∈ ls →
    arW c (addX X k) ls + 2 * (c.opsOf k).length = arW c X ls := by
  intro ls
  induction ls with
  | nil => intro _ h; cases h
  | cons x t ih =>
    intro hnd hm
    have hnd' := List.nodup_cons.mp hnd
    by_cases hx : x = k
    · subst hx
      have h1 : addX X x x = true := by simp [addX]
      have hr := arW_addX_other c X x t hnd'.1
      simp only [arW, List.filter_cons, h1, hk] at hr ⊢
      simp only [Bool.not_true, Bool.false_eq_true, if_false, Bool.not_false, if_true, List.map_cons, List.sum_cons]
      rw [hr]; omega
    · have hk' : k ∈ t := by
        rcases List.mem_cons.mp hm with h | h
        · exact absurd h.symm hx
        · exact h
      have hxs : addX X k x = X x := by simp [addX, hx]
      have := ih hnd'.2 hk'
      simp only [arW, List.filter_cons, hxs] at this ⊢
      split
      · simp only [List.map_cons, List.sum_cons]; omega
      · exact this

theorem opsOf_of_find {c : Circuit} {l : Label} {g : Gate} (h : c.find? l = some g) : c.opsOf l = g.ops := by
  simp [Circuit.opsOf, h]

/-- one iteration keeps the ghost invariant (for a suitably extended set of examined gates) and
strictly lowers the potential -/
theorem lazyStep_pot {c : Circuit} {r : Label → Nat} (hnd : c.labels.Nodup)
    (hrk : ∀ g ∈ c.gates, ∀ o ∈ g.ops, r o < r g.label)
    {X : Label → Bool} {s s' : List Label} {d d' : Asg} (hne : s ≠ [])
    (inv : LGInv c r X s d) (hs : lazyStep c s d = .ok (s', d')) :
    ∃ X', LGInv c r X' s' d' ∧ lazyPot c X' s' < lazyPot c X s := by
  unfold lazyStep at hs
  cases htop : s.getLast? with
  | none => rw [List.getLast?_eq_none_iff] at htop; exact absurd htop hne
  | some top =>
    have hq : s = s.dropLast ++ [top] := getLast?_split htop
    simp only [htop] at hs
    cases hf : c.find? top with
    | none => simp [hf] at hs
    | some g =>
      simp only [hf] at hs
      obtain ⟨hgm, hgl⟩ := find_some_mem hf
      have hops : c.opsOf top = g.ops := opsOf_of_find hf
      by_cases hp : g.ops.filter (fun o => !d.contains o) = []
      · -- nothing to push: the gate is evaluated and popped
        have hlast : (s ++ g.ops.filter (fun o => !d.contains o)).getLast? = some g.label := by
          rw [hp, List.append_nil, htop, hgl]
        simp only [hlast, if_true] at hs
        cases he : evalGate g d with
        | error e => simp [he] at hs
        | ok v =>
          simp only [he, Except.ok.injEq, Prod.mk.injEq] at hs
          obtain ⟨rfl, rfl⟩ := hs
          simp only [hp, List.append_nil]
          refine ⟨X, ?_, ?_⟩
          · intro u hu
            rcases inv u hu with h1 | ⟨pre, post, e, hrank, hpend⟩
            · left; intro o ho; rw [contains_set]; simp [h1 o ho]
            · by_cases hpost : post = []
              · subst hpost
                left; intro o ho
                rw [contains_set]
                rcases hpend o ho with h | h
                · simp [h]
                · cases h
              · right
                have hpl : post = post.dropLast ++ [top] := by
                  have : (pre ++ u :: post).getLast? = some top := by rw [← e]; exact htop
                  rw [getLast?_after hpost] at this
                  exact getLast?_split this
                refine ⟨pre, post.dropLast, split_dropLast e hpl, fun x hx => hrank x (List.dropLast_subset _ hx), ?_⟩
                intro o ho
                rcases hpend o ho with h | h
                · left; rw [contains_set]; simp [h]
                · rw [hpl] at h
                  rcases List.mem_append.mp h with h | h
                  · exact Or.inr h
                  · simp only [List.mem_singleton] at h
                    left; rw [contains_set, hgl]; simp [h]
          · unfold lazyPot
            have : stackCost X s = stackCost X s.dropLast + entryCost X top := by
              conv => lhs; rw [hq]
              rw [stackCost_append]; simp [stackCost]
            have h1 : 1 ≤ entryCost X top := by unfold entryCost; split <;> omega
            omega
      · -- operands are missing: they are pushed
        have hnotself : (s ++ g.ops.filter (fun o => !d.contains o)).getLast? ≠ some g.label := by
          intro h
          rw [List.getLast?_append] at h
          cases hl : (g.ops.filter (fun o => !d.contains o)).getLast? with
          | none => rw [List.getLast?_eq_none_iff] at hl; exact hp hl
          | some o =>
            rw [hl] at h
            simp only [Option.some_or, Option.some.injEq] at h
            have hm := List.mem_of_getLast? hl
            have := hrk g hgm o (List.mem_filter.mp hm).1
            rw [h] at this; exact Nat.lt_irrefl _ this
        simp only [hnotself, if_false, Except.ok.injEq, Prod.mk.injEq] at hs
        obtain ⟨rfl, rfl⟩ := hs
        -- the gate was not examined before
        have hX : X top = false := by
          cases hh : X top with
          | false => rfl
          | true =>
            exfalso
            rcases inv top hh with h1 | ⟨pre, post, e, hrank, hpend⟩
            · apply hp
              apply List.filter_eq_nil_iff.mpr
              intro o ho
              rw [hops] at h1
              simp [h1 o ho]
            · have hpost : post = [] := by
                apply Classical.byContradiction
                intro hpne
                have : (pre ++ top :: post).getLast? = some top := by rw [← e]; exact htop
                rw [getLast?_after hpne] at this
                exact Nat.lt_irrefl _ (hrank top (List.mem_of_getLast? this))
              subst hpost
              apply hp
              apply List.filter_eq_nil_iff.mpr
              intro o ho
              rw [hops] at hpend
              rcases hpend o ho with h | h
              · simp [h]
              · cases h
        refine ⟨addX X top, ?_, ?_⟩
        · intro u hu
          by_cases hut : u = top
          · subst hut
            right
            refine ⟨s.dropLast, g.ops.filter (fun o => !d.contains o), ?_, ?_, ?_⟩
            · conv => lhs; rw [hq]
              simp
            · intro x hx
              have := hrk g hgm x (List.mem_filter.mp hx).1
              rw [hgl] at this; exact this
            · intro o ho
              rw [hops] at ho
              by_cases hc : d.contains o = true
              · exact Or.inl hc
              · exact Or.inr (List.mem_filter.mpr ⟨ho, by simpa using hc⟩)
          · have hu' : X u = true := by simpa [addX, hut] using hu
            rcases inv u hu' with h1 | ⟨pre, post, e, hrank, hpend⟩
            · exact Or.inl h1
            · right
              refine ⟨pre, post ++ g.ops.filter (fun o => !d.contains o), by rw [e]; simp, ?_, ?_⟩
              · intro x hx
                rcases List.mem_append.mp hx with hx | hx
                · exact hrank x hx
                · have htp : top ∈ post := mem_after_of_last (by rw [← e]; exact htop) hut
                  have h1 := hrk g hgm x (List.mem_filter.mp hx).1
                  rw [hgl] at h1
                  exact Nat.lt_trans h1 (hrank top htp)
              · intro o ho
                rcases hpend o ho with h | h
                · exact Or.inl h
                · exact Or.inr (List.mem_append_left _ h)
        · unfold lazyPot
          have htl : top ∈ c.labels := by rw [← hgl]; exact mem_labels_of_mem hgm
          have ha := arW_addX c X top hX c.labels hnd htl
          rw [hops] at ha
          have h1 : stackCost X s = stackCost X s.dropLast + 2 := by
            conv => lhs; rw [hq]
            rw [stackCost_append]; simp [stackCost, entryCost, hX]
          have h2 : stackCost (addX X top) s = stackCost (addX X top) s.dropLast + 1 := by
            conv => lhs; rw [hq]
            rw [stackCost_append]; simp [stackCost, entryCost, addX]
          have h3 := stackCost_addX_le X top s.dropLast
          have h4 := stackCost_le_two (addX X top) (g.ops.filter (fun o => !d.contains o))
          have h5 : (g.ops.filter (fun o => !d.contains o)).length ≤ g.ops.length := List.length_filter_le _ _
          rw [stackCost_append]
          omega

theorem evalGate_error_ne_fuel {g : Gate} {d : Asg} {e : String} (h : evalGate g d = .error e) : e ≠ "fuel" := by
  unfold evalGate at h
  split at h
  · simp only [Except.error.injEq] at h; subst h; decide
  · split at h
    · simp only [Except.error.injEq] at h; subst h; decide
    · split at h
      · simp only [Except.error.injEq] at h; subst h; decide
      · cases h

theorem lazyStep_error_ne_fuel {c : Circuit} {s : List Label} {d : Asg} {e : String}
    (h : lazyStep c s d = .error e) : e ≠ "fuel" := by
  unfold lazyStep at h
  split at h
  · cases h
  · split at h
    · simp only [Except.error.injEq] at h; subst h; decide
    · simp only at h
      split at h
      · split at h
        · rename_i he
          simp only [Except.error.injEq] at h; subst h
          exact evalGate_error_ne_fuel he
        · cases h
      · cases h

/-- **the stack loop of `evaluate_circuit` never exhausts its step budget** on an acyclic circuit
with distinct labels -/
theorem lazyLoop_terminates {c : Circuit} {r : Label → Nat} (hnd : c.labels.Nodup)
    (hrk : ∀ g ∈ c.gates, ∀ o ∈ g.ops, r o < r g.label) :
    ∀ (fuel : Nat) (X : Label → Bool) (s : List Label) (d : Asg), LGInv c r X s d → lazyPot c X s < fuel →
      lazyLoop c fuel s d ≠ .error "fuel" := by
  intro fuel
  induction fuel with
  | zero => intro X s d _ h; omega
  | succ fuel ih =>
    intro X s d inv hpot
    unfold lazyLoop
    by_cases hemp : s.isEmpty = true
    · simp [hemp]
    · simp only [hemp, Bool.false_eq_true, if_false]
      have hne : s ≠ [] := by intro e; subst e; simp at hemp
      cases hs : lazyStep c s d with
      | error e =>
        simp only [ne_eq, Except.error.injEq]
        exact lazyStep_error_ne_fuel hs
      | ok p =>
        obtain ⟨s', d'⟩ := p
        simp only
        obtain ⟨X', inv', hlt⟩ := lazyStep_pot hnd hrk hne inv hs
        exact ih X' s' d' inv' (by omega)

theorem totalArity_eq {c : Circuit} (hnd : c.labels.Nodup) :
    ((c.labels).map (fun l => 2 * (c.opsOf l).length)).sum = 2 * totalArity c := by
  unfold totalArity
  rw [foldl_add_eq_sum]
  have : c.labels.map (fun l => 2 * (c.opsOf l).length) = c.gates.map (fun g => 2 * g.ops.length) := by
    unfold Circuit.labels
    rw [List.map_map]
    apply List.map_congr_left
    intro g hg
    simp only [Function.comp]
    rw [opsOf_gate hnd hg]
  rw [this]
  generalize c.gates = gs
  induction gs with
  | nil => simp
  | cons g t ih => simp only [List.map_cons, List.sum_cons, ih]; omega

/-- **`evaluate_circuit` terminates**: on every circuit with distinct labels and no cycle, for every
assignment and every requested output list -/
theorem evalLazy_terminates {c : Circuit} (hnd : c.labels.Nodup)
    (hrank : ∃ r : Label → Nat, ∀ g ∈ c.gates, ∀ o ∈ g.ops, r o < r g.label)
    (asg : Asg) (outs : Option (List Label)) : evalLazy c asg outs ≠ .error "fuel" := by
  obtain ⟨r, hrk⟩ := hrank
  unfold evalLazy
  simp only
  have key := lazyLoop_terminates hnd hrk
    (2 * (((outs.getD c.outputs).filter (fun o => !c.inputs.contains o)).length + totalArity c) + 2)
    (fun _ => false) ((outs.getD c.outputs).filter (fun o => !c.inputs.contains o)) (initAsg c asg)
    (by intro u hu; cases hu)
    (by
      unfold lazyPot
      have h1 := stackCost_le_two (fun _ => false) ((outs.getD c.outputs).filter (fun o => !c.inputs.contains o))
      have h2 : arW c (fun _ => false) c.labels = 2 * totalArity c := by
        unfold arW
        simp only [Bool.not_false]
        have : c.labels.filter (fun _ => true) = c.labels := List.filter_eq_self.mpr (fun _ _ => rfl)
        rw [this]
        exact totalArity_eq hnd
      omega)
  split
  · rename_i e he
    intro h
    simp only [Except.error.injEq] at h
    subst h
    exact key he
  · simp

/-! ## and it raises nothing on a well-formed circuit -/

theorem lazyStep_ok {c : Circuit} (h : WF c) {a v : Label → V3}
    {need s : List Label} {d : Asg} (inv : LInv c a v need s d) :
    ∃ p, lazyStep c s d = .ok p := by
  unfold lazyStep
  cases hq : s.getLast? with
  | none => exact ⟨_, rfl⟩
  | some top =>
    have htop : top ∈ s := List.mem_of_getLast? hq
    obtain ⟨g, hg, hgl, hty⟩ := inv.stk top htop
    have hfind : c.find? top = some g := hgl ▸ find_label h.nodup hg
    simp only [hfind]
    split
    · rename_i hlast
      -- no operand is missing
      have hall : ∀ o ∈ g.ops, d.contains o = true := by
        by_cases hp : g.ops.filter (fun o => !d.contains o) = []
        · intro o ho
          have := List.filter_eq_nil_iff.mp hp o ho
          simpa using this
        · exfalso
          rw [List.getLast?_append] at hlast
          cases hl : (g.ops.filter (fun o => !d.contains o)).getLast? with
          | none => rw [List.getLast?_eq_none_iff] at hl; exact hp hl
          | some o =>
            rw [hl] at hlast
            simp only [Option.some_or, Option.some.injEq] at hlast
            have hm := List.mem_of_getLast? hl
            obtain ⟨r, hr⟩ := h.rank
            have := hr g hg o (List.mem_filter.mp hm).1
            rw [hlast] at this; exact Nat.lt_irrefl _ this
      have hvals := mapM_get?_some d g.ops (fun o ho => hall o ho)
      generalize hvv : g.ops.map (valOf d) = vals at hvals
      have hlen : vals.length = g.ops.length := by rw [← hvv]; simp
      have har := h.arity g hg
      simp only [hty, if_false] at har
      have hsome : (applyOp g.ty vals).isSome = true := by rw [applyOp_isSome_iff, hlen]; exact har
      obtain ⟨r, hr⟩ := Option.isSome_iff_exists.mp hsome
      have : evalGate g d = .ok r := by
        unfold evalGate
        simp only [hty, if_false, hvals, hr]
      rw [this]
      exact ⟨_, rfl⟩
    · exact ⟨_, rfl⟩

theorem lazyLoop_ok {c : Circuit} (h : WF c) {a v : Label → V3} (hv : IsVal3 c a v) {r : Label → Nat}
    (hrk : ∀ g ∈ c.gates, ∀ o ∈ g.ops, r o < r g.label) {need : List Label} :
    ∀ (fuel : Nat) (X : Label → Bool) (s : List Label) (d : Asg), LInv c a v need s d → LGInv c r X s d →
      lazyPot c X s < fuel → ∃ dfin, lazyLoop c fuel s d = .ok dfin := by
  intro fuel
  induction fuel with
  | zero => intro X s d _ _ h; omega
  | succ fuel ih =>
    intro X s d linv ginv hpot
    unfold lazyLoop
    by_cases hemp : s.isEmpty = true
    · simp [hemp]
    · simp only [hemp, Bool.false_eq_true, if_false]
      have hne : s ≠ [] := by intro e; subst e; simp at hemp
      obtain ⟨⟨s', d'⟩, hs⟩ := lazyStep_ok h linv
      rw [hs]
      simp only
      obtain ⟨X', ginv', hlt⟩ := lazyStep_pot h.nodup hrk hne ginv hs
      exact ih X' s' d' (lazyStep_inv h hv linv hs) ginv' (by omega)

/-- **`evaluate_circuit` returns on every well-formed circuit**, for every assignment to inputs (no
entries for internal gates) and every list of existing requested outputs -/
theorem evalLazy_ok {c : Circuit} (h : WF c) (asg : Asg) (outs : Option (List Label))
    (hasg : ∀ g ∈ c.gates, g.ty ≠ INPUT → asg.get? g.label = none)
    (houts : ∀ o ∈ outs.getD c.outputs, o ∈ c.labels)
    {v : Label → V3} (hv : IsVal3 c (asgFun asg) v) : ∃ d, evalLazy c asg outs = .ok d := by
  obtain ⟨r, hrk⟩ := h.rank
  unfold evalLazy
  simp only
  generalize hneed : (outs.getD c.outputs).filter (fun o => !c.inputs.contains o) = need
  have hinp0 : ∀ g ∈ c.gates, g.ty = INPUT →
      (initAsg c asg).get? g.label = some (asgFun asg g.label) := by
    intro g hg hty
    rw [initAsg_get?]
    have : g.label ∈ c.inputs := (h.inputsOK g.label).mpr ⟨g, hg, rfl, hty⟩
    simp [this]
  have inv0 : LInv c (asgFun asg) v need need (initAsg c asg) := by
    refine ⟨hinp0, ?_, ?_, fun l hl => Or.inl hl⟩
    · intro g hg hty x hx
      rw [initAsg_get?] at hx
      have hni : g.label ∉ c.inputs := by
        intro hin
        obtain ⟨g', hg', hgl', hty'⟩ := (h.inputsOK g.label).mp hin
        have : g' = g := gate_unique h.nodup hg' hg hgl'
        subst this; exact hty hty'
      simp [hni, hasg g hg hty] at hx
    · intro l hl
      rw [← hneed] at hl
      simp only [List.mem_filter, Bool.not_eq_eq_eq_not, Bool.not_true, List.contains_eq_mem,
        decide_eq_false_iff_not] at hl
      obtain ⟨g, hg, hgl⟩ := gate_of_label (houts l hl.1)
      refine ⟨g, hg, hgl, ?_⟩
      intro hty
      exact hl.2 ((h.inputsOK l).mpr ⟨g, hg, hgl, hty⟩)
  obtain ⟨dfin, hfin⟩ := lazyLoop_ok h hv hrk (2 * (need.length + totalArity c) + 2) (fun _ => false) need
    (initAsg c asg) inv0 (by intro u hu; cases hu)
    (by
      unfold lazyPot
      have h1 := stackCost_le_two (fun _ => false) need
      have h2 : arW c (fun _ => false) c.labels = 2 * totalArity c := by
        unfold arW
        simp only [Bool.not_false]
        have : c.labels.filter (fun _ => true) = c.labels := List.filter_eq_self.mpr (fun _ _ => rfl)
        rw [this]
        exact totalArity_eq h.nodup
      omega)
  rw [hfin]
  exact ⟨_, rfl⟩

end Cirbo
