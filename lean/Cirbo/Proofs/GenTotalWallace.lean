import Cirbo.Proofs.GenTotalW2
import Cirbo.Proofs.GenWallaceWidth
/-!
# Totality of the Wallace-tree multiplier (`add_mul_wallace`)

The matrix of the Wallace multiplier holds labels and the placeholder string `PH`.  Every entry that is not the
placeholder is a label the generator itself drew (a partial product or an output of a column counter), never an
operand label; every drawn label is `newLabel n = "new_…" ≠ PH` (`run_fr`, `newLabel_ne_placeholder`).  So no
precondition relating the operand labels to `PH` is needed.
-/
namespace Cirbo
open GateType Circuit

/-! ## labels a run draws are not the placeholder -/

/-- a label drawn by a run -/
def m3_NL (l : Label) : Prop := ∃ n, l = newLabel n

theorem m3_NL_ne_PH {l : Label} (h : m3_NL l) : l ≠ PH := by
  obtain ⟨n, rfl⟩ := h; exact newLabel_ne_placeholder n

/-- a run that returns drew only `new_…` labels -/
theorem m3_ok_fr {α} {p : Prog α} {st : GSt} {Q : α → GSt → Prop} (h : Ok p st Q) :
    Ok p st (fun a st' => Q a st' ∧ Fr m3_NL p a) := by
  rcases h with ⟨a, st', h1, h2⟩ | h
  · exact Or.inl ⟨a, st', h1, h2, run_fr p h1⟩
  · exact Or.inr h

theorem m3_ok_emitTT {x y : Label} {op : TT} {st : GSt} {P K : List Label} (hinv : Inv st P) (hk : Kn st K)
    (hop : (Gen.ttType op.1 op.2.1 op.2.2.1 op.2.2.2).isSome = true) (hx : x ∈ K) (hy : y ∈ K) :
    Ok (emitTT x y op) st (GPost P K (fun l => [l]) (fun l => l ≠ PH)) := by
  refine (m3_ok_fr (okK_emitTT hinv hk hop hx hy)).mono ?_
  intro l st' ⟨⟨i, k, _⟩, hf⟩
  exact ⟨i, k, m3_NL_ne_PH (fr_emitTT hf)⟩

/-- the column counter on one to three bits that are not placeholders: one or two bits, not placeholders -/
theorem m3_ok_sumSmall {inp : List Label} {st : GSt} {P K : List Label} (hinv : Inv st P) (hk : Kn st K)
    (hi : ∀ l ∈ inp, l ∈ K) (hne : ∀ l ∈ inp, l ≠ PH) (h1 : 1 ≤ inp.length) (h3 : inp.length ≤ 3) :
    Ok (addSumNBits inp (.enum .xaig) false) st (GPost P K id
      (fun res => (∃ r0, res = [r0] ∧ r0 ≠ PH) ∨ (∃ r0 r1, res = [r0, r1] ∧ r0 ≠ PH ∧ r1 ≠ PH))) := by
  refine (m3_ok_fr (ok_addSumNBits (be := false) hinv hk hi (sa_resolve_enum .xaig))).mono ?_
  intro res st' ⟨⟨i, k, _⟩, hf⟩
  refine ⟨i, k, ?_⟩
  rcases sumSmall_shape h1 h3 hf with ⟨a, ha, hr⟩ | ⟨r0, r1, hr, p0, p1⟩
  · exact Or.inl ⟨a, hr, hne a (by rw [ha]; simp)⟩
  · exact Or.inr ⟨r0, r1, hr, m3_NL_ne_PH p0, m3_NL_ne_PH p1⟩

/-! ## the labels of a matrix -/

/-- the entries of a matrix that are not placeholders -/
def m3_labs (c : Mat) : List Label := c.flatten.filter (fun x => x != PH)

theorem m3_mem_labs {c : Mat} {x : Label} : x ∈ m3_labs c ↔ (∃ col ∈ c, x ∈ col) ∧ x ≠ PH := by
  unfold m3_labs
  simp only [List.mem_filter, List.mem_flatten, bne_iff_ne, ne_eq]

theorem m3_qm_of_labs {c : Mat} {K : List Label} (h : ∀ x ∈ m3_labs c, x ∈ K) : QM (fun l => l ∈ K) c := by
  intro col hcol x hx
  by_cases e : x = PH
  · exact Or.inl e
  · exact Or.inr (h x (m3_mem_labs.mpr ⟨⟨col, hcol, hx⟩, e⟩))

theorem m3_labs_of_qm {c : Mat} {K : List Label} (h : QM (fun l => l ∈ K) c) : ∀ x ∈ m3_labs c, x ∈ K := by
  intro x hx
  obtain ⟨⟨col, hcol, hxc⟩, hne⟩ := m3_mem_labs.mp hx
  rcases h col hcol x hxc with e | e
  · exact absurd e hne
  · exact e

theorem m3_qm_mono {Q Q' : Label → Prop} {c : Mat} (h : QM Q c) (hs : ∀ l, Q l → Q' l) : QM Q' c := by
  intro col hcol x hx
  rcases h col hcol x hx with e | e
  · exact Or.inl e
  · exact Or.inr (hs x e)

theorem m3_getD_mem {α} {l : List α} {i : Nat} {d : α} (h : l.getD i d ≠ d) : l.getD i d ∈ l := by
  rcases Nat.lt_or_ge i l.length with hi | hi
  · rw [List.getD_eq_getElem?_getD, List.getElem?_eq_getElem hi]; exact List.getElem_mem _
  · rw [List.getD_eq_getElem?_getD, List.getElem?_eq_none hi] at h
    exact absurd rfl h

theorem m3_entry_mem_labs {c : Mat} {col row : Nat} (hne : entry c col row ≠ PH) : entry c col row ∈ m3_labs c := by
  refine m3_mem_labs.mpr ⟨?_, hne⟩
  unfold entry at hne ⊢
  refine ⟨c.getD col [], ?_, m3_getD_mem hne⟩
  apply m3_getD_mem
  intro e
  rw [e] at hne
  exact hne rfl

/-! ## `progFold` over a range: an invariant, with the labels of the state known after every step -/

theorem m3_ok_progFold {σ : Type} {f : σ → Nat → Prog σ} {P K0 : List Label} (lab : σ → List Label)
    (I : Nat → σ → Prop) : ∀ (len a : Nat) (s : σ) (st : GSt) (K : List Label), Inv st P → Kn st K →
    (∀ x ∈ K0, x ∈ K) → (∀ x ∈ lab s, x ∈ K) → I a s →
    (∀ i s st K, a ≤ i → i < a + len → Inv st P → Kn st K → (∀ x ∈ K0, x ∈ K) → (∀ x ∈ lab s, x ∈ K) → I i s →
      Ok (f s i) st (GPost P K lab (I (i + 1)))) →
    Ok (progFold (List.range' a len) s f) st (GPost P K lab (I (a + len))) := by
  intro len
  induction len with
  | zero =>
    intro a s st K hinv hk _ hl h0 _
    simp only [List.range'_zero, progFold]
    exact Ok.ret ⟨hinv, fun l hl' => hk l (by kmem), h0⟩
  | succ len ih =>
    intro a s st K hinv hk h0 hl hI hstep
    simp only [List.range'_succ, progFold]
    apply Ok.stepK (hstep a s st K (Nat.le_refl _) (by omega) hinv hk h0 hl hI)
    intro s1 st1 i1 k1 hI1
    refine (ih (a + 1) s1 st1 (K ++ lab s1) i1 k1 (fun x hx => List.mem_append_left _ (h0 x hx))
      (fun x hx => List.mem_append_right _ hx) hI1
      (fun i s st K hi1 hi2 => hstep i s st K (by omega) (by omega))).mono ?_
    intro s2 st2 ⟨i2, k2, h2⟩
    refine ⟨i2, k2.mono (by intro l hl; kmem), ?_⟩
    rw [show a + (len + 1) = a + 1 + len by omega]; exact h2

/-! ## one reduction round -/

theorem m3_inp3_ne {column : List Label} {row : Nat} : ∀ x ∈ inp3 column row, x ≠ PH := by
  intro x hx
  unfold inp3 at hx
  simpa using (List.mem_filter.mp hx).2

/-- placing the one or two result bits of a column counter -/
theorem m3_wPlace_spec {Q : Label → Prop} {cn : Mat} {W R2 col g2 : Nat} {res : List Label}
    (hr : Rect cn W R2) (hq : QM Q cn) (hc : col < W) (hg : g2 + 1 < R2)
    (hres : (∃ r0, res = [r0] ∧ Q r0 ∧ r0 ≠ PH) ∨ (∃ r0 r1, res = [r0, r1] ∧ Q r0 ∧ Q r1 ∧ r0 ≠ PH)) :
    Rect (wPlace W col g2 cn res) W R2 ∧ QM Q (wPlace W col g2 cn res) ∧
    (∀ a b, ¬ (a = col ∧ b = g2) → ¬ (a = col + 1 ∧ b = g2 + 1) → entry (wPlace W col g2 cn res) a b = entry cn a b) ∧
    entry (wPlace W col g2 cn res) col g2 ≠ PH := by
  have hhead := wPlace_head (res := res) hr hc hg (by
    rcases hres with ⟨r0, h, _⟩ | ⟨r0, r1, h, _⟩
    · exact Or.inl ⟨r0, h⟩
    · exact Or.inr ⟨r0, r1, h⟩)
  refine ⟨?_, ?_, ?_, ?_⟩
  rotate_left 3
  · rw [hhead]
    rcases hres with ⟨r0, rfl, _, h⟩ | ⟨r0, r1, rfl, _, _, h⟩ <;> exact h
  all_goals rcases hres with ⟨r0, rfl, q0, _⟩ | ⟨r0, r1, rfl, q0, q1, _⟩
  · simp only [wPlace, List.zipIdx_cons, List.zipIdx_nil, List.foldl_cons, List.foldl_nil, Nat.add_zero, hc, if_true]
    exact rect_matSet hr _ _ _
  · simp only [wPlace, List.zipIdx_cons, List.zipIdx_nil, List.foldl_cons, List.foldl_nil, Nat.add_zero, hc, if_true,
      Nat.zero_add]
    split
    · exact rect_matSet (rect_matSet hr _ _ _) _ _ _
    · exact rect_matSet hr _ _ _
  · simp only [wPlace, List.zipIdx_cons, List.zipIdx_nil, List.foldl_cons, List.foldl_nil, Nat.add_zero, hc, if_true]
    exact qm_matSet hq _ _ q0
  · simp only [wPlace, List.zipIdx_cons, List.zipIdx_nil, List.foldl_cons, List.foldl_nil, Nat.add_zero, hc, if_true,
      Nat.zero_add]
    split
    · exact qm_matSet (qm_matSet hq _ _ q0) _ _ q1
    · exact qm_matSet hq _ _ q0
  · simp only [wPlace, List.zipIdx_cons, List.zipIdx_nil, List.foldl_cons, List.foldl_nil, Nat.add_zero, hc, if_true]
    intro a b h1 _
    rw [entry_matSet hr hc (by omega), if_neg h1]
  · simp only [wPlace, List.zipIdx_cons, List.zipIdx_nil, List.foldl_cons, List.foldl_nil, Nat.add_zero, hc, if_true,
      Nat.zero_add]
    intro a b h1 h2
    split
    · rename_i hc1
      rw [entry_matSet (rect_matSet hr col g2 r0) hc1 hg, if_neg h2, entry_matSet hr hc (by omega), if_neg h1]
    · rw [entry_matSet hr hc (by omega), if_neg h1]

/-- the invariant of the loop over the columns for one group of three rows (`cnS`: the matrix before the loop) -/
structure m3_ColInv (c cnS : Mat) (W R2 row g2 : Nat) (col : Nat) (cn : Mat) : Prop where
  rect : Rect cn W R2
  other : ∀ a b, b ≠ g2 → b ≠ g2 + 1 → entry cn a b = entry cnS a b
  occ : OccCol c cn row g2 col

theorem m3_ok_wColStep {c cnS cn : Mat} {W R2 row g2 col : Nat} {st : GSt} {P K : List Label}
    (hinv : Inv st P) (hk : Kn st K) (hqc : QM (fun l => l ∈ K) c) (hqn : QM (fun l => l ∈ K) cn)
    (hg2 : g2 = 2 * (row / 3)) (hg : g2 + 1 < R2) (hc : col < W) (inv : m3_ColInv c cnS W R2 row g2 col cn) :
    Ok (wColStep c W row cn col) st (GPost P K m3_labs (m3_ColInv c cnS W R2 row g2 (col + 1))) := by
  unfold wColStep
  simp only
  split
  · rename_i hemp
    have he : inp3 (c.getD col []) row = [] := by simpa using hemp
    refine Ok.ret ⟨hinv, fun l hl => hk l ?_, inv.rect, inv.other, ?_⟩
    · rcases List.mem_append.mp hl with h | h
      · exact h
      · exact m3_labs_of_qm hqn l h
    · intro col' hc' hne
      by_cases e : col' = col
      · subst e; exact absurd he hne
      · exact inv.occ col' (by omega) hne
  · rename_i hne
    have hlen1 : 1 ≤ (inp3 (c.getD col []) row).length := by
      cases hi : inp3 (c.getD col []) row with
      | nil => rw [hi] at hne; simp at hne
      | cons _ _ => simp
    have hinq := inp3_q (Q := fun l => l ∈ K) (qm_getD hqc col) row
    apply Ok.stepK (m3_ok_sumSmall hinv hk hinq m3_inp3_ne hlen1 (inp3_len _ _))
    intro res s1 i1 k1 hshape
    simp only [id] at k1
    rw [← hg2]
    have hshape' : (∃ r0, res = [r0] ∧ r0 ∈ K ++ res ∧ r0 ≠ PH) ∨
        (∃ r0 r1, res = [r0, r1] ∧ r0 ∈ K ++ res ∧ r1 ∈ K ++ res ∧ r0 ≠ PH) := by
      rcases hshape with ⟨r0, rfl, h0⟩ | ⟨r0, r1, rfl, h0, _⟩
      · exact Or.inl ⟨r0, rfl, by simp, h0⟩
      · exact Or.inr ⟨r0, r1, rfl, by simp, by simp, h0⟩
    obtain ⟨w1, w2, w3, w4⟩ := m3_wPlace_spec (Q := fun l => l ∈ K ++ res) inv.rect
      (m3_qm_mono hqn (fun l hl => List.mem_append_left _ hl)) hc hg hshape'
    refine Ok.ret ⟨i1, fun l hl => k1 l ?_, w1, ?_, ?_⟩
    · rcases List.mem_append.mp hl with h | h
      · exact List.mem_append_left _ h
      · exact m3_labs_of_qm w2 l h
    · intro a b hb0 hb1
      rw [w3 a b (fun h => hb0 h.2) (fun h => hb1 h.2)]
      exact inv.other a b hb0 hb1
    · intro col' hc' hne'
      by_cases e : col' = col
      · subst e; exact w4
      · rw [w3 col' g2 (fun hh => e hh.1) (by omega)]
        exact inv.occ col' (by omega) hne'

theorem m3_ok_colLoop {c cnS : Mat} {W R2 row g2 : Nat} {st : GSt} {P K : List Label}
    (hinv : Inv st P) (hk : Kn st K) (hqc : QM (fun l => l ∈ K) c) (hqn : QM (fun l => l ∈ K) cnS)
    (hg2 : g2 = 2 * (row / 3)) (hg : g2 + 1 < R2) (h0 : m3_ColInv c cnS W R2 row g2 0 cnS) :
    Ok (progFold (List.range W) cnS (wColStep c W row)) st (GPost P K m3_labs (m3_ColInv c cnS W R2 row g2 W)) := by
  rw [List.range_eq_range']
  have := m3_ok_progFold (f := wColStep c W row) (P := P) (K0 := K) m3_labs (m3_ColInv c cnS W R2 row g2) W 0 cnS st K
    hinv hk (fun _ h => h) (m3_labs_of_qm hqn) h0
    (fun i s st' K' _ hi hinv' hk' hsub hl hI => m3_ok_wColStep hinv' hk' (m3_qm_mono hqc hsub) (m3_qm_of_labs hl)
      hg2 hg (by omega) hI)
  simpa using this

/-- the invariant of the loop over the groups of three rows -/
structure m3_GrpInv (c : Mat) (W R2 : Nat) (g : Nat) (cn : Mat) : Prop where
  rect : Rect cn W R2
  occ : OccGrp c cn W g

theorem m3_ok_grpStep {c cn : Mat} {W R2 g : Nat} {st : GSt} {P K : List Label}
    (hinv : Inv st P) (hk : Kn st K) (hqc : QM (fun l => l ∈ K) c) (hqn : QM (fun l => l ∈ K) cn)
    (hg : 2 * g + 1 < R2) (inv : m3_GrpInv c W R2 g cn) :
    Ok (progFold (List.range W) cn (wColStep c W (g * 3))) st (GPost P K m3_labs (m3_GrpInv c W R2 (g + 1))) := by
  have hg2 : 2 * g = 2 * (g * 3 / 3) := by rw [Nat.mul_div_cancel _ (by omega : 0 < 3)]
  have h0 : m3_ColInv c cn W R2 (g * 3) (2 * g) 0 cn := ⟨inv.rect, fun _ _ _ _ => rfl, fun _ h _ => by omega⟩
  refine (m3_ok_colLoop hinv hk hqc hqn hg2 hg h0).mono ?_
  intro cn' st' ⟨i1, k1, hend⟩
  refine ⟨i1, k1, hend.rect, ?_⟩
  intro g' col' hg' hc' hne
  by_cases e : g' = g
  · subst e; exact hend.occ col' hc' hne
  · rw [hend.other col' (2 * g') (by omega) (by omega)]
    exact inv.occ g' col' (by omega) hc' hne

theorem m3_rows_of_rect {c : Mat} {W R : Nat} (hW : 1 ≤ W) (hr : Rect c W R) : (c.headD []).length = R := by
  cases hc : c with
  | nil => have := hr.w; rw [hc] at this; simp at this; omega
  | cons x t => simp only [List.headD_cons]; exact hr.r x (by rw [hc]; simp)

/-- the matrix a round returns: the reduced groups, then the `R % 3` rows left over -/
def m3_roundOut (c cn : Mat) (R : Nat) : Mat :=
  cn.zipIdx.map (fun (ci : List Label × Nat) => ci.1 ++ (c.getD ci.2 []).drop (R - R % 3))

theorem m3_rect_roundOut {c cn : Mat} {W R : Nat} (hr : Rect c W R) (hcn : Rect cn W (2 * (R / 3))) :
    Rect (m3_roundOut c cn R) W (2 * (R / 3) + R % 3) := by
  unfold m3_roundOut
  refine ⟨by simp [hcn.w], ?_⟩
  intro col hcol
  obtain ⟨⟨ci, i⟩, hci, rfl⟩ := List.mem_map.mp hcol
  rw [List.mem_zipIdx_iff_getElem?] at hci
  have hi : i < cn.length := (List.getElem?_eq_some_iff.mp hci).1
  have hcim : ci ∈ cn := List.mem_of_getElem? hci
  simp only [List.length_append, List.length_drop, hcn.r ci hcim, rect_getD hr (by rw [← hcn.w]; exact hi)]
  omega

theorem m3_qm_roundOut {Q : Label → Prop} {c cn : Mat} {R : Nat} (hq : QM Q c) (hqn : QM Q cn) : QM Q (m3_roundOut c cn R) := by
  unfold m3_roundOut
  intro col hcol x hx
  obtain ⟨⟨ci, i⟩, hci, rfl⟩ := List.mem_map.mp hcol
  rw [List.mem_zipIdx_iff_getElem?] at hci
  have hcim : ci ∈ cn := List.mem_of_getElem? hci
  rcases List.mem_append.mp hx with h1 | h1
  · exact hqn ci hcim x h1
  · exact qm_getD hq i x (List.mem_of_mem_drop h1)

/-- a non-empty column stays non-empty in a round, and after a round on three rows its bit is in row 0 -/
theorem m3_occ_roundOut {c cn : Mat} {W R : Nat} (hcn : Rect cn W (2 * (R / 3))) (gocc : OccGrp c cn W (R / 3))
    {col : Nat} (hcol : col < W) (hocc : ∃ row, row < R ∧ entry c col row ≠ PH) :
    (∃ row', row' < 2 * (R / 3) + R % 3 ∧ entry (m3_roundOut c cn R) col row' ≠ PH) ∧
      (R = 3 → entry (m3_roundOut c cn R) col 0 ≠ PH) := by
  obtain ⟨row, hrow, hne⟩ := hocc
  have hentry := fun b => entry_round (c := c) (full := R - R % 3) hcn col b hcol
  unfold m3_roundOut
  by_cases hlow : row < R - R % 3
  · have hg : row / 3 < R / 3 := by omega
    have hin : inp3 (c.getD col []) (row / 3 * 3) ≠ [] := inp3_ne_nil (by unfold entry at hne; exact hne) (by omega) (by omega)
    have := gocc (row / 3) col hg hcol hin
    refine ⟨⟨2 * (row / 3), by omega, ?_⟩, ?_⟩
    · rw [hentry, if_pos (by omega)]; exact this
    · intro hR3
      subst hR3
      have hr0 : row / 3 = 0 := by omega
      rw [hr0] at this
      rw [hentry, if_pos (by omega)]; exact this
  · refine ⟨⟨2 * (R / 3) + (row - (R - R % 3)), by omega, ?_⟩, fun hR3 => by omega⟩
    rw [hentry, if_neg (by omega)]
    have : R - R % 3 + (2 * (R / 3) + (row - (R - R % 3)) - 2 * (R / 3)) = row := by omega
    rw [this]; exact hne

/-- **one Wallace round returns** on a rectangular matrix whose labels are gates: the result is rectangular with
`2·(R/3) + R%3` rows, its labels are gates, non-empty columns stay non-empty -/
theorem m3_ok_wallaceRound {c : Mat} {W R : Nat} {st : GSt} {P K : List Label} (hinv : Inv st P) (hk : Kn st K)
    (hW : 1 ≤ W) (hr : Rect c W R) (hq : QM (fun l => l ∈ K) c) :
    Ok (wallaceRound W c) st (GPost P K m3_labs (fun c' => Rect c' W (2 * (R / 3) + R % 3) ∧
      ∀ col, col < W → (∃ row, row < R ∧ entry c col row ≠ PH) →
        (∃ row', row' < 2 * (R / 3) + R % 3 ∧ entry c' col row' ≠ PH) ∧ (R = 3 → entry c' col 0 ≠ PH))) := by
  have hrows := m3_rows_of_rect hW hr
  have hfull : (R - R % 3) / 3 = R / 3 := by omega
  have hloop : Ok (progFold (List.range (R / 3)) (List.replicate W (List.replicate (2 * (R / 3)) PH))
      (fun cn g => progFold (List.range W) cn (wColStep c W (g * 3)))) st
      (GPost P K m3_labs (m3_GrpInv c W (2 * (R / 3)) (R / 3))) := by
    rw [List.range_eq_range']
    have := m3_ok_progFold (f := fun cn g => progFold (List.range W) cn (wColStep c W (g * 3))) (P := P) (K0 := K) m3_labs
      (m3_GrpInv c W (2 * (R / 3))) (R / 3) 0 (List.replicate W (List.replicate (2 * (R / 3)) PH)) st K hinv hk
      (fun _ h => h) (m3_labs_of_qm (qm_replicate _ _)) ⟨rect_replicate _ _, fun _ _ h _ _ => by omega⟩
      (fun g s st' K' _ hg hinv' hk' hsub hl hI => m3_ok_grpStep hinv' hk' (m3_qm_mono hq hsub) (m3_qm_of_labs hl)
        (by omega) hI)
    simpa using this
  unfold wallaceRound
  simp only [hrows]
  rw [hfull, progFold_map]
  apply Ok.stepK hloop
  intro cn s1 i1 k1 hend
  refine Ok.ret ⟨i1, fun l hl => k1 l ?_, m3_rect_roundOut hr hend.rect, ?_⟩
  · rcases List.mem_append.mp hl with h | h
    · exact List.mem_append_left _ h
    · exact m3_labs_of_qm (K := K ++ m3_labs cn) (m3_qm_roundOut (R := R)
        (m3_qm_mono hq (fun l hl => List.mem_append_left _ hl))
        (m3_qm_of_labs (fun l hl => List.mem_append_right _ hl))) l h
  · intro col hcol hocc
    exact m3_occ_roundOut hend.rect hend.occ hcol hocc

/-! ## the rounds: `fuel ≥ R − 1` suffices (every round on `R ≥ 3` rows leaves fewer rows, at least two) -/

theorem m3_ok_wallaceRounds {W : Nat} (hW : 1 ≤ W) : ∀ (fuel : Nat) (c : Mat) (R : Nat) (st : GSt) (P K : List Label),
    Inv st P → Kn st K → Rect c W R → QM (fun l => l ∈ K) c → 2 ≤ R → R ≤ fuel + 1 →
    Ok (wallaceRounds W fuel c) st (GPost P K m3_labs (fun c' => Rect c' W 2 ∧ (R = 2 → c' = c) ∧
      ∀ col, col < W → (∃ row, row < R ∧ entry c col row ≠ PH) → R ≠ 2 → entry c' col 0 ≠ PH)) := by
  intro fuel
  induction fuel with
  | zero => intro c R st P K _ _ _ _ h2 hf; omega
  | succ fuel ih =>
    intro c R st P K hinv hk hr hq h2 hf
    have hrows := m3_rows_of_rect hW hr
    simp only [wallaceRounds, hrows]
    split
    · rename_i he
      have : R = 2 := by simpa using he
      subst this
      exact Ok.ret ⟨hinv, fun l hl => hk l (by
        rcases List.mem_append.mp hl with h | h
        · exact h
        · exact m3_labs_of_qm hq l h), hr, fun _ => rfl, fun _ _ _ h => absurd rfl h⟩
    · rename_i he
      have hR2 : R ≠ 2 := by simpa using he
      apply Ok.stepK (m3_ok_wallaceRound hinv hk hW hr hq)
      intro c1 s1 i1 k1 ⟨r1, o1⟩
      refine (ih c1 _ s1 P (K ++ m3_labs c1) i1 k1 r1 (m3_qm_of_labs (fun l hl => List.mem_append_right _ hl))
        (by omega) (by omega)).mono ?_
      intro c' s2 ⟨i2, k2, r2, e2, o2⟩
      refine ⟨i2, k2.mono (by intro l hl; kmem), r2, fun e => absurd e hR2, ?_⟩
      intro col hcol hocc _
      obtain ⟨oa, ob⟩ := o1 col hcol hocc
      by_cases hnext : 2 * (R / 3) + R % 3 = 2
      · have hR3 : R = 3 := by omega
        rw [e2 hnext]; exact ob hR3
      · exact o2 col hcol oa hnext

/-! ## the matrix of partial products -/

/-- the invariant of one row of partial products (`cB`: the matrix before the row, `s` products placed):
nothing is erased, the products placed so far are there -/
structure m3_RowInv (cB : Mat) (W R i s : Nat) (out : Mat) : Prop where
  rect : Rect out W R
  keep : ∀ col row, entry cB col row ≠ PH → entry out col row ≠ PH
  new : ∀ col, i ≤ col → col < i + s → entry out col i ≠ PH

theorem m3_ok_wRowStep {bi x : Label} {i s W R : Nat} {cB : Mat} {acc : Prog Mat} {st : GSt} {P K : List Label}
    (hbi : bi ∈ K) (hx : x ∈ K) (hi : i < R) (hcol : i + s < W)
    (hacc : Ok acc st (GPost P K m3_labs (m3_RowInv cB W R i s))) :
    Ok (wRowStep bi i acc (x, s)) st (GPost P K m3_labs (m3_RowInv cB W R i (s + 1))) := by
  unfold wRowStep
  simp only
  apply Ok.stepK hacc
  intro cc s1 i1 k1 hI
  apply Ok.stepK (m3_ok_emitTT i1 k1 (by decide) (List.mem_append_left _ hx) (List.mem_append_left _ hbi))
  intro g s2 i2 k2 hg
  refine Ok.ret ⟨i2, fun l hl => k2 l ?_, rect_matSet hI.rect _ _ _, ?_, ?_⟩
  · rcases List.mem_append.mp hl with h | h
    · exact List.mem_append_left _ (List.mem_append_left _ h)
    · exact m3_labs_of_qm (K := K ++ m3_labs cc ++ [g]) (qm_matSet (Q := fun l => l ∈ K ++ m3_labs cc ++ [g])
        (m3_qm_of_labs (fun l hl => List.mem_append_left _ (List.mem_append_right _ hl))) _ _ (by simp)) l h
  · intro col row hne
    rw [entry_matSet hI.rect hcol hi]
    split
    · exact hg
    · exact hI.keep col row hne
  · intro col h1 h2
    rw [entry_matSet hI.rect hcol hi]
    split
    · exact hg
    · rename_i hn
      exact hI.new col h1 (by
        rcases Nat.lt_or_ge col (i + s) with h | h
        · exact h
        · exfalso; apply hn; exact ⟨by omega, rfl⟩)

theorem m3_ok_wRowFold {bi : Label} {i W R : Nat} {cB : Mat} {st : GSt} {P K : List Label} (hbi : bi ∈ K) (hi : i < R) :
    ∀ (a : List Label) (s : Nat) (acc : Prog Mat), (∀ x ∈ a, x ∈ K) → i + s + a.length ≤ W →
    Ok acc st (GPost P K m3_labs (m3_RowInv cB W R i s)) →
    Ok ((a.zipIdx s).foldl (wRowStep bi i) acc) st (GPost P K m3_labs (m3_RowInv cB W R i (s + a.length))) := by
  intro a
  induction a with
  | nil => intro s acc _ _ h; simpa using h
  | cons x t ih =>
    intro s acc ha hlen hacc
    simp only [List.length_cons] at hlen
    simp only [List.zipIdx_cons, List.foldl_cons, List.length_cons]
    have := ih (s + 1) (wRowStep bi i acc (x, s)) (fun y hy => ha y (by simp [hy])) (by omega)
      (m3_ok_wRowStep hbi (ha x (by simp)) hi (by omega) hacc)
    rw [show s + (t.length + 1) = s + 1 + t.length by omega]; exact this

/-- **the matrix of partial products**: row `i` holds `AND(a[j], b[i])` in column `i + j`; nothing is erased -/
theorem m3_ok_ppMatrix {a : List Label} {W R : Nat} {P : List Label} : ∀ (b : List Label) (s : Nat) (c : Mat) (st : GSt)
    (K : List Label), Inv st P → Kn st K → (∀ x ∈ a, x ∈ K) → (∀ x ∈ b, x ∈ K) → QM (fun l => l ∈ K) c → Rect c W R →
    s + b.length ≤ R → (b ≠ [] → a.length + s + b.length ≤ W + 1) →
    Ok (ppMatrix a (b.zipIdx s) c) st (GPost P K m3_labs (fun out => Rect out W R ∧
      (∀ col row, entry c col row ≠ PH → entry out col row ≠ PH) ∧
      ∀ col row, s ≤ row → row < s + b.length → row ≤ col → col < row + a.length → entry out col row ≠ PH)) := by
  intro b
  induction b with
  | nil =>
    intro s c st K hinv hk _ _ hq hr _ _
    simp only [List.zipIdx_nil, ppMatrix]
    refine Ok.ret ⟨hinv, fun l hl => hk l ?_, hr, fun _ _ h => h, fun col row h1 h2 => ?_⟩
    · rcases List.mem_append.mp hl with h | h
      · exact h
      · exact m3_labs_of_qm hq l h
    · simp only [List.length_nil] at h2; omega
  | cons bi r ih =>
    intro s c st K hinv hk ha hb hq hr hlen hw
    simp only [List.length_cons] at hlen hw
    have hw' := hw (by simp)
    simp only [List.zipIdx_cons, ppMatrix]
    have hrow : Ok ((a.zipIdx 0).foldl (wRowStep bi s) (pure c)) st (GPost P K m3_labs (m3_RowInv c W R s (0 + a.length))) :=
      m3_ok_wRowFold (hb bi (by simp)) (by omega) a 0 (pure c) ha (by omega)
        (Ok.ret ⟨hinv, fun l hl => hk l (by
          rcases List.mem_append.mp hl with h | h
          · exact h
          · exact m3_labs_of_qm hq l h), hr, fun _ _ h => h, fun col h1 h2 => by omega⟩)
    apply Ok.stepK hrow
    intro c1 s1 i1 k1 hI
    refine (ih (s + 1) c1 s1 (K ++ m3_labs c1) i1 k1 (fun x hx => List.mem_append_left _ (ha x hx))
      (fun x hx => List.mem_append_left _ (hb x (by simp [hx]))) (m3_qm_of_labs (fun l hl => List.mem_append_right _ hl))
      hI.rect (by omega) (fun _ => by omega)).mono ?_
    intro out s2 ⟨i2, k2, r2, keep2, new2⟩
    refine ⟨i2, k2.mono (by intro l hl; kmem), r2, fun col row h => keep2 col row (hI.keep col row h), ?_⟩
    intro col row h1 h2 h3 h4
    simp only [List.length_cons] at h2
    by_cases e : row = s
    · subst e
      exact keep2 col row (hI.new col h3 (by omega))
    · exact new2 col row (by omega) (by omega) h3 h4

/-! ## the two remaining rows and the final adder -/

theorem m3_rowBits_mem {c : Mat} {k f t : Nat} {zero l : Label} (h : l ∈ rowBits c k f t zero) :
    ∃ i, f ≤ i ∧ i ≤ t ∧ ((entry c i k = PH ∧ l = zero) ∨ (entry c i k ≠ PH ∧ l = entry c i k)) := by
  rw [rowBits_eq] at h
  obtain ⟨i, hi, rfl⟩ := List.mem_map.mp h
  have := List.mem_range'_1.mp hi
  refine ⟨i, this.1, by omega, ?_⟩
  unfold selBit
  by_cases hp : entry c i k = PH
  · left; refine ⟨hp, ?_⟩
    have : (entry c i k == PH) = true := by simpa using hp
    rw [this]; rfl
  · right; refine ⟨hp, ?_⟩
    have : (entry c i k == PH) = false := by simpa using hp
    rw [this]; rfl

/-- the bits of one of the two remaining rows, as the final adder receives them, are gates: an entry of the matrix, or
the constant-false bit — which exists whenever the row has a gap between its first and its last used position -/
theorem m3_finalRow_mem {c : Mat} {W : Nat} (hw : c.length = W) (k : Nat) (zero : Label) (first : Nat) {K : List Label}
    (hq : QM (fun l => l ∈ K) c) (hfirst : first = 0 ∨ first = (usedCols c k).headD W)
    (hz : zero ∈ K ∨ (if first = 0 then (usedCols c k).length = (usedCols c k).getLast?.getD 0 + 1
      else (usedCols c k).length = (usedCols c k).getLast?.getD 0 + 1 - first)) :
    ∀ l ∈ (if (usedCols c k).isEmpty then [] else rowBits c k first ((usedCols c k).getLast?.getD 0) zero), l ∈ K := by
  rw [usedCols_eq, hw] at *
  cases hu : (List.range W).filter (fun i => entry c i k != PH) with
  | nil => intro l hl; simp at hl
  | cons f rest =>
    rw [hu] at hz hfirst
    have hne : (f :: rest).isEmpty = false := rfl
    rw [hne]
    simp only [Bool.false_eq_true, if_false]
    obtain ⟨t, ht⟩ : ∃ t, (f :: rest).getLast? = some t := by
      cases hl : (f :: rest).getLast? with
      | none => simp at hl
      | some t => exact ⟨t, rfl⟩
    rw [ht] at hz ⊢
    simp only [Option.getD_some] at hz ⊢
    obtain ⟨u1, u2, u3, u4, u5, u6, u7, u8⟩ := used_facts (fun i => entry c i k != PH) W hu ht
    have hnph : ∀ i, (entry c i k != PH) = true → entry c i k ≠ PH := fun i h => by simpa using h
    intro l hl
    obtain ⟨i, hi1, hi2, hcase⟩ := m3_rowBits_mem hl
    rcases hcase with ⟨hph, rfl⟩ | ⟨hnp, rfl⟩
    · rcases hz with hz | hz
      · exact hz
      · exfalso
        rcases hfirst with h0 | hf
        · subst h0
          simp only [if_true] at hz
          have hf0 : f = 0 := by omega
          subst hf0
          exact hnph i (u8 (by omega) i hi1 hi2) hph
        · simp only [List.headD_cons] at hf
          subst hf
          by_cases hf0 : first = 0
          · rw [if_pos hf0] at hz
            exact hnph i (u8 (by omega) i hi1 hi2) hph
          · rw [if_neg hf0] at hz
            exact hnph i (u8 hz i hi1 hi2) hph
    · exact m3_labs_of_qm hq _ (m3_entry_mem_labs hnp)

/-- the first operand of the final adder, the second one, its shift, and whether the constant-false bit is needed -/
def m3_la (c : Mat) (zero : Label) : List Label :=
  if (usedCols c 0).isEmpty then [] else rowBits c 0 0 ((usedCols c 0).getLast?.getD 0) zero
def m3_lb (c : Mat) (W : Nat) (zero : Label) : List Label :=
  if (usedCols c 1).isEmpty then [] else rowBits c 1 ((usedCols c 1).headD W) ((usedCols c 1).getLast?.getD 0) zero
def m3_firstB (c : Mat) (W : Nat) : Nat := (usedCols c 1).headD W
def m3_gaps (c : Mat) (W : Nat) : Bool :=
  ((usedCols c 0).length != (usedCols c 0).getLast?.getD 0 + 1 ||
    !(usedCols c 1).isEmpty && (usedCols c 1).length != (usedCols c 1).getLast?.getD 0 + 1 - (usedCols c 1).headD W)

theorem m3_la_mem {c : Mat} {W : Nat} (hw : c.length = W) {zero : Label} {K : List Label} (hq : QM (fun l => l ∈ K) c)
    (hz : m3_gaps c W = true → zero ∈ K) : ∀ l ∈ m3_la c zero, l ∈ K := by
  refine m3_finalRow_mem hw 0 zero 0 hq (Or.inl rfl) ?_
  cases hg : m3_gaps c W with
  | true => exact Or.inl (hz hg)
  | false =>
    right
    unfold m3_gaps at hg
    simp only [Bool.or_eq_false_iff, bne_eq_false_iff_eq] at hg
    simp only [if_true]
    exact hg.1

theorem m3_lb_mem {c : Mat} {W : Nat} (hw : c.length = W) (hW : 0 < W) {zero : Label} {K : List Label}
    (hq : QM (fun l => l ∈ K) c) (hz : m3_gaps c W = true → zero ∈ K) : ∀ l ∈ m3_lb c W zero, l ∈ K := by
  refine m3_finalRow_mem hw 1 zero ((usedCols c 1).headD W) hq (Or.inr rfl) ?_
  cases hg : m3_gaps c W with
  | true => exact Or.inl (hz hg)
  | false =>
    right
    unfold m3_gaps at hg
    simp only [Bool.or_eq_false_iff, bne_eq_false_iff_eq, Bool.and_eq_false_iff, Bool.not_eq_false'] at hg
    rcases hg.2 with he | he
    · have hnil : usedCols c 1 = [] := by simpa using he
      rw [hnil]
      have hh : ([] : List Nat).headD W = W := rfl
      rw [hh]
      split
      · omega
      · simp; omega
    · split
      · rename_i h0; rw [h0] at he; omega
      · exact he

/-- lengths of the operands of the final adder -/
theorem m3_final_shape {c : Mat} {W : Nat} (hw : c.length = W) (zero : Label) (hW : 0 < W) (h00 : entry c 0 0 ≠ PH) :
    m3_la c zero ≠ [] ∧ (m3_firstB c W < (m3_la c zero).length → m3_lb c W zero ≠ []) := by
  unfold m3_la m3_lb m3_firstB
  rw [usedCols_eq, usedCols_eq, hw]
  have hmemA : ∀ x, x ∈ (List.range W).filter (fun i => entry c i 0 != PH) ↔ x < W ∧ (entry c x 0 != PH) = true := by
    intro x; simp [List.mem_filter]
  rcases filter_cases (fun i => entry c i 0 != PH) W with hA | ⟨fA, rA, tA, hA, hAt⟩
  · exfalso
    have := (hmemA 0).mpr ⟨hW, by simpa using h00⟩
    rw [hA] at this; cases this
  · obtain ⟨a1, a2, _⟩ := used_facts _ W hA hAt
    rw [hA, hAt]
    simp only [Option.getD_some, List.isEmpty_cons, Bool.false_eq_true, if_false]
    have hlenA : (rowBits c 0 0 tA zero).length = tA + 1 := by rw [rowBits_length]; omega
    refine ⟨fun e => by rw [e] at hlenA; simp at hlenA, ?_⟩
    rw [hlenA]
    rcases filter_cases (fun i => entry c i 1 != PH) W with hB | ⟨fB, rB, tB, hB, hBt⟩
    · rw [hB]
      simp only [List.headD_nil]
      intro h; omega
    · obtain ⟨b1, b2, _⟩ := used_facts _ W hB hBt
      rw [hB, hBt]
      simp only [List.headD_cons, Option.getD_some, List.isEmpty_cons, Bool.false_eq_true, if_false]
      intro _ e
      have := rowBits_length c 1 fB tB zero
      rw [e] at this; simp at this; omega

/-- the width of the final sum, from the width facts of `add_sum_two_numbers_with_shift` -/
theorem m3_final_len {c : Mat} {W : Nat} (hw : c.length = W) (zero : Label) {r : List Label}
    (h1 : (m3_la c zero).length ≤ m3_firstB c W → r.length = m3_firstB c W + (m3_lb c W zero).length)
    (h2 : m3_firstB c W < (m3_la c zero).length →
      r.length = max (m3_la c zero).length ((m3_lb c W zero).length + m3_firstB c W) + 1) :
    r.length = finalLen W (fun i => entry c i 0 != PH) (fun i => entry c i 1 != PH) := by
  unfold m3_la m3_lb m3_firstB at h1 h2
  rw [usedCols_eq, usedCols_eq, hw] at h1 h2
  unfold finalLen
  simp only
  generalize (List.range W).filter (fun i => entry c i 0 != PH) = ua at *
  generalize (List.range W).filter (fun i => entry c i 1 != PH) = ub at *
  have hla : (if ua.isEmpty = true then ([] : List Label) else rowBits c 0 0 (ua.getLast?.getD 0) zero).length =
      (if ua.isEmpty = true then 0 else ua.getLast?.getD 0 + 1) := by
    split
    · rfl
    · rw [rowBits_length]; omega
  have hlb : (if ub.isEmpty = true then ([] : List Label) else rowBits c 1 (ub.headD W) (ub.getLast?.getD 0) zero).length =
      (if ub.isEmpty = true then 0 else ub.getLast?.getD 0 + 1 - ub.headD W) := by
    split
    · rfl
    · rw [rowBits_length]
  rw [hla, hlb] at h1 h2
  generalize (if ua.isEmpty = true then 0 else ua.getLast?.getD 0 + 1) = la at *
  generalize (if ub.isEmpty = true then 0 else ub.getLast?.getD 0 + 1 - ub.headD W) = lb at *
  generalize ub.headD W = fb at *
  split
  · rw [h1 (by omega)]
  · rw [h2 (by omega)]; omega

/-- the end of `add_mul_wallace`: the constant-false bit (on demand), the shifted addition of the two rows -/
def m3_final (A : List Label) (W : Nat) (c' : Mat) (be : Bool) : Prog (List Label) := do
  let zero ← (if m3_gaps c' W then
    match A with
    | x :: _ => emitTT x x t0000
    | [] => .fail "Py:IndexError"
    else pure PH)
  let r ← addSumTwoNumbersWithShift (m3_firstB c' W) (m3_la c' zero) (m3_lb c' W zero) false
  pure (revIf (r.take W) be)

theorem m3_ok_finalTail {W : Nat} {c' : Mat} {be : Bool} {zero : Label} {st : GSt} {P K : List Label}
    (hinv : Inv st P) (hk : Kn st K) (hr : Rect c' W 2) (hq : QM (fun l => l ∈ K) c') (hW : 2 ≤ W)
    (h00 : entry c' 0 0 ≠ PH) (hz : m3_gaps c' W = true → zero ∈ K)
    (htop : entry c' (W - 2) 0 ≠ PH ∨ (entry c' (W - 2) 1 ≠ PH ∧ ∃ i, i < W ∧ entry c' i 0 ≠ PH ∧ entry c' i 1 ≠ PH)) :
    Ok (do
      let r ← addSumTwoNumbersWithShift (m3_firstB c' W) (m3_la c' zero) (m3_lb c' W zero) false
      pure (revIf (r.take W) be)) st (GPost P K id (fun out => out.length = W)) := by
  obtain ⟨s1, s2⟩ := m3_final_shape hr.w zero (by omega) h00
  apply Ok.stepK (ok_addSumTwoNumbersWithShift (be := false) hinv hk (m3_la_mem hr.w hq hz) (m3_lb_mem hr.w (by omega) hq hz)
    (fun _ => s1) s2)
  intro r st1 i1 k1 ⟨w1, w2⟩
  refine Ok.ret ⟨i1, fun l hl => k1 l ?_, ?_⟩
  · simp only [id, List.mem_append, mem_revIf] at hl ⊢
    rcases hl with h | h
    · exact Or.inl h
    · exact Or.inr (List.mem_of_mem_take h)
  · have hfin := m3_final_len hr.w zero w1 w2
    have hge : W ≤ r.length := by
      rw [hfin]
      apply finalLen_ge _ _ _ hW
      rcases htop with h | ⟨h, i, hi, ha, hb⟩
      · left; simpa using h
      · right
        refine ⟨by simpa using h, i, hi, by simpa using ha, by simpa using hb⟩
    simp only [length_revIf', List.length_take]
    omega

theorem m3_ok_final {A : List Label} {W : Nat} {c' : Mat} {be : Bool} {st : GSt} {P K : List Label}
    (hinv : Inv st P) (hk : Kn st K) (hA : A ≠ []) (hAK : ∀ l ∈ A, l ∈ K) (hr : Rect c' W 2)
    (hq : QM (fun l => l ∈ K) c') (hW : 2 ≤ W) (h00 : entry c' 0 0 ≠ PH)
    (htop : entry c' (W - 2) 0 ≠ PH ∨ (entry c' (W - 2) 1 ≠ PH ∧ ∃ i, i < W ∧ entry c' i 0 ≠ PH ∧ entry c' i 1 ≠ PH)) :
    Ok (m3_final A W c' be) st (GPost P K id (fun out => out.length = W)) := by
  unfold m3_final
  cases hg : m3_gaps c' W with
  | true =>
    simp only [if_true]
    match A, hA, hAK with
    | x :: tail, _, hAK =>
      simp only
      have hx : x ∈ K := hAK x (by simp)
      apply Ok.stepK (okK_emitTT hinv hk (by decide) hx hx)
      intro zero s1 i1 k1 _
      refine (m3_ok_finalTail (zero := zero) i1 k1 hr (m3_qm_mono hq (fun l hl => List.mem_append_left _ hl)) hW h00
        (fun _ => by simp) htop).mono ?_
      intro out s2 ⟨i2, k2, h2⟩
      exact ⟨i2, k2.mono (by intro l hl; kmem), h2⟩
  | false =>
    simp only [Bool.false_eq_true, if_false]
    apply Ok.bind (Q := fun z s => z = PH ∧ s = st) (Ok.ret ⟨rfl, rfl⟩)
    intro z s ⟨e1, e2⟩
    subst e1 e2
    exact m3_ok_finalTail hinv hk hr hq hW h00 (fun h => by rw [hg] at h; cases h) htop

/-! ## `add_mul_wallace` -/

/-- **`add_mul_wallace` returns** whenever the operands are gates of the circuit and have at least one bit each; the
result labels are gates; the result has `n + m` bits (`n + m − 1` when an operand has a single bit).

* No precondition relates the operand labels to the placeholder string: operand labels never enter the matrix (its
  entries are partial products and outputs of the column counters, all drawn by the run, hence `new_…`).
* The fuel `m + 2` of the rounds suffices: a round on `R ≥ 3` rows leaves `2·(R/3) + R%3 < R` rows, at least two.
* `n ≥ 1`, `m ≥ 1` are needed: with `m = 0` (and `n ≠ 1`) the matrix has no rows and the `while` loop of the Python
  code never reaches two rows (the model runs out of fuel); with `n = 0`, `m ≥ 2` the padding zero is built from `a[0]`
  (IndexError).  (`n = 0, m = 1` and `n = 1, m = 0` happen to return the empty list.) -/
theorem m3_ok_addMulWallace {a b : List Label} {be : Bool} {st : GSt} {P K : List Label} (hinv : Inv st P) (hk : Kn st K)
    (ha : ∀ l ∈ a, l ∈ K) (hb : ∀ l ∈ b, l ∈ K) (hna : 1 ≤ a.length) (hnb : 1 ≤ b.length) :
    Ok (addMulWallace a b be) st (GPost P K id
      (fun out => out.length = if a.length = 1 ∨ b.length = 1 then a.length + b.length - 1 else a.length + b.length)) := by
  unfold addMulWallace
  have hAl : (revIf a be).length = a.length := length_revIf' a be
  have hBl : (revIf b be).length = b.length := length_revIf' b be
  have ha' : ∀ l ∈ revIf a be, l ∈ K := fun l hl => ha l (mem_revIf.mp hl)
  have hb' : ∀ l ∈ revIf b be, l ∈ K := fun l hl => hb l (mem_revIf.mp hl)
  generalize revIf a be = A at hAl ha'
  generalize revIf b be = B at hBl hb'
  dsimp only
  apply Ok.stepK (m3_ok_ppMatrix (a := A) (W := A.length + B.length) (R := B.length) B 0 _ st K hinv hk ha' hb'
    (qm_replicate _ _) (rect_replicate _ _) (by omega) (fun _ => by omega))
  intro c s1 i1 k1 ⟨cr, _, cnew⟩
  have cne : ∀ col row, row < B.length → row ≤ col → col < row + A.length → entry c col row ≠ PH :=
    fun col row h1 h2 h3 => cnew col row (Nat.zero_le _) (by omega) h2 h3
  have centry : ∀ col row, entry c col row ≠ PH → entry c col row ∈ K ++ m3_labs c :=
    fun col row h => List.mem_append_right _ (m3_entry_mem_labs h)
  by_cases hn1 : (A.length == 1) = true
  · -- a single multiplicand bit: the diagonal
    have hA1 : A.length = 1 := by simpa using hn1
    simp only [hn1, if_true]
    refine Ok.ret ⟨i1, fun l hl => ?_, ?_⟩
    · simp only [id, List.mem_append, mem_revIf, List.mem_map, List.mem_range] at hl
      rcases hl with h | ⟨i, hi, rfl⟩
      · exact k1 l (List.mem_append_left _ h)
      · exact k1 _ (centry i i (cne i i hi (Nat.le_refl _) (by omega)))
    · dsimp only
      rw [length_revIf', List.length_map, List.length_range, if_pos (Or.inl (by omega))]; omega
  · have hn1' : (A.length == 1) = false := by simpa using hn1
    have hA2 : A.length ≠ 1 := by simpa using hn1'
    simp only [hn1', Bool.false_eq_true, if_false]
    by_cases hm1 : (B.length == 1) = true
    · -- a single multiplier bit: row 0
      have hB1 : B.length = 1 := by simpa using hm1
      simp only [hm1, if_true]
      refine Ok.ret ⟨i1, fun l hl => ?_, ?_⟩
      · simp only [id, List.mem_append, mem_revIf, List.mem_map, List.mem_range] at hl
        rcases hl with h | ⟨i, hi, rfl⟩
        · exact k1 l (List.mem_append_left _ h)
        · exact k1 _ (centry i 0 (cne i 0 (by omega) (Nat.zero_le _) (by omega)))
      · dsimp only
        rw [length_revIf', List.length_map, List.length_range, if_pos (Or.inr (by omega))]; omega
    · have hm1' : (B.length == 1) = false := by simpa using hm1
      have hB2 : B.length ≠ 1 := by simpa using hm1'
      simp only [hm1', Bool.false_eq_true, if_false]
      have hW : 1 ≤ A.length + B.length := by omega
      apply Ok.stepK (m3_ok_wallaceRounds hW (B.length + 2) c B.length s1 P (K ++ m3_labs c) i1 k1 cr
        (m3_qm_of_labs (fun l hl => List.mem_append_right _ hl)) (by omega) (by omega))
      intro c' s2 i2 k2 ⟨r2, e2, o2⟩
      have hA : A ≠ [] := by intro e; rw [e] at hAl; simp at hAl; omega
      -- column 0 and the top column of partial products end in row 0 (or the matrix had two rows from the start)
      have h00 : entry c' 0 0 ≠ PH := by
        by_cases hR2 : B.length = 2
        · rw [e2 hR2]; exact cne 0 0 (by omega) (Nat.le_refl _) (by omega)
        · exact o2 0 (by omega) ⟨0, by omega, cne 0 0 (by omega) (Nat.le_refl _) (by omega)⟩ hR2
      have htop : entry c' (A.length + B.length - 2) 0 ≠ PH ∨ (entry c' (A.length + B.length - 2) 1 ≠ PH ∧
          ∃ i, i < A.length + B.length ∧ entry c' i 0 ≠ PH ∧ entry c' i 1 ≠ PH) := by
        by_cases hR2 : B.length = 2
        · right
          rw [e2 hR2]
          exact ⟨cne _ 1 (by omega) (by omega) (by omega), 1, by omega, cne 1 0 (by omega) (by omega) (by omega),
            cne 1 1 (by omega) (by omega) (by omega)⟩
        · left
          exact o2 _ (by omega) ⟨B.length - 1, by omega, cne _ _ (by omega) (by omega) (by omega)⟩ hR2
      refine (m3_ok_final (A := A) (W := A.length + B.length) (c' := c') (be := be) i2 k2 hA
        (fun l hl => List.mem_append_left _ (List.mem_append_left _ (ha' l hl))) r2
        (m3_qm_of_labs (fun l hl => List.mem_append_right _ hl)) (by omega) h00 htop).mono ?_
      intro out s3 ⟨i3, k3, h3⟩
      refine ⟨i3, k3.mono (by intro l hl; kmem), ?_⟩
      dsimp only at h3 ⊢
      rw [h3, if_neg (by omega)]; omega

end Cirbo
