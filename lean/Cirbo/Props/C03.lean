import Cirbo.Proofs.Passes
import Cirbo.Proofs.PassTotal
import Cirbo.Proofs.PassPipe
/-!
# C03 — Simplification passes preserve the function, the interface and their argument

-- OBLIGATION: c03_rrg_preserves
-- OBLIGATION: c03_rrg_same_function
-- OBLIGATION: c03_rrg_keeps_inputs
-- OBLIGATION: c03_pipeline_of_rrg_preserves
-- OBLIGATION: c03_muo_preserves
-- OBLIGATION: c03_mdg_preserves
-- OBLIGATION: c03_meg_preserves
-- OBLIGATION: c03_pipelines_preserve
-- OBLIGATION: c03_cleanup_preserves
-- OBLIGATION: c03_equal_rows_mean_equal_functions
-- OBLIGATION: c03_same_function
-- OBLIGATION: c03_never_more_gates
-- OBLIGATION: c03_passes_return
-- PARTIAL: function, interface and invariant preservation is proved for all four passes (RemoveRedundantGates both modes, MergeUnaryOperators, MergeDuplicateGates, MergeEquivalentGates), for every pipeline / pipe-operator composition / apply_transformers list and for cleanup (light and heavy), on circuits satisfying the C02 invariant with accepted arities. "Never more gates" is proved for every pass, pipeline and cleanup (c03_never_more_gates). "The argument is not modified" is decided by the correspondence harness (Lean values are immutable). Every pass, pipeline and cleanup returns on such circuits (c03_passes_return), so the theorems speak about every call.
-/
namespace Cirbo

/-- `RemoveRedundantGates(allow_inputs_removal=allow)` on any circuit satisfying the C02 invariant:
the result is again such a circuit, consists of gates of the argument only (so it is never larger),
keeps the output list, keeps the input order, and drops inputs only when asked to — and then only
those it does not contain. -/
theorem c03_rrg_preserves {allow : Bool} {c c' : Circuit} (hw : WFS c) (h : rrg allow c = .ok c') :
    WFS c' ∧ (∀ g ∈ c'.gates, g ∈ c.gates) ∧ c'.gates.length ≤ c.gates.length ∧
    c'.outputs = c.outputs ∧
    c'.inputs = c.inputs.filter (fun i => decide (i ∈ c'.labels)) := by
  obtain ⟨a, b, _, d, e, _, g, _⟩ := rrg_spec hw h
  exact ⟨a, b, g, d, e⟩

theorem c03_rrg_keeps_inputs {c c' : Circuit} (hw : WFS c) (h : rrg false c = .ok c') :
    c'.inputs = c.inputs := (rrg_spec hw h).2.2.2.2.2.1 rfl

/-- identical truth table: under every input assignment, the valuation of the result gives each
output position the value the valuation of the argument gives it -/
theorem c03_rrg_same_function {allow : Bool} {c c' : Circuit} (hw : WFS c) (h : rrg allow c = .ok c')
    (b : Label → Bool) (v v' : Label → Bool) (hv : IsValB c b v) (hv' : IsValB c' b v') :
    c'.outputs.map v' = c.outputs.map v := by
  obtain ⟨w', _, hval, ho, _⟩ := rrg_spec hw h
  rw [ho]
  apply List.map_congr_left
  intro o hoc
  have hol : o ∈ c'.labels := w'.outputsOK o (ho ▸ hoc)
  obtain ⟨g, hg, rfl⟩ := List.mem_map.mp hol
  exact valB_unique_cr w'.closed w'.rank hv' (hval b v hv) g hg

/-- the same for every pipeline that consists of redundant-gate removals -/
theorem c03_pipeline_of_rrg_preserves : ∀ (ts : List Tr) {c c' : Circuit}, WFS c →
    (∀ t ∈ ts, ∃ a, t = .rrg a) → runSeq (.ok c) ts = .ok c' →
    WFS c' ∧ (∀ g ∈ c'.gates, g ∈ c.gates) ∧ c'.outputs = c.outputs ∧
    (∀ b v, IsValB c b v → IsValB c' b v) := by
  intro ts
  induction ts with
  | nil => intro c c' hw _ h; cases h; exact ⟨hw, fun _ h => h, rfl, fun _ _ h => h⟩
  | cons t r ih =>
    intro c c' hw hts h
    obtain ⟨a, rfl⟩ := hts t (by simp)
    have h' : runSeq (trStepR (.ok c) (.rrg a)) r = .ok c' := h
    cases h1 : trStepR (.ok c) (.rrg a) with
    | error e => rw [h1, runSeq_error] at h'; cases h'
    | ok c1 =>
      rw [h1] at h'
      obtain ⟨w1, s1, v1, o1, _⟩ := rrg_spec hw (show rrg a c = .ok c1 from h1)
      obtain ⟨w2, s2, o2, v2⟩ := ih w1 (fun t ht => hts t (by simp [ht])) h'
      exact ⟨w2, fun g hg => s1 g (s2 g hg), o2.trans o1, fun b v hv => v2 b v (v1 b v hv)⟩

/-- **MergeUnaryOperators**: invariant kept, same inputs, same number of outputs, every valuation of
the argument is a valuation of the result and gives every output position the same value -/
theorem c03_muo_preserves {c c' : Circuit} (hw : WFS c) (h : muo c = .ok c') : Preserves c c' := muo_preserves hw h

/-- **MergeDuplicateGates** -/
theorem c03_mdg_preserves {c c' : Circuit} (hw : WFS c) (h : mdg c = .ok c') : Preserves c c' := mdg_preserves hw h

/-- **MergeEquivalentGates** (gates with equal per-gate truth tables are merged) -/
theorem c03_meg_preserves {c c' : Circuit} (hw : WFS c) (har : ArOK c) (h : meg c = .ok c') : Preserves c c' :=
  meg_preserves hw har h

/-- what MergeEquivalentGates relies on: two gates whose rows of `get_gates_truth_table` coincide have
the same value under every valuation -/
theorem c03_equal_rows_mean_equal_functions {c : Circuit} (h : WFU c) {gtt : Dict (List V3)}
    (hg : gatesTruthTable c = .ok gtt) {l l' : Label} (hl : l ∈ c.labels) (hl' : l' ∈ c.labels)
    (hrow : (gtt.get? l).getD [] = (gtt.get? l').getD []) {b v : Label → Bool} (hv : IsValB c b v) : v l = v l' :=
  gtt_equal_rows_sound h hg hl hl' hrow hv

/-- **any composition** (`Transformer.transform`, `t1 | t2`, `apply_transformers` on a list, nested) -/
theorem c03_pipelines_preserve (ts : List Tr) {c c' : Circuit} (hw : WFS c) (har : ArOK c)
    (h : applyTransformers c ts = .ok c') : Preserves c c' := pipeline_preserves ts hw har h

/-- **`cleanup(circuit, use_heavy=…)`**, light and heavy -/
theorem c03_cleanup_preserves {c c' : Circuit} {heavy : Bool} (hw : WFS c) (har : ArOK c)
    (h : cleanup c heavy = .ok c') : Preserves c c' := cleanup_preserves hw har h

/-- `Preserves` gives the identical truth table: under any input assignment, the valuation of the
result gives each output position the value the valuation of the argument gives it -/
theorem c03_same_function {c c' : Circuit} (hp : Preserves c c') (b v v' : Label → Bool)
    (hv : IsValB c b v) (hv' : IsValB c' b v') : c'.outputs.map v' = c.outputs.map v := by
  obtain ⟨h1, h2⟩ := hp.val b v hv
  rw [← h2]
  apply List.map_congr_left
  intro o ho
  obtain ⟨g, hg, rfl⟩ := List.mem_map.mp (hp.wfs.outputsOK o ho)
  exact valB_unique_cr hp.wfs.closed hp.wfs.rank hv' h1 g hg

/-! Non-vacuity: dead logic and an unused input are removed, the function is kept -/
open GateType in
def c03Example : R Circuit := runOps Circuit.empty
    [.addInputs ["a", "b", "u"], .addGate ⟨"x", AND, ["a", "b"]⟩, .addGate ⟨"d", OR, ["a", "u"]⟩,
     .setOutputs ["x", "a", "x"]]
example : ((c03Example >>= rrg true).toOption.map fun c => (c.inputs, c.outputs, c.labels)) =
    some (["a", "b"], ["x", "a", "x"], ["b", "a", "x"]) := by decide

/-- the result never contains more gates than the argument: every single pass, every pipeline
(nested compositions, implied removals) and cleanup, light and heavy -/
theorem c03_never_more_gates (ts : List Tr) {c c' : Circuit} (hw : WFS c) (har : ArOK c)
    (h : applyTransformers c ts = .ok c') : c'.gates.length ≤ c.gates.length :=
  (pipeline_preserves ts hw har h).size

/-- every pass, every pipeline (nested compositions, implied removals) and cleanup **returns** on a
well-formed circuit with accepted arities: no exception, no divergence -/
theorem c03_passes_return {c : Circuit} (hw : WFS c) (har : ArOK c) :
    (∀ a, ∃ c', rrg a c = .ok c') ∧ (∃ c', muo c = .ok c') ∧ (∃ c', mdg c = .ok c') ∧ (∃ c', meg c = .ok c') ∧
    (∀ ts, ∃ c', applyTransformers c ts = .ok c') ∧ (∀ heavy, ∃ c', cleanup c heavy = .ok c') :=
  ⟨fun _ => rrg_total hw, muo_total hw har, mdg_total hw, meg_total hw har,
   fun ts => pipeline_total ts hw har, fun heavy => cleanup_total heavy hw har⟩

#print axioms c03_rrg_preserves
#print axioms c03_rrg_same_function
#print axioms c03_rrg_keeps_inputs
#print axioms c03_pipeline_of_rrg_preserves
#print axioms c03_muo_preserves
#print axioms c03_mdg_preserves
#print axioms c03_meg_preserves
#print axioms c03_pipelines_preserve
#print axioms c03_cleanup_preserves
#print axioms c03_equal_rows_mean_equal_functions
#print axioms c03_same_function
#print axioms c03_never_more_gates
#print axioms c03_passes_return

end Cirbo
