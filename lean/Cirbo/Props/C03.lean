import Cirbo.Model.Passes
/-! # C03 (placeholder until the theorems are in)
-- OBLIGATION: c03_placeholder
-/
namespace Cirbo
theorem c03_placeholder : True := trivial
#print axioms c03_placeholder
end Cirbo
