import Cirbo.Proofs.Traverse
import Cirbo.Proofs.Dfs
import Cirbo.Proofs.TrTerm
import Cirbo.Proofs.DfsOrder
import Cirbo.Proofs.CycleCheck
/-!
# C20 — Traversals visit exactly the reachable gates in a valid order

-- OBLIGATION: c20_top_sort_inputs_first
-- OBLIGATION: c20_top_sort_outputs_first
-- OBLIGATION: c20_traverse_reach_exact
-- OBLIGATION: c20_dfs_exits_exact
-- OBLIGATION: c20_dfs_exits_post_order
-- OBLIGATION: c20_dfs_inverse_exits_post_order
-- OBLIGATION: c20_dfs_enter_before_exit
-- OBLIGATION: c20_cycle_check_silent_iff_acyclic
-- OBLIGATION: c20_cycle_check_raises_when_cycle_reachable
-- OBLIGATION: c20_traversal_terminates
-- OBLIGATION: c20_traverse_never_raises
-- PARTIAL: every clause is proved on the model; BFS has no hook-order clause. What remains by correspondence only: the tie between the model's event log and the hooks the Python generator actually calls (compared event by event on every run).
-/
namespace Cirbo

/-- `top_sort(inverse=True)` on a well-formed circuit: never raises, every gate exactly once, each
after all of its operands. -/
theorem c20_top_sort_inputs_first {c : Circuit} (h : WFU c) :
    ∃ order, c.topSort true = .ok order ∧ order.Perm c.labels ∧
      ∀ pre l post, order = pre ++ l :: post → ∀ g ∈ c.gates, g.label = l → ∀ o ∈ g.ops, o ∈ pre :=
  topSort_inv_spec h.toWFG

/-- `top_sort(inverse=False)`: every gate exactly once, each after all of its users — hence before
all of its operands. -/
theorem c20_top_sort_outputs_first {c : Circuit} (h : WFU c) :
    ∃ order, c.topSort false = .ok order ∧ order.Perm c.labels ∧
      (∀ pre l post, order = pre ++ l :: post → ∀ u ∈ c.usersOf l, u ∈ pre) ∧
      (∀ pre l post, order = pre ++ l :: post → ∀ g ∈ c.gates, g.label = l → ∀ o ∈ g.ops, o ∈ post) := by
  obtain ⟨order, h1, h2, h3⟩ := topSort_dir_spec h.toWFG
  refine ⟨order, h1, h2, h3, ?_⟩
  intro pre l post hs g hg hgl o ho
  -- `o` occurs somewhere in the order; if it were before `l`, `l` (a user of `o`) would have to
  -- precede it
  have hoL : o ∈ order := h2.mem_iff.mpr (h.closed g hg o ho)
  have hnd : order.Nodup := h2.nodup_iff.mpr h.nodup
  have hlu : l ∈ c.usersOf o := by
    have := h.usersC o g hg
    have hc : 1 ≤ g.ops.count o := List.count_pos_iff.mpr ho
    rw [← hgl]; exact List.count_pos_iff.mp (by omega)
  rw [hs] at hoL hnd
  simp only [List.mem_append, List.mem_cons] at hoL
  rcases hoL with hpre | rfl | hpost
  · exfalso
    obtain ⟨p1, p2, hp⟩ := List.append_of_mem hpre
    have hs' : order = p1 ++ o :: (p2 ++ l :: post) := by rw [hs, hp]; simp
    have := h3 p1 o _ hs' l hlu
    -- l ∈ p1 and l also later: contradicts Nodup
    rw [hp] at hnd
    have hd := (List.nodup_append.mp hnd).2.2
    exact hd l (by simp [this]) l (by simp) rfl
  · exfalso
    obtain ⟨r, hr⟩ := h.rank
    have := hr g hg o ho
    rw [hgl] at this; omega
  · exact hpost

/-- DFS and BFS from any start list, in either direction, with or without `topsort_unvisited`
(whenever the call returns): exactly the reachable gates are yielded, each once, and the unvisited
hook receives exactly the unreached gates in storage resp. topological order. -/
theorem c20_traverse_reach_exact {c : Circuit} (bfs inverse : Bool) (start : Option (List Label))
    (tsu ab : Bool) {log : List Ev} (hne : c.gates ≠ [])
    (h : traverse c bfs inverse start tsu ab = .ok log) :
    let next := if inverse then c.usersOf else c.opsOf
    let q0 := start.getD (if inverse then c.inputs else c.outputs)
    (yields log).Nodup ∧ (∀ l, l ∈ yields log ↔ Reach next q0 l) ∧
    ∃ order, (if tsu then c.topSort true = .ok order else order = c.labels) ∧
      ∃ (unreached : Label → Bool), (∀ l, unreached l = true ↔ ¬ Reach next q0 l) ∧
        unvisiteds log = order.filter unreached :=
  traverse_reach_exact bfs inverse start tsu ab hne h

/-- DFS hooks are balanced: whenever the depth-first traversal returns, the exit hook received
exactly the reachable gates, each once — the same gates that were yielded (entered). -/
theorem c20_dfs_exits_exact {c : Circuit} (inverse : Bool) (start : Option (List Label)) (tsu ab : Bool)
    {log : List Ev} (hne : c.gates ≠ []) (h : traverse c false inverse start tsu ab = .ok log) :
    let next := if inverse then c.usersOf else c.opsOf
    let q0 := start.getD (if inverse then c.inputs else c.outputs)
    (exits log).Nodup ∧ (∀ l, l ∈ exits log ↔ Reach next q0 l) ∧ (∀ l, l ∈ exits log ↔ l ∈ yields log) :=
  dfs_exits_exact inverse start tsu ab hne h

/-- Exit hooks fire in post-order: in a depth-first traversal from the outputs (or any start list)
of a circuit with distinct labels and no cycle, every gate exits after all of its operands. -/
theorem c20_dfs_exits_post_order {c : Circuit} (hnd : c.labels.Nodup)
    (hrank : ∃ r : Label → Nat, ∀ g ∈ c.gates, ∀ o ∈ g.ops, r o < r g.label)
    (start : Option (List Label)) (tsu ab : Bool) {log : List Ev}
    (h : traverse c false false start tsu ab = .ok log) :
    ∀ e1 l e2, exits log = e1 ++ l :: e2 → ∀ x ∈ c.opsOf l, x ∈ e1 :=
  dfs_operands_first hnd hrank start tsu ab h

/-- The same for `inverse=True`: every gate exits after all of its users. -/
theorem c20_dfs_inverse_exits_post_order {c : Circuit} (hw : WFU c)
    (start : Option (List Label)) (tsu ab : Bool) {log : List Ev}
    (h : traverse c false true start tsu ab = .ok log) :
    ∀ e1 l e2, exits log = e1 ++ l :: e2 → ∀ x ∈ c.usersOf l, x ∈ e1 :=
  dfs_users_first hw start tsu ab h

/-- Enter hooks precede exit hooks: in the hook log of any depth-first traversal (any circuit, any
start, either direction) each exit of a gate comes after its enter. -/
theorem c20_dfs_enter_before_exit {c : Circuit} (inverse : Bool) (start : Option (List Label)) (tsu ab : Bool)
    {log : List Ev} (h : traverse c false inverse start tsu ab = .ok log) :
    ∀ pre l post, log = pre ++ Ev.exit l :: post → Ev.enter l ∈ pre :=
  dfs_enter_before_exit inverse start tsu ab h

/-- The cycle check is silent exactly on circuits with no cycle reachable from the outputs
(`AcyclicFromOutputs`: a rank strictly decreasing along operands on the reachable part): if there is
no such cycle it does not raise `CircuitValidationError`, and if it returns normally there is none. -/
theorem c20_cycle_check_silent_iff_acyclic (c : Circuit) :
    (AcyclicFromOutputs c → hasCycleCheck c ≠ .ok true) ∧ (hasCycleCheck c = .ok false → AcyclicFromOutputs c) :=
  ⟨cycleCheck_acyclic, cycleCheck_false⟩

/-- And it does raise when a cycle is reachable: with distinct labels and every reachable label
naming a gate (otherwise `GateDoesntExistError` is raised first), a circuit that is not
`AcyclicFromOutputs` makes the check raise `CircuitValidationError`. -/
theorem c20_cycle_check_raises_when_cycle_reachable {c : Circuit} (hnd : c.labels.Nodup)
    (hcl : ∀ l, Reach c.opsOf c.outputs l → c.hasGate l = true) (hcyc : ¬ AcyclicFromOutputs c) :
    hasCycleCheck c = .ok true :=
  cycleCheck_cyclic hnd hcl hcyc

/-- non-vacuity: a two-gate cycle behind an output raises, the same gates unreachable do not -/
example : (hasCycleCheck ⟨[⟨"a", .NOT, ["b"]⟩, ⟨"b", .NOT, ["a"]⟩, ⟨"x", .INPUT, []⟩], ["x"], ["a"], [], []⟩).toOption = some true := by
  decide
example : (hasCycleCheck ⟨[⟨"a", .NOT, ["b"]⟩, ⟨"b", .NOT, ["a"]⟩, ⟨"x", .INPUT, []⟩], ["x"], ["x"], [], []⟩).toOption = some false := by
  decide

/-- The traversal loop terminates: on any circuit with distinct labels (cyclic or not, dangling
operands or not), any start list, direction and hook set, the loop's step budget — which the proof
shows is a strict upper bound on `queue length + Σ_{unvisited}(1 + successors)` — is never exhausted. -/
theorem c20_traversal_terminates (c : Circuit) (hnd : c.labels.Nodup) (bfs inverse : Bool)
    (start : Option (List Label)) (tsu ab : Bool) :
    traverse c bfs inverse start tsu ab ≠ .error "fuel" :=
  traverse_terminates c hnd bfs inverse start tsu ab

/-- On a well-formed circuit DFS and BFS return (no exception, no divergence) from the default start
or any list of existing gates, in either direction, with either choice for `topsort_unvisited`; so
the "whenever the call returns" of the two exactness theorems is always met. -/
theorem c20_traverse_never_raises {c : Circuit} (h : WFU c) (bfs inverse : Bool)
    (start : Option (List Label)) (hstart : ∀ q, start = some q → ∀ x ∈ q, x ∈ c.labels) (tsu : Bool) :
    ∃ log, traverse c bfs inverse start tsu false = .ok log :=
  traverse_ok h bfs inverse start hstart tsu

#print axioms c20_dfs_exits_post_order
#print axioms c20_dfs_inverse_exits_post_order
#print axioms c20_dfs_enter_before_exit
#print axioms c20_cycle_check_silent_iff_acyclic
#print axioms c20_cycle_check_raises_when_cycle_reachable
#print axioms c20_traversal_terminates
#print axioms c20_traverse_never_raises
#print axioms c20_top_sort_inputs_first
#print axioms c20_top_sort_outputs_first
#print axioms c20_traverse_reach_exact
#print axioms c20_dfs_exits_exact

end Cirbo
