import Cirbo.Model.Mutate2
/-! # C02 (placeholder until the theorems are in)
-- OBLIGATION: c02_placeholder
-/
namespace Cirbo
theorem c02_placeholder : True := trivial
#print axioms c02_placeholder
end Cirbo
