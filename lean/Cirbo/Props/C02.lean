import Cirbo.Proofs.Mutate
import Cirbo.Proofs.MoreOps
import Cirbo.Proofs.Histories
import Cirbo.Proofs.RemoveGate
/-!
# C02 — Circuits stay well formed under every history of public mutations

-- OBLIGATION: c02_step_invariant
-- OBLIGATION: c02_history_invariant
-- OBLIGATION: c02_history_from_empty
-- OBLIGATION: c02_topological_iteration_after_history
-- OBLIGATION: c02_remove_gate_invariant
-- OBLIGATION: c02_history_with_removals
-- OBLIGATION: c02_copy_invariant
-- OBLIGATION: c02_make_block_from_slice_invariant
-- OBLIGATION: c02_left_connection_invariant
-- OBLIGATION: c02_rename_gate_invariant
-- OBLIGATION: c02_remove_block_invariant
-- OBLIGATION: c02_history_extended
-- OBLIGATION: c02_right_connection_invariant
-- OBLIGATION: c02_replace_subcircuit_invariant
-- PARTIAL: the invariant theorem covers add_gate/emplace_gate, add_inputs, mark_as_output, set_outputs, set_inputs, order_inputs, order_outputs, replace_inputs, make_block, delete_block, remove_gate, remove_block, rename_gate, copy, make_block_from_slice and every connection in either direction (connect_circuit, connect_left, connect_right, connect_inputs, extend_circuit, add_circuit; for the right direction the loop invariant is the C02 invariant of the circuit with its input list recomputed, because the stored list names already-replaced inputs until the final set_inputs) — and into_bench (C14: c14_into_bench_keeps_invariant). replace_subcircuit is covered too (c02_replace_subcircuit_invariant, and as a history step in c02_history_extended) — its proof needs the final cycle check to walk the whole graph, which is what the fix 4cd9e3a made it do. "A copy is equal to its original" and "shares no mutable state" are correspondence-only (Lean values cannot alias).
-/
namespace Cirbo

/-- one public call (valid arguments, returning normally) preserves every clause of the property:
operands/outputs exist, users index = inverse operand multiset, input list = INPUT gates each once,
acyclic, block labels exist -/
theorem c02_step_invariant {c c' : Circuit} {op : MOp} (hw : WFS c) (hv : op.valid)
    (h : runOp c op = .ok c') : WFS c' := runOp_wfs hw hv h

/-- **every finite history** of such calls, from any well-formed starting circuit -/
theorem c02_history_invariant (ops : List MOp) {c c' : Circuit} (hw : WFS c)
    (hv : ∀ op ∈ ops, op.valid) (h : runOps c ops = .ok c') : WFS c' := runOps_wfs ops hw hv h

/-- in particular every circuit built from scratch -/
theorem c02_history_from_empty (ops : List MOp) {c' : Circuit} (hv : ∀ op ∈ ops, op.valid)
    (h : runOps Circuit.empty ops = .ok c') : WFS c' := runOps_wfs ops wfs_empty hv h

/-- … and on every such state topological iteration in both directions yields every gate exactly
once in dependency order (C20's theorems need exactly this part of the invariant) -/
theorem c02_topological_iteration_after_history (ops : List MOp) {c c' : Circuit} (hw : WFS c)
    (hv : ∀ op ∈ ops, op.valid) (h : runOps c ops = .ok c') :
    (∃ order, c'.topSort true = .ok order ∧ order.Perm c'.labels ∧
      ∀ pre l post, order = pre ++ l :: post → ∀ g ∈ c'.gates, g.label = l → ∀ o ∈ g.ops, o ∈ pre) ∧
    (∃ order, c'.topSort false = .ok order ∧ order.Perm c'.labels ∧
      ∀ pre l post, order = pre ++ l :: post → ∀ u ∈ c'.usersOf l, u ∈ pre) := by
  have hw' := (runOps_wfs ops hw hv h).toWFG
  exact ⟨topSort_inv_spec hw', topSort_dir_spec hw'⟩

/-- `remove_gate` (of a gate without users) keeps every clause, incl. the users index and the blocks
(blocks listing the gate as member, input or output are dropped) -/
theorem c02_remove_gate_invariant {c c' : Circuit} {l : Label} (hw : WFS c) (h : c.removeGate l = .ok c') : WFS c' :=
  removeGate_wfs hw h

/-- histories that mix the calls above with gate removals -/
theorem c02_history_with_removals (ops : List HOp) {c c' : Circuit} (hw : WFS c)
    (hv : ∀ op ∈ ops, op.valid) (h : runHOps c ops = .ok c') : WFS c' := runHOps_wfs ops hw hv h

/-- `copy.copy(circuit)` of a well-formed circuit is well formed -/
theorem c02_copy_invariant {c c' : Circuit} (hw : WFS c) (h : c.copy = .ok c') : WFS c' := copy_wfs hw h

/-- `make_block_from_slice` keeps every clause -/
theorem c02_make_block_from_slice_invariant {c c' : Circuit} {name : Label} {ins outs : List Label} (hw : WFS c)
    (h : c.makeBlockFromSlice name ins outs = .ok c') : WFS c' := makeBlockFromSlice_wfs hw h

/-- connecting, extending by, or adding a well-formed circuit on the left keeps every clause (gates,
users index, inputs, acyclicity, and the blocks: copied blocks and the new block name existing gates) -/
theorem c02_left_connection_invariant {c other c' : Circuit} {thisC otherC : List Label} {name : Label} {addP : Bool}
    (hw : WFS c) (hwo : WFS other) (h : c.connectCircuit other thisC otherC false name addP = .ok c') : WFS c' :=
  connectLeft_wfs hw hwo h

/-- `rename_gate` keeps every clause (see C19 for what it does to each reference) -/
theorem c02_rename_gate_invariant {c c' : Circuit} {old new : Label} (hw : WFS c)
    (h : c.renameGate old new = .ok c') : WFS c' := renameGate_wfs hw h

/-- `remove_block` (a block none of whose gates is used from outside) removes all its gates at once and
keeps every clause: the intermediate states of the loop over `_remove_gate` are not well formed, the
final one is -/
theorem c02_remove_block_invariant {c c' : Circuit} {name : Label} (hw : WFS c)
    (h : c.removeBlock name = .ok c') : WFS c' := removeBlock_wfs hw h

/-- every right connection (`connect_circuit(right_connect=True)`, `connect_right`, `connect_inputs`,
`extend_circuit(right_connect=True)`) of two circuits satisfying the invariant yields one that
satisfies it: the fed inputs become gates, are registered as users of their operands and leave the
input list; nothing else changes -/
theorem c02_right_connection_invariant {c other c' : Circuit} {thisC otherC : List Label} {name : Label}
    {addP : Bool} (hw : WFS c) (hwo : WFS other)
    (h : c.connectCircuit other thisC otherC true name addP = .ok c') : WFS c' := connectRight_wfs hw hwo h

/-- `replace_subcircuit` (any replacement circuit satisfying the invariant, mappings with distinct
keys, any uuid for the temporary block): whenever it returns, the invariant holds -/
theorem c02_replace_subcircuit_invariant {c sub c' : Circuit} {im om : List (Label × Label)} {uuid k' : Nat}
    (hw : WFS c) (hs : WFS sub) (hik : (im.map (·.1)).Nodup) (hok : (om.map (·.1)).Nodup)
    (h : c.replaceSubcircuit sub im om uuid = .ok (c', k')) : WFS c' :=
  replaceSubcircuit_wfs hw hs hik hok h

/-- histories over the extended set of calls -/
theorem c02_history_extended (ops : List XOp) {c c' : Circuit} (hw : WFS c)
    (hv : ∀ op ∈ ops, op.valid) (h : runXOps c ops = .ok c') : WFS c' := runXOps_wfs ops hw hv h

/-! Non-vacuity: a concrete history from the empty circuit -/
open GateType in
example : ∃ c', runOps Circuit.empty
    [.addInputs ["a", "b"], .addGate ⟨"x", AND, ["a", "b", "a"]⟩, .addGate ⟨"y", NOT, ["x"]⟩,
     .setOutputs ["y", "a"], .orderInputs ["b"], .replaceInputs ["b"] [], .makeBlock "B" ["x", "y"] ["y"] none] = .ok c' ∧
    c'.inputs = ["a"] ∧ c'.usersOf "a" = ["x", "x"] := ⟨_, rfl, by decide, by decide⟩

#print axioms c02_step_invariant
#print axioms c02_history_invariant
#print axioms c02_history_from_empty
#print axioms c02_topological_iteration_after_history
#print axioms c02_remove_gate_invariant
#print axioms c02_history_with_removals
#print axioms c02_copy_invariant
#print axioms c02_make_block_from_slice_invariant
#print axioms c02_left_connection_invariant
#print axioms c02_rename_gate_invariant
#print axioms c02_remove_block_invariant
#print axioms c02_history_extended

#print axioms c02_right_connection_invariant
#print axioms c02_replace_subcircuit_invariant

end Cirbo
