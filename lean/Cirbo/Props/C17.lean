import Cirbo.Model.Norm
/-! # C17 (placeholder until the theorems are in)
-- OBLIGATION: c17_placeholder
-/
namespace Cirbo
theorem c17_placeholder : True := trivial
#print axioms c17_placeholder
end Cirbo
