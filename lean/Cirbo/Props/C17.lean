import Cirbo.Proofs.Norm
/-!
# C17 — Shipped circuit databases are correct and lookups return the requested function

-- OBLIGATION: c17_normalize_denormalize_roundtrip
-- OBLIGATION: c17_normalized_outputs_start_false
-- OBLIGATION: c17_sort_is_permutation
-- PARTIAL: proved (for every table, any number of outputs and rows): normalisation followed by denormalisation is the identity on the outputs' truth tables (negation, stable sort, duplicate removal and their inverses). The quantifier over the 2 x 349,724 shipped entries is a finite table: it is discharged by executing the code's and the Lean model's decoder + evaluator + well-formedness checker over the entries (quick: every entry with <= 2 inputs plus a seeded sample; thorough: all), not by a kernel proof. The circuit-level denormalize (labels, order_outputs, not_ gates) is modelled one-to-one and compared field by field; the don't-care lookup (all completions, smallest hit) is checked on the real databases by the search.
-/
namespace Cirbo
open Norm

/-- looking a table up = normalise, fetch, denormalise: if the fetched circuit computes the
normalised table, the returned outputs compute exactly the requested table in the requested order -/
theorem c17_normalize_denormalize_roundtrip (tt : List Row) (info : Info) (h : normalize tt = .ok info) :
    denormRows info info.table = .ok tt := normalize_roundtrip tt info h

/-- every normalised output starts with `False` (so an output and its complement share one key) -/
theorem c17_normalized_outputs_start_false : ∀ (tt : List Row) (negs : List Bool) (rows : List Row),
    normalizeOutputs tt = .ok (negs, rows) → ∀ r ∈ rows, r.head? = some false := by
  intro tt
  induction tt with
  | nil => intro negs rows h; simp only [normalizeOutputs, Except.ok.injEq, Prod.mk.injEq] at h; obtain ⟨_, rfl⟩ := h; simp
  | cons row rest ih =>
    intro negs rows h
    unfold normalizeOutputs at h
    split at h
    · cases h
    · rename_i b r'
      split at h
      · cases h
      · rename_i ns rs hrec
        simp only [Except.ok.injEq, Prod.mk.injEq] at h
        obtain ⟨_, rfl⟩ := h
        intro r hr
        rcases List.mem_cons.mp hr with rfl | hr
        · cases b <;> simp
        · exact ih ns rs hrec r hr

/-- the recorded permutation is a permutation of the output positions -/
theorem c17_sort_is_permutation (rows : List Row) :
    ((sortOutputs rows).map (·.1)).Perm (List.range rows.length) := by
  have hperm := sortBy_perm (fun (a b : Nat × Row) => rowLt a.2 b.2) (rows.zipIdx.map (fun ri => (ri.2, ri.1)))
  rw [← (enumerate_spec rows).1]; exact hperm.map _

/-! Non-vacuity: three outputs with a complement pair and a rotation of the sorted order -/
example : (normalize [[false, true, true, false], [true, false, false, true], [false, false, false, true]]).toOption.map
    (fun i => (i.negations, i.permutation, i.mapping, label i.table)) =
    some ([false, true, false], [2, 0, 1], [0, 1, 1], "0001_0110") := by decide

#print axioms c17_normalize_denormalize_roundtrip
#print axioms c17_normalized_outputs_start_false
#print axioms c17_sort_is_permutation

end Cirbo
