import Cirbo.Proofs.DenormTotal
import Cirbo.Proofs.Denorm
import Cirbo.Proofs.DbLookupC
/-!
# C17 — Shipped circuit databases are correct and lookups return the requested function

-- OBLIGATION: c17_normalize_denormalize_roundtrip
-- OBLIGATION: c17_normalized_outputs_start_false
-- OBLIGATION: c17_sort_is_permutation
-- OBLIGATION: c17_denormalize_circuit
-- OBLIGATION: c17_lookup_entry_correct
-- OBLIGATION: c17_dontcare_completions_exact
-- OBLIGATION: c17_dontcare_lookup
-- OBLIGATION: c17_dontcare_lookup_computes
-- OBLIGATION: c17_denormalize_returns
-- PARTIAL: proved (for every table, any number of outputs and rows): normalisation followed by denormalisation is the identity on the outputs' truth tables (negation, stable sort, duplicate removal and their inverses); and at circuit level: denormalize(circuit) leaves the inputs alone and puts the denormalised values on the outputs (reused / fresh not_<o> gates), so an entry whose stored circuit computes the normalised table yields a circuit computing the requested table in the requested output order (c17_lookup_entry_correct). The quantifier over the 2 x 349,724 shipped entries ('the stored circuit computes its key') is a finite table: it is discharged by executing the code's and the Lean model's decoder + evaluator + well-formedness checker over the entries (quick: every entry with <= 2 inputs plus a seeded sample; thorough: all), not by a kernel proof. The lookup of a table with don't-cares is proved too, for every pattern of don't-cares and any database lookup of full tables: the tables looked up are exactly the full tables of the model's shape that agree with its defined entries (c17_dontcare_completions_exact), the circuit returned is the stored circuit of one of them, no stored circuit of any of them is smaller, and nothing is returned only when none of them is stored (c17_dontcare_lookup); given that the lookup of full tables returns only circuits computing the table asked for, the circuit returned computes a table with every defined entry (c17_dontcare_lookup_computes). The order of the tables looked up and the circuit chosen are compared with get_by_raw_truth_table_model on the shipped databases by the correspondence. That denormalize never raises on a matching entry is a theorem (c17_denormalize_returns).
-/
namespace Cirbo
open Norm

/-- looking a table up = normalise, fetch, denormalise: if the fetched circuit computes the
normalised table, the returned outputs compute exactly the requested table in the requested order -/
theorem c17_normalize_denormalize_roundtrip (tt : List Row) (info : Info) (h : normalize tt = .ok info) :
    denormRows info info.table = .ok tt := normalize_roundtrip tt info h

/-- every normalised output starts with `False` (so an output and its complement share one key) -/
theorem c17_normalized_outputs_start_false : ∀ (tt : List Row) (negs : List Bool) (rows : List Row),
    normalizeOutputs tt = .ok (negs, rows) → ∀ r ∈ rows, r.head? = some false := by
  intro tt
  induction tt with
  | nil => intro negs rows h; simp only [normalizeOutputs, Except.ok.injEq, Prod.mk.injEq] at h; obtain ⟨_, rfl⟩ := h; simp
  | cons row rest ih =>
    intro negs rows h
    unfold normalizeOutputs at h
    split at h
    · cases h
    · rename_i b r'
      split at h
      · cases h
      · rename_i ns rs hrec
        simp only [Except.ok.injEq, Prod.mk.injEq] at h
        obtain ⟨_, rfl⟩ := h
        intro r hr
        rcases List.mem_cons.mp hr with rfl | hr
        · cases b <;> simp
        · exact ih ns rs hrec r hr

/-- the recorded permutation is a permutation of the output positions -/
theorem c17_sort_is_permutation (rows : List Row) :
    ((sortOutputs rows).map (·.1)).Perm (List.range rows.length) := by
  have hperm := sortBy_perm (fun (a b : Nat × Row) => rowLt a.2 b.2) (rows.zipIdx.map (fun ri => (ri.2, ri.1)))
  rw [← (enumerate_spec rows).1]; exact hperm.map _

/-- **`NormalizationInfo.denormalize(circuit)`** (any recorded parameters, any well-formed circuit in which
a gate named `not_<o>` — if there is one — is the negation of `o`): the input list is untouched, the
result is well formed, and every valuation of the stored circuit extends to one of the result whose
output values are the denormalised values (`denormVec`: undo duplicate removal, undo the sort, negate)
of the stored circuit's output values -/
theorem c17_denormalize_circuit {info : Info} {c c' : Circuit} (hw : WFS c) (hn : NotOK c)
    (h : denormalizeCircuit info c = .ok c') :
    c'.inputs = c.inputs ∧ WFS c' ∧
    ∀ b v, IsValB c b v → ∃ v', IsValB c' b v' ∧ (∀ l ∈ c.labels, v' l = v l) ∧
      denormVec (v "") info (c.outputs.map v) = .ok (c'.outputs.map v') :=
  denormalizeCircuit_sem hw hn h

/-- **a looked-up entry computes the requested table**: `tt` is the requested table (one row per
output), `info = normalize tt` its normalisation (whose `table` is the database key), `c` the stored
circuit. If `c` computes the key on an input assignment (column `j`), the circuit `denormalize`
returns computes column `j` of `tt` — every output, in the requested order, through negation,
reordering and duplicates — on the same inputs -/
theorem c17_lookup_entry_correct {tt : List Row} {info : Info} {c c' : Circuit} (hnorm : normalize tt = .ok info)
    (hw : WFS c) (hn : NotOK c) (hd : denormalizeCircuit info c = .ok c') (j : Nat)
    (hrows : ∀ r ∈ tt, j < r.length) {b v : Label → Bool} (hv : IsValB c b v)
    (hstored : c.outputs.map v = col j info.table) :
    ∃ v', IsValB c' b v' ∧ c'.outputs.map v' = col j tt ∧ c'.inputs = c.inputs :=
  lookup_entry_correct hnorm hw hn hd j hrows hv hstored

/-- **the tables looked up for a model with don't-cares** (`none` = `DontCare`) are exactly the fully defined
tables that have the model's shape and every defined entry of the model -/
theorem c17_dontcare_completions_exact (tt : List (List TEntry)) (t : List Row) :
    t ∈ completions tt ↔
      (t.length = tt.length ∧ (∀ i, (t.getD i []).length = (tt.getD i []).length) ∧
       ∀ i j b, (tt.getD i [])[j]? = some (some b) → (t.getD i []).getD j false = b) :=
  mem_completions_iff tt t

/-- **looking up a model with don't-cares** (`get_by_raw_truth_table_model`; `lookup` = the lookup of fully
defined tables, `size` = `gates_number(exclusion_list)`): the circuit returned is the stored circuit of a full
table that agrees with every defined entry; the stored circuit of no agreeing full table is smaller; and
nothing is returned only if no agreeing full table is stored -/
theorem c17_dontcare_lookup {γ} (lookup : List Row → Option γ) (size : γ → Nat) (tt : List (List TEntry)) :
    (∀ r, lookupDC lookup size tt = some r →
      (∃ t, Agrees tt t ∧ lookup t = some r) ∧ ∀ t, Agrees tt t → ∀ c, lookup t = some c → size r ≤ size c) ∧
    (lookupDC lookup size tt = none ↔ ∀ t, Agrees tt t → lookup t = none) :=
  lookupDC_correct lookup size tt

/-- with a lookup of full tables that only returns circuits computing the table asked for
(`c17_lookup_entry_correct` + the sweep of the stored entries), the circuit returned for a model with
don't-cares computes a table that has every defined entry of the model -/
theorem c17_dontcare_lookup_computes {γ} (lookup : List Row → Option γ) (size : γ → Nat) (Computes : γ → List Row → Prop)
    (hlookup : ∀ t r, lookup t = some r → Computes r t) (tt : List (List TEntry)) (r : γ)
    (h : lookupDC lookup size tt = some r) :
    ∃ t, Computes r t ∧ t.length = tt.length ∧ (∀ i, (t.getD i []).length = (tt.getD i []).length) ∧
      ∀ i j b, (tt.getD i [])[j]? = some (some b) → (t.getD i []).getD j false = b :=
  lookupDC_computes lookup size Computes hlookup tt r h

/-- non-vacuity: two don't-cares, four completions in the order of `itertools.product`; the smaller of the two
circuits found wins, the first of equals -/
example : completions [[some true, none], [none, some false]] =
    [[[true, false], [false, false]], [[true, false], [true, false]], [[true, true], [false, false]], [[true, true], [true, false]]] := by decide
example : lookupDC (fun t => if t = [[true, false], [true, false]] then some 5 else if t = [[true, true], [false, false]] then some 3
    else if t = [[true, true], [true, false]] then some 3 else none) (fun n => n / 2) [[some true, none], [none, some false]] = some 3 := by decide

open GateType in
/-- non-vacuity: a stored AND gate, asked for [NAND, AND, NAND] -/
example : ((normalize [[true, true, true, false], [false, false, false, true], [true, true, true, false]]).toOption.bind
    (fun info => (denormalizeCircuit info
      ⟨[⟨"0", INPUT, []⟩, ⟨"1", INPUT, []⟩, ⟨"2", AND, ["0", "1"]⟩], ["0", "1"], ["2"], [("0", ["2"]), ("1", ["2"])], []⟩).toOption.map
      (fun c => (c.outputs, c.gates.length)))) = some (["not_2", "2", "not_2"], 4) := by decide

/-! Non-vacuity: three outputs with a complement pair and a rotation of the sorted order -/
example : (normalize [[false, true, true, false], [true, false, false, true], [false, false, false, true]]).toOption.map
    (fun i => (i.negations, i.permutation, i.mapping, label i.table)) =
    some ([false, true, false], [2, 0, 1], [0, 1, 1], "0001_0110") := by decide

#print axioms c17_normalize_denormalize_roundtrip
#print axioms c17_normalized_outputs_start_false
#print axioms c17_sort_is_permutation
#print axioms c17_denormalize_circuit
#print axioms c17_lookup_entry_correct
#print axioms c17_dontcare_completions_exact
#print axioms c17_dontcare_lookup
#print axioms c17_dontcare_lookup_computes

/-- **denormalisation never raises on a matching entry** and returns the requested table: `tt` the requested table,
`info` its normalisation, `c` a stored circuit with as many outputs as the key has rows -/
theorem c17_denormalize_returns {tt : List Row} {info : Info} {c : Circuit} (hnorm : normalize tt = .ok info)
    (hw : WFS c) (hn : NotOK c) (hout : c.outputs.length = info.table.length) :
    ∃ c', denormalizeCircuit info c = .ok c' ∧ WFS c' ∧ c'.inputs = c.inputs ∧
      c'.outputs.length = tt.length ∧
      ∀ j, (∀ r ∈ tt, j < r.length) → ∀ b v, IsValB c b v → c.outputs.map v = col j info.table →
        ∃ v', IsValB c' b v' ∧ c'.outputs.map v' = col j tt :=
  dt_lookup_entry_total_correct hnorm hw hn hout

#print axioms c17_denormalize_returns

end Cirbo
