import Cirbo.Proofs.DictIO
import Cirbo.Model.Codec
/-!
# C16 — The database codec never silently changes a circuit

-- OBLIGATION: c16_number_roundtrip
-- OBLIGATION: c16_number_too_large
-- OBLIGATION: c16_dict_roundtrip
-- OBLIGATION: c16_dict_truncated
-- OBLIGATION: c16_dict_trailing
-- PARTIAL: circuit level (encode_circuit / decode_circuit): the model (Model/Codec.lean: word size, dependency-order enumeration, token stream, decoder with add_gate/mark_as_output) is compared byte for byte with the code on every run and the implementation's round trip is checked on every generated circuit, but the theorem `decode (encode c) ≅ c` for all format-conforming circuits is not proved yet; only its bit-level and dictionary-level ingredients below are.
-/
namespace Cirbo

/-- **Bit level**: a number below `2^w` written with `w` bits anywhere in a stream (after any
prefix, before any suffix, across byte boundaries, with the final padding) is read back exactly
and the reader advances by `w` bits. -/
theorem c16_number_roundtrip (pre post : List Bool) (k w : Nat) (h : k < 2 ^ w) :
    writeNumber k w = some (numBits k w) ∧
    readNumber (packBytes (pre ++ numBits k w ++ post)) pre.length w = some (k, pre.length + w) :=
  ⟨writeNumber_some k w h, readNumber_roundtrip pre post k w h⟩

/-- a number that does not fit is rejected (`BitIOError`), never truncated -/
theorem c16_number_too_large (k w : Nat) (h : 2 ^ w ≤ k) : writeNumber k w = none :=
  writeNumber_none k w h

/-- **Dictionary level**: every dictionary with distinct keys (arbitrary byte strings — the UTF-8
encodings of the string keys — and byte values) that the writer accepts is read back exactly -/
theorem c16_dict_roundtrip (d : BDict) (h : keysNodup d) {bs : List Nat} (hw : writeDict d = some bs) :
    readDict bs = some d := readDict_writeDict d h hw

/-- every strict prefix of a written dictionary is rejected (`BinaryDictIOError`) -/
theorem c16_dict_truncated (d : BDict) {bs : List Nat} (hw : writeDict d = some bs) (m : Nat)
    (hm : m < bs.length) : readDict (bs.take m) = none := readDict_truncated d hw m hm

/-- trailing data after a written dictionary is rejected -/
theorem c16_dict_trailing (d : BDict) {bs : List Nat} (hw : writeDict d = some bs) (x : Nat) (t : List Nat) :
    readDict (bs ++ x :: t) = none := readDict_trailing d hw x t

/-! Non-vacuity -/
example : writeDict [([0xc3, 0xa9], [1, 2, 3]), ([], [])] =
    some [0,0,0,0,0,0,0,2, 0,2,0xc3,0xa9, 0,3,1,2,3, 0,0, 0,0] := by decide
example : keysNodup [([0xc3, 0xa9], [1, 2, 3]), ([], [])] := by unfold keysNodup; decide

#print axioms c16_number_roundtrip
#print axioms c16_number_too_large
#print axioms c16_dict_roundtrip
#print axioms c16_dict_truncated
#print axioms c16_dict_trailing

end Cirbo
