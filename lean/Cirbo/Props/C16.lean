import Cirbo.Proofs.CodecTotal
import Cirbo.Proofs.DictIO
import Cirbo.Proofs.CodecRT
import Cirbo.Model.Codec
/-!
# C16 — The database codec never silently changes a circuit

-- OBLIGATION: c16_number_roundtrip
-- OBLIGATION: c16_number_too_large
-- OBLIGATION: c16_dict_roundtrip
-- OBLIGATION: c16_dict_truncated
-- OBLIGATION: c16_dict_trailing
-- OBLIGATION: c16_enumeration_order
-- OBLIGATION: c16_circuit_roundtrip
-- OBLIGATION: c16_circuit_roundtrip_same_function
-- OBLIGATION: c16_encode_succeeds_on_conforming
-- OBLIGATION: c16_encode_errors
-- PARTIAL: the circuit-level round trip is proved for every well-formed circuit the encoder accepts (whatever its gate storage order). Which circuits the encoder accepts is a theorem too (c16_encode_succeeds_on_conforming: exactly the well-formed circuits over the format's gate types and arities, word size < 256; c16_encode_errors: otherwise a codec error); that malformed byte strings are rejected with the documented errors is decided by the correspondence (the model is compared byte for byte with the code on every run).
-/
namespace Cirbo

/-- **Bit level**: a number below `2^w` written with `w` bits anywhere in a stream (after any
prefix, before any suffix, across byte boundaries, with the final padding) is read back exactly
and the reader advances by `w` bits. -/
theorem c16_number_roundtrip (pre post : List Bool) (k w : Nat) (h : k < 2 ^ w) :
    writeNumber k w = some (numBits k w) ∧
    readNumber (packBytes (pre ++ numBits k w ++ post)) pre.length w = some (k, pre.length + w) :=
  ⟨writeNumber_some k w h, readNumber_roundtrip pre post k w h⟩

/-- a number that does not fit is rejected (`BitIOError`), never truncated -/
theorem c16_number_too_large (k w : Nat) (h : 2 ^ w ≤ k) : writeNumber k w = none :=
  writeNumber_none k w h

/-- **Dictionary level**: every dictionary with distinct keys (arbitrary byte strings — the UTF-8
encodings of the string keys — and byte values) that the writer accepts is read back exactly -/
theorem c16_dict_roundtrip (d : BDict) (h : keysNodup d) {bs : List Nat} (hw : writeDict d = some bs) :
    readDict bs = some d := readDict_writeDict d h hw

/-- every strict prefix of a written dictionary is rejected (`BinaryDictIOError`) -/
theorem c16_dict_truncated (d : BDict) {bs : List Nat} (hw : writeDict d = some bs) (m : Nat)
    (hm : m < bs.length) : readDict (bs.take m) = none := readDict_truncated d hw m hm

/-- trailing data after a written dictionary is rejected -/
theorem c16_dict_trailing (d : BDict) {bs : List Nat} (hw : writeDict d = some bs) (x : Nat) (t : List Nat) :
    readDict (bs ++ x :: t) = none := readDict_trailing d hw x t

/-- `_enumerate_gates` on a well-formed circuit, whatever its internal gate order: every gate exactly
once, the inputs first in input order, every gate after all of its operands (its step budget is
never exhausted). -/
theorem c16_enumeration_order {c : Circuit} (hw : WFS c) : EnumOK c (enumerateGates c) :=
  enumerateGates_ok hw.nodup hw.closed hw.rank hw.inputsNodup (by
    intro l hl
    obtain ⟨g, hg, hgl, hty⟩ := (hw.inputsOK l).mp hl
    exact ⟨g, hg, hgl, hw.inputOps g hg hty⟩)

/-- **Circuit level**: for every well-formed circuit the encoder accepts, decoding the produced bytes
succeeds and returns the same circuit with every label `l` replaced by `gate_<position of l in the
dependency-order enumeration>`: the gates in enumeration order with renamed operands, the inputs and
the outputs renamed position by position (the enumeration is a bijection onto the labels). -/
theorem c16_circuit_roundtrip {c : Circuit} (hw : WFS c) {bytes : List Nat} (he : encodeCircuit c = .ok bytes) :
    ∃ D, decodeCircuit bytes = .ok D ∧
      D.gates = ((enumerateGates c).filterMap c.find?).map (renC (enumerateGates c)) ∧
      D.inputs = c.inputs.map (fun l => gateLabel ((enumerateGates c).idxOf l)) ∧
      D.outputs = c.outputs.map (fun l => gateLabel ((enumerateGates c).idxOf l)) ∧
      (enumerateGates c).Nodup ∧ (∀ l, l ∈ enumerateGates c ↔ l ∈ c.labels) :=
  codec_roundtrip hw he

/-- hence the decoded circuit has as many inputs and outputs and computes the same function -/
theorem c16_circuit_roundtrip_same_function {c : Circuit} (hw : WFS c) {bytes : List Nat}
    (he : encodeCircuit c = .ok bytes) :
    ∃ D, decodeCircuit bytes = .ok D ∧ D.inputs.length = c.inputs.length ∧ D.outputs.length = c.outputs.length ∧
      ∀ b v, IsValB c b v → ∃ b' v', IsValB D b' v' ∧ D.inputs.map b' = c.inputs.map b ∧ D.outputs.map v' = c.outputs.map v :=
  codec_roundtrip_function hw he

/-! Non-vacuity -/
example : writeDict [([0xc3, 0xa9], [1, 2, 3]), ([], [])] =
    some [0,0,0,0,0,0,0,2, 0,2,0xc3,0xa9, 0,3,1,2,3, 0,0, 0,0] := by decide
example : keysNodup [([0xc3, 0xa9], [1, 2, 3]), ([], [])] := by unfold keysNodup; decide

#print axioms c16_number_roundtrip
#print axioms c16_number_too_large
#print axioms c16_dict_roundtrip
#print axioms c16_dict_truncated
#print axioms c16_dict_trailing
#print axioms c16_enumeration_order
#print axioms c16_circuit_roundtrip
#print axioms c16_circuit_roundtrip_same_function

/-- **encoding and decoding succeed on every circuit that uses only the gate types and arities the format defines**,
whatever the storage order or the input count (the one size condition: the word size fits the one-byte header, i.e.
fewer than 2^255 inputs, outputs and gates) — and it is an equivalence: a well-formed circuit is encoded exactly when it
conforms -/
theorem c16_encode_succeeds_on_conforming {c : Circuit} (hw : WFS c)
    (hconf : ∀ g ∈ c.gates, g.ty ≠ GateType.INPUT → (Gen.codecTypeId g.ty).isSome ∧ g.ops.length = Gen.codecArity g.ty)
    (hws : wordSize c < 256) :
    (∃ bytes D, encodeCircuit c = .ok bytes ∧ decodeCircuit bytes = .ok D) ∧
    ((∃ bytes, encodeCircuit c = .ok bytes) ↔
      ((∀ g ∈ c.gates, g.ty ≠ GateType.INPUT → (Gen.codecTypeId g.ty).isSome ∧ g.ops.length = Gen.codecArity g.ty) ∧ wordSize c < 256)) := by
  obtain ⟨bytes, D, h1, h2, _⟩ := ct_roundtrip_total hw hconf hws
  exact ⟨⟨bytes, D, h1, h2⟩, ct_encode_ok_iff hw⟩

/-- and when the encoder refuses a well-formed circuit it raises a database-codec error, nothing else -/
theorem c16_encode_errors {c : Circuit} (hw : WFS c) {e : String} (h : encodeCircuit c = .error e) :
    e = "CircuitEncodingError" ∨ e = "BitIOError" := ct_encode_error_range hw h

#print axioms c16_encode_succeeds_on_conforming
#print axioms c16_encode_errors

end Cirbo
