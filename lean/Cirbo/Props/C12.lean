import Cirbo.Proofs.Func
import Cirbo.Proofs.FuncSym
import Cirbo.Proofs.FuncIdx
import Cirbo.Proofs.FuncDefine
import Cirbo.Proofs.FuncInt
/-!
# C12 — All function representations answer every protocol query alike and correctly

A representation is `FRep = (n, m, ev)`: `Circuit` (ev = `evaluate`, C01), `TruthTable` (ev = row
lookup at the canonical index) and `PyFunction` (ev = the callable).  The queries are modelled in
`Model/Func.lean` after the three implementations (where they differ, each variant is modelled).

-- OBLIGATION: c12_enumeration_complete
-- OBLIGATION: c12_is_constant
-- OBLIGATION: c12_is_constant_at
-- OBLIGATION: c12_equal_to_input
-- OBLIGATION: c12_equal_to_input_negation
-- OBLIGATION: c12_dependent_and_significant
-- OBLIGATION: c12_monotone_at_variants_agree_and_correct
-- OBLIGATION: c12_monotone_circuit_eq_table
-- OBLIGATION: c12_is_symmetric
-- OBLIGATION: c12_is_symmetric_at
-- OBLIGATION: c12_find_negations_to_make_symmetric
-- OBLIGATION: c12_pyfunction_is_monotone
-- OBLIGATION: c12_truth_table_order
-- OBLIGATION: c12_truth_table_equal_to_input
-- OBLIGATION: c12_define
-- OBLIGATION: c12_int_wrappers_bit_order
-- OBLIGATION: c12_find_negations_first
-- PARTIAL: every clause is proved on the model (incl. that find_negations_to_make_symmetric returns the first working vector of the itertools.product enumeration). canonical_index_to_input with size 0 returns all digits (Python's `[-0:]`), outside the wrappers' use (out_len >= 1 in the theorem). The tie between the model and the three Python representations is by correspondence (exhaustive for small shapes).
-/
namespace Cirbo
open FRep

/-- every query enumerates `itertools.product((False, True), repeat=n)`, which is exactly the set
of input vectors of length n -/
theorem c12_enumeration_complete (x : List Bool) (n : Nat) : x ∈ allInputs n ↔ x.length = n :=
  mem_allInputs x n

theorem c12_is_constant (F : FRep) :
    F.isConstant = true ↔ ∀ x y, x.length = F.n → y.length = F.n → F.ev x = F.ev y :=
  isConstant_iff F

theorem c12_is_constant_at (F : FRep) (o : Nat) :
    F.isConstantAt o = true ↔ ∀ x y, x.length = F.n → y.length = F.n → F.evAt x o = F.evAt y o :=
  isConstantAt_iff F o

theorem c12_equal_to_input (F : FRep) (o i : Nat) :
    F.equalInput o i = true ↔ ∀ x, x.length = F.n → F.evAt x o = x.getD i false :=
  equalInput_iff F o i

theorem c12_equal_to_input_negation (F : FRep) (o i : Nat) :
    F.equalInputNeg o i = true ↔ ∀ x, x.length = F.n → F.evAt x o = !x.getD i false :=
  equalInputNeg_iff F o i

theorem c12_dependent_and_significant (F : FRep) (o i : Nat) :
    (F.isDependent o i = true ↔
      ∃ x, x.length = F.n - 1 ∧ F.evAt (insertAt x i false) o ≠ F.evAt (insertAt x i true) o) ∧
    (i ∈ F.significant o ↔ i < F.n ∧ F.isDependent o i = true) :=
  ⟨isDependent_iff F o i, significant_iff F o i⟩

/-- the two differently written scans (`Circuit.is_monotone_at` vs `PyFunction/TruthTable.
is_monotone_at`) are the same predicate, and it is the documented one: along the canonical
enumeration the output never returns from `¬inverse` to `inverse` -/
theorem c12_monotone_at_variants_agree_and_correct (F : FRep) (o : Nat) (inv : Bool) :
    F.isMonotoneAtC o inv = F.isMonotoneAtP o inv ∧
    (F.isMonotoneAtP o inv = true ↔ SortedRow inv (F.row o)) :=
  ⟨isMonotoneAt_agree F o inv, isMonotoneAt_iff F o inv⟩

theorem c12_monotone_circuit_eq_table (F : FRep) (inv : Bool) :
    F.isMonotoneC inv = F.isMonotoneT inv ∧
    (F.isMonotoneT inv = true ↔ ∀ o, o < F.m → SortedRow inv (F.row o)) :=
  ⟨isMonotone_agree F inv, isMonotoneT_iff F inv⟩

/-- `is_symmetric`: the function's value depends only on the number of True inputs (uses: the
`itertools.combinations` enumeration lists exactly the index sets of the vectors of each weight) -/
theorem c12_is_symmetric (F : FRep) :
    F.isSymmetric = true ↔ ∀ x y : List Bool, x.length = F.n → y.length = F.n → weight x = weight y → F.ev x = F.ev y :=
  isSymmetric_iff F

theorem c12_is_symmetric_at (F : FRep) (o : Nat) :
    F.isSymmetricAt o = true ↔ ∀ x y : List Bool, x.length = F.n → y.length = F.n → weight x = weight y →
      F.evAt x o = F.evAt y o :=
  isSymmetricAt_iff F o

/-- `find_negations_to_make_symmetric`: a returned vector `neg` (one bit per input) makes the chosen
outputs symmetric in the inputs flipped by `neg`; `None` means no vector does -/
theorem c12_find_negations_to_make_symmetric (F : FRep) (outs : List Nat) :
    (∀ neg, F.findNegations outs = some neg → neg.length = F.n ∧
      ∀ y1 y2 : List Bool, y1.length = F.n → y2.length = F.n → weight y1 = weight y2 →
        outs.map (fun o => F.evAt (xorNeg F.n neg y1) o) = outs.map (fun o => F.evAt (xorNeg F.n neg y2) o)) ∧
    (F.findNegations outs = none → ∀ neg : List Bool, neg.length = F.n →
      ¬ ∀ y1 y2 : List Bool, y1.length = F.n → y2.length = F.n → weight y1 = weight y2 →
        outs.map (fun o => F.evAt (xorNeg F.n neg y1) o) = outs.map (fun o => F.evAt (xorNeg F.n neg y2) o)) :=
  findNegations_spec F outs

/-- `PyFunction.is_monotone` (consecutive whole-vector comparison) is the per-output definition, hence
equal to `TruthTable.is_monotone` and `Circuit.is_monotone`, for every function with `m` outputs -/
theorem c12_pyfunction_is_monotone (F : FRep) (inv : Bool) (hlen : ∀ x, (F.ev x).length = F.m) :
    (F.isMonotoneP inv = true ↔ ∀ o, o < F.m → SortedRow inv (F.row o)) ∧
    F.isMonotoneP inv = F.isMonotoneT inv ∧ F.isMonotoneP inv = F.isMonotoneC inv :=
  ⟨isMonotoneP_iff F inv hlen, isMonotoneP_eq_T F inv hlen,
   (isMonotoneP_eq_T F inv hlen).trans (isMonotone_agree F inv).symm⟩

/-- `get_truth_table` ordering: the enumeration of all inputs is binary counting, so column `k` of
output `o` is the value at the input vector whose bits are the binary digits of `k`, first input most
significant; every vector has such an index -/
theorem c12_truth_table_order (F : FRep) (o k : Nat) (hk : k < 2 ^ F.n) :
    (F.row o)[k]? = some (F.evAt (bitsBE F.n k) o) ∧ (F.row o).length = 2 ^ F.n ∧
    ∀ x : List Bool, x.length = F.n → ∃ j, j < 2 ^ F.n ∧ bitsBE F.n j = x :=
  ⟨row_get F o k hk, row_length F o, fun x hx => exists_index F.n x hx⟩

/-- `TruthTable.is_output_equal_to_input(_negation)` — index arithmetic on the stored row — is the generic
definition and agrees with the Circuit / PyFunction implementation -/
theorem c12_truth_table_equal_to_input (F : FRep) (o i : Nat) (hi : i < F.n) (negate : Bool) :
    (F.equalInputT o i negate = true ↔ ∀ x, x.length = F.n → F.evAt x o = xor negate (x.getD i false)) ∧
    F.equalInputT o i false = F.equalInput o i ∧ F.equalInputT o i true = F.equalInputNeg o i :=
  ⟨equalInputT_iff F o i hi negate, (equalInputT_agrees F o i hi).1, (equalInputT_agrees F o i hi).2⟩

/-! Non-vacuity: a concrete function (x0 AND NOT x1, and x1) through the table representation -/
def exF : FRep := FRep.ofTable 2 [[false, false, true, false], [false, true, false, true]]
example : exF.isConstant = false ∧ exF.equalInput 1 1 = true ∧ exF.isDependent 0 1 = true ∧
    exF.isMonotoneAtP 0 false = false ∧ exF.isMonotoneAtC 1 false = false ∧ exF.significant 1 = [1] := by
  decide

#print axioms c12_enumeration_complete
#print axioms c12_is_constant
#print axioms c12_is_constant_at
#print axioms c12_equal_to_input
#print axioms c12_equal_to_input_negation
#print axioms c12_dependent_and_significant
#print axioms c12_monotone_at_variants_agree_and_correct
#print axioms c12_monotone_circuit_eq_table
#print axioms c12_is_symmetric
#print axioms c12_is_symmetric_at
#print axioms c12_find_negations_to_make_symmetric
#print axioms c12_pyfunction_is_monotone
#print axioms c12_truth_table_order
#print axioms c12_truth_table_equal_to_input

/-- **completing a partially defined model** (`define`): wherever the model is defined the completed
table has the model's value — whatever the definition lists for that position —, the shape is kept,
and a don't-care entry takes the value the definition gives for it (it stays a don't-care only if the
definition has no item for it; `PyFunctionModel` raises `KeyError` lazily in that case) -/
theorem c12_define (model : List (List (Option Bool))) (defn : List ((List Bool × Nat) × Bool)) :
    (∀ o i b, FRep.entryT model o i = some b → FRep.entryT (FRep.defineTable model defn) o i = some b) ∧
    (FRep.defineTable model defn).length = model.length ∧
    (∀ o, ((FRep.defineTable model defn).getD o []).length = (model.getD o []).length) ∧
    (∀ o i b, o < model.length → i < (model.getD o []).length → FRep.entryT model o i = none →
      (∀ d ∈ defn, d.1.2 = o → FRep.canonicalIndex d.1.1 = i → d.2 = b) →
      (∃ d ∈ defn, d.1.2 = o ∧ FRep.canonicalIndex d.1.1 = i) →
      FRep.entryT (FRep.defineTable model defn) o i = some b) :=
  ⟨FRep.define_keeps_defined defn model, (FRep.define_shape defn model).1, (FRep.define_shape defn model).2,
    fun o i b ho hi hn hall hex => (FRep.define_fills defn model o i ho hi hn).1 b hall hex⟩

/-- non-vacuity: an over-specified definition does not overwrite a defined entry -/
example : FRep.defineTable [[some false, none]] [(([false], 0), true), (([true], 0), true)] = [[some false, some true]] := by
  decide

/-- **integer-function wrappers honour the stated bit order**: `from_int_unary_func` /
`from_int_binary_func` return `out_len ≥ 1` bits which, read big-endian when `big_endian` and
little-endian otherwise, are `f(operands read in the same order) mod 2^out_len`; the binary wrapper's
operands are the two halves of the argument vector. (`canonical_index_to_input` goes through Python's
`bin()` digit string: `Nat.toDigits 2`.) -/
theorem c12_int_wrappers_bit_order (inLen outLen : Nat) (be : Bool) (args : List Bool) (ho : 1 ≤ outLen) :
    (∀ f : Nat → Nat,
      ((FRep.fromIntUnary f inLen outLen be).ev args).length = outLen ∧
      FRep.canonicalIndex (if be then (FRep.fromIntUnary f inLen outLen be).ev args
          else ((FRep.fromIntUnary f inLen outLen be).ev args).reverse) =
        f (FRep.canonicalIndex (if be then args else args.reverse)) % 2 ^ outLen) ∧
    (∀ f : Nat → Nat → Nat,
      ((FRep.fromIntBinary f inLen outLen be).ev args).length = outLen ∧
      FRep.canonicalIndex (if be then (FRep.fromIntBinary f inLen outLen be).ev args
          else ((FRep.fromIntBinary f inLen outLen be).ev args).reverse) =
        f (FRep.canonicalIndex (if be then args.take inLen else (args.take inLen).reverse))
          (FRep.canonicalIndex (if be then args.drop inLen else (args.drop inLen).reverse)) % 2 ^ outLen) :=
  ⟨fun f => FRep.fromIntUnary_spec f inLen outLen be args ho, fun f => FRep.fromIntBinary_spec f inLen outLen be args ho⟩

/-- the vector returned by `find_negations_to_make_symmetric` is the first one, in the enumeration
order of `itertools.product((False, True), repeat=n)`, that makes the selected outputs symmetric -/
theorem c12_find_negations_first (F : FRep) (outs : List Nat) (neg : List Bool)
    (h : F.findNegations outs = some neg) :
    ∃ before after, allInputs F.n = before ++ neg :: after ∧
      F.symOn neg (fun v => outs.map (fun o => v.getD o false)) = true ∧
      ∀ x ∈ before, F.symOn x (fun v => outs.map (fun o => v.getD o false)) = false := by
  unfold FRep.findNegations at h
  obtain ⟨h1, as, bs, h2, h3⟩ := List.find?_eq_some_iff_append.mp h
  exact ⟨as, bs, h2, h1, fun x hx => by simpa using h3 x hx⟩

#print axioms c12_find_negations_first
#print axioms c12_int_wrappers_bit_order
#print axioms c12_define

end Cirbo
