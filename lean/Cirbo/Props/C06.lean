import Cirbo.Proofs.Synth
import Cirbo.Proofs.GenSum
import Cirbo.Generated.SynthTables
import Cirbo.Proofs.SynthCircuit
/-!
# C06 — Exact synthesis is sound and complete for the requested size and basis

-- OBLIGATION: c06_sound
-- OBLIGATION: c06_complete
-- OBLIGATION: c06_find_circuit
-- OBLIGATION: c06_tt_to_gate_type_correct
-- OBLIGATION: c06_returned_circuit_computes_the_table
-- PARTIAL: the theorems are about the Lean encoding `encode` and the decoded solution (positions, operation tables, output positions, per-row evaluation); that the code emits exactly this clause multiset and decodes a model to exactly this solution is the correspondence check (every run, incl. all constraint kinds and argument checks). Building the `Circuit` object from the decoded solution (labels "i" / "s<g>", gate types from the regenerated table, outputs marked in order) is modelled (Model/SynthCircuit.lean), compared with the code on every run and proved to compute the solution (c06_returned_circuit_computes_the_table). The time-limit path (SolverTimeOutError) and the circuit-database shortcut are outside the model (the property excludes the shortcut).
-/
namespace Cirbo
open Synth

/-- **soundness**: whatever satisfying assignment the solver returns, the decoded circuit has exactly
the requested number of gates, each reading two distinct earlier positions with an operation of the
basis, every output at a gate, agreement with every table entry that is not a don't-care, and every
imposed `fix_gate` / `forbid_wire` / normalisation constraint -/
theorem c06_sound (sp : Spec) (σ : SVar → Bool) (hwf : ∀ c ∈ sp.cons, WFCon sp c) (h : sat σ (encode sp)) :
    SolOk sp (decode sp σ) := encode_sound sp σ hwf h

/-- **completeness**: every such circuit is a satisfying assignment, and decoding it gives it back -/
theorem c06_complete (sp : Spec) (sol : Sol) (hwf : ∀ c ∈ sp.cons, WFCon sp c) (hok : SolOk sp sol) :
    sat (assignOf sp sol) (encode sp) ∧
    (∀ g ∈ internal sp, (decode sp (assignOf sp sol)).pred g = sol.pred g) ∧
    (∀ g p q, (decode sp (assignOf sp sol)).op g p q = sol.op g p q) ∧
    (∀ h, h < sp.m → (decode sp (assignOf sp sol)).out h = sol.out h) := encode_complete sp sol hwf hok

/-- with any sound and complete SAT solver: a circuit is returned only with all promised
properties, and "no solution" is reported exactly when no such circuit exists -/
theorem c06_find_circuit (solve : List Clause → Option (SVar → Bool))
    (hsound : ∀ F σ, solve F = some σ → sat σ F) (hcomplete : ∀ F, solve F = none → ∀ σ, ¬ sat σ F)
    (sp : Spec) (hwf : ∀ c ∈ sp.cons, WFCon sp c) :
    (∀ sol, findCircuit solve sp = .ok sol → SolOk sp sol) ∧
    (findCircuit solve sp = .error "NoSolutionError" ↔ ¬ ∃ sol, SolOk sp sol) :=
  findCircuit_spec solve hsound hcomplete sp hwf

/-- the regenerated `_tt_to_gate_type` table maps every operation table to a gate type computing it -/
theorem c06_tt_to_gate_type_correct {a b c d : Bool} {ty : GateType} (h : Gen.synthTtType a b c d = some ty) (x y : Bool) :
    bfun ty [x, y] = some (ttApply (a, b, c, d) x y) := by
  cases a <;> cases b <;> cases c <;> cases d <;> simp only [Gen.synthTtType, Option.some.injEq] at h <;>
    subst h <;> cases x <;> cases y <;> rfl

/-- **end to end**: the `Circuit` object built from a solution that satisfies the promises (`SolOk`,
which by `c06_sound` every decoded satisfying assignment does) has the inputs `0 … n-1` in order, one
output per requested output, and under every valuation whose inputs carry row `t` each output has the
value the table asks for wherever the table is defined -/
theorem c06_returned_circuit_computes_the_table {sp : Spec} {sol : Sol} {c : Circuit} (hok : SolOk sp sol)
    (h : solToCircuit sp sol = .ok c) :
    c.inputs = (List.range sp.n).map toString ∧
    c.outputs = (List.range sp.m).map (fun h => "s" ++ toString (sol.out h)) ∧
    ∀ (b v : Label → Bool) (t : Nat), t < 2 ^ sp.n → IsValB c b v → (∀ i, i < sp.n → b (toString i) = inputBit sp i t) →
      ∀ hh, hh < sp.m → ∀ val, sp.table hh t = some val → v ("s" ++ toString (sol.out hh)) = val := by
  obtain ⟨h1, h2, h3⟩ := solToCircuit_spec hok.preds h
  refine ⟨h1, h2, ?_⟩
  intro b v t ht hv hb hh hhm val htab
  obtain ⟨o1, o2⟩ := hok.outs hh hhm
  have := h3 b v t hv hb (sol.out hh) o2
  unfold synthLabel at this
  rw [if_neg (by omega)] at this
  rw [this]
  exact hok.agrees hh hhm t ht val htab

/-! Non-vacuity: XOR of two inputs with 3 AIG-style gates — an explicit solution satisfies `SolOk`'s
computable core on a concrete spec (evaluated) -/
def c06Spec : Spec where
  n := 2
  m := 1
  N := 1
  table := fun _ t => some (t == 1 || t == 2)
  allowed := fun _ _ _ _ => true
  normalized := false
  cons := []
def c06Sol : Sol := { pred := fun _ => (0, 1), op := fun _ p q => xor p q, out := fun _ => 2 }
example : (List.range 4).all (fun t => eval c06Spec c06Sol t 2 == (t == 1 || t == 2)) = true := by decide

#print axioms c06_sound
#print axioms c06_complete
#print axioms c06_find_circuit
#print axioms c06_tt_to_gate_type_correct
#print axioms c06_returned_circuit_computes_the_table

/-- non-vacuity of the builder: the example solution yields a circuit -/
example : (solToCircuit c06Spec c06Sol).toOption.map (fun c => (c.inputs, c.outputs, c.gates.length)) = some (["0", "1"], ["s2"], 3) := by decide

end Cirbo
