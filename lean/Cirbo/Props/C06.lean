import Cirbo.Model.Synth
/-! # C06 (placeholder until the theorems are in)
-- OBLIGATION: c06_placeholder
-/
namespace Cirbo
theorem c06_placeholder : True := trivial
#print axioms c06_placeholder
end Cirbo
