import Cirbo.Proofs.GenMul
import Cirbo.Proofs.GenLevels
import Cirbo.Proofs.GenDadda
import Cirbo.Proofs.GenKara
import Cirbo.Proofs.GenSquare
import Cirbo.Proofs.GenWallace
import Cirbo.Proofs.GenMulWidth
import Cirbo.Proofs.GenWallaceWidth
import Cirbo.Proofs.GenTotalC08
import Cirbo.Proofs.GenReturns
/-!
# C08 — Multiplier and squarer generators compute exact products

-- OBLIGATION: c08_generators_only_add_fresh_gates
-- OBLIGATION: c08_partial_products
-- OBLIGATION: c08_mul_alter
-- OBLIGATION: c08_mul_default_partial
-- OBLIGATION: c08_mul_default
-- OBLIGATION: c08_weighted_levels_positional
-- OBLIGATION: c08_mul_dadda
-- OBLIGATION: c08_mul_karatsuba
-- OBLIGATION: c08_mul_karatsuba_pow2
-- OBLIGATION: c08_mul_pow2_m1
-- OBLIGATION: c08_square
-- OBLIGATION: c08_square_pow2_m1
-- OBLIGATION: c08_mul_wallace
-- OBLIGATION: c08_mul_default_width
-- OBLIGATION: c08_mul_wallace_width
-- OBLIGATION: c08_generators_return
-- PARTIAL: proved: the frame theorem for every mode (all are Prog programs), the partial-product matrix (sum_i 2^i*row_i = a*b), add_mul_alter = a*b exactly (positional), add_mul (DEFAULT) = a*b exactly (positional: on gapless weights the weighted sum returns the levels 0,1,2,... in order); and its result width n+m (n+m-1 when one operand has one bit) — c08_mul_default_width: the XAIG weighted loop outputs exactly the levels its level profile predicts (Proofs/GenShape.lean, exact per-level shape from the cost analysis) and for the partial-product profile the carries stay between 1 and the previous level's height (Proofs/GenMulWidth.lean); add_mul_dadda = a*b exactly with its result width (all reduction stages, any operand widths, both endiannesses). both Karatsuba variants (add_mul_karatsuba_with_efficient_sum = MulMode.KARATSUBA, and add_mul_karatsuba over add_mul_pow2_m1) = a*b exactly with their result width, by induction over the recursion (every threshold, operands of different widths, zero padding, the subtraction never borrows); add_mul_pow2_m1 = a*b exactly with its width (column-loop invariant over add_sum_pow2_m1, anti-diagonal re-summation of the partial-product matrix). both squarers (add_square_pow2_m1: the AND triangle built by the nested loops, the square as a sum over anti-diagonals; add_square: induction over the recursive split x = a + 2^mid*b) = x^2 exactly on 2n bits. add_mul_wallace = a*b exactly (Proofs/GenWallace.lean: the matrix with placeholder strings stands for Σ 2^col·(non-placeholder bits); every round keeps that number modulo 2^(n+m) — per-cell accounting over groups of three rows, carries out of the top column dropped; the two remaining rows are read as numbers with the gap logic; every label a run draws is "new_…", hence different from the placeholder — a second semantics SemF carries this along the same path). The result widths of DEFAULT (c08_mul_default_width) and Wallace (c08_mul_wallace_width: a non-empty column stays non-empty through the rounds and ends in row 0; the final adder then returns >= n+m bits) are proved as well. Totality is proved too (c08_generators_return, Proofs/GenTotalMul1/Mul2/Wallace/C08): on operands of width >= 1 that are gates of the host circuit every multiplier and squarer returns — the fuel of the Karatsuba recursion, of the Dadda stages and of the Wallace rounds suffices, no column that is read is empty, no label clashes — or stops because the 128-bit space of random labels is exhausted. What remains by correspondence only: the tie between the model programs and the Python generators.
-/
namespace Cirbo

theorem c08_generators_only_add_fresh_gates {α} (p : Prog α) {st st' : GSt} {a : α}
    (h : p.run st = .ok (a, st')) (hw : WFS st.c) : GenFrame st.c st'.c := run_frame p h hw

/-- the partial-product matrix used by every mode: row `i` is `b_i · a`, so `Σ 2^i·row_i = a·b` -/
theorem c08_partial_products {st st' : GSt} {a b : List Label} {rows : List (List Label)}
    (h : (ppRows a b []).run st = .ok (rows, st')) (hw : WFS st.c)
    (ha : ∀ l ∈ a, l ∈ st.c.labels) (hb : ∀ l ∈ b, l ∈ st.c.labels) {bb v : Label → Bool} (hv : IsValB st.c bb v) :
    rows.length = b.length ∧ (∀ r ∈ rows, r.length = a.length) ∧
    ∃ v', IsValB st'.c bb v' ∧ (∀ l ∈ st.c.labels, v' l = v l) ∧ rowsVal v' rows = valLE v a * valLE v b := by
  obtain ⟨v', h1, h2, h3⟩ := run_total h hw hv
  obtain ⟨rows', e1, e2, e3, e4, _⟩ := sem_ppRows _ _ _ h3
  simp only [List.nil_append] at e1; subst e1
  refine ⟨e2, e3, v', h1, h2, ?_⟩
  rw [e4, valLE_congr (fun l hl => h2 l (ha l hl)), valLE_congr (fun l hl => h2 l (hb l hl))]

/-- **`add_mul_alter`** on arbitrary host gates: the result is exactly `a·b` -/
theorem c08_mul_alter {st st' : GSt} {x y out : List Label} {be : Bool}
    (h : (addMulAlter x y be).run st = .ok (out, st')) (hw : WFS st.c)
    (hx : ∀ l ∈ x, l ∈ st.c.labels) (hy : ∀ l ∈ y, l ∈ st.c.labels) {b v : Label → Bool} (hv : IsValB st.c b v) :
    ∃ v', IsValB st'.c b v' ∧ (∀ l ∈ st.c.labels, v' l = v l) ∧
      valLE v' (revIf out be) = valLE v (revIf x be) * valLE v (revIf y be) := by
  obtain ⟨v', h1, h2, h3⟩ := run_total h hw hv
  refine ⟨v', h1, h2, ?_⟩
  rw [sem_addMulAlter h3, valLE_congr (fun l hl => h2 l (hx l (mem_revIf.mp hl))),
    valLE_congr (fun l hl => h2 l (hy l (mem_revIf.mp hl)))]

/-- **`add_mul` (DEFAULT)**: the returned bits carry strictly increasing levels whose weighted sum
is `a·b` -/
theorem c08_mul_default_partial {st st' : GSt} {x y out : List Label} {be : Bool}
    (h : (addMul x y be).run st = .ok (out, st')) (hw : WFS st.c)
    (hx : ∀ l ∈ x, l ∈ st.c.labels) (hy : ∀ l ∈ y, l ∈ st.c.labels) {b v : Label → Bool} (hv : IsValB st.c b v) :
    ∃ v', IsValB st'.c b v' ∧ (∀ l ∈ st.c.labels, v' l = v l) ∧
      ∃ lv : List (Nat × Label), revIf out be = lv.map (·.2) ∧ (lv.map (·.1)).Pairwise (· < ·) ∧
        wsum v' lv = valLE v (revIf x be) * valLE v (revIf y be) := by
  obtain ⟨v', h1, h2, h3⟩ := run_total h hw hv
  obtain ⟨lv, e1, e2, e3⟩ := sem_addMul_weighted h3
  refine ⟨v', h1, h2, lv, e1, e2, ?_⟩
  rw [e3, valLE_congr (fun l hl => h2 l (hx l (mem_revIf.mp hl))), valLE_congr (fun l hl => h2 l (hy l (mem_revIf.mp hl)))]

/-- on weights without gaps (as the partial products have) `add_sum_n_weighted_bits` returns level `k`
at position `k` -/
theorem c08_weighted_levels_positional {v : Label → Bool} {ins out : List (Nat × Label)} {basis : BasisArg}
    (h : Sem (addSumWeighted ins basis) v out) (hg : Gapless 0 (ins.map (·.1))) :
    out.map (·.1) = List.range out.length := sem_addSumWeighted_levels h hg

/-- **`add_mul` (DEFAULT)** on arbitrary host gates: read in the requested endianness the returned
bits are exactly `a·b` -/
theorem c08_mul_default {st st' : GSt} {x y out : List Label} {be : Bool}
    (h : (addMul x y be).run st = .ok (out, st')) (hw : WFS st.c) (hx1 : 1 ≤ x.length)
    (hx : ∀ l ∈ x, l ∈ st.c.labels) (hy : ∀ l ∈ y, l ∈ st.c.labels) {b v : Label → Bool} (hv : IsValB st.c b v) :
    ∃ v', IsValB st'.c b v' ∧ (∀ l ∈ st.c.labels, v' l = v l) ∧
      valLE v' (revIf out be) = valLE v (revIf x be) * valLE v (revIf y be) := by
  obtain ⟨v', h1, h2, h3⟩ := run_total h hw hv
  refine ⟨v', h1, h2, ?_⟩
  rw [sem_addMul h3 hx1, valLE_congr (fun l hl => h2 l (hx l (mem_revIf.mp hl))),
    valLE_congr (fun l hl => h2 l (hy l (mem_revIf.mp hl)))]

/-- **`add_mul_dadda`** on arbitrary host gates (any widths, either endianness): the result is exactly
`a·b`, on `n+m` bits (`n+m-1` when one operand has a single bit) -/
theorem c08_mul_dadda {st st' : GSt} {x y out : List Label} {be : Bool}
    (h : (addMulDadda x y be).run st = .ok (out, st')) (hw : WFS st.c)
    (hx : ∀ l ∈ x, l ∈ st.c.labels) (hy : ∀ l ∈ y, l ∈ st.c.labels) {b v : Label → Bool} (hv : IsValB st.c b v) :
    ∃ v', IsValB st'.c b v' ∧ (∀ l ∈ st.c.labels, v' l = v l) ∧
      valLE v' (revIf out be) = valLE v (revIf x be) * valLE v (revIf y be) ∧
      out.length = if (x.length == 1 || y.length == 1) then x.length + y.length - 1 else x.length + y.length := by
  obtain ⟨v', h1, h2, h3⟩ := run_total h hw hv
  refine ⟨v', h1, h2, ?_, sem_addMulDadda_length h3⟩
  rw [sem_addMulDadda h3, valLE_congr (fun l hl => h2 l (hx l (mem_revIf.mp hl))),
    valLE_congr (fun l hl => h2 l (hy l (mem_revIf.mp hl)))]

/-- **`add_mul_karatsuba_with_efficient_sum` (MulMode.KARATSUBA)** on arbitrary host gates (any
widths, not both empty; either endianness): the result is exactly `a·b`, on `n+m` bits (`n+m-1`
when one operand has a single bit) -/
theorem c08_mul_karatsuba {st st' : GSt} {x y out : List Label} {be : Bool}
    (h : (addMulKaratsubaEff x y be).run st = .ok (out, st')) (hw : WFS st.c) (hne : 1 ≤ max x.length y.length)
    (hx : ∀ l ∈ x, l ∈ st.c.labels) (hy : ∀ l ∈ y, l ∈ st.c.labels) {b v : Label → Bool} (hv : IsValB st.c b v) :
    ∃ v', IsValB st'.c b v' ∧ (∀ l ∈ st.c.labels, v' l = v l) ∧
      valLE v' (revIf out be) = valLE v (revIf x be) * valLE v (revIf y be) ∧
      out.length = x.length + y.length - (if x.length == 1 || y.length == 1 then 1 else 0) := by
  obtain ⟨v', h1, h2, h3⟩ := run_total h hw hv
  obtain ⟨e1, e2⟩ := sem_addMulKaratsubaEff h3 hne
  refine ⟨v', h1, h2, ?_, e2⟩
  rw [e1, valLE_congr (fun l hl => h2 l (hx l (mem_revIf.mp hl))),
    valLE_congr (fun l hl => h2 l (hy l (mem_revIf.mp hl)))]

/-- **`add_mul_karatsuba`** (base multiplier `add_mul_pow2_m1`), same statement -/
theorem c08_mul_karatsuba_pow2 {st st' : GSt} {x y out : List Label} {be : Bool}
    (h : (addMulKaratsuba x y be).run st = .ok (out, st')) (hw : WFS st.c) (hne : 1 ≤ max x.length y.length)
    (hx : ∀ l ∈ x, l ∈ st.c.labels) (hy : ∀ l ∈ y, l ∈ st.c.labels) {b v : Label → Bool} (hv : IsValB st.c b v) :
    ∃ v', IsValB st'.c b v' ∧ (∀ l ∈ st.c.labels, v' l = v l) ∧
      valLE v' (revIf out be) = valLE v (revIf x be) * valLE v (revIf y be) ∧
      out.length = x.length + y.length - (if x.length == 1 || y.length == 1 then 1 else 0) := by
  obtain ⟨v', h1, h2, h3⟩ := run_total h hw hv
  obtain ⟨e1, e2⟩ := sem_addMulKaratsuba h3 hne
  refine ⟨v', h1, h2, ?_, e2⟩
  rw [e1, valLE_congr (fun l hl => h2 l (hx l (mem_revIf.mp hl))),
    valLE_congr (fun l hl => h2 l (hy l (mem_revIf.mp hl)))]

/-- **`add_mul_pow2_m1`** on arbitrary host gates, any widths, either endianness: exactly `a·b` -/
theorem c08_mul_pow2_m1 {st st' : GSt} {x y out : List Label} {be : Bool}
    (h : (addMulPow2M1 x y be).run st = .ok (out, st')) (hw : WFS st.c)
    (hx : ∀ l ∈ x, l ∈ st.c.labels) (hy : ∀ l ∈ y, l ∈ st.c.labels) {b v : Label → Bool} (hv : IsValB st.c b v) :
    ∃ v', IsValB st'.c b v' ∧ (∀ l ∈ st.c.labels, v' l = v l) ∧
      valLE v' (revIf out be) = valLE v (revIf x be) * valLE v (revIf y be) ∧
      out.length = (if x.length = 1 then y.length else if y.length = 1 then x.length else x.length + y.length) := by
  obtain ⟨v', h1, h2, h3⟩ := run_total h hw hv
  obtain ⟨e1, e2⟩ := sem_addMulPow2M1 h3
  refine ⟨v', h1, h2, ?_, e2⟩
  rw [e1, valLE_congr (fun l hl => h2 l (hx l (mem_revIf.mp hl))),
    valLE_congr (fun l hl => h2 l (hy l (mem_revIf.mp hl)))]

/-- **`add_square`** on arbitrary host gates, any width, either endianness: exactly `x²`, on `2n`
bits (one bit for a one-bit operand) -/
theorem c08_square {st st' : GSt} {x out : List Label} {be : Bool}
    (h : (addSquare x be).run st = .ok (out, st')) (hw : WFS st.c)
    (hx : ∀ l ∈ x, l ∈ st.c.labels) {b v : Label → Bool} (hv : IsValB st.c b v) :
    ∃ v', IsValB st'.c b v' ∧ (∀ l ∈ st.c.labels, v' l = v l) ∧
      valLE v' (revIf out be) = valLE v (revIf x be) * valLE v (revIf x be) ∧
      out.length = (if x.length = 1 then 1 else 2 * x.length) := by
  obtain ⟨v', h1, h2, h3⟩ := run_total h hw hv
  obtain ⟨e1, e2⟩ := sem_addSquare h3
  refine ⟨v', h1, h2, ?_, e2⟩
  rw [e1, valLE_congr (fun l hl => h2 l (hx l (mem_revIf.mp hl)))]

/-- **`add_square_pow2_m1`**, same statement -/
theorem c08_square_pow2_m1 {st st' : GSt} {x out : List Label} {be : Bool}
    (h : (addSquarePow2M1 x be).run st = .ok (out, st')) (hw : WFS st.c)
    (hx : ∀ l ∈ x, l ∈ st.c.labels) {b v : Label → Bool} (hv : IsValB st.c b v) :
    ∃ v', IsValB st'.c b v' ∧ (∀ l ∈ st.c.labels, v' l = v l) ∧
      valLE v' (revIf out be) = valLE v (revIf x be) * valLE v (revIf x be) ∧
      out.length = (if x.length = 1 then 1 else 2 * x.length) := by
  obtain ⟨v', h1, h2, h3⟩ := run_total h hw hv
  obtain ⟨e1, e2⟩ := sem_addSquarePow2M1 h3
  refine ⟨v', h1, h2, ?_, e2⟩
  rw [e1, valLE_congr (fun l hl => h2 l (hx l (mem_revIf.mp hl)))]

/-- **`add_mul_wallace`** on arbitrary host gates, any widths, either endianness: exactly `a·b`.
(No assumption on the operand labels: only the partial products, which are fresh gates, are ever
compared with the placeholder string.) -/
theorem c08_mul_wallace {st st' : GSt} {x y out : List Label} {be : Bool}
    (h : (addMulWallace x y be).run st = .ok (out, st')) (hw : WFS st.c)
    (hx : ∀ l ∈ x, l ∈ st.c.labels) (hy : ∀ l ∈ y, l ∈ st.c.labels) {b v : Label → Bool} (hv : IsValB st.c b v) :
    ∃ v', IsValB st'.c b v' ∧ (∀ l ∈ st.c.labels, v' l = v l) ∧
      valLE v' (revIf out be) = valLE v (revIf x be) * valLE v (revIf y be) :=
  run_addMulWallace h hw hx hy hv

#print axioms c08_generators_only_add_fresh_gates
#print axioms c08_partial_products
#print axioms c08_mul_alter
#print axioms c08_mul_default_partial
#print axioms c08_mul_default
#print axioms c08_weighted_levels_positional
#print axioms c08_mul_dadda
#print axioms c08_mul_karatsuba
#print axioms c08_mul_karatsuba_pow2
#print axioms c08_mul_pow2_m1
#print axioms c08_square
#print axioms c08_square_pow2_m1
/-- **the result width of `add_mul` (DEFAULT)**: `n + m` bits, `n + m − 1` when one operand has a single
bit, for all widths ≥ 1, either endianness, operands any host gates -/
theorem c08_mul_default_width {st st' : GSt} {x y out : List Label} {be : Bool}
    (h : (addMul x y be).run st = .ok (out, st')) (hx : 1 ≤ x.length) (hy : 1 ≤ y.length) :
    out.length = if x.length = 1 ∨ y.length = 1 then x.length + y.length - 1 else x.length + y.length := by
  obtain ⟨n, hc, _⟩ := run_cost _ h
  exact cost_addMul_length hc hx hy

/-- **the result width of `add_mul_wallace`**: `n + m` bits, `n + m − 1` when one operand has a single bit
(on any host that has a valuation): a non-empty column of the matrix stays non-empty through every
round, after the last round (always on three rows) its bit is in row 0, and the final shifted adder over
the two rows then returns at least `n + m` bits, which are cut to `n + m` -/
theorem c08_mul_wallace_width {st st' : GSt} {x y out : List Label} {be : Bool}
    (h : (addMulWallace x y be).run st = .ok (out, st')) (hw : WFS st.c) {b v : Label → Bool} (hv : IsValB st.c b v)
    (hx : 1 ≤ x.length) (hy : 1 ≤ y.length) :
    out.length = if x.length = 1 ∨ y.length = 1 then x.length + y.length - 1 else x.length + y.length := by
  obtain ⟨v', _, _, h3⟩ := run_totalF h hw hv
  exact semF_addMulWallace_length (fun l ⟨n, hn⟩ => hn ▸ newLabel_ne_placeholder n) h3 hx hy

#print axioms c08_mul_wallace
#print axioms c08_mul_default_width
#print axioms c08_mul_wallace_width

/-- **every multiplier and squarer returns on valid arguments** (operands of width ≥ 1 whose bits are gates of the
host circuit, either endianness, any two widths) — or stops because the 128-bit space of random labels is
exhausted.  With the result widths where the totality proofs carry them. -/
theorem c08_generators_return (st : GSt) :
    (∀ a b be, (∀ l ∈ a, l ∈ st.c.labels) → (∀ l ∈ b, l ∈ st.c.labels) → a ≠ [] → b ≠ [] →
      Returns (addMul a b be) st (fun _ => True) ∧ Returns (addMulAlter a b be) st (fun r => r ≠ []) ∧
      Returns (addMulPow2M1 a b be) st (fun r => r.length =
        if a.length = 1 then b.length else if b.length = 1 then a.length else a.length + b.length) ∧
      Returns (addMulKaratsuba a b be) st (fun r => r.length = a.length + b.length - (if a.length == 1 || b.length == 1 then 1 else 0)) ∧
      Returns (addMulKaratsubaEff a b be) st (fun r => r.length = a.length + b.length - (if a.length == 1 || b.length == 1 then 1 else 0)) ∧
      Returns (addMulDadda a b be) st (fun r => r.length =
        if (a.length == 1 || b.length == 1) then a.length + b.length - 1 else a.length + b.length) ∧
      Returns (addMulWallace a b be) st (fun r => r.length =
        if a.length = 1 ∨ b.length = 1 then a.length + b.length - 1 else a.length + b.length)) ∧
    (∀ x be, (∀ l ∈ x, l ∈ st.c.labels) → x ≠ [] →
      Returns (addSquare x be) st (fun r => r ≠ []) ∧
      Returns (addSquarePow2M1 x be) st (fun r => r.length = if x.length = 1 then 1 else 2 * x.length)) := by
  have hinv := Inv.nil st
  have hk := kn_labels st
  constructor
  · intro a b be ha hb hna hnb
    have h1 : 1 ≤ a.length := List.length_pos_iff.mpr hna
    have h2 : 1 ≤ b.length := List.length_pos_iff.mpr hnb
    exact ⟨returns_of_ok (m1_ok_addMul (be := be) hinv hk ha hb hna hnb),
      returns_of_ok (m1_ok_addMulAlter (be := be) hinv hk ha hb hna hnb),
      returns_of_ok (m1_ok_addMulPow2M1 (be := be) hinv hk ha hb hna hnb),
      returns_of_ok (ok_addMulKaratsuba (be := be) hinv hk ha hb (by omega)),
      returns_of_ok (ok_addMulKaratsubaEff (be := be) hinv hk ha hb (by omega)),
      returns_of_ok (ok_addMulDadda (be := be) hinv hk ha hb h1 h2),
      returns_of_ok (m3_ok_addMulWallace (be := be) hinv hk ha hb h1 h2)⟩
  · intro x be hx hne
    exact ⟨returns_of_ok (ok_addSquare (be := be) hinv hk hx hne),
      returns_of_ok (m1_ok_addSquarePow2M1 (be := be) hinv hk hx hne)⟩

#print axioms c08_generators_return

end Cirbo
