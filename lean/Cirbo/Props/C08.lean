import Cirbo.Model.Gen3
/-! # C08 (placeholder until the theorems are in)
-- OBLIGATION: c08_placeholder
-/
namespace Cirbo
theorem c08_placeholder : True := trivial
#print axioms c08_placeholder
end Cirbo
