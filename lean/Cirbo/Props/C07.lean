import Cirbo.Model.Gen
/-! # C07 (placeholder until the theorems are in)
-- OBLIGATION: c07_placeholder
-/
namespace Cirbo
theorem c07_placeholder : True := trivial
#print axioms c07_placeholder
end Cirbo
