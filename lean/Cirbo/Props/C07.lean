import Cirbo.Proofs.GenWeighted
import Cirbo.Proofs.GenBasis
import Cirbo.Proofs.GenPow2
import Cirbo.Proofs.GenCostX
import Cirbo.Generated.DocBounds
import Cirbo.Proofs.GenReturns
/-!
# C07 — Summation generators compute exact sums within the promised basis

-- OBLIGATION: c07_generators_only_add_fresh_gates
-- OBLIGATION: c07_tt_table_is_correct
-- OBLIGATION: c07_sum_n_bits
-- OBLIGATION: c07_sum_n_bits_easy
-- OBLIGATION: c07_sum_two_numbers
-- OBLIGATION: c07_sum_two_numbers_with_shift
-- OBLIGATION: c07_weighted_sum
-- OBLIGATION: c07_weighted_sum_naive
-- OBLIGATION: c07_aig_basis_sum_n_bits
-- OBLIGATION: c07_aig_basis_weighted
-- OBLIGATION: c07_sum_pow2_m1
-- OBLIGATION: c07_gate_count_sum_n_bits
-- OBLIGATION: c07_gate_count_sum_n_bits_easy
-- OBLIGATION: c07_gate_count_weighted_naive
-- OBLIGATION: c07_gate_count_weighted_partial
-- OBLIGATION: c07_documented_bounds_hold
-- OBLIGATION: c07_generators_return
-- THOROUGH-WITNESS: Cirbo.Proofs.GenCostWitness Cirbo.weighted_xaig_documented_bound_fails
-- PARTIAL: gate counts: the documented bounds are proved for add_sum_n_bits (4.5n-2m in XAIG, 7n-3m in AIG), add_sum_n_bits_easy (5n), add_sum_n_weighted_bits_naive (5n-2m, 7n-3m) and add_sum_n_weighted_bits in AIG (7n-3m) — in each case a slightly stronger bound, by a cost semantics of generator programs (Cost, run_cost) and potential arguments. For add_sum_n_weighted_bits in XAIG the documented 4.5n-2m is FALSE (open known finding; Proofs/GenCostWitness.lean exhibits a run of the model with n=35, m=13 and 132 gates, kernel-evaluated in the thorough tier; the harness exhibits it on the code): the theorem proved is 4.5n-1.5m (c07_gate_count_weighted_partial). add_sum_pow2_m1 documents no bound. Termination and totality are proved (c07_generators_return, Proofs/GenTotal*.lean): on valid arguments every summation generator returns — the fuel of every loop suffices, no block gets a list of the wrong length, no label clashes — or stops because the 128-bit space of random labels is exhausted. XAIG membership is immediate (every type of the regenerated table is a binary gate type: ttType_ok); weights are naturals in the model.
-/
namespace Cirbo

/-- every generator is a `Prog`; running any `Prog` on a host satisfying the C02 invariant keeps the
invariant, the inputs and the blocks, appends only non-INPUT gates of accepted arity, appends
outputs only through `mark_as_output`, and every valuation of the host extends to the result under
the same input assignment — i.e. **pre-existing gates keep their function**. -/
theorem c07_generators_only_add_fresh_gates {α} (p : Prog α) {st st' : GSt} {a : α}
    (h : p.run st = .ok (a, st')) (hw : WFS st.c) : GenFrame st.c st'.c := run_frame p h hw

/-- the regenerated `binary_tt_to_type` table: each 4-bit string denotes a binary gate type whose
Boolean function is that truth table -/
theorem c07_tt_table_is_correct {a b c d : Bool} {ty : GateType} (h : Gen.ttType a b c d = some ty) (x y : Bool) :
    tyOk ty 2 = true ∧ bfun ty [x, y] = some (ttApply (a, b, c, d) x y) := ⟨ttType_ok h, ttType_sem h x y⟩

/-- **`add_sum_n_bits`** on arbitrary gates of a host, any basis spelling, both endiannesses: the
host keeps its function and the returned bits encode the number of true operand bits. -/
theorem c07_sum_n_bits {st st' : GSt} {ins out : List Label} {basis : BasisArg} {be : Bool}
    (h : (addSumNBits ins basis be).run st = .ok (out, st')) (hw : WFS st.c) (hin : ∀ l ∈ ins, l ∈ st.c.labels)
    {b v : Label → Bool} (hv : IsValB st.c b v) :
    ∃ v', IsValB st'.c b v' ∧ (∀ l ∈ st.c.labels, v' l = v l) ∧ valLE v' (revIf out be) = cnt v ins := by
  obtain ⟨v', h1, h2, h3⟩ := run_total h hw hv
  exact ⟨v', h1, h2, by rw [sem_addSumNBits h3, cnt_congr (fun l hl => h2 l (hin l hl))]⟩

theorem c07_sum_n_bits_easy {st st' : GSt} {ins out : List Label} {be : Bool}
    (h : (addSumNBitsEasy ins be).run st = .ok (out, st')) (hw : WFS st.c) (hin : ∀ l ∈ ins, l ∈ st.c.labels)
    {b v : Label → Bool} (hv : IsValB st.c b v) :
    ∃ v', IsValB st'.c b v' ∧ (∀ l ∈ st.c.labels, v' l = v l) ∧ valLE v' (revIf out be) = cnt v ins := by
  obtain ⟨v', h1, h2, h3⟩ := run_total h hw hv
  exact ⟨v', h1, h2, by rw [sem_addSumNBitsEasy h3, cnt_congr (fun l hl => h2 l (hin l hl))]⟩

/-- **`add_sum_two_numbers`**: the result is `a + b` (numbers read in the requested endianness) -/
theorem c07_sum_two_numbers {st st' : GSt} {x y out : List Label} {be : Bool}
    (h : (addSumTwoNumbers x y be).run st = .ok (out, st')) (hw : WFS st.c)
    (hx : ∀ l ∈ x, l ∈ st.c.labels) (hy : ∀ l ∈ y, l ∈ st.c.labels)
    {b v : Label → Bool} (hv : IsValB st.c b v) :
    ∃ v', IsValB st'.c b v' ∧ (∀ l ∈ st.c.labels, v' l = v l) ∧
      valLE v' (revIf out be) = valLE v (revIf x be) + valLE v (revIf y be) := by
  obtain ⟨v', h1, h2, h3⟩ := run_total h hw hv
  refine ⟨v', h1, h2, ?_⟩
  rw [sem_addSumTwoNumbers h3, valLE_congr (fun l hl => h2 l (hx l (mem_revIf.mp hl))),
    valLE_congr (fun l hl => h2 l (hy l (mem_revIf.mp hl)))]

/-- **`add_sum_two_numbers_with_shift`** for every shift (also beyond `len(a)`): `a + b·2^shift` -/
theorem c07_sum_two_numbers_with_shift {st st' : GSt} {x y out : List Label} {be : Bool} {shift : Nat}
    (h : (addSumTwoNumbersWithShift shift x y be).run st = .ok (out, st')) (hw : WFS st.c)
    (hx : ∀ l ∈ x, l ∈ st.c.labels) (hy : ∀ l ∈ y, l ∈ st.c.labels)
    {b v : Label → Bool} (hv : IsValB st.c b v) :
    ∃ v', IsValB st'.c b v' ∧ (∀ l ∈ st.c.labels, v' l = v l) ∧
      valLE v' (revIf out be) = valLE v (revIf x be) + 2 ^ shift * valLE v (revIf y be) := by
  obtain ⟨v', h1, h2, h3⟩ := run_total h hw hv
  refine ⟨v', h1, h2, ?_⟩
  rw [sem_addSumTwoNumbersWithShift h3, valLE_congr (fun l hl => h2 l (hx l (mem_revIf.mp hl))),
    valLE_congr (fun l hl => h2 l (hy l (mem_revIf.mp hl)))]

/-- **`add_sum_n_weighted_bits`**: `Σ out·2^level = Σ in·2^weight` with pairwise distinct (strictly
increasing) output levels, for every weight vector, basis spelling and host -/
theorem c07_weighted_sum {st st' : GSt} {ins out : List (Nat × Label)} {basis : BasisArg}
    (h : (addSumWeighted ins basis).run st = .ok (out, st')) (hw : WFS st.c)
    (hin : ∀ p ∈ ins, p.2 ∈ st.c.labels) {b v : Label → Bool} (hv : IsValB st.c b v) :
    (out.map (·.1)).Pairwise (· < ·) ∧
    ∃ v', IsValB st'.c b v' ∧ (∀ l ∈ st.c.labels, v' l = v l) ∧ wsum v' out = wsum v ins := by
  obtain ⟨v', h1, h2, h3⟩ := run_total h hw hv
  obtain ⟨e, d⟩ := sem_addSumWeighted h3
  exact ⟨d, v', h1, h2, by rw [e, wsum_congr (fun p hp => h2 _ (hin p hp))]⟩

theorem c07_weighted_sum_naive {st st' : GSt} {ins out : List (Nat × Label)} {basis : BasisArg}
    (h : (addSumWeightedNaive ins basis).run st = .ok (out, st')) (hw : WFS st.c)
    (hin : ∀ p ∈ ins, p.2 ∈ st.c.labels) {b v : Label → Bool} (hv : IsValB st.c b v) :
    (out.map (·.1)).Pairwise (· < ·) ∧
    ∃ v', IsValB st'.c b v' ∧ (∀ l ∈ st.c.labels, v' l = v l) ∧ wsum v' out = wsum v ins := by
  obtain ⟨v', h1, h2, h3⟩ := run_total h hw hv
  obtain ⟨e, d⟩ := sem_addSumWeightedNaive h3
  exact ⟨d, v', h1, h2, by rw [e, wsum_congr (fun p hp => h2 _ (hin p hp))]⟩

/-- with the AIG basis — enum member or any spelling of the string — no XOR/NXOR gate is added -/
theorem c07_aig_basis_sum_n_bits {st st' : GSt} {ins out : List Label} {basis : BasisArg} {be : Bool}
    (hb : basis.resolve = .ok .aig) (h : (addSumNBits ins basis be).run st = .ok (out, st')) :
    ∃ new, st'.c.gates = st.c.gates ++ new ∧ ∀ g ∈ new, g.ty ≠ .XOR ∧ g.ty ≠ .NXOR :=
  run_emits (emits_addSumNBits_aig hb) h

theorem c07_aig_basis_weighted {st st' : GSt} {ins out : List (Nat × Label)} {basis : BasisArg}
    (hb : basis.resolve = .ok .aig) :
    ((addSumWeighted ins basis).run st = .ok (out, st') →
      ∃ new, st'.c.gates = st.c.gates ++ new ∧ ∀ g ∈ new, g.ty ≠ .XOR ∧ g.ty ≠ .NXOR) ∧
    ((addSumWeightedNaive ins basis).run st = .ok (out, st') →
      ∃ new, st'.c.gates = st.c.gates ++ new ∧ ∀ g ∈ new, g.ty ≠ .XOR ∧ g.ty ≠ .NXOR) :=
  ⟨fun h => run_emits (emits_addSumWeighted_aig hb).1 h, fun h => run_emits (emits_addSumWeighted_aig hb).2 h⟩

/-! Non-vacuity: a run that succeeds, on a host built through the C02 operations -/
def c07Host : R Circuit := runOps Circuit.empty [.addInputs ["a", "b", "c", "d", "e"]]
example : ((c07Host >>= fun c => (addSumNBits ["a", "b", "c", "d", "e"] (.str "aig") false).run ⟨c, 0⟩).toOption.map
    fun r => (r.1.length, r.2.c.gates.length)) = some (3, 22) := by decide
example : ((c07Host >>= fun c => (addSumWeighted [(0, "a"), (0, "b"), (1, "c"), (1, "d"), (3, "e")] (.enum .xaig)).run ⟨c, 0⟩).toOption.map
    fun r => r.1.map (·.1)) = some [0, 1, 2, 3] := by decide

/-- **`add_sum_pow2_m1`** on arbitrary gates of a host (any basis spelling, both endiannesses): the
returned columns — column `j` holds bits of weight `2^j` — carry exactly the number of true operand
bits, and the weight-1 column is a single bit. -/
theorem c07_sum_pow2_m1 {st st' : GSt} {ins : List Label} {out : List (List Label)} {basis : BasisArg} {be : Bool}
    (h : (addSumPow2M1 ins be basis).run st = .ok (out, st')) (hw : WFS st.c) (hin : ∀ l ∈ ins, l ∈ st.c.labels)
    {b v : Label → Bool} (hv : IsValB st.c b v) :
    ∃ v', IsValB st'.c b v' ∧ (∀ l ∈ st.c.labels, v' l = v l) ∧ colsVal v' out = cnt v ins ∧
      ∃ z rest, out = [z] :: rest := by
  obtain ⟨v', h1, h2, h3⟩ := run_total h hw hv
  obtain ⟨e1, e2⟩ := sem_addSumPow2M1 h3
  exact ⟨v', h1, h2, by rw [e1, cnt_congr (fun l hl => h2 l (hin l hl))], e2⟩

/-! ## gate counts -/

/-- **`add_sum_n_bits` stays within its documented bounds**: on any host, with `n` operands and `m`
result bits, the call adds at most `4.5·n − 2·m` gates in XAIG (`2·new + 4·m ≤ 9·n`) and at most
`7·n − 3·m` in AIG, however the basis is spelled -/
theorem c07_gate_count_sum_n_bits {st st' : GSt} {ins out : List Label} {basis : BasisArg} {be : Bool}
    (h : (addSumNBits ins basis be).run st = .ok (out, st')) :
    ∃ new b, st'.c.gates.length = st.c.gates.length + new ∧ basis.resolve = .ok b ∧
      (b = .xaig → 2 * new + 4 * out.length ≤ 9 * ins.length) ∧
      (b = .aig → new + 3 * out.length ≤ 7 * ins.length) := by
  obtain ⟨n, hc, hl⟩ := run_cost _ h
  obtain ⟨b, hb, h1, h2⟩ := cost_addSumNBits hc
  exact ⟨n, b, hl, hb, h1, h2⟩

/-- `add_sum_n_bits_easy`: at most `5·n − 3·m` gates (documented: about `5·n`) -/
theorem c07_gate_count_sum_n_bits_easy {st st' : GSt} {ins out : List Label} {be : Bool}
    (h : (addSumNBitsEasy ins be).run st = .ok (out, st')) :
    ∃ new, st'.c.gates.length = st.c.gates.length + new ∧ new + 3 * out.length ≤ 5 * ins.length := by
  obtain ⟨n, hc, hl⟩ := run_cost _ h
  exact ⟨n, hl, cost_addSumNBitsEasy hc⟩

/-- `add_sum_n_weighted_bits_naive`: at most `5·n − 3·m` gates in XAIG (documented `5·n − 2·m`), at most
`7·n − 4·m` in AIG (documented `7·n − 3·m`) -/
theorem c07_gate_count_weighted_naive {st st' : GSt} {ins out : List (Nat × Label)} {basis : BasisArg}
    (h : (addSumWeightedNaive ins basis).run st = .ok (out, st')) :
    ∃ new b, st'.c.gates.length = st.c.gates.length + new ∧ basis.resolve = .ok b ∧
      (b = .xaig → new + 3 * out.length ≤ 5 * ins.length) ∧ (b = .aig → new + 4 * out.length ≤ 7 * ins.length) := by
  obtain ⟨n, hc, hl⟩ := run_cost _ h
  obtain ⟨b, hb, h1, h2⟩ := cost_addSumWeightedNaive hc
  exact ⟨n, b, hl, hb, h1, h2⟩

/-- `add_sum_n_weighted_bits`: in AIG at most `7·n − 4·m` gates (documented `7·n − 3·m`). In XAIG the
documented `4.5·n − 2·m` does not hold (see the header); what holds is `4.5·n − 1.5·m`
(`2·new + 3·m ≤ 9·n`): a single bit is worth 9 half gates, a pair 16, pairing two bits, an MDFA block
and every other block are paid from that, and each level keeps at least 3 -/
theorem c07_gate_count_weighted_partial {st st' : GSt} {ins out : List (Nat × Label)} {basis : BasisArg}
    (h : (addSumWeighted ins basis).run st = .ok (out, st')) :
    ∃ new b, st'.c.gates.length = st.c.gates.length + new ∧ basis.resolve = .ok b ∧
      (b = .xaig → 2 * new + 3 * out.length ≤ 9 * ins.length) ∧ (b = .aig → new + 4 * out.length ≤ 7 * ins.length) := by
  obtain ⟨n, hc, hl⟩ := run_cost _ h
  obtain ⟨b, hb, h1, h2⟩ := cost_addSumWeighted hc
  exact ⟨n, b, hl, hb, h1, h2⟩

/-- a gate count within a documented bound "not more than `A/2·n − B/2·m`" (the pair is regenerated from
the function's docstring on every run; `none` = the docstring states no such bound) -/
def WithinDoc (doc : Option (Nat × Nat)) (new n m : Nat) : Prop := ∀ A B, doc = some (A, B) → 2 * new + B * m ≤ A * n

/-- **the bounds the docstrings state hold** — for `add_sum_n_bits` (both bases), `add_sum_n_weighted_bits_naive`
(both bases), `add_sum_n_weighted_bits` in AIG and `add_sum_n_bits_easy`, against the constants read from the
current docstrings (`Generated/DocBounds.lean`). The one documented bound that does not hold —
`add_sum_n_weighted_bits` in XAIG — is absent from this theorem (see `c07_gate_count_weighted_partial`). -/
theorem c07_documented_bounds_hold :
    (∀ {st st' : GSt} {ins out : List Label} {basis : BasisArg} {be : Bool},
      (addSumNBits ins basis be).run st = .ok (out, st') →
      ∃ new b, st'.c.gates.length = st.c.gates.length + new ∧ basis.resolve = .ok b ∧
        (b = .xaig → WithinDoc Gen.doc_add_sum_n_bits_xaig new ins.length out.length) ∧
        (b = .aig → WithinDoc Gen.doc_add_sum_n_bits_aig new ins.length out.length)) ∧
    (∀ {st st' : GSt} {ins out : List (Nat × Label)} {basis : BasisArg},
      (addSumWeightedNaive ins basis).run st = .ok (out, st') →
      ∃ new b, st'.c.gates.length = st.c.gates.length + new ∧ basis.resolve = .ok b ∧
        (b = .xaig → WithinDoc Gen.doc_add_sum_n_weighted_bits_naive_xaig new ins.length out.length) ∧
        (b = .aig → WithinDoc Gen.doc_add_sum_n_weighted_bits_naive_aig new ins.length out.length)) ∧
    (∀ {st st' : GSt} {ins out : List (Nat × Label)} {basis : BasisArg},
      (addSumWeighted ins basis).run st = .ok (out, st') →
      ∃ new b, st'.c.gates.length = st.c.gates.length + new ∧ basis.resolve = .ok b ∧
        (b = .aig → WithinDoc Gen.doc_add_sum_n_weighted_bits_aig new ins.length out.length)) ∧
    (∀ {st st' : GSt} {ins out : List Label} {be : Bool},
      (addSumNBitsEasy ins be).run st = .ok (out, st') →
      ∃ new, st'.c.gates.length = st.c.gates.length + new ∧
        ∀ A, Gen.doc_add_sum_n_bits_easy = some A → 2 * new ≤ A * ins.length) := by
  refine ⟨?_, ?_, ?_, ?_⟩
  · intro st st' ins out basis be h
    obtain ⟨new, b, hl, hb, h1, h2⟩ := c07_gate_count_sum_n_bits h
    refine ⟨new, b, hl, hb, ?_, ?_⟩
    · intro e A B hd
      have := h1 e
      simp only [Gen.doc_add_sum_n_bits_xaig, Option.some.injEq, Prod.mk.injEq] at hd
      obtain ⟨rfl, rfl⟩ := hd; omega
    · intro e A B hd
      have := h2 e
      simp only [Gen.doc_add_sum_n_bits_aig, Option.some.injEq, Prod.mk.injEq] at hd
      obtain ⟨rfl, rfl⟩ := hd; omega
  · intro st st' ins out basis h
    obtain ⟨new, b, hl, hb, h1, h2⟩ := c07_gate_count_weighted_naive h
    refine ⟨new, b, hl, hb, ?_, ?_⟩
    · intro e A B hd
      have := h1 e
      simp only [Gen.doc_add_sum_n_weighted_bits_naive_xaig, Option.some.injEq, Prod.mk.injEq] at hd
      obtain ⟨rfl, rfl⟩ := hd; omega
    · intro e A B hd
      have := h2 e
      simp only [Gen.doc_add_sum_n_weighted_bits_naive_aig, Option.some.injEq, Prod.mk.injEq] at hd
      obtain ⟨rfl, rfl⟩ := hd; omega
  · intro st st' ins out basis h
    obtain ⟨new, b, hl, hb, _, h2⟩ := c07_gate_count_weighted_partial h
    refine ⟨new, b, hl, hb, ?_⟩
    intro e A B hd
    have := h2 e
    simp only [Gen.doc_add_sum_n_weighted_bits_aig, Option.some.injEq, Prod.mk.injEq] at hd
    obtain ⟨rfl, rfl⟩ := hd; omega
  · intro st st' ins out be h
    obtain ⟨new, hl, h1⟩ := c07_gate_count_sum_n_bits_easy h
    refine ⟨new, hl, ?_⟩
    intro A hd
    simp only [Gen.doc_add_sum_n_bits_easy, Option.some.injEq] at hd
    subst hd; omega

#print axioms c07_generators_only_add_fresh_gates
#print axioms c07_tt_table_is_correct
#print axioms c07_sum_n_bits
#print axioms c07_sum_n_bits_easy
#print axioms c07_sum_two_numbers
#print axioms c07_sum_two_numbers_with_shift
#print axioms c07_weighted_sum
#print axioms c07_weighted_sum_naive
#print axioms c07_aig_basis_sum_n_bits
#print axioms c07_aig_basis_weighted

#print axioms c07_sum_pow2_m1
#print axioms c07_gate_count_sum_n_bits
#print axioms c07_gate_count_sum_n_bits_easy
#print axioms c07_gate_count_weighted_naive
#print axioms c07_gate_count_weighted_partial
#print axioms c07_documented_bounds_hold

/-- **every summation generator returns on valid arguments** (operands are gates of the host circuit; a basis
name that resolves; non-empty operands where the Python code indexes them) — or stops because the 128-bit
space of random labels is exhausted, the one failure no argument can exclude.  No fuel runs out, no block is
handed a list of the wrong length, no label clashes: `Proofs/GenTotal*.lean`. -/
theorem c07_generators_return (st : GSt) :
    (∀ ins basis b be, BasisArg.resolve basis = .ok b → (∀ l ∈ ins, l ∈ st.c.labels) →
      Returns (addSumNBits ins basis be) st (fun r => r.length = sa_bitlen ins.length)) ∧
    (∀ ins be, (∀ l ∈ ins, l ∈ st.c.labels) → Returns (addSumNBitsEasy ins be) st (fun _ => True)) ∧
    (∀ a b be, (∀ l ∈ a, l ∈ st.c.labels) → (∀ l ∈ b, l ∈ st.c.labels) → a ≠ [] → b ≠ [] →
      Returns (addSumTwoNumbers a b be) st (fun r => r.length = max a.length b.length + 1)) ∧
    (∀ shift a b be, (∀ l ∈ a, l ∈ st.c.labels) → (∀ l ∈ b, l ∈ st.c.labels) → a ≠ [] → b ≠ [] →
      Returns (addSumTwoNumbersWithShift shift a b be) st (fun _ => True)) ∧
    (∀ ins basis b, BasisArg.resolve basis = .ok b → ins ≠ [] → (∀ x ∈ ins, x.2 ∈ st.c.labels) →
      Returns (addSumWeightedNaive ins basis) st (fun _ => True)) ∧
    (∀ ins basis b, BasisArg.resolve basis = .ok b → ins ≠ [] → (∀ x ∈ ins, x.2 ∈ st.c.labels) →
      Returns (addSumWeighted ins basis) st (fun _ => True)) ∧
    (∀ ins be basis b, BasisArg.resolve basis = .ok b → ins ≠ [] → (∀ l ∈ ins, l ∈ st.c.labels) →
      Returns (addSumPow2M1 ins be basis) st (fun r => r ≠ [])) := by
  have hinv := Inv.nil st
  have hk := kn_labels st
  refine ⟨?_, ?_, ?_, ?_, ?_, ?_, ?_⟩
  · intro ins basis b be hb hi
    exact returns_of_ok (ok_addSumNBits (be := be) hinv hk hi hb)
  · intro ins be hi
    exact returns_of_ok (ok_addSumNBitsEasy (be := be) hinv hk hi)
  · intro a b be ha hb hna hnb
    exact returns_of_ok (ok_addSumTwoNumbers (be := be) hinv hk ha hb hna hnb)
  · intro shift a b be ha hb hna hnb
    exact returns_of_ok ((ok_addSumTwoNumbersWithShift (shift := shift) (be := be) hinv hk ha hb (fun _ => hna) (fun _ => hnb)).mono
      (fun _ _ ⟨i, k, _⟩ => ⟨i, k, trivial⟩))
  · intro ins basis b hb hne hi
    exact returns_of_ok (ok_addSumWeightedNaive hinv hk hb hne hi)
  · intro ins basis b hb hne hi
    exact returns_of_ok (ok_addSumWeighted hinv hk hb hne hi)
  · intro ins be basis b hb hne hi
    exact returns_of_ok (ok_addSumPow2M1 (be := be) hinv hk hb hne hi)

#print axioms c07_generators_return

end Cirbo
