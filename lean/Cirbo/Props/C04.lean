import Cirbo.Proofs.Pattern
import Cirbo.Proofs.Synth
import Cirbo.Proofs.MinSteps
import Cirbo.Proofs.ConeTable
import Cirbo.Proofs.ConeReach
/-!
# C04 — SAT-based subcircuit minimisation returns an equivalent, not larger circuit

-- OBLIGATION: c04_leaf_patterns
-- OBLIGATION: c04_eval_pattern_is_bitwise_evaluation
-- OBLIGATION: c04_synthesised_cone_agrees
-- OBLIGATION: c04_improvement_steps_preserve_function
-- OBLIGATION: c04_cone_simulation_computes_the_cone
-- OBLIGATION: c04_eval_dont_cares_collects_every_leaf_vector
-- OBLIGATION: c04_dont_care_table_defined_where_reached
-- OBLIGATION: c04_dont_care_table_sound
-- OBLIGATION: c04_synthesised_cone_slice_agrees
-- PARTIAL: proved: (1) the splice loop, abstractly — ANY finite sequence of accepted improvements (each a replace_subcircuit by a subcircuit that agrees with the cone it replaces on every value combination that occurs) leaves the circuit well formed, with the same inputs position by position and the same output values on every input assignment (c04_improvement_steps_preserve_function, through the C19 theorem for replace_subcircuit); (2) the pattern primitives (leaf patterns enumerate all leaf assignments; eval_pattern is the gate's Boolean function bit by bit, for every supported type incl. n-ary gates); (3) the cone pipeline that produces such improvements, modelled in Model/ConeTable.lean and compared with the code on every cone of every run: the simulation loop of _get_subcircuits gives every leaf and cone gate the pattern whose bit at the row of the leaf vector is the gate's value, for EVERY valuation of the circuit (c04_cone_simulation_computes_the_cone); _eval_dont_cares collects the leaf vector of every valuation (c04_eval_dont_cares_collects_every_leaf_vector, through C01's theorem about the per-gate truth tables); evaluate_truth_table_with_dont_cares is defined exactly at the rows whose assignment string was collected and there carries the output pattern's bit (c04_dont_care_table_defined_where_reached); hence ANY circuit that implements that table — in particular the circuit exact synthesis builds from any satisfying assignment of its encoding (C06) — agrees with the cone on every valuation of the circuit under the identification of inputs and outputs the driver uses, i.e. meets the hypothesis of (1) (c04_dont_care_table_sound, c04_synthesised_cone_slice_agrees: soundness of the don't-care extraction, end to end for one cone). NOT proved (decided on every run by the search over the real minimize_subcircuits with admissible cut families, all bases and parameter settings, truth-table / interface / size comparison and enable_validation): that the cut enumerator's cones are closed under their leaves (a hypothesis of (3), audited on every cone of every run), the selection of cuts (nested-cut removal), the trivial-output shortcut (in-place merging of equal patterns), the relabelling before the splice (_rename_subcircuit_gates) and the driver loop over node states. The algorithm depends on Python set iteration order; the driver is not modelled as a whole.
-/
namespace Cirbo
open Pattern Synth

/-- `_generate_inputs_tt(size)`: bit `i` of leaf `j`'s pattern is bit `j` of `i` — the patterns
enumerate every assignment of the leaves, each exactly once -/
theorem c04_leaf_patterns (size j i : Nat) (hi : i < 2 ^ size) :
    (leafPattern size j).testBit i = i.testBit j ∧ leafPattern size j < 2 ^ (2 ^ size) :=
  leafPattern_testBit size j i hi

/-- `eval_pattern`: for every supported gate type at an accepted arity, bit `i` of the result is the
gate's Boolean function of bit `i` of its operands' patterns; so simulating a cone gate by gate in
topological order gives every gate its value under every leaf assignment -/
theorem c04_eval_pattern_is_bitwise_evaluation (k : Nat) (ty : GateType) (ops : List Nat) (p : Nat)
    (h : evalPattern k ty ops = .ok p) (hops : ∀ x ∈ ops, x < 2 ^ (2 ^ k)) (har : arityOk ty ops.length = true) :
    p < 2 ^ (2 ^ k) ∧ ∀ i, i < 2 ^ k → bfun ty (bitsAt ops i) = some (p.testBit i) :=
  evalPattern_sound k ty ops p h hops har

/-- the replacement cone: whatever exact synthesis returns for the table with don't-cares has the
requested number of gates of the basis and agrees with every defined entry (C06 soundness) -/
theorem c04_synthesised_cone_agrees (sp : Spec) (σ : SVar → Bool) (hc : sp.cons = []) (h : sat σ (encode sp)) :
    SolOk sp (decode sp σ) := encode_sound sp σ (by rw [hc]; intro c hc'; cases hc') h

/-! Non-vacuity: the two leaf patterns for two leaves are 0b1010 and 0b1100; AND gives 0b1000 -/
example : genInputsTT 2 = [10, 12] := by decide
example : (evalPattern 2 .AND [10, 12]).toOption = some 8 ∧ (evalPattern 2 .NAND [10, 12, 12]).toOption = some 7 := by decide

#print axioms c04_leaf_patterns
#print axioms c04_eval_pattern_is_bitwise_evaluation
/-- **the improvement loop preserves the function.** `Steps c ss c'`: the improvements `ss` were applied one
after the other by `replace_subcircuit`, each replacement well formed with valid arities and agreeing
with the cone it replaces (`SliceAgrees`: on every valuation of the current circuit, fed the values at
the cone's leaves it produces the values at the cone's outputs; no cone output is a circuit input).
Then the final circuit is well formed and `Refines` the original: the same inputs position by position
(up to relabelling) and, for every valuation of the original, a valuation of the result under the
corresponding assignment with the same output values — the same truth table, the same number and order
of inputs and outputs. The splices of `minimize_subcircuits` are such steps (cut choice, synthesis and its failures only decide
WHICH are taken; the harness records every splice of every run, checks these hypotheses on it and
compares it with this model). The driver's other kind of step — merging, in place, a cone output whose
pattern equals a leaf's or another output's — is not covered by this theorem. -/
theorem c04_improvement_steps_preserve_function {c c' : Circuit} {ss : List Step} (hw : WFS c)
    (h : Steps c ss c') : WFS c' ∧ Refines c c' := steps_refine hw h

#print axioms c04_synthesised_cone_agrees
#print axioms c04_improvement_steps_preserve_function

/-! ### the cone simulation, the don't-care extraction and the table handed to synthesis
(`_get_subcircuits`, `_eval_dont_cares`, `_Subcircuit.evaluate_truth_table_with_dont_cares`; Model/ConeTable.lean) -/
open Cone

/-- **the simulation loop of `_get_subcircuits` computes the cone.** `leaves` is `inputs_lst` (leaf `j`
gets `_generate_inputs_tt(n)[j]`), `nodes` the cone in topological order. If the cone is closed (every
operand of a simulated gate is a leaf or an earlier node — what a cut guarantees, audited on every cone
of every run) and the loop finishes, then for EVERY valuation `v` of the circuit, bit number
`lsbRow (leaves.map v)` of the pattern of every leaf and node is that gate's value under `v` -/
theorem c04_cone_simulation_computes_the_cone {c : Circuit} {leaves nodes : List Label} {tt : List (Label × Nat)}
    {b v : Label → Bool} (har : ∀ g ∈ c.gates, g.ty ≠ GateType.INPUT → arityOk g.ty g.ops.length = true)
    (hcl : Cone.Closed c leaves [] nodes) (h : simulate c leaves nodes = .ok tt) (hv : IsValB c b v) :
    ∀ l, l ∈ leaves ∨ l ∈ nodes → ttGet tt l < 2 ^ (2 ^ leaves.length) ∧
      (ttGet tt l).testBit (lsbRow (leaves.map v)) = v l := simulate_sound har hcl h hv

/-- **`_eval_dont_cares` collects every leaf vector that occurs** (through C01's theorem about the
per-gate truth tables): the strings it stores for a cone contain the leaf vector of every valuation -/
theorem c04_eval_dont_cares_collects_every_leaf_vector {c : Circuit} (h : WFU c) {gtt : Dict (List V3)}
    (hg : gatesTruthTable c = .ok gtt) {ins : List Label} (hins : ∀ l ∈ ins, l ∈ c.labels) :
    ReachComplete c ins (inputsTT ins.length (occOf gtt (2 ^ c.inputs.length) ins)) := inputsTT_complete h hg hins

/-- the table is defined exactly at the rows whose assignment string was collected, and a defined
entry is the output pattern's bit -/
theorem c04_dont_care_table_defined_where_reached (n : Nat) (outPats : List Nat) (reach : List (List Bool)) (j r : Nat)
    (hj : j < outPats.length) (hr : r < 2 ^ n) :
    entry (ttDC n outPats reach) j r = if msbBits n r ∈ reach then some (outPats[j].testBit r) else none :=
  ttDC_entry n outPats reach j r hj hr

/-- **the don't-care extraction is sound**: ANY circuit that implements the table with don't-cares
(`Implements`: what C06 proves about the circuit exact synthesis returns) agrees with the cone on every
valuation of the circuit, under the identification of inputs and outputs `minimize_subcircuits` uses
(replacement input `k` ↔ `subcircuit.inputs[k] = inputs_lst[n-1-k]`, output `j` ↔ cone output `j`) —
that is, it meets the `SliceAgrees` hypothesis of `c04_improvement_steps_preserve_function` -/
theorem c04_dont_care_table_sound {c sub : Circuit} {leaves nodes outs : List Label} {tt : List (Label × Nat)}
    {reach : List (List Bool)}
    (har : ∀ g ∈ c.gates, g.ty ≠ GateType.INPUT → arityOk g.ty g.ops.length = true)
    (hcl : Cone.Closed c leaves [] nodes) (hsim : simulate c leaves nodes = .ok tt)
    (houts : ∀ o ∈ outs, o ∈ leaves ∨ o ∈ nodes)
    (hreach : ReachComplete c leaves.reverse reach)
    (hin : ∀ l, l ∈ sub.inputs → ∃ g ∈ sub.gates, g.label = l ∧ g.ty = GateType.INPUT)
    (himpl : Implements sub leaves.length (ttDC leaves.length (outs.map (ttGet tt)) reach)) :
    SliceAgrees c sub (leaves.reverse.zip sub.inputs) (outs.zip sub.outputs) :=
  dc_table_slice_agrees har hcl hsim houts hreach hin himpl

/-- **end to end for one cone**: the circuit built from ANY satisfying assignment of the encoding of
the cone's table with don't-cares (computed by the simulation and `_eval_dont_cares` on a well-formed
circuit) agrees with the cone on every valuation of the circuit -/
theorem c04_synthesised_cone_slice_agrees {c sub : Circuit} {leaves nodes outs : List Label} {tt : List (Label × Nat)}
    {gtt : Dict (List V3)} {sp : Spec} {σ : SVar → Bool}
    (hw : WFU c) (hcl : Cone.Closed c leaves [] nodes) (hsim : simulate c leaves nodes = .ok tt)
    (houts : ∀ o ∈ outs, o ∈ leaves ∨ o ∈ nodes) (hleaves : ∀ l ∈ leaves, l ∈ c.labels)
    (hg : gatesTruthTable c = .ok gtt)
    (hn : sp.n = leaves.length) (hm : sp.m = outs.length) (hc : sp.cons = [])
    (htab : ∀ j t, j < sp.m → t < 2 ^ sp.n → sp.table j t =
      entry (ttDC leaves.length (outs.map (ttGet tt))
        (inputsTT leaves.length (occOf gtt (2 ^ c.inputs.length) leaves.reverse))) j t)
    (hsat : sat σ (encode sp)) (hsub : solToCircuit sp (decode sp σ) = .ok sub)
    (hin : ∀ l, l ∈ sub.inputs → ∃ g ∈ sub.gates, g.label = l ∧ g.ty = GateType.INPUT) :
    SliceAgrees c sub (leaves.reverse.zip sub.inputs) (outs.zip sub.outputs) := by
  have hok := c04_synthesised_cone_agrees sp σ hc hsat
  have har : ∀ g ∈ c.gates, g.ty ≠ GateType.INPUT → arityOk g.ty g.ops.length = true := by
    intro g hgm hgt
    have := hw.arity g hgm
    simpa [hgt] using this
  have hreach := inputsTT_complete hw hg (ins := leaves.reverse) (by intro l hl; exact hleaves l (by simpa using hl))
  rw [List.length_reverse] at hreach
  have himpl := synthesised_implements hok hsub _ (by simp [ttDC, hm]) htab
  rw [hn] at himpl
  exact dc_table_slice_agrees har hcl hsim houts hreach hin himpl

/-! Non-vacuity: the cone {x = AND(a,b), y = NOT(x)} over leaves a, b in a circuit where b = NOT(a):
the leaf vectors 00 and 11 never occur, so rows 0 and 3 of the table are don't-cares -/
def c04Ex : Circuit :=
  ⟨[⟨"a", .INPUT, []⟩, ⟨"b", .NOT, ["a"]⟩, ⟨"x", .AND, ["a", "b"]⟩, ⟨"y", .NOT, ["x"]⟩], ["a"], ["y"], [], []⟩
example : (simulate c04Ex ["a", "b"] ["x", "y"]).toOption.map (fun tt => (ttGet tt "x", ttGet tt "y")) = some (8, 7) := by decide
example : ttDC 2 [7] [[false, true], [true, false]] = [[none, some true, some true, none]] := by decide
example : Cone.Closed c04Ex ["a", "b"] [] ["x", "y"] := by
  intro pre x post h hx g hg o ho
  rcases pre with _ | ⟨p, _ | ⟨q, _ | _⟩⟩ <;> simp at h
  · obtain ⟨rfl, _⟩ := h
    simp [c04Ex, Circuit.find?] at hg; subst hg; simp at ho; rcases ho with rfl | rfl <;> simp
  · obtain ⟨rfl, rfl, _⟩ := h
    simp [c04Ex, Circuit.find?] at hg; subst hg; simp at ho; simp [ho]

#print axioms c04_cone_simulation_computes_the_cone
#print axioms c04_eval_dont_cares_collects_every_leaf_vector
#print axioms c04_dont_care_table_defined_where_reached
#print axioms c04_dont_care_table_sound
#print axioms c04_synthesised_cone_slice_agrees

end Cirbo
