import Cirbo.Proofs.Pattern
import Cirbo.Proofs.Synth
import Cirbo.Proofs.MinSteps
/-!
# C04 — SAT-based subcircuit minimisation returns an equivalent, not larger circuit

-- OBLIGATION: c04_leaf_patterns
-- OBLIGATION: c04_eval_pattern_is_bitwise_evaluation
-- OBLIGATION: c04_synthesised_cone_agrees
-- OBLIGATION: c04_improvement_steps_preserve_function
-- PARTIAL: proved: the splice loop, abstractly — ANY finite sequence of accepted improvements (each a replace_subcircuit by a subcircuit that agrees with the cone it replaces on every value combination that occurs; that agreement is what the pattern simulation over all input assignments plus exact synthesis deliver) leaves the circuit well formed, with the same inputs position by position and the same output values on every input assignment (c04_improvement_steps_preserve_function, through the C19 theorem for replace_subcircuit); the pattern primitives of the cone simulation (leaf patterns enumerate all leaf assignments; eval_pattern is the gate's Boolean function bit by bit, for every supported type incl. n-ary gates) and — through C06 — that any cone returned by exact synthesis agrees with the requested table on every entry that is not a don't-care, with exactly size-1 gates of the basis. NOT proved (decided on every run by the search over the real minimize_subcircuits with admissible cut families, all bases and parameter settings, truth-table / interface / size comparison and enable_validation): soundness of the don't-care extraction over reachable leaf vectors, of the trivial-output shortcut, of the splice through replace_subcircuit (modelled and compared in C19), and of the driver loop over node states. The algorithm depends on Python set iteration order; it is not modelled as a whole. One open known finding (dead logic reading an improved cone) is listed in known_findings.json.
-/
namespace Cirbo
open Pattern Synth

/-- `_generate_inputs_tt(size)`: bit `i` of leaf `j`'s pattern is bit `j` of `i` — the patterns
enumerate every assignment of the leaves, each exactly once -/
theorem c04_leaf_patterns (size j i : Nat) (hi : i < 2 ^ size) :
    (leafPattern size j).testBit i = i.testBit j ∧ leafPattern size j < 2 ^ (2 ^ size) :=
  leafPattern_testBit size j i hi

/-- `eval_pattern`: for every supported gate type at an accepted arity, bit `i` of the result is the
gate's Boolean function of bit `i` of its operands' patterns; so simulating a cone gate by gate in
topological order gives every gate its value under every leaf assignment -/
theorem c04_eval_pattern_is_bitwise_evaluation (k : Nat) (ty : GateType) (ops : List Nat) (p : Nat)
    (h : evalPattern k ty ops = .ok p) (hops : ∀ x ∈ ops, x < 2 ^ (2 ^ k)) (har : arityOk ty ops.length = true) :
    p < 2 ^ (2 ^ k) ∧ ∀ i, i < 2 ^ k → bfun ty (bitsAt ops i) = some (p.testBit i) :=
  evalPattern_sound k ty ops p h hops har

/-- the replacement cone: whatever exact synthesis returns for the table with don't-cares has the
requested number of gates of the basis and agrees with every defined entry (C06 soundness) -/
theorem c04_synthesised_cone_agrees (sp : Spec) (σ : SVar → Bool) (hc : sp.cons = []) (h : sat σ (encode sp)) :
    SolOk sp (decode sp σ) := encode_sound sp σ (by rw [hc]; intro c hc'; cases hc') h

/-! Non-vacuity: the two leaf patterns for two leaves are 0b1010 and 0b1100; AND gives 0b1000 -/
example : genInputsTT 2 = [10, 12] := by decide
example : (evalPattern 2 .AND [10, 12]).toOption = some 8 ∧ (evalPattern 2 .NAND [10, 12, 12]).toOption = some 7 := by decide

#print axioms c04_leaf_patterns
#print axioms c04_eval_pattern_is_bitwise_evaluation
/-- **the improvement loop preserves the function.** `Steps c ss c'`: the improvements `ss` were applied one
after the other by `replace_subcircuit`, each replacement well formed with valid arities and agreeing
with the cone it replaces (`SliceAgrees`: on every valuation of the current circuit, fed the values at
the cone's leaves it produces the values at the cone's outputs; no cone output is a circuit input).
Then the final circuit is well formed and `Refines` the original: the same inputs position by position
(up to relabelling) and, for every valuation of the original, a valuation of the result under the
corresponding assignment with the same output values — the same truth table, the same number and order
of inputs and outputs. The splices of `minimize_subcircuits` are such steps (cut choice, synthesis and its failures only decide
WHICH are taken; the harness records every splice of every run, checks these hypotheses on it and
compares it with this model). The driver's other kind of step — merging, in place, a cone output whose
pattern equals a leaf's or another output's — is not covered by this theorem. -/
theorem c04_improvement_steps_preserve_function {c c' : Circuit} {ss : List Step} (hw : WFS c)
    (h : Steps c ss c') : WFS c' ∧ Refines c c' := steps_refine hw h

#print axioms c04_synthesised_cone_agrees
#print axioms c04_improvement_steps_preserve_function

end Cirbo
