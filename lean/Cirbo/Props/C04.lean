import Cirbo.Basic
/-! # C04 (placeholder until the theorems are in)
-- OBLIGATION: c04_placeholder
-/
namespace Cirbo
theorem c04_placeholder : True := trivial
#print axioms c04_placeholder
end Cirbo
