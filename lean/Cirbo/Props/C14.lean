import Cirbo.Proofs.BenchTotal
import Cirbo.Proofs.Convert
import Cirbo.Proofs.BenchWfs
/-!
# C14 — Conversion to the bench basis preserves the function

-- OBLIGATION: c14_convert_gate
-- OBLIGATION: c14_into_bench
-- OBLIGATION: c14_into_bench_truth_table
-- OBLIGATION: c14_into_bench_keeps_invariant
-- OBLIGATION: c14_convert_gate_keeps_invariant
-- OBLIGATION: c14_into_bench_returns
-- OBLIGATION: c14_into_bench_no_input_error
-- PARTIAL: total correctness is proved (c14_into_bench_returns: every well-formed circuit with an input, accepted arities and no gate named like one of this run's helper gates is converted; bt_intoBench_ok_iff shows these conditions are the weakest), and so is the documented GateDoesntExistError for constants in a circuit without inputs (c14_into_bench_no_input_error). "Helper gates stay inside the blocks of the rewritten gate" is proved in the form needed for the invariant (every block still names existing gates; the helper is appended to exactly the blocks that contain the rewritten gate by `addToBlocks`, which the correspondence compares field by field).
-/
namespace Cirbo
open GateType Circuit

/-- **One rewrite** (`convert_gate`): for a gate of a netlist with distinct labels, existing
operands and accepted arities — including comparison gates with identical operands such as
`GT(x, x)`, L*/R* gates, constants with any operands — if the rewrite returns, the valuation of the
original extends to the result, agreeing on every pre-existing gate; interface unchanged; the
netlist stays closed with distinct labels and accepted arities; what it creates is in the bench
basis. -/
theorem c14_convert_gate {c c1 : Circuit} (hnl : NL c) {g : Gate} (hg : g ∈ c.gates) {k k1 : Nat}
    {b v : Label → Bool} (hv : ValG c.gates b v) (h : c.convertGate g k = .ok (c1, k1)) :
    ∃ v1, ConvRes c c1 g b v v1 := convertGate_sem hnl hg hv h

/-- **`into_bench`** (iteration over a snapshot of the gate map, helper gates appended while
iterating): function of every original gate preserved, same inputs and outputs, only
INPUT/NOT/AND/OR/NAND/NOR/XOR/NXOR/buffer gates remain, netlist part of well-formedness kept. -/
theorem c14_into_bench {c c' : Circuit} {k k' : Nat} (hnl : NL c) {b v : Label → Bool}
    (hv : IsValB c b v) (h : c.intoBench k = .ok (c', k')) :
    ∃ v', IsValB c' b v' ∧ (∀ l ∈ c.labels, v' l = v l) ∧ c'.inputs = c.inputs ∧
      c'.outputs = c.outputs ∧ NL c' ∧ (∀ g ∈ c'.gates, benchTy g.ty = true) :=
  intoBench_sem hnl hv h

/-- consequently the value of every output under every input assignment — the truth table — is
unchanged (the outputs are original gates) -/
theorem c14_into_bench_truth_table {c c' : Circuit} {k k' : Nat} (hnl : NL c)
    (houts : ∀ o ∈ c.outputs, o ∈ c.labels) {b v : Label → Bool}
    (hv : IsValB c b v) (h : c.intoBench k = .ok (c', k')) :
    ∃ v', IsValB c' b v' ∧ c'.outputs.map v' = c.outputs.map v := by
  obtain ⟨v', a1, a2, _, a4, _, _⟩ := intoBench_sem hnl hv h
  refine ⟨v', a1, ?_⟩
  rw [a4]
  exact List.map_congr_left (fun o ho => a2 o (houts o ho))

/-! Non-vacuity: a run on a circuit with `GT(x, x)`, an L-gate and a constant with operands -/
def exCv : Circuit :=
  { gates := [⟨"x", INPUT, []⟩, ⟨"g", GT, ["x", "x"]⟩, ⟨"l", LNOT, ["g", "x"]⟩, ⟨"t", ALWAYS_TRUE, ["l", "g"]⟩],
    inputs := ["x"], outputs := ["t", "l"],
    users := [("x", ["g", "g", "l"]), ("g", ["l", "t"]), ("l", ["t"])], blocks := [] }
example : NL exCv := ⟨by decide, by decide, by decide⟩
example : ((exCv.intoBench 0).toOption.map (fun p => p.1.gates.map (fun g => (g.label, g.ty.name, g.ops)))) =
    some [("x", "INPUT", []), ("g", "AND", ["x", "new_gate_GT_for_g00000000000000000000000000000000"]),
      ("l", "NOT", ["g"]), ("t", "OR", ["x", "new_gate_ALWAYS_TRUE_for_t00000000000000000000000000000001"]),
      ("new_gate_GT_for_g00000000000000000000000000000000", "NOT", ["x"]),
      ("new_gate_ALWAYS_TRUE_for_t00000000000000000000000000000001", "NOT", ["x"])] := by decide

/-- **`into_bench` keeps the circuit well formed**: for every circuit satisfying the C02 invariant with
accepted arities, whenever the conversion returns, the result satisfies the invariant again — operands
and outputs exist, the users index is exactly the inverse operand multiset after the converters' manual
`_remove_user` / `_add_user` edits, the inputs are unchanged, the graph is acyclic (a rank is
constructed for every rewrite) and every block names existing gates. -/
theorem c14_into_bench_keeps_invariant {c c' : Circuit} {k k' : Nat} (hw : WFS c)
    (har : ∀ g ∈ c.gates, g.ty ≠ INPUT → arityOk g.ty g.ops.length = true)
    (h : c.intoBench k = .ok (c', k')) : WFS c' :=
  intoBench_wfs hw har h

/-- the same for a single `convert_gate` call, and the other gates are left alone -/
theorem c14_convert_gate_keeps_invariant {c c1 : Circuit} {g : Gate} {k k1 : Nat} (hw : WFS c) (hg : g ∈ c.gates)
    (har : g.ty ≠ INPUT → arityOk g.ty g.ops.length = true) (h : c.convertGate g k = .ok (c1, k1)) :
    WFS c1 ∧ ∀ g2 ∈ c.gates, g2.label ≠ g.label → g2 ∈ c1.gates :=
  ⟨convertGate_wfs hw hg har h, convertGate_stay h⟩

#print axioms c14_convert_gate
#print axioms c14_into_bench
#print axioms c14_into_bench_truth_table
#print axioms c14_into_bench_keeps_invariant
#print axioms c14_convert_gate_keeps_invariant

/-- **`into_bench` converts every circuit with at least one input** (total correctness): for a well-formed circuit
with an input, accepted arities and no gate named like a helper gate this run draws (`bt_drawn`: the labels
`new_gate_<TYPE>_for_<label><uuid>` of the comparison gates and constants, in storage order), the call returns, the
result is well formed, has the same inputs and outputs, only bench types, and every valuation extends -/
theorem c14_into_bench_returns {c : Circuit} {ctr : Nat} (hw : WFS c) (hin : c.inputs ≠ [])
    (har : ∀ g ∈ c.gates, g.ty ≠ GateType.INPUT → arityOk g.ty g.ops.length = true)
    (hfr : ∀ l ∈ bt_drawn c.gates ctr, l ∉ c.labels) :
    ∃ c' ctr', c.intoBench ctr = .ok (c', ctr') ∧ WFS c' ∧
      ∀ b v, IsValB c b v → ∃ v', IsValB c' b v' ∧ (∀ l ∈ c.labels, v' l = v l) ∧ c'.inputs = c.inputs ∧
        c'.outputs = c.outputs ∧ NL c' ∧ (∀ g ∈ c'.gates, benchTy g.ty = true) :=
  bt_intoBench_total_correct hw hin har hfr

/-- the documented refusal: no input and a constant gate -/
theorem c14_into_bench_no_input_error {c : Circuit} {ctr : Nat} (hw : WFS c) (hin : c.inputs = [])
    (hconst : ∃ g ∈ c.gates, g.ty = GateType.ALWAYS_TRUE ∨ g.ty = GateType.ALWAYS_FALSE)
    (har : ∀ g ∈ c.gates, bt_isBin g.ty = true → 2 ≤ g.ops.length)
    (hfr : ∀ l ∈ bt_drawn c.gates ctr, l ∉ c.labels) :
    c.intoBench ctr = .error "GateDoesntExistError" := bt_intoBench_noInput_error hw hin hconst har hfr

#print axioms c14_into_bench_returns
#print axioms c14_into_bench_no_input_error

end Cirbo
