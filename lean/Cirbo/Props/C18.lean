import Cirbo.Model.Passes
/-! # C18 (placeholder until the theorems are in)
-- OBLIGATION: c18_placeholder
-/
namespace Cirbo
theorem c18_placeholder : True := trivial
#print axioms c18_placeholder
end Cirbo
