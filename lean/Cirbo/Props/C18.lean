import Cirbo.Proofs.Passes
import Cirbo.Proofs.RrgIdem
import Cirbo.Proofs.MuoPost
import Cirbo.Proofs.MdgPost
import Cirbo.Proofs.MegPost
import Cirbo.Proofs.PassTotal
/-!
# C18 — Simplification passes achieve their stated effect; pipelines equal sequencing

-- OBLIGATION: c18_rrg_exactly_reachable
-- OBLIGATION: c18_rrg_idempotent
-- OBLIGATION: c18_pipeline_is_sequencing
-- OBLIGATION: c18_pipe_operator_is_sequencing
-- OBLIGATION: c18_cleanup_is_sequencing
-- OBLIGATION: c18_mdg_no_two_gates_with_same_signature
-- OBLIGATION: c18_meg_no_two_gates_with_same_truth_table
-- OBLIGATION: c18_muo_no_double_negation
-- OBLIGATION: c18_muo_no_buffer_operand_or_output
-- OBLIGATION: c18_reduction_only_drops_repeated_rrg
-- OBLIGATION: c18_passes_return
-- PARTIAL: every clause is proved for well-formed circuits (the C02 invariant plus accepted arities), which is what every public constructor produces, and the passes are proved to return on them (c18_passes_return); behaviour on malformed circuits is decided by the correspondence only.
-/
namespace Cirbo

/-- `RemoveRedundantGates` returns exactly the gates reachable from the outputs, plus all inputs
unless their removal was requested; every returned gate is a gate of the argument, unchanged. -/
theorem c18_rrg_exactly_reachable {allow : Bool} {c c' : Circuit} (hw : WFS c) (hne : c.gates ≠ [])
    (h : rrg allow c = .ok c') :
    (∀ g ∈ c'.gates, g ∈ c.gates) ∧
    (∀ l, l ∈ c'.labels ↔ Reach c.opsOf c.outputs l ∨ (allow = false ∧ l ∈ c.inputs)) := by
  obtain ⟨_, b, _, _, _, _, _, g⟩ := rrg_spec hw h
  exact ⟨b, g hne⟩

/-- the only difference between what `apply_transformers` runs and the plain linearisation is the
removal of a `RemoveRedundantGates` directly following an equal one -/
theorem c18_reduction_only_drops_repeated_rrg (t p : Tr) (r : List Tr) :
    reduceIdem (some p) (t :: r) =
      if sameIdem t p then reduceIdem (some p) r else t :: reduceIdem (some t) r := by
  simp [reduceIdem]

/-- applying `RemoveRedundantGates` twice equals applying it once: the second application returns
its argument unchanged (same gates in the same order, same inputs, outputs and users index) -/
theorem c18_rrg_idempotent {allow : Bool} {c c1 : Circuit} (hw : WFS c) (h : rrg allow c = .ok c1) :
    rrg allow c1 = .ok c1 :=
  rrg_idem hw h

/-- applying a list of passes (arbitrarily nested compositions, repeated idempotent passes) =
applying the constituent passes one after another, each merging pass followed by its implied
`RemoveRedundantGates()` -/
theorem c18_pipeline_is_sequencing {c : Circuit} (hw : WFS c) (har : ArOK c) (ts : List Tr) :
    applyTransformers c ts = runSeq (.ok c) (linearize.linearizeList ts) :=
  applyTransformers_eq_seq_wf hw har ts

/-- `t1 | t2` runs `t1`, then `t2` -/
theorem c18_pipe_operator_is_sequencing {c : Circuit} (hw : WFS c) (har : ArOK c) (a b : Tr) :
    applyTransformers c [a.or b] = runSeq (runSeq (.ok c) (linearize a)) (linearize b) := by
  rw [applyTransformers_eq_seq_wf hw har]
  simp only [linearize.linearizeList, List.append_nil]
  exact or_eq_seq_wf a b _ (by intro c0 h0; cases h0; exact ⟨hw, har⟩)

/-- `cleanup` = RRG, MUO, RRG, MDG, RRG (then MEG, RRG when heavy) -/
theorem c18_cleanup_is_sequencing {c : Circuit} (hw : WFS c) (har : ArOK c) (heavy : Bool) :
    cleanup c heavy = runSeq (.ok c)
      ([.rrg false, .muo, .rrg false, .mdg, .rrg false] ++ (if heavy then [.meg, .rrg false] else [])) :=
  cleanup_eq_seq_wf hw har heavy

/-- MergeDuplicateGates (the pass with its implied `RemoveRedundantGates()`): no two non-input gates
of the result have the same type and operands — operands compared up to order for symmetric types,
which is what `signature` (the model of `_build_signature`) does. Before the implied removal the same
holds among the gates the outputs depend on (`mdg_no_duplicates`). -/
theorem c18_mdg_no_two_gates_with_same_signature {c c' c'' : Circuit} (hw : WFS c)
    (h : mdg c = .ok c') (h2 : rrg false c' = .ok c'') :
    ∀ g1 ∈ c''.gates, ∀ g2 ∈ c''.gates, g1.ty ≠ GateType.INPUT → g2.ty ≠ GateType.INPUT →
      signature g1.ty g1.ops = signature g2.ty g2.ops → g1 = g2 :=
  mdg_rrg_no_duplicates hw h h2

/-- MergeEquivalentGates (the pass with its implied `RemoveRedundantGates()`): no two different
non-input gates of the result have the same truth table (stated denotationally: agreeing under every
valuation of the result; `get_gates_truth_table` lists exactly these values, C01). -/
theorem c18_meg_no_two_gates_with_same_truth_table {c c' c'' : Circuit} (hw : WFS c) (har : ArOK c)
    (h : meg c = .ok c') (h2 : rrg false c' = .ok c'') :
    ∀ g1 ∈ c''.gates, ∀ g2 ∈ c''.gates, g1.ty ≠ GateType.INPUT → g2.ty ≠ GateType.INPUT →
      (∀ b v, IsValB c'' b v → v g1.label = v g2.label) → g1 = g2 :=
  meg_rrg_no_equivalent hw har h h2

/-- MergeUnaryOperators (the pass with its implied `RemoveRedundantGates()`), on a circuit whose
unary gates are all negations: no negation in the result has a negation as its operand. -/
theorem c18_muo_no_double_negation {c c' c'' : Circuit} (hw : WFS c)
    (hneg : ∀ g ∈ c.gates, isIffLike g.ty = false)
    (h : muo c = .ok c') (h2 : rrg false c' = .ok c'') :
    ∀ g ∈ c''.gates, isNotLike g.ty = true → ∀ o, unaryOperand g = some o → isNotAt c'' o = false :=
  muo_rrg_no_double_neg hw hneg h h2

/-- MergeUnaryOperators on a circuit whose unary gates are all buffers: no operand of any gate and no
output of the result is a buffer — already before, and still after, the implied removal. -/
theorem c18_muo_no_buffer_operand_or_output {c c' c'' : Circuit} (hw : WFS c)
    (hbuf : ∀ g ∈ c.gates, isNotLike g.ty = false)
    (h : muo c = .ok c') (h2 : rrg false c' = .ok c'') :
    ((∀ g ∈ c'.gates, ∀ o ∈ g.ops, isIffAt c' o = false) ∧ (∀ o ∈ c'.outputs, isIffAt c' o = false)) ∧
    ((∀ g ∈ c''.gates, ∀ o ∈ g.ops, isIffAt c'' o = false) ∧ (∀ o ∈ c''.outputs, isIffAt c'' o = false)) :=
  ⟨muo_no_buffer hw hbuf h, muo_rrg_no_buffer hw hbuf h h2⟩

/-- the passes, the pipelines and cleanup return on every well-formed circuit, so the postconditions
above are statements about every call -/
theorem c18_passes_return {c : Circuit} (hw : WFS c) (har : ArOK c) :
    (∀ a, ∃ c', rrg a c = .ok c') ∧ (∃ c', muo c = .ok c') ∧ (∃ c', mdg c = .ok c') ∧ (∃ c', meg c = .ok c') ∧
    (∀ ts, ∃ c', applyTransformers c ts = .ok c') ∧ (∀ heavy, ∃ c', cleanup c heavy = .ok c') :=
  ⟨fun _ => rrg_total hw, muo_total hw har, mdg_total hw, meg_total hw har,
   fun ts => pipeline_total ts hw har, fun heavy => cleanup_total heavy hw har⟩

/-! Non-vacuity -/
open GateType in
def c18Example : R Circuit := runOps Circuit.empty
    [.addInputs ["a", "b", "u"], .addGate ⟨"x", AND, ["a", "b"]⟩, .addGate ⟨"d", OR, ["a", "u"]⟩,
     .setOutputs ["x"]]
example : ((c18Example >>= rrg false).toOption.map fun c => c.labels) = some ["b", "a", "x", "u"] := by decide
example : ((c18Example >>= rrg false >>= rrg false).toOption.map fun c => c.labels) = some ["b", "a", "x", "u"] := by decide

#print axioms c18_rrg_exactly_reachable
#print axioms c18_rrg_idempotent
#print axioms c18_pipeline_is_sequencing
#print axioms c18_pipe_operator_is_sequencing
#print axioms c18_cleanup_is_sequencing
#print axioms c18_mdg_no_two_gates_with_same_signature
#print axioms c18_meg_no_two_gates_with_same_truth_table
#print axioms c18_muo_no_double_negation
#print axioms c18_muo_no_buffer_operand_or_output
#print axioms c18_reduction_only_drops_repeated_rrg
#print axioms c18_passes_return

end Cirbo
