import Cirbo.Proofs.EvalCor
import Cirbo.Proofs.LazyTerm
import Cirbo.Model.Checkers
import Cirbo.Proofs.LazyShape
/-!
# C15 — Evaluation under partial assignments is sound and monotone

Property theorems only (helper lemmas live in `Cirbo/Proofs`).  Model objects:
`evalFull` = `Circuit.evaluate_full_circuit`, `evalLazy` = `Circuit.evaluate_circuit`
(`evaluate_circuit_outputs` is its projection on the outputs), over the operator tables
regenerated from `operators.py` (`Cirbo.Gen.op*`).

-- OBLIGATION: c15_op_mono
-- OBLIGATION: c15_op_sound
-- OBLIGATION: c15_sound_full
-- OBLIGATION: c15_mono_full
-- OBLIGATION: c15_total_full
-- OBLIGATION: c15_sound_lazy
-- OBLIGATION: c15_mono_lazy_outputs
-- OBLIGATION: c15_total_lazy_outputs
-- OBLIGATION: c15_lazy_returns
-- OBLIGATION: c15_lazy_terminates
-- OBLIGATION: c15_mono_lazy_every_gate
-- OBLIGATION: c15_total_lazy_evaluated_gates
-- PARTIAL: every clause is proved on the model for both evaluators, for every gate (the demand-driven evaluator visits the same gates under both assignments: its stack only looks at which labels are defined, c15_mono_lazy_every_gate). What remains by correspondence only: the tie between the model's evaluators and the Python methods (compared on every run, incl. assignments with non-input keys, which the theorems exclude by hypothesis).
-/
namespace Cirbo
open GateType V3

/-- pointwise refinement of assignment dictionaries (missing = Undefined) -/
def AsgLe (a a' : Asg) : Prop := ∀ l, asgFun a l ≤ asgFun a' l

/-- Operator level, every gate type and every arity: refining the arguments refines the result. -/
theorem c15_op_mono (ty : GateType) (xs xs' : List V3) (h : All2 (· ≤ ·) xs xs') :
    OLe (applyOp ty xs) (applyOp ty xs') := applyOp_mono ty xs xs' h

/-- Operator level: a defined result is the Boolean function's value on every completion. -/
theorem c15_op_sound (ty : GateType) (xs : List V3) (bs : List Bool)
    (h : All2 (· ≤ ·) xs (bs.map ofBool)) : OLe (applyOp ty xs) ((bfun ty bs).map ofBool) :=
  applyOp_sound ty xs bs h

/-- **Soundness, whole-circuit evaluation**: any value reported for any gate under a partial
assignment `asg` is below (i.e. Undefined or equal to) the gate's Boolean value under every
completion `b` of `asg`. -/
theorem c15_sound_full {c : Circuit} (h : WFU c) (asg : Asg) (b vB : Label → Bool)
    (hab : ∀ l, asgFun asg l ≤ ofBool (b l)) (hB : IsValB c b vB)
    {d : Asg} (hd : evalFull c asg = .ok d) :
    ∀ g ∈ c.gates, ∀ x, d.get? g.label = some x → x ≤ ofBool (vB g.label) := by
  obtain ⟨d', hd', hv, _⟩ := evalFull_spec h asg
  rw [hd] at hd'; cases hd'
  intro g hg x hx
  have := val3_sound h.toWF hab hv hB g hg
  simpa [valOf, hx] using this

/-- **Monotonicity, whole-circuit evaluation**: defining more inputs never changes an already
defined result (and never raises). -/
theorem c15_mono_full {c : Circuit} (h : WFU c) (asg asg' : Asg) (hle : AsgLe asg asg')
    {d d' : Asg} (hd : evalFull c asg = .ok d) (hd' : evalFull c asg' = .ok d') :
    ∀ g ∈ c.gates, valOf d g.label ≤ valOf d' g.label := by
  obtain ⟨e, he, hv, _⟩ := evalFull_spec h asg
  obtain ⟨e', he', hv', _⟩ := evalFull_spec h asg'
  rw [hd] at he; cases he
  rw [hd'] at he'; cases he'
  exact val3_mono h.toWF hle hv hv'

/-- **Totality, whole-circuit evaluation**: the call never raises on a well-formed circuit, and
under a total assignment no gate is Undefined. -/
theorem c15_total_full {c : Circuit} (h : WFU c) (b : Label → Bool) :
    ∃ d, evalFull c (asgOfBools c b) = .ok d ∧
      ∀ g ∈ c.gates, ∃ x, d.get? g.label = some x ∧ x ≠ U := by
  obtain ⟨d, hd, hv, hall⟩ := evalFull_spec h (asgOfBools c b)
  refine ⟨d, hd, ?_⟩
  have hv' : IsVal3 c (fun l => ofBool (b l)) (valOf d) := by
    apply isVal3_congr _ hv
    intro g hg hty
    rw [asgFun_asgOfBools]
    have : g.label ∈ c.inputs := (h.inputsOK g.label).mpr ⟨g, hg, rfl, hty⟩
    simp [this]
  intro g hg
  obtain ⟨x, hx⟩ := Option.isSome_iff_exists.mp (hall g hg)
  refine ⟨x, hx, ?_⟩
  have := val3_total_defined h.toWF hv' g hg
  simpa [valOf, hx] using this

/-- **Soundness, demand-driven evaluation** (`evaluate_circuit`, hence
`evaluate_circuit_outputs`): every reported value of every gate is below the Boolean value
under every completion. -/
theorem c15_sound_lazy {c : Circuit} (h : WFU c) (asg : Asg) (outs : Option (List Label))
    (hasg : ∀ g ∈ c.gates, g.ty ≠ INPUT → asg.get? g.label = none)
    (houts : ∀ o ∈ outs.getD c.outputs, o ∈ c.labels)
    (b vB : Label → Bool) (hab : ∀ l, asgFun asg l ≤ ofBool (b l)) (hB : IsValB c b vB)
    {d : Asg} (hd : evalLazy c asg outs = .ok d) :
    ∀ g ∈ c.gates, ∀ x, d.get? g.label = some x → x ≤ ofBool (vB g.label) := by
  obtain ⟨e, _, hv, _⟩ := evalFull_spec h asg
  obtain ⟨h1, _⟩ := evalLazy_sound h.toWF asg outs hasg houts hv hd
  intro g hg x hx
  rcases h1 g hg with h' | h'
  · rw [hx] at h'; cases h'
    exact val3_sound h.toWF hab hv hB g hg
  · rw [hx] at h'; cases h'; exact Or.inl rfl

/-- **Monotonicity, demand-driven evaluation, at the requested outputs.** -/
theorem c15_mono_lazy_outputs {c : Circuit} (h : WFU c) (asg asg' : Asg) (outs : Option (List Label))
    (hasg : ∀ g ∈ c.gates, g.ty ≠ INPUT → asg.get? g.label = none)
    (hasg' : ∀ g ∈ c.gates, g.ty ≠ INPUT → asg'.get? g.label = none)
    (houts : ∀ o ∈ outs.getD c.outputs, o ∈ c.labels) (hle : AsgLe asg asg')
    {d d' : Asg} (hd : evalLazy c asg outs = .ok d) (hd' : evalLazy c asg' outs = .ok d') :
    ∀ o ∈ outs.getD c.outputs, valOf d o ≤ valOf d' o := by
  obtain ⟨e, _, hv, _⟩ := evalFull_spec h asg
  obtain ⟨e', _, hv', _⟩ := evalFull_spec h asg'
  obtain ⟨_, h2⟩ := evalLazy_sound h.toWF asg outs hasg houts hv hd
  obtain ⟨_, h2'⟩ := evalLazy_sound h.toWF asg' outs hasg' houts hv' hd'
  intro o ho
  obtain ⟨g, hg, hgl⟩ := gate_of_label (houts o ho)
  have := val3_mono h.toWF hle hv hv' g hg
  rw [hgl] at this
  simpa [valOf, h2 o ho, h2' o ho] using this

/-- **Totality, demand-driven evaluation, at the requested outputs**: under a total assignment
no requested output is Undefined. -/
theorem c15_total_lazy_outputs {c : Circuit} (h : WFU c) (b : Label → Bool)
    (outs : Option (List Label)) (houts : ∀ o ∈ outs.getD c.outputs, o ∈ c.labels)
    {d : Asg} (hd : evalLazy c (asgOfBools c b) outs = .ok d) :
    ∀ o ∈ outs.getD c.outputs, ∃ x, d.get? o = some x ∧ x ≠ U := by
  obtain ⟨e, _, hv, _⟩ := evalFull_spec h (asgOfBools c b)
  have hasg : ∀ g ∈ c.gates, g.ty ≠ INPUT → (asgOfBools c b).get? g.label = none := by
    intro g hg hty
    unfold asgOfBools; rw [get?_map_pair]
    have : g.label ∉ c.inputs := by
      intro hin
      obtain ⟨g', hg', hgl', hty'⟩ := (h.inputsOK g.label).mp hin
      have : g' = g := gate_unique h.nodup hg' hg hgl'
      subst this; exact hty hty'
    simp [this]
  obtain ⟨_, h2⟩ := evalLazy_sound h.toWF _ outs hasg houts hv hd
  have hv' : IsVal3 c (fun l => ofBool (b l)) (valOf e) := by
    apply isVal3_congr _ hv
    intro g hg hty
    rw [asgFun_asgOfBools]
    have : g.label ∈ c.inputs := (h.inputsOK g.label).mpr ⟨g, hg, rfl, hty⟩
    simp [this]
  intro o ho
  obtain ⟨g, hg, hgl⟩ := gate_of_label (houts o ho)
  refine ⟨_, h2 o ho, ?_⟩
  have := val3_total_defined h.toWF hv' g hg
  rwa [hgl] at this

/-- **The demand-driven evaluator returns**: on a well-formed circuit, for every partial assignment to
inputs (Undefined inputs included) and every list of existing requested outputs, the explicit-stack loop
terminates within its step budget and raises nothing. -/
theorem c15_lazy_returns {c : Circuit} (h : WFU c) (asg : Asg) (outs : Option (List Label))
    (hasg : ∀ g ∈ c.gates, g.ty ≠ INPUT → asg.get? g.label = none)
    (houts : ∀ o ∈ outs.getD c.outputs, o ∈ c.labels) : ∃ d, evalLazy c asg outs = .ok d := by
  obtain ⟨e, _, hv, _⟩ := evalFull_spec h asg
  exact evalLazy_ok h.toWF asg outs hasg houts hv

/-- and the step budget is never the reason for an error, whatever the assignment and the request,
on any acyclic circuit with distinct labels -/
theorem c15_lazy_terminates {c : Circuit} (hnd : c.labels.Nodup)
    (hrank : ∃ r : Label → Nat, ∀ g ∈ c.gates, ∀ o ∈ g.ops, r o < r g.label)
    (asg : Asg) (outs : Option (List Label)) : evalLazy c asg outs ≠ .error "fuel" :=
  evalLazy_terminates hnd hrank asg outs

/-- **Monotonicity, demand-driven evaluation, at every gate**: the evaluator visits the same gates
under `asg` and under a more defined `asg'` (which gates are visited depends only on which labels
are defined, never on the values), so the value reported for *any* gate under `asg` is below the one
reported under `asg'` — an already defined result never changes. -/
theorem c15_mono_lazy_every_gate {c : Circuit} (h : WFU c) (asg asg' : Asg) (outs : Option (List Label))
    (hasg : ∀ g ∈ c.gates, g.ty ≠ INPUT → asg.get? g.label = none)
    (hasg' : ∀ g ∈ c.gates, g.ty ≠ INPUT → asg'.get? g.label = none)
    (houts : ∀ o ∈ outs.getD c.outputs, o ∈ c.labels) (hle : AsgLe asg asg')
    {d d' : Asg} (hd : evalLazy c asg outs = .ok d) (hd' : evalLazy c asg' outs = .ok d') :
    ∀ g ∈ c.gates, valOf d g.label ≤ valOf d' g.label := by
  obtain ⟨e, _, hv, _⟩ := evalFull_spec h asg
  obtain ⟨e', _, hv', _⟩ := evalFull_spec h asg'
  exact (evalLazy_mono_all h.toWF asg asg' outs hasg hasg' houts hv hv' hle hd hd').1

/-- **Totality, demand-driven evaluation, at every evaluated gate**: the returned dictionary is the
dictionary `d1` of the gates the evaluator visited, completed with `Undefined` for the others; under
a total assignment no visited gate is Undefined. -/
theorem c15_total_lazy_evaluated_gates {c : Circuit} (h : WFU c) (b : Label → Bool)
    (outs : Option (List Label)) (houts : ∀ o ∈ outs.getD c.outputs, o ∈ c.labels)
    {d : Asg} (hd : evalLazy c (asgOfBools c b) outs = .ok d) :
    ∃ d1 : Asg, (∀ l, d.get? l = if l ∈ c.labels then some ((d1.get? l).getD V3.U) else d1.get? l) ∧
      ∀ g ∈ c.gates, ∀ x, d1.get? g.label = some x → x ≠ U := by
  obtain ⟨e, _, hv, _⟩ := evalFull_spec h (asgOfBools c b)
  have hasg : ∀ g ∈ c.gates, g.ty ≠ INPUT → (asgOfBools c b).get? g.label = none := by
    intro g hg hty
    unfold asgOfBools; rw [get?_map_pair]
    have : g.label ∉ c.inputs := by
      intro hin
      obtain ⟨g', hg', hgl', hty'⟩ := (h.inputsOK g.label).mp hin
      have : g' = g := gate_unique h.nodup hg' hg hgl'
      subst this; exact hty hty'
    simp [this]
  obtain ⟨d1, _, hget, hev⟩ := evalLazy_raw h.toWF _ outs hasg houts hv hd
  have hv' : IsVal3 c (fun l => ofBool (b l)) (valOf e) := by
    apply isVal3_congr _ hv
    intro g hg hty
    rw [asgFun_asgOfBools]
    have : g.label ∈ c.inputs := (h.inputsOK g.label).mpr ⟨g, hg, rfl, hty⟩
    simp [this]
  refine ⟨d1, hget, ?_⟩
  intro g hg x hx
  rw [hev g hg x hx]
  exact val3_total_defined h.toWF hv' g hg

/-! Non-vacuity: the hypotheses are satisfiable (a concrete `WFU` circuit), and the evaluators
return on a circuit with sharing, a repeated operand and a 3-ary gate. -/
def exTiny : Circuit :=
  { gates := [⟨"a", INPUT, []⟩, ⟨"n", NOT, ["a"]⟩], inputs := ["a"], outputs := ["n"],
    users := [("a", ["n"])], blocks := [] }

theorem exTiny_wfu : WFU exTiny := by
  have hu : ∀ l, exTiny.usersOf l = if l = "a" then ["n"] else [] := by
    intro l
    by_cases h : l = "a"
    · subst h; rfl
    · have : (l == "a") = false := by simp [h]
      simp [Circuit.usersOf, exTiny, List.lookup, this, h]
  refine ⟨⟨by decide, by decide, ⟨fun l => if l = "n" then 1 else 0, by decide⟩, by decide,
    by decide, ?_, by decide⟩, ?_, ?_⟩
  · intro l; simp [exTiny]; exact eq_comm
  · intro l s hs
    rw [hu] at hs
    by_cases h : l = "a"
    · simp [h] at hs; subst hs; decide
    · simp [h] at hs
  · intro l g hg
    rw [hu]
    by_cases h : l = "a"
    · subst h; revert g; decide
    · simp only [h, if_false, List.count_nil]
      simp [exTiny] at hg
      rcases hg with rfl | rfl <;> simp [List.count_cons, Ne.symm h]

example : ∃ d, evalFull exTiny [("a", T)] = .ok d ∧ valOf d "n" = F := ⟨_, rfl, by decide⟩

def exC : Circuit :=
  { gates := [⟨"a", INPUT, []⟩, ⟨"b", INPUT, []⟩, ⟨"x", XOR, ["a", "b", "a"]⟩, ⟨"y", GT, ["x", "x"]⟩,
              ⟨"z", NOR, ["y", "b"]⟩],
    inputs := ["a", "b"], outputs := ["z", "a"],
    users := [("a", ["x", "x"]), ("b", ["x", "z"]), ("x", ["y", "y"]), ("y", ["z"])], blocks := [] }

example : checkWFU exC = "ok" := by decide
example : (evalFull exC [("a", T)]).toOption = some [("a", T), ("b", U), ("x", U), ("y", U), ("z", U)] := by decide
example : (evalFull exC [("b", T)]).toOption = some [("b", T), ("a", U), ("x", U), ("y", U), ("z", F)] := by decide
example : (evalLazy exC [("b", T)] none).toOption = some [("b", T), ("a", U), ("x", U), ("y", U), ("z", F)] := by decide

#print axioms c15_op_mono
#print axioms c15_op_sound
#print axioms c15_sound_full
#print axioms c15_mono_full
#print axioms c15_total_full
#print axioms c15_sound_lazy
#print axioms c15_mono_lazy_outputs
#print axioms c15_total_lazy_outputs
#print axioms c15_lazy_returns
#print axioms c15_lazy_terminates

#print axioms c15_mono_lazy_every_gate
#print axioms c15_total_lazy_evaluated_gates

end Cirbo
