import Cirbo.Proofs.Tseytin
import Cirbo.Proofs.EvalCor
import Cirbo.Proofs.TseytinTotal
/-!
# C05 — The circuit-to-CNF reduction is exact

-- OBLIGATION: c05_generated_templates_are_the_model
-- OBLIGATION: c05_template_exact
-- OBLIGATION: c05_tseytin_exact
-- OBLIGATION: c05_sat_query
-- OBLIGATION: c05_tseytin_returns
-- PARTIAL: every clause is proved on the model, incl. that the transformation returns on well-formed circuits (the recursion depth never exceeds the number of gates: c05_tseytin_returns; CPython's own recursion limit of 1000 frames is not modelled). The SAT solver is a parameter assumed sound and complete.
-/
namespace Cirbo
open GateType

/-- what the translator obtained by running `tseytin_transformation` on one-gate circuits (every
gate type, 0..4 operands) is the model's template -/
theorem c05_generated_templates_are_the_model (ty : GateType) (k : Nat) (hk : k ≤ 4) (hty : ty ≠ INPUT) :
    Gen.tsTemplate ty k
      = tsTemplate ty (Int.ofNat (k + 1)) ((List.range k).map (fun i => Int.ofNat (i + 1))) :=
  gen_templates_eq_model ty k hk hty

/-- every clause template, at **every** accepted arity, says exactly "the gate literal carries
`bfun` of the operand literals" (this is also C01's clause for the CNF templates) -/
theorem c05_template_exact (ty : GateType) (top : Int) (lits : List Int) (ht : top ≠ 0)
    (h : ∀ l ∈ lits, l ≠ 0) (hty : ty ≠ INPUT) (har : arityOk ty lits.length = true) :
    ∃ cls, tsTemplate ty top lits = some cls ∧
      ∀ σ, cnfSat σ cls = true ↔ bfun ty (lits.map (litVal σ)) = some (litVal σ top) :=
  tsTemplate_exact ty top lits ht h hty har

/-- **The reduction is exact** for every well-formed circuit, every selection of output indices
and every total input assignment `b` (with denotation `vB`): (1) input i is variable i+1;
(2) an assignment that gives the input variables the values `b` satisfies the CNF iff it gives
every encoded gate its evaluated value and all selected outputs evaluate to True;
(3) CNF ∧ input assignment is satisfiable iff all selected outputs evaluate to True. -/
theorem c05_tseytin_exact {c : Circuit} (h : WF c) (outs : Option (List Nat)) {cnf : Cnf}
    {lits : Dict Nat} (ht : tseytin c outs = .ok (cnf, lits)) (b vB : Label → Bool)
    (hB : IsValB c b vB) :
    (∀ j (hj : j < c.inputs.length), lits.get? c.inputs[j] = some (j + 1)) ∧
    (∀ σ, (∀ i ∈ c.inputs, σ (litD lits i) = b i) →
      (cnfSat σ cnf = true ↔
        (∀ g ∈ c.gates, (lits.get? g.label).isSome = true → σ (litD lits g.label) = vB g.label) ∧
        (∀ i ∈ outs.getD (List.range c.outputs.length), ∀ o, c.outputs[i]? = some o → vB o = true))) ∧
    ((∃ σ, (∀ i ∈ c.inputs, σ (litD lits i) = b i) ∧ cnfSat σ cnf = true) ↔
      (∀ i ∈ outs.getD (List.range c.outputs.length), ∀ o, c.outputs[i]? = some o → vB o = true)) :=
  tseytin_exact h outs ht b vB hB

/-- **Circuit satisfiability query** with any sound and complete solver: the CNF of all outputs is
satisfiable iff some input assignment makes all outputs True, and every model of the CNF projects
(variables 1..n ↦ inputs) onto such an assignment. -/
theorem c05_sat_query {c : Circuit} (h : WFU c) {cnf : Cnf} {lits : Dict Nat}
    (ht : tseytin c none = .ok (cnf, lits)) :
    ((∃ σ, cnfSat σ cnf = true) ↔
      ∃ b vB, IsValB c b vB ∧ ∀ o ∈ c.outputs, vB o = true) ∧
    (∀ σ, cnfSat σ cnf = true → ∀ vB, IsValB c (fun i => σ (litD lits i)) vB →
      ∀ o ∈ c.outputs, vB o = true) := by
  have hall : ∀ (vB : Label → Bool),
      (∀ i ∈ (none : Option (List Nat)).getD (List.range c.outputs.length), ∀ o, c.outputs[i]? = some o → vB o = true)
        ↔ ∀ o ∈ c.outputs, vB o = true := by
    intro vB
    simp only [Option.getD_none, List.mem_range]
    constructor
    · intro hh o ho
      obtain ⟨i, hi, e⟩ := List.mem_iff_getElem.mp ho
      exact hh i hi o (by simp [hi, e])
    · intro hh i hi o ho
      have : c.outputs[i] = o := by simpa [hi] using ho
      exact hh o (this ▸ List.getElem_mem hi)
  have hproj : ∀ σ, cnfSat σ cnf = true → ∀ vB, IsValB c (fun i => σ (litD lits i)) vB →
      ∀ o ∈ c.outputs, vB o = true := by
    intro σ hs vB hB
    obtain ⟨_, h2, _⟩ := tseytin_exact h.toWF none ht (fun i => σ (litD lits i)) vB hB
    exact (hall vB).mp ((h2 σ (fun i _ => rfl)).mp hs).2
  refine ⟨⟨?_, ?_⟩, hproj⟩
  · rintro ⟨σ, hs⟩
    obtain ⟨vB, hB⟩ := valB_exists h (fun i => σ (litD lits i))
    exact ⟨_, vB, hB, hproj σ hs vB hB⟩
  · rintro ⟨b, vB, hB, ho⟩
    obtain ⟨_, _, h3⟩ := tseytin_exact h.toWF none ht b vB hB
    obtain ⟨σ, _, hs⟩ := h3.mpr ((hall vB).mpr ho)
    exact ⟨σ, hs⟩

/-! Non-vacuity: a run of the model on a circuit with a 3-ary XOR and a repeated operand. -/
def exTs : Circuit :=
  { gates := [⟨"a", INPUT, []⟩, ⟨"b", INPUT, []⟩, ⟨"x", XOR, ["a", "b", "a"]⟩, ⟨"y", NOR, ["x", "b"]⟩],
    inputs := ["a", "b"], outputs := ["y"], users := [("a", ["x", "x"]), ("b", ["x", "y"]), ("x", ["y"])],
    blocks := [] }
example : (tseytin exTs none).toOption.map (·.2) = some [("a", 1), ("b", 2), ("x", 3), ("y", 4)] := by decide
example : (tseytin exTs none).toOption.map (·.1.length) = some 12 := by decide

/-- **the transformation returns** on every well-formed circuit and every selection of existing
output indices: no `GateDoesntExistError`, no `IndexError` from a template, and the recursion never
goes deeper than the number of gates -/
theorem c05_tseytin_returns {c : Circuit} (h : WF c) (outs : Option (List Nat))
    (hidx : ∀ l, outs = some l → ∀ i ∈ l, i < c.outputs.length) :
    ∃ cnf lits, tseytin c outs = .ok (cnf, lits) := tseytin_total h outs hidx

#print axioms c05_generated_templates_are_the_model
#print axioms c05_template_exact
#print axioms c05_tseytin_exact
#print axioms c05_sat_query

#print axioms c05_tseytin_returns

end Cirbo
