import Cirbo.Proofs.EvalCor
import Cirbo.Model.Checkers
import Cirbo.Proofs.EvalProj
import Cirbo.Proofs.LazyTerm
import Cirbo.Proofs.GatesTT
import Cirbo.Proofs.TseytinTemplates
import Cirbo.Proofs.Convert
import Cirbo.Proofs.GenSum
import Cirbo.Proofs.Pattern
import Cirbo.Generated.SynthTables
/-!
# C01 — Evaluation equals the denotational semantics of the gate network

-- OBLIGATION: c01_ops_every_arity
-- OBLIGATION: c01_generated_rows_are_the_model
-- OBLIGATION: c01_den_exists
-- OBLIGATION: c01_den_unique
-- OBLIGATION: c01_den_storage_order
-- OBLIGATION: c01_evaluate_full_circuit
-- OBLIGATION: c01_evaluate_circuit
-- OBLIGATION: c01_evaluate_circuit_returns
-- OBLIGATION: c01_evaluate
-- OBLIGATION: c01_evaluate_at
-- OBLIGATION: c01_truth_table
-- OBLIGATION: c01_gates_truth_table
-- OBLIGATION: c01_cnf_templates_denote_bfun
-- OBLIGATION: c01_arithmetic_gate_codes_denote_bfun
-- OBLIGATION: c01_synthesis_codes_denote_bfun
-- OBLIGATION: c01_pattern_simulation_denotes_bfun
-- OBLIGATION: c01_bench_conversion_denotes_bfun
-- PARTIAL: evaluate, evaluate_at, get_truth_table and get_gates_truth_table are proved to be the stated projections of the denotation (whenever they return). evaluate_circuit terminates and returns on every well-formed circuit (c01_evaluate_circuit_returns); the wrappers built on it are stated as whenever-they-return. The other gate-interpreting modules are tied to the same bfun by the five theorems below (CNF templates at every arity, the two regenerated truth-table code tables, pattern simulation bit by bit, every bench conversion step).
-/
namespace Cirbo
open GateType V3

/-- **One fixed Boolean function per gate type, at every arity**: the code's operator
(reduce-shaped model over the regenerated tables) on defined arguments is `bfun`, and it raises
exactly where `bfun` rejects the arity. -/
theorem c01_ops_every_arity (ty : GateType) (bs : List Bool) :
    applyOp ty (bs.map ofBool) = (bfun ty bs).map ofBool := applyOp_ofBool ty bs

/-- every row the translator obtained by *calling* `GateType.operator` (arity 0..3, all 3-valued
argument tuples) is what the reduce-shaped model computes — so the model's shape is the code's
shape wherever it was probed, in particular n-ary gates are left folds and NAND/NOR/NXOR negate
the fold. -/
theorem c01_generated_rows_are_the_model (ty : GateType) (args : List V3) (h : args.length ≤ 3) :
    genRow ty args = applyOp ty args := by
  rcases args with _ | ⟨a, _ | ⟨b, _ | ⟨c, _ | ⟨d, r⟩⟩⟩⟩
  · cases ty <;> decide
  · cases ty <;> cases a <;> decide
  · cases ty <;> cases a <;> cases b <;> decide
  · cases ty <;> cases a <;> cases b <;> cases c <;> decide
  · simp at h

/-- the denotational semantics exists … -/
theorem c01_den_exists {c : Circuit} (h : WFU c) (b : Label → Bool) : ∃ vB, IsValB c b vB :=
  valB_exists h b

/-- … and is unique on the gates of the circuit (it is a function of the netlist and the input
assignment only) -/
theorem c01_den_unique {c : Circuit} (h : WF c) {b : Label → Bool} {v v' : Label → Bool}
    (hv : IsValB c b v) (hv' : IsValB c b v') : ∀ g ∈ c.gates, v g.label = v' g.label :=
  valB_unique h hv hv'

/-- independent of gate insertion (storage) order; sharing, duplicated operands and duplicated
outputs need no lemma because `IsValB` quantifies over gates and operand lists directly -/
theorem c01_den_storage_order {c c' : Circuit} (hp : c'.gates.Perm c.gates) {b v : Label → Bool}
    (hv : IsValB c b v) : IsValB c' b v := isValB_perm hp hv

/-- **`evaluate_full_circuit` (hence `get_gates_truth_table`)**: on every well-formed circuit and
total input assignment the call returns, and every gate carries its denotational value. -/
theorem c01_evaluate_full_circuit {c : Circuit} (h : WFU c) (b vB : Label → Bool)
    (hB : IsValB c b vB) :
    ∃ d, evalFull c (asgOfBools c b) = .ok d ∧
      ∀ g ∈ c.gates, d.get? g.label = some (ofBool (vB g.label)) := by
  obtain ⟨d, hd, hv, hall⟩ := evalFull_spec h (asgOfBools c b)
  refine ⟨d, hd, ?_⟩
  have hv' : IsVal3 c (fun l => ofBool (b l)) (valOf d) := by
    apply isVal3_congr _ hv
    intro g hg hty
    rw [asgFun_asgOfBools]
    have : g.label ∈ c.inputs := (h.inputsOK g.label).mpr ⟨g, hg, rfl, hty⟩
    simp [this]
  intro g hg
  obtain ⟨x, hx⟩ := Option.isSome_iff_exists.mp (hall g hg)
  have := val3_total_eq_valB h.toWF hB hv' g hg
  simp only [valOf, hx, Option.getD_some] at this
  rw [hx, this]

/-- **`evaluate_circuit` (hence `evaluate_circuit_outputs`, `evaluate`, `evaluate_at`,
`get_truth_table`)**: whenever the call returns, every requested output carries its
denotational value, and no gate carries a wrong defined value. -/
theorem c01_evaluate_circuit {c : Circuit} (h : WFU c) (b vB : Label → Bool) (hB : IsValB c b vB)
    (outs : Option (List Label)) (houts : ∀ o ∈ outs.getD c.outputs, o ∈ c.labels)
    {d : Asg} (hd : evalLazy c (asgOfBools c b) outs = .ok d) :
    (∀ o ∈ outs.getD c.outputs, d.get? o = some (ofBool (vB o))) ∧
    (∀ g ∈ c.gates, d.get? g.label = some (ofBool (vB g.label)) ∨ d.get? g.label = some U) := by
  obtain ⟨e, _, hv, _⟩ := evalFull_spec h (asgOfBools c b)
  have hasg : ∀ g ∈ c.gates, g.ty ≠ INPUT → (asgOfBools c b).get? g.label = none := by
    intro g hg hty
    unfold asgOfBools; rw [get?_map_pair]
    have : g.label ∉ c.inputs := by
      intro hin
      obtain ⟨g', hg', hgl', hty'⟩ := (h.inputsOK g.label).mp hin
      have : g' = g := gate_unique h.nodup hg' hg hgl'
      subst this; exact hty hty'
    simp [this]
  obtain ⟨h1, h2⟩ := evalLazy_sound h.toWF _ outs hasg houts hv hd
  have hv' : IsVal3 c (fun l => ofBool (b l)) (valOf e) := by
    apply isVal3_congr _ hv
    intro g hg hty
    rw [asgFun_asgOfBools]
    have : g.label ∈ c.inputs := (h.inputsOK g.label).mpr ⟨g, hg, rfl, hty⟩
    simp [this]
  have heq := val3_total_eq_valB h.toWF hB hv'
  constructor
  · intro o ho
    obtain ⟨g, hg, hgl⟩ := gate_of_label (houts o ho)
    rw [h2 o ho, ← hgl, heq g hg]
  · intro g hg
    rcases h1 g hg with h' | h'
    · left; rw [h', heq g hg]
    · right; exact h'

/-- **`evaluate_circuit` returns**: on every well-formed circuit, for every total input assignment and
every list of existing requested outputs, the explicit-stack loop terminates (its step budget is never
exhausted) and no exception is raised; so the previous theorem speaks about every call. -/
theorem c01_evaluate_circuit_returns {c : Circuit} (h : WFU c) (b : Label → Bool)
    (outs : Option (List Label)) (houts : ∀ o ∈ outs.getD c.outputs, o ∈ c.labels) :
    ∃ d, evalLazy c (asgOfBools c b) outs = .ok d := by
  obtain ⟨e, _, hv, _⟩ := evalFull_spec h (asgOfBools c b)
  have hasg : ∀ g ∈ c.gates, g.ty ≠ INPUT → (asgOfBools c b).get? g.label = none := by
    intro g hg hty
    unfold asgOfBools; rw [get?_map_pair]
    have : g.label ∉ c.inputs := by
      intro hin
      obtain ⟨g', hg', hgl', hty'⟩ := (h.inputsOK g.label).mp hin
      have : g' = g := gate_unique h.nodup hg' hg hgl'
      subst this; exact hty hty'
    simp [this]
  exact evalLazy_ok h.toWF _ outs hasg houts hv

/-! Non-vacuity: `WFU` is satisfiable and the theorems speak about real runs. -/
def exTiny01 : Circuit :=
  { gates := [⟨"a", INPUT, []⟩, ⟨"n", NOT, ["a"]⟩], inputs := ["a"], outputs := ["n"],
    users := [("a", ["n"])], blocks := [] }
example : IsValB exTiny01 (fun _ => true) (fun l => l == "a") := by
  intro g hg
  simp [exTiny01] at hg
  rcases hg with rfl | rfl <;> decide
example : (evalFull exTiny01 (asgOfBools exTiny01 (fun _ => true))).toOption
    = some [("a", T), ("n", F)] := by decide

/-- `evaluate(inputs)`: position by position the denotation of the outputs -/
theorem c01_evaluate {c : Circuit} (h : WF c) (vals : List V3) {r : List V3} (he : evaluate c vals = .ok r)
    {a : Asg} (ha : zipInputs c vals = .ok a) {v : Label → V3} (hv : IsVal3 c (asgFun a) v) :
    r = c.outputs.map v := evaluate_spec h vals he ha hv

/-- `evaluate_at(inputs, i)`: the denotation of output `i` -/
theorem c01_evaluate_at {c : Circuit} (h : WF c) (vals : List V3) (idx : Nat) {x : V3}
    (he : evaluateAt c vals idx = .ok x) {a : Asg} (ha : zipInputs c vals = .ok a) {v : Label → V3}
    (hv : IsVal3 c (asgFun a) v) : ∃ o, c.outputs[idx]? = some o ∧ x = v o := evaluateAt_spec h vals idx he ha hv

/-- `get_truth_table()`: row `i` = the denotation of output `i` over all input vectors in counting order -/
theorem c01_truth_table {c : Circuit} (h : WF c) (V : List V3 → Label → V3)
    (hV : ∀ vals a, zipInputs c vals = .ok a → IsVal3 c (asgFun a) (V vals))
    {tt : List (List V3)} (ht : truthTable c = .ok tt) :
    tt = transpose c.outputs.length ((allInputs c.inputs.length).map
      (fun bs => c.outputs.map (V (bs.map V3.ofBool)))) := truthTable_spec h V hV ht

/-- `get_gates_truth_table()`: the row of every gate = its denotation over all input vectors in counting order -/
theorem c01_gates_truth_table {c : Circuit} (h : WFU c) {gtt : Dict (List V3)} (hg : gatesTruthTable c = .ok gtt)
    (B V : List Bool → Label → Bool)
    (hB : ∀ bs ∈ allInputs c.inputs.length, c.inputs.map (B bs) = bs ∧ IsValB c (B bs) (V bs))
    {l : Label} (hl : l ∈ c.labels) :
    (gtt.get? l).getD [] = (allInputs c.inputs.length).map (fun bs => V3.ofBool (V bs l)) :=
  gatesTruthTable_spec h hg B V hB hl

/-! ### every other part of the library that interprets a gate type denotes the same `bfun` -/

/-- CNF templates (Tseytin), every type at every accepted arity -/
theorem c01_cnf_templates_denote_bfun (ty : GateType) (top : Int) (lits : List Int) (ht : top ≠ 0)
    (h : ∀ l ∈ lits, l ≠ 0) (hty : ty ≠ GateType.INPUT) (har : arityOk ty lits.length = true) :
    ∃ cls, tsTemplate ty top lits = some cls ∧
      ∀ σ, cnfSat σ cls = true ↔ bfun ty (lits.map (litVal σ)) = some (litVal σ top) :=
  tsTemplate_exact ty top lits ht h hty har

/-- arithmetic generators' `binary_tt_to_type` (regenerated table) -/
theorem c01_arithmetic_gate_codes_denote_bfun {a b c d : Bool} {ty : GateType} (h : Gen.ttType a b c d = some ty) (x y : Bool) :
    bfun ty [x, y] = some (ttApply (a, b, c, d) x y) := ttType_sem h x y

/-- exact synthesis' `_tt_to_gate_type` (regenerated table) -/
theorem c01_synthesis_codes_denote_bfun {a b c d : Bool} {ty : GateType} (h : Gen.synthTtType a b c d = some ty) (x y : Bool) :
    bfun ty [x, y] = some (ttApply (a, b, c, d) x y) := by
  cases a <;> cases b <;> cases c <;> cases d <;> simp only [Gen.synthTtType, Option.some.injEq] at h <;>
    subst h <;> cases x <;> cases y <;> rfl

/-- subcircuit pattern simulation, bit by bit -/
theorem c01_pattern_simulation_denotes_bfun (k : Nat) (ty : GateType) (ops : List Nat) (p : Nat)
    (h : Pattern.evalPattern k ty ops = .ok p) (hops : ∀ x ∈ ops, x < 2 ^ (2 ^ k)) (har : arityOk ty ops.length = true) :
    p < 2 ^ (2 ^ k) ∧ ∀ i, i < 2 ^ k → bfun ty (Pattern.bitsAt ops i) = some (p.testBit i) :=
  Pattern.evalPattern_sound k ty ops p h hops har

/-- bench conversion: converting any gate (incl. comparison gates reading the same gate twice)
keeps the value of every gate -/
theorem c01_bench_conversion_denotes_bfun {c c1 : Circuit} (hnl : NL c) {g : Gate} (hg : g ∈ c.gates) {k k1 : Nat}
    {b v : Label → Bool} (hv : ValG c.gates b v) (h : c.convertGate g k = .ok (c1, k1)) :
    ∃ v1, ConvRes c c1 g b v v1 := convertGate_sem hnl hg hv h

#print axioms c01_ops_every_arity
#print axioms c01_generated_rows_are_the_model
#print axioms c01_den_exists
#print axioms c01_den_unique
#print axioms c01_den_storage_order
#print axioms c01_evaluate_full_circuit
#print axioms c01_evaluate_circuit
#print axioms c01_evaluate_circuit_returns
#print axioms c01_evaluate
#print axioms c01_evaluate_at
#print axioms c01_truth_table
#print axioms c01_gates_truth_table
#print axioms c01_cnf_templates_denote_bfun
#print axioms c01_arithmetic_gate_codes_denote_bfun
#print axioms c01_synthesis_codes_denote_bfun
#print axioms c01_pattern_simulation_denotes_bfun
#print axioms c01_bench_conversion_denotes_bfun

end Cirbo
