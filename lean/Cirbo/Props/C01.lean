import Cirbo.Proofs.EvalCor
import Cirbo.Model.Checkers
/-!
# C01 — Evaluation equals the denotational semantics of the gate network

-- OBLIGATION: c01_ops_every_arity
-- OBLIGATION: c01_generated_rows_are_the_model
-- OBLIGATION: c01_den_exists
-- OBLIGATION: c01_den_unique
-- OBLIGATION: c01_den_storage_order
-- OBLIGATION: c01_evaluate_full_circuit
-- OBLIGATION: c01_evaluate_circuit
-- PARTIAL: evaluate/evaluate_at/get_truth_table/get_gates_truth_table are modelled as the stated projections of the two evaluators (Model/Eval.lean) and validated by correspondence; their projection lemmas are not yet proved. evaluate_circuit: partial correctness (termination within fuel by correspondence). The other gate-interpreting modules (CNF templates, synthesis codes, pattern simulation, bench conversion) are tied to bfun in C05/C06/C04/C14's table theorems.
-/
namespace Cirbo
open GateType V3

/-- **One fixed Boolean function per gate type, at every arity**: the code's operator
(reduce-shaped model over the regenerated tables) on defined arguments is `bfun`, and it raises
exactly where `bfun` rejects the arity. -/
theorem c01_ops_every_arity (ty : GateType) (bs : List Bool) :
    applyOp ty (bs.map ofBool) = (bfun ty bs).map ofBool := applyOp_ofBool ty bs

/-- every row the translator obtained by *calling* `GateType.operator` (arity 0..3, all 3-valued
argument tuples) is what the reduce-shaped model computes — so the model's shape is the code's
shape wherever it was probed, in particular n-ary gates are left folds and NAND/NOR/NXOR negate
the fold. -/
theorem c01_generated_rows_are_the_model (ty : GateType) (args : List V3) (h : args.length ≤ 3) :
    genRow ty args = applyOp ty args := by
  rcases args with _ | ⟨a, _ | ⟨b, _ | ⟨c, _ | ⟨d, r⟩⟩⟩⟩
  · cases ty <;> decide
  · cases ty <;> cases a <;> decide
  · cases ty <;> cases a <;> cases b <;> decide
  · cases ty <;> cases a <;> cases b <;> cases c <;> decide
  · simp at h

/-- the denotational semantics exists … -/
theorem c01_den_exists {c : Circuit} (h : WFU c) (b : Label → Bool) : ∃ vB, IsValB c b vB :=
  valB_exists h b

/-- … and is unique on the gates of the circuit (it is a function of the netlist and the input
assignment only) -/
theorem c01_den_unique {c : Circuit} (h : WF c) {b : Label → Bool} {v v' : Label → Bool}
    (hv : IsValB c b v) (hv' : IsValB c b v') : ∀ g ∈ c.gates, v g.label = v' g.label :=
  valB_unique h hv hv'

/-- independent of gate insertion (storage) order; sharing, duplicated operands and duplicated
outputs need no lemma because `IsValB` quantifies over gates and operand lists directly -/
theorem c01_den_storage_order {c c' : Circuit} (hp : c'.gates.Perm c.gates) {b v : Label → Bool}
    (hv : IsValB c b v) : IsValB c' b v := isValB_perm hp hv

/-- **`evaluate_full_circuit` (hence `get_gates_truth_table`)**: on every well-formed circuit and
total input assignment the call returns, and every gate carries its denotational value. -/
theorem c01_evaluate_full_circuit {c : Circuit} (h : WFU c) (b vB : Label → Bool)
    (hB : IsValB c b vB) :
    ∃ d, evalFull c (asgOfBools c b) = .ok d ∧
      ∀ g ∈ c.gates, d.get? g.label = some (ofBool (vB g.label)) := by
  obtain ⟨d, hd, hv, hall⟩ := evalFull_spec h (asgOfBools c b)
  refine ⟨d, hd, ?_⟩
  have hv' : IsVal3 c (fun l => ofBool (b l)) (valOf d) := by
    apply isVal3_congr _ hv
    intro g hg hty
    rw [asgFun_asgOfBools]
    have : g.label ∈ c.inputs := (h.inputsOK g.label).mpr ⟨g, hg, rfl, hty⟩
    simp [this]
  intro g hg
  obtain ⟨x, hx⟩ := Option.isSome_iff_exists.mp (hall g hg)
  have := val3_total_eq_valB h.toWF hB hv' g hg
  simp only [valOf, hx, Option.getD_some] at this
  rw [hx, this]

/-- **`evaluate_circuit` (hence `evaluate_circuit_outputs`, `evaluate`, `evaluate_at`,
`get_truth_table`)**: whenever the call returns, every requested output carries its
denotational value, and no gate carries a wrong defined value. -/
theorem c01_evaluate_circuit {c : Circuit} (h : WFU c) (b vB : Label → Bool) (hB : IsValB c b vB)
    (outs : Option (List Label)) (houts : ∀ o ∈ outs.getD c.outputs, o ∈ c.labels)
    {d : Asg} (hd : evalLazy c (asgOfBools c b) outs = .ok d) :
    (∀ o ∈ outs.getD c.outputs, d.get? o = some (ofBool (vB o))) ∧
    (∀ g ∈ c.gates, d.get? g.label = some (ofBool (vB g.label)) ∨ d.get? g.label = some U) := by
  obtain ⟨e, _, hv, _⟩ := evalFull_spec h (asgOfBools c b)
  have hasg : ∀ g ∈ c.gates, g.ty ≠ INPUT → (asgOfBools c b).get? g.label = none := by
    intro g hg hty
    unfold asgOfBools; rw [get?_map_pair]
    have : g.label ∉ c.inputs := by
      intro hin
      obtain ⟨g', hg', hgl', hty'⟩ := (h.inputsOK g.label).mp hin
      have : g' = g := gate_unique h.nodup hg' hg hgl'
      subst this; exact hty hty'
    simp [this]
  obtain ⟨h1, h2⟩ := evalLazy_sound h.toWF _ outs hasg houts hv hd
  have hv' : IsVal3 c (fun l => ofBool (b l)) (valOf e) := by
    apply isVal3_congr _ hv
    intro g hg hty
    rw [asgFun_asgOfBools]
    have : g.label ∈ c.inputs := (h.inputsOK g.label).mpr ⟨g, hg, rfl, hty⟩
    simp [this]
  have heq := val3_total_eq_valB h.toWF hB hv'
  constructor
  · intro o ho
    obtain ⟨g, hg, hgl⟩ := gate_of_label (houts o ho)
    rw [h2 o ho, ← hgl, heq g hg]
  · intro g hg
    rcases h1 g hg with h' | h'
    · left; rw [h', heq g hg]
    · right; exact h'

/-! Non-vacuity: `WFU` is satisfiable and the theorems speak about real runs. -/
def exTiny01 : Circuit :=
  { gates := [⟨"a", INPUT, []⟩, ⟨"n", NOT, ["a"]⟩], inputs := ["a"], outputs := ["n"],
    users := [("a", ["n"])], blocks := [] }
example : IsValB exTiny01 (fun _ => true) (fun l => l == "a") := by
  intro g hg
  simp [exTiny01] at hg
  rcases hg with rfl | rfl <;> decide
example : (evalFull exTiny01 (asgOfBools exTiny01 (fun _ => true))).toOption
    = some [("a", T), ("n", F)] := by decide

#print axioms c01_ops_every_arity
#print axioms c01_generated_rows_are_the_model
#print axioms c01_den_exists
#print axioms c01_den_unique
#print axioms c01_den_storage_order
#print axioms c01_evaluate_full_circuit
#print axioms c01_evaluate_circuit

end Cirbo
