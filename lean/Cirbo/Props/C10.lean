import Cirbo.Proofs.ExtractTotal
import Cirbo.Proofs.Connect
import Cirbo.Proofs.ConnSem
import Cirbo.Proofs.ConnFull
import Cirbo.Proofs.ConnRight
import Cirbo.Proofs.BlockExtract
import Cirbo.Proofs.ConnTotal
import Cirbo.Model.Wrappers
/-!
# C10 — Circuit composition computes the documented functional composition

-- OBLIGATION: c10_frame_add_gate
-- OBLIGATION: c10_left_connection_keeps_base_function
-- OBLIGATION: c10_left_connection_computes_the_composition
-- OBLIGATION: c10_left_connection_interface_and_block
-- OBLIGATION: c10_wrappers_are_connections
-- OBLIGATION: c10_right_connection_computes_the_composition
-- OBLIGATION: c10_block_extraction_left
-- OBLIGATION: c10_block_extraction_right
-- OBLIGATION: c10_left_connection_returns
-- OBLIGATION: c10_right_connection_returns
-- OBLIGATION: c10_block_extraction_left_returns
-- OBLIGATION: c10_block_extraction_right_returns
-- PARTIAL: proved for every left connection (connect_circuit(right_connect=False), connect_left, extend_circuit, add_circuit): (1) only gates are added and every base gate keeps its value under every assignment; (2) the attached gates compute the attached circuit's function of the values at the connectors (a renaming of the attached circuit's labels — connectors to the base gates they were identified with, other gates to their prefixed copies — turns every valuation of the result into a valuation of the attached circuit). (3) the exact inputs/outputs lists of the result (kept base interface minus connectors, then the attached circuit's unconnected inputs/outputs, renamed, in order), the block recording the attached circuit (its inputs/outputs are the attached circuit's, renamed) and the survival of older blocks (c10_left_connection_interface_and_block). The right direction (connect_circuit(right_connect=True), connect_right, connect_inputs, extend_circuit(right_connect=True)) is proved in the same form (c10_right_connection_computes_the_composition): the fed base inputs become the connector gates (same label, the connector's type and renamed operands), every other base gate is kept, so every valuation of the result satisfies the base circuit's gate equations and — read through the renaming — the attached circuit's; with the exact inputs/outputs lists, the recorded block and the survival of older blocks. Re-extraction (c10_block_extraction_left/right): `get_block(name).into_circuit()` is modelled (Model/Wrappers.lean intoCircuit, compared with the code on every run) and proved to return, whenever it returns, a circuit with the attached circuit's renamed inputs and outputs in which every valuation is, through the renaming, a valuation of the attached circuit (the block lists exactly the images of the attached circuit's non-INPUT gates; for the right direction this needed the fix recorded in known_findings.json). That `into_circuit` does return is proved as well (c10_block_extraction_left_returns / _right_returns). Total correctness of the connections themselves (c10_left_connection_returns / c10_right_connection_returns): on circuits satisfying the invariant, with connectors of the documented kind and fresh copy labels / block names (the only documented reasons for an error), `connect_circuit` returns. All of it is modelled one-to-one (Model/Mutate2.lean connStep/connFinish) and compared with the code field by field (both directions, wrappers, name/prefix options, repeated composition); the implementation's result is checked against the composed evaluation of the two operands on all assignments, against the documented interface, checkWFU and block extraction.
-/
namespace Cirbo
open GateType Circuit

/-- frame lemma: `add_gate`/`emplace_gate` gives the new gate a value and changes no other -/
theorem c10_frame_add_gate {c cur cur' : Circuit} {g : Gate} {b v b' v' : Label → Bool}
    (hext : Extends c cur b v b' v') (hadd : cur.addGate g = .ok cur')
    (har : if g.ty = INPUT then True else arityOk g.ty g.ops.length = true) (bnew : Bool) :
    ∃ b'' v'', Extends c cur' b v b'' v'' ∧ (∀ l ∈ cur.labels, v'' l = v' l) ∧
      (∀ l, l ≠ g.label → b'' l = b' l) ∧ b'' g.label = bnew := addGate_frame hext hadd har bnew

theorem c10_left_connection_keeps_base_function {c other c' : Circuit} {thisC otherC : List Label}
    {name : Label} {addP : Bool} (h : c.connectCircuit other thisC otherC false name addP = .ok c')
    (hcl : ∀ g ∈ c.gates, ∀ o ∈ g.ops, o ∈ c.labels)
    (har : ∀ g ∈ other.gates, if g.ty = INPUT then True else arityOk g.ty g.ops.length = true)
    {b v : Label → Bool} (hv : IsValB c b v) :
    ∃ b' v', IsValB c' b' v' ∧ (∀ l ∈ c.labels, v' l = v l) ∧ (∀ l ∈ c.labels, b' l = b l) ∧
      (∀ l ∈ c.labels, l ∈ c'.labels) := connect_left_frame h hcl har hv

/-- the documented functional composition: reading the result through the renaming, the attached
copy is a valuation of `other` whose inputs take the values of the connectors -/
theorem c10_left_connection_computes_the_composition {c other c' : Circuit} {thisC otherC : List Label}
    {name : Label} {addP : Bool} (hwo : WFG other)
    (h : c.connectCircuit other thisC otherC false name addP = .ok c') :
    ∃ φ : Label → Label,
      (∀ b v, IsValB c' b v → IsValB other (v ∘ φ) (v ∘ φ)) ∧
      (∀ l x, Dict.get? ((otherC.zip thisC).foldl (fun m p => Dict.set m p.1 p.2) ([] : Dict Label)) l = some x → φ l = x) ∧
      (∀ g ∈ other.gates, g.ty ≠ INPUT → φ g.label = (if name != "" && addP then name ++ "@" else "") ++ g.label) :=
  connect_left_semantics hwo h

/-- **left connection, in full**: one renaming `φ` of the attached circuit's labels — connectors to the
base gates they were identified with (`otherC.map φ = thisC`), every other gate to its prefixed copy —
describes the whole result: the attached gates compute the attached circuit's function, the base
gates are kept, the output list is the base outputs minus the connected ones followed by the attached
circuit's unconnected outputs renamed, the input list is the base inputs (those still inputs) followed
by the attached circuit's unconnected inputs renamed, the named block lists the attached circuit's
inputs and outputs renamed, and every older block is still found under its name. -/
theorem c10_left_connection_interface_and_block {c other c' : Circuit} {thisC otherC : List Label} {name : Label}
    {addP : Bool} (hwo : WFG other) (h : c.connectCircuit other thisC otherC false name addP = .ok c') :
    ∃ φ : Label → Label,
      (∀ b v, IsValB c' b v → IsValB other (v ∘ φ) (v ∘ φ)) ∧
      otherC.map φ = thisC ∧
      (∀ g ∈ other.gates, g.label ∉ otherC → φ g.label = connPre name addP ++ g.label) ∧
      (∃ extra, c'.gates = c.gates ++ extra) ∧
      (∀ g ∈ other.gates, g.label ∉ otherC → (⟨φ g.label, g.ty, g.ops.map φ⟩ : Gate) ∈ c'.gates) ∧
      (c.labels.Nodup → c'.labels.Nodup) ∧
      c'.outputs = c.outputs.filter (fun o => !thisC.contains o) ++ (other.outputs.filter (fun o => !otherC.contains o)).map φ ∧
      c'.inputs = c.inputs.filter (fun i => ((c'.find? i).map (·.ty)) == some INPUT) ++
        (other.inputs.filter (fun i => !otherC.contains i)).map φ ∧
      (name ≠ "" → ∃ fb, c'.getBlock name = .ok ⟨name, other.inputs.map φ, fb, other.outputs.map φ⟩) ∧
      (∀ n b, n ≠ name → c.getBlock n = .ok b → c'.getBlock n = .ok b) :=
  connect_left_full hwo h

/-- the five wrappers are `connect_circuit` with the arguments their documentation states; in
particular `connect_left`, `add_circuit` and `extend_circuit(right_connect=False)` are left connections,
so the three theorems above apply to them; an explicit (even empty) connector list given to
`extend_circuit` is used as given, only `None` is replaced by the default -/
theorem c10_wrappers_are_connections (c other : Circuit) (thisC otherC : List Label) (name : Label) (addP right : Bool) :
    c.connectLeft other thisC name addP = c.connectCircuit other thisC other.inputs false name addP ∧
    c.connectRight other otherC name addP = c.connectCircuit other c.inputs otherC true name addP ∧
    c.connectInputs other name addP = c.connectCircuit other c.inputs other.inputs true name addP ∧
    c.addCircuit other name addP = c.connectCircuit other [] [] false name addP ∧
    c.extendCircuit other (some thisC) (some otherC) right name addP = c.connectCircuit other thisC otherC right name addP ∧
    c.extendCircuit other none none false name addP = c.connectCircuit other c.outputs other.inputs false name addP ∧
    c.extendCircuit other none none true name addP = c.connectCircuit other c.inputs other.outputs true name addP :=
  ⟨rfl, rfl, rfl, rfl, rfl, rfl, rfl⟩

/-- **right direction**: chosen base inputs are fed by gates of `other`. There is a renaming `φ` of
`other`'s labels (connector ↦ the base input it feeds, any other gate ↦ its prefixed copy) such that
every valuation `v` of the result is, through `φ`, a valuation of `other`, and satisfies every gate
equation of the base (all base gates except the fed inputs are kept): the result computes the
composition. The outputs are the base's minus `this_connectors` followed by `other`'s unconnected
ones, the inputs are the base inputs that are still inputs followed by `other`'s unconnected ones;
the named block records `other`'s interface; older blocks survive; and every listed pair is identified:
the i-th listed gate of `other` is, read through `φ`, the i-th listed base input (a gate of `other` listed
twice is refused). -/
theorem c10_right_connection_computes_the_composition {c other c' : Circuit} {thisC otherC : List Label}
    {name : Label} {addP : Bool} (hwo : WFG other) (hndc : c.labels.Nodup)
    (h : c.connectCircuit other thisC otherC true name addP = .ok c') :
    ∃ φ : Label → Label,
      (∀ b v, IsValB c' b v → IsValB other (v ∘ φ) (v ∘ φ)) ∧
      (∀ b v, IsValB c' b v → IsValB c v v) ∧
      (∀ l x, Dict.get? (connMapping thisC otherC) l = some x → φ l = x) ∧
      (∀ g ∈ other.gates, Dict.contains (connMapping thisC otherC) g.label = false → φ g.label = connPre name addP ++ g.label) ∧
      (∀ g ∈ c.gates, g.label ∉ thisC → g ∈ c'.gates) ∧
      c'.outputs = c.outputs.filter (fun o => !thisC.contains o) ++ (other.outputs.filter (fun o => !otherC.contains o)).map φ ∧
      c'.inputs = c.inputs.filter (fun i => ((c'.find? i).map (·.ty)) == some INPUT) ++
        (other.inputs.filter (fun i => !otherC.contains i)).map φ ∧
      (name ≠ "" → ∃ fb, c'.getBlock name = .ok ⟨name, other.inputs.map φ, fb, other.outputs.map φ⟩) ∧
      (∀ n b, n ≠ name → c.getBlock n = .ok b → c'.getBlock n = .ok b) ∧
      otherC.map φ = thisC := by
  obtain ⟨φ, h1, h2, h3, h4, h5, h6, h7, h8, h9⟩ := connect_right_semantics hwo hndc h
  obtain ⟨_, _, _, _, _, _, _, hlen, _⟩ := connect_right_unfold h
  exact ⟨φ, h1, h2, h3, h4, h5, h6, h7, h8, h9,
    map_connectors ((nodupL_iff _).mp (connect_right_nodup_other h)) hlen h3⟩

/-- **when a block name is given, extracting that block gives back the attached circuit's function**
(left direction) -/
theorem c10_block_extraction_left {c other c' E : Circuit} {thisC otherC : List Label} {name : Label} {addP : Bool}
    (hwo : WFG other) (hndc : c.labels.Nodup)
    (h : c.connectCircuit other thisC otherC false name addP = .ok c') (hn : name ≠ "")
    (hE : c'.blockIntoCircuit name = .ok E) :
    ∃ φ : Label → Label,
      (∀ l x, Dict.get? (connMapping thisC otherC) l = some x → φ l = x) ∧
      (∀ g ∈ other.gates, g.label ∉ otherC → φ g.label = connPre name addP ++ g.label) ∧
      (∀ b v, IsValB E b v → IsValB other (v ∘ φ) (v ∘ φ)) ∧
      E.inputs = other.inputs.map φ ∧ E.outputs = other.outputs.map φ := extract_left hwo hndc h hn hE

/-- the same for the right direction -/
theorem c10_block_extraction_right {c other c' E : Circuit} {thisC otherC : List Label} {name : Label} {addP : Bool}
    (hw : WFS c) (hwo : WFS other)
    (h : c.connectCircuit other thisC otherC true name addP = .ok c') (hn : name ≠ "")
    (hE : c'.blockIntoCircuit name = .ok E) :
    ∃ φ : Label → Label,
      (∀ l x, Dict.get? (connMapping thisC otherC) l = some x → φ l = x) ∧
      (∀ g ∈ other.gates, Dict.contains (connMapping thisC otherC) g.label = false → φ g.label = connPre name addP ++ g.label) ∧
      (∀ b v, IsValB E b v → IsValB other (v ∘ φ) (v ∘ φ)) ∧
      E.inputs = other.inputs.map φ ∧ E.outputs = other.outputs.map φ := extract_right hw hwo h hn hE

/-- **a left connection returns** — the theorems above are not vacuous: if both circuits satisfy the
invariant, the base has no block called `name`, `this_connectors` exist, `other_connectors` are distinct
INPUT gates of the attached circuit (as many), the prefixed copies' labels are not taken in the base,
and the attached circuit's (prefixed) block names are new and distinct, `connect_circuit` does not raise -/
theorem c10_left_connection_returns {c other : Circuit} {thisC otherC : List Label} {name : Label} {addP : Bool}
    (hw : WFS c) (hwo : WFS other)
    (hblk : c.blocks.any (fun b => b.name == name) = false)
    (hthis : ∀ l ∈ thisC, l ∈ c.labels)
    (hoth : ∀ l ∈ otherC, (other.find? l).map (·.ty) = some INPUT)
    (hndo : otherC.Nodup) (hlen : thisC.length = otherC.length)
    (hfresh : ∀ g ∈ other.gates, g.label ∉ otherC → connPre name addP ++ g.label ∉ c.labels)
    (hbn : ∀ b ∈ other.blocks, c.blocks.any (fun x => x.name == connPre name addP ++ b.name) = false)
    (hbd : (other.blocks.map (·.name)).Nodup)
    (hbo : ∀ b ∈ other.blocks, ∀ l ∈ b.outputs, l ∈ other.labels) :
    ∃ c', c.connectCircuit other thisC otherC false name addP = .ok c' :=
  connect_left_total hw hwo hblk hthis hoth hndo hlen hfresh hbn hbd hbo

/-- **a right connection returns**: `this_connectors` distinct INPUT gates of the base, as many existing
gates of the attached circuit, fresh copy labels and block names -/
theorem c10_right_connection_returns {c other : Circuit} {thisC otherC : List Label} {name : Label} {addP : Bool}
    (hw : WFS c) (hwo : WFS other)
    (hblk : c.blocks.any (fun b => b.name == name) = false)
    (hthisI : ∀ l ∈ thisC, (c.find? l).map (·.ty) = some INPUT)
    (hothL : ∀ l ∈ otherC, l ∈ other.labels)
    (hndt : thisC.Nodup) (hndo : otherC.Nodup) (hlen : thisC.length = otherC.length)
    (hfresh : ∀ g ∈ other.gates, g.label ∉ otherC → connPre name addP ++ g.label ∉ c.labels)
    (hbn : ∀ b ∈ other.blocks, c.blocks.any (fun x => x.name == connPre name addP ++ b.name) = false)
    (hbd : (other.blocks.map (·.name)).Nodup)
    (hbo : ∀ b ∈ other.blocks, ∀ l ∈ b.outputs, l ∈ other.labels) :
    ∃ c', c.connectCircuit other thisC otherC true name addP = .ok c' :=
  connect_right_total hw hwo hblk hthisI hothL hndt hndo hlen hfresh hbn hbd hbo

#print axioms c10_frame_add_gate
#print axioms c10_left_connection_keeps_base_function
#print axioms c10_left_connection_computes_the_composition

#print axioms c10_left_connection_interface_and_block
#print axioms c10_wrappers_are_connections
#print axioms c10_right_connection_computes_the_composition
#print axioms c10_block_extraction_left
#print axioms c10_block_extraction_right
#print axioms c10_left_connection_returns
#print axioms c10_right_connection_returns

/-- **re-extraction returns**: after a named left connection `get_block(name).into_circuit()` returns, and the result
is the attached circuit up to the renaming (total form of `c10_block_extraction_left`) -/
theorem c10_block_extraction_left_returns {c other c' : Circuit} {thisC otherC : List Label} {name : Label} {addP : Bool}
    (hw : WFS c) (hwo : WFS other)
    (h : c.connectCircuit other thisC otherC false name addP = .ok c') (hname : name ≠ "") :
    ∃ E, c'.blockIntoCircuit name = .ok E ∧ ∃ φ : Label → Label,
      (∀ l x, Dict.get? (connMapping thisC otherC) l = some x → φ l = x) ∧
      (∀ g ∈ other.gates, g.label ∉ otherC → φ g.label = connPre name addP ++ g.label) ∧
      (∀ b v, IsValB E b v → IsValB other (v ∘ φ) (v ∘ φ)) ∧
      E.inputs = other.inputs.map φ ∧ E.outputs = other.outputs.map φ :=
  et_block_extraction_left_total hw hwo h hname

/-- … and after a named right connection -/
theorem c10_block_extraction_right_returns {c other c' : Circuit} {thisC otherC : List Label} {name : Label} {addP : Bool}
    (hw : WFS c) (hwo : WFS other)
    (h : c.connectCircuit other thisC otherC true name addP = .ok c') (hname : name ≠ "") :
    ∃ E, c'.blockIntoCircuit name = .ok E ∧ ∃ φ : Label → Label,
      (∀ l x, Dict.get? (connMapping thisC otherC) l = some x → φ l = x) ∧
      (∀ g ∈ other.gates, Dict.contains (connMapping thisC otherC) g.label = false → φ g.label = connPre name addP ++ g.label) ∧
      (∀ b v, IsValB E b v → IsValB other (v ∘ φ) (v ∘ φ)) ∧
      E.inputs = other.inputs.map φ ∧ E.outputs = other.outputs.map φ :=
  et_block_extraction_right_total hw hwo h hname

#print axioms c10_block_extraction_left_returns
#print axioms c10_block_extraction_right_returns

end Cirbo