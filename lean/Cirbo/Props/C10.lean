import Cirbo.Model.Mutate2
/-! # C10 (placeholder until the theorems are in)
-- OBLIGATION: c10_placeholder
-/
namespace Cirbo
theorem c10_placeholder : True := trivial
#print axioms c10_placeholder
end Cirbo
