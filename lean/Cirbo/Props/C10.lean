import Cirbo.Proofs.Connect
import Cirbo.Proofs.ConnSem
/-!
# C10 — Circuit composition computes the documented functional composition

-- OBLIGATION: c10_frame_add_gate
-- OBLIGATION: c10_left_connection_keeps_base_function
-- OBLIGATION: c10_left_connection_computes_the_composition
-- PARTIAL: proved for every left connection (connect_circuit(right_connect=False), connect_left, extend_circuit, add_circuit): (1) only gates are added and every base gate keeps its value under every assignment; (2) the attached gates compute the attached circuit's function of the values at the connectors (a renaming of the attached circuit's labels — connectors to the base gates they were identified with, other gates to their prefixed copies — turns every valuation of the result into a valuation of the attached circuit). Not yet proved: the exact inputs/outputs lists of the result, the right-connect direction and block extraction. All of it is modelled one-to-one (Model/Mutate2.lean connStep/connFinish) and compared with the code field by field (both directions, wrappers, name/prefix options, repeated composition); the implementation's result is checked against the composed evaluation of the two operands on all assignments, against the documented interface, checkWFU and block extraction.
-/
namespace Cirbo
open GateType Circuit

/-- frame lemma: `add_gate`/`emplace_gate` gives the new gate a value and changes no other -/
theorem c10_frame_add_gate {c cur cur' : Circuit} {g : Gate} {b v b' v' : Label → Bool}
    (hext : Extends c cur b v b' v') (hadd : cur.addGate g = .ok cur')
    (har : if g.ty = INPUT then True else arityOk g.ty g.ops.length = true) (bnew : Bool) :
    ∃ b'' v'', Extends c cur' b v b'' v'' ∧ (∀ l ∈ cur.labels, v'' l = v' l) ∧
      (∀ l, l ≠ g.label → b'' l = b' l) ∧ b'' g.label = bnew := addGate_frame hext hadd har bnew

theorem c10_left_connection_keeps_base_function {c other c' : Circuit} {thisC otherC : List Label}
    {name : Label} {addP : Bool} (h : c.connectCircuit other thisC otherC false name addP = .ok c')
    (hcl : ∀ g ∈ c.gates, ∀ o ∈ g.ops, o ∈ c.labels)
    (har : ∀ g ∈ other.gates, if g.ty = INPUT then True else arityOk g.ty g.ops.length = true)
    {b v : Label → Bool} (hv : IsValB c b v) :
    ∃ b' v', IsValB c' b' v' ∧ (∀ l ∈ c.labels, v' l = v l) ∧ (∀ l ∈ c.labels, b' l = b l) ∧
      (∀ l ∈ c.labels, l ∈ c'.labels) := connect_left_frame h hcl har hv

/-- the documented functional composition: reading the result through the renaming, the attached
copy is a valuation of `other` whose inputs take the values of the connectors -/
theorem c10_left_connection_computes_the_composition {c other c' : Circuit} {thisC otherC : List Label}
    {name : Label} {addP : Bool} (hwo : WFG other)
    (h : c.connectCircuit other thisC otherC false name addP = .ok c') :
    ∃ φ : Label → Label,
      (∀ b v, IsValB c' b v → IsValB other (v ∘ φ) (v ∘ φ)) ∧
      (∀ l x, Dict.get? ((otherC.zip thisC).foldl (fun m p => Dict.set m p.1 p.2) ([] : Dict Label)) l = some x → φ l = x) ∧
      (∀ g ∈ other.gates, g.ty ≠ INPUT → φ g.label = (if name != "" && addP then name ++ "@" else "") ++ g.label) :=
  connect_left_semantics hwo h

#print axioms c10_frame_add_gate
#print axioms c10_left_connection_keeps_base_function
#print axioms c10_left_connection_computes_the_composition

end Cirbo
