import Cirbo.Proofs.GenArith
import Cirbo.Proofs.GenDiv
import Cirbo.Proofs.GenSqrt
import Cirbo.Proofs.GenReturns
/-!
# C09 — Subtraction, comparison and gadget generators are exact

-- OBLIGATION: c09_generators_only_add_fresh_gates
-- OBLIGATION: c09_sub_two_numbers
-- OBLIGATION: c09_subtract_with_compare
-- OBLIGATION: c09_equal
-- OBLIGATION: c09_plus_one
-- OBLIGATION: c09_if_then_else
-- OBLIGATION: c09_pairwise_xor
-- OBLIGATION: c09_pairwise_if_then_else
-- OBLIGATION: c09_outputs_only_when_asked
-- OBLIGATION: c09_div_mod
-- OBLIGATION: c09_sqrt
-- OBLIGATION: c09_generators_return
-- PARTIAL: every clause is proved on the model (add_div_mod: restoring-division invariant a = Q*2^i*b + rem, rem < b*2^i through the descending loop, OR-prefixes of the divisor, zero-divisor masking; add_sqrt: digit-by-digit invariant c = rho*4^j, x = a - rho^2*4^j, a < (rho+1)^2*4^j, no overflow of the trial subtrahend). add_equal is proved for width >= 1 (width 0 is outside the stated domain: every other generator rejects it). Totality is proved too (c09_generators_return, Proofs/GenTotal*.lean): on valid arguments every generator of this property returns — no shape error, no clashing label, no mark of a non-gate — or stops because the 128-bit space of random labels is exhausted; one necessary extra condition for add_pairwise_if_then_else with caller-given result labels (no given label is one the generator draws later; ca_pairIte_collision exhibits the failing run). What remains by correspondence only: the tie between the model programs and the Python generators (gate for gate on every run). Proofs/GenSqrt.lean uses Mathlib's `ring` tactic (no extra axioms).
-/
namespace Cirbo

/-- the frame theorem of C07 covers every generator of this property too (they are `Prog`s):
only fresh non-INPUT gates, inputs/blocks kept, existing gates keep their function -/
theorem c09_generators_only_add_fresh_gates {α} (p : Prog α) {st st' : GSt} {a : α}
    (h : p.run st = .ok (a, st')) (hw : WFS st.c) : GenFrame st.c st'.c := run_frame p h hw

/-- **`add_sub_two_numbers`**: `|res| = |a|` and, with `b' = b mod 2^|a|`, `a + 2^|a|·k = b' + res`
for a borrow `k ≤ 1` — i.e. `res = (a − b) mod 2^|a|` -/
theorem c09_sub_two_numbers {st st' : GSt} {x y out : List Label} {be : Bool}
    (h : (addSubTwoNumbers x y be).run st = .ok (out, st')) (hw : WFS st.c)
    (hx : ∀ l ∈ x, l ∈ st.c.labels) (hy : ∀ l ∈ y, l ∈ st.c.labels)
    {b v : Label → Bool} (hv : IsValB st.c b v) :
    out.length = x.length ∧
    ∃ v', IsValB st'.c b v' ∧ (∀ l ∈ st.c.labels, v' l = v l) ∧
      ∃ k, k ≤ 1 ∧ valLE v (revIf x be) + 2 ^ x.length * k =
        valLE v ((revIf y be).take x.length) + valLE v' (revIf out be) := by
  obtain ⟨v', h1, h2, h3⟩ := run_total h hw hv
  obtain ⟨e1, k, hk, e2⟩ := sem_addSubTwoNumbers h3
  refine ⟨e1, v', h1, h2, k, hk, ?_⟩
  rw [← valLE_congr (v := v) (v' := v') (fun l hl => h2 l (hx l (mem_revIf.mp hl))),
    ← valLE_congr (v := v) (v' := v') (fun l hl => h2 l (hy l (mem_revIf.mp (List.mem_of_mem_take hl))))]
  exact e2

/-- **`add_subtract_with_compare`**: with `w = max(|a|,|b|)`: `a + 2^w·borrow = b + res`, and the
returned flag is True exactly when `a < b` -/
theorem c09_subtract_with_compare {st st' : GSt} {x y out : List Label} {bal : Label} {be : Bool}
    (h : (addSubtractWithCompare x y be).run st = .ok ((out, bal), st')) (hw : WFS st.c)
    (hx : ∀ l ∈ x, l ∈ st.c.labels) (hy : ∀ l ∈ y, l ∈ st.c.labels)
    {b v : Label → Bool} (hv : IsValB st.c b v) :
    out.length = max x.length y.length ∧
    ∃ v', IsValB st'.c b v' ∧ (∀ l ∈ st.c.labels, v' l = v l) ∧
      valLE v (revIf x be) + 2 ^ (max x.length y.length) * bv v' bal = valLE v (revIf y be) + valLE v' (revIf out be) ∧
      (v' bal = true ↔ valLE v (revIf x be) < valLE v (revIf y be)) := by
  obtain ⟨v', h1, h2, h3⟩ := run_total h hw hv
  obtain ⟨e1, e2, e3⟩ := sem_addSubtractWithCompare h3
  refine ⟨e1, v', h1, h2, ?_, ?_⟩
  · rw [← valLE_congr (v := v) (v' := v') (fun l hl => h2 l (hx l (mem_revIf.mp hl))),
      ← valLE_congr (v := v) (v' := v') (fun l hl => h2 l (hy l (mem_revIf.mp hl)))]
    exact e2
  · rw [← valLE_congr (v := v) (v' := v') (fun l hl => h2 l (hx l (mem_revIf.mp hl))),
      ← valLE_congr (v := v) (v' := v') (fun l hl => h2 l (hy l (mem_revIf.mp hl)))]
    exact e3

/-- **`add_equal`**: True exactly when the little-endian operand equals the constant — any integer constant:
never when it does not fit, never when it is negative -/
theorem c09_equal {st st' : GSt} {ins : List Label} {num : Int} {out : Label}
    (h : (addEqualZ ins num).run st = .ok (out, st')) (hw : WFS st.c) (hn : 1 ≤ ins.length)
    (hin : ∀ l ∈ ins, l ∈ st.c.labels) {b v : Label → Bool} (hv : IsValB st.c b v) :
    ∃ v', IsValB st'.c b v' ∧ (∀ l ∈ st.c.labels, v' l = v l) ∧ (v' out = true ↔ (valLE v ins : Int) = num) := by
  obtain ⟨v', h1, h2, h3⟩ := run_total h hw hv
  refine ⟨v', h1, h2, ?_⟩
  rw [← valLE_congr (v := v) (v' := v') (fun l hl => h2 l (hin l hl))]
  exact sem_addEqualZ h3 hn

/-- **`add_plus_one`**: `(x + 1) mod 2^out_len`, whatever `out_len` is -/
theorem c09_plus_one {st st' : GSt} {ins out : List Label} {rl : Option (List Label)} {ao be : Bool}
    (h : (addPlusOne ins rl ao be).run st = .ok (out, st')) (hw : WFS st.c)
    (hin : ∀ l ∈ ins, l ∈ st.c.labels) {b v : Label → Bool} (hv : IsValB st.c b v) :
    ∃ v', IsValB st'.c b v' ∧ (∀ l ∈ st.c.labels, v' l = v l) ∧
      valLE v' (revIf out be) = (valLE v (revIf ins be) + 1) % 2 ^ out.length := by
  obtain ⟨v', h1, h2, h3⟩ := run_total h hw hv
  refine ⟨v', h1, h2, ?_⟩
  rw [← valLE_congr (v := v) (v' := v') (fun l hl => h2 l (hin l (mem_revIf.mp hl)))]
  exact (sem_addPlusOne h3).2.2

theorem c09_if_then_else {st st' : GSt} {i t e out : Label} {rl : Option Label} {ao : Bool}
    (h : (addIfThenElse i t e rl ao).run st = .ok (out, st')) (hw : WFS st.c)
    (hi : i ∈ st.c.labels) (ht : t ∈ st.c.labels) (he : e ∈ st.c.labels)
    {b v : Label → Bool} (hv : IsValB st.c b v) :
    ∃ v', IsValB st'.c b v' ∧ (∀ l ∈ st.c.labels, v' l = v l) ∧ v' out = if v i then v t else v e := by
  obtain ⟨v', h1, h2, h3⟩ := run_total h hw hv
  refine ⟨v', h1, h2, ?_⟩
  rw [← h2 i hi, ← h2 t ht, ← h2 e he]
  exact sem_addIfThenElse h3

theorem c09_pairwise_xor {st st' : GSt} {xs ys out : List Label} {rl : Option (List Label)} {ao : Bool}
    (h : (addPairwiseXor xs ys rl ao).run st = .ok (out, st')) (hw : WFS st.c)
    (hx : ∀ l ∈ xs, l ∈ st.c.labels) (hy : ∀ l ∈ ys, l ∈ st.c.labels)
    {b v : Label → Bool} (hv : IsValB st.c b v) :
    out.length = xs.length ∧
    ∃ v', IsValB st'.c b v' ∧ (∀ l ∈ st.c.labels, v' l = v l) ∧
      out.map v' = List.zipWith xor (xs.map v) (ys.map v) := by
  obtain ⟨v', h1, h2, h3⟩ := run_total h hw hv
  obtain ⟨e1, e2⟩ := sem_addPairwiseXor h3
  refine ⟨e1, v', h1, h2, ?_⟩
  rw [e2, List.map_congr_left (fun l hl => h2 l (hx l hl)), List.map_congr_left (fun l hl => h2 l (hy l hl))]

theorem c09_pairwise_if_then_else {st st' : GSt} {is ts es out : List Label} {rl : Option (List Label)} {ao : Bool}
    (h : (addPairwiseIfThenElse is ts es rl ao).run st = .ok (out, st')) (hw : WFS st.c)
    (hi : ∀ l ∈ is, l ∈ st.c.labels) (ht : ∀ l ∈ ts, l ∈ st.c.labels) (he : ∀ l ∈ es, l ∈ st.c.labels)
    {b v : Label → Bool} (hv : IsValB st.c b v) :
    out.length = is.length ∧
    ∃ v', IsValB st'.c b v' ∧ (∀ l ∈ st.c.labels, v' l = v l) ∧
      out.map v' = iteSpec (is.map v) (ts.map v) (es.map v) := by
  obtain ⟨v', h1, h2, h3⟩ := run_total h hw hv
  obtain ⟨e1, e2⟩ := sem_addPairwiseIfThenElse h3
  refine ⟨e1, v', h1, h2, ?_⟩
  rw [e2, List.map_congr_left (fun l hl => h2 l (hi l hl)), List.map_congr_left (fun l hl => h2 l (ht l hl)),
    List.map_congr_left (fun l hl => h2 l (he l hl))]

/-- a program without `mark` nodes leaves the outputs alone -/
inductive NoMark {α : Type} : Prog α → Prop
  | pure (a : α) : NoMark (.pure a)
  | fresh (r k) : (∀ l, NoMark (k l)) → NoMark (.fresh r k)
  | add (g ok k) : NoMark k → NoMark (.add g ok k)
  | fail (e) : NoMark (.fail e)

theorem run_noMark {α} {p : Prog α} (hp : NoMark p) : ∀ {st : GSt} {a : α} {st' : GSt}, p.run st = .ok (a, st') →
    st'.c.outputs = st.c.outputs := by
  induction hp with
  | pure a => intro st a' st' h; simp only [Prog.run, Except.ok.injEq, Prod.mk.injEq] at h; obtain ⟨_, rfl⟩ := h; rfl
  | fresh r k _ ih =>
    intro st a st' h
    simp only [Prog.run] at h
    split at h
    · cases h
    · have := ih _ h; exact this
  | add g ok k _ ih =>
    intro st a st' h
    simp only [Prog.run] at h
    split at h
    · cases h
    · rename_i c' hc
      obtain ⟨_, _, _, _, ho, _⟩ := addGate_fields hc
      rw [ih h, ho]
  | fail e => intro st a st' h; simp [Prog.run] at h

theorem noMark_bind {α β} {p : Prog α} {f : α → Prog β} (hp : NoMark p) (hf : ∀ a, NoMark (f a)) : NoMark (p >>= f) := by
  show NoMark (p.bind f)
  induction hp with
  | pure a => exact hf a
  | fresh r k _ ih => exact .fresh _ _ ih
  | add g ok k _ ih => exact .add _ _ _ ih
  | fail e => exact .fail e

theorem noMark_freshLabels : ∀ n restr acc, NoMark (freshLabels n restr acc) := by
  intro n; induction n with
  | zero => intro _ _; exact .pure _
  | succ n ih => intro restr acc; exact .fresh _ _ (fun l => ih _ _)

/-- **outputs are marked only when asked to** (shown for `add_if_then_else`; the same shape for the
other gadgets): with `add_outputs=False` the host's outputs are unchanged -/
theorem c09_outputs_only_when_asked {st st' : GSt} {i t e out : Label} {rl : Option Label}
    (h : (addIfThenElse i t e rl false).run st = .ok (out, st')) : st'.c.outputs = st.c.outputs := by
  refine run_noMark ?_ h
  unfold addIfThenElse
  refine noMark_bind ?_ fun res => noMark_bind (noMark_freshLabels _ _ _) fun tmp => ?_
  · cases rl with
    | some l => exact .pure _
    | none => exact .fresh _ _ (fun l => .pure _)
  · split
    · exact .add _ _ _ (.add _ _ _ (.add _ _ _ (.add _ _ _ (by simp only [Bool.false_eq_true, if_false]; exact .pure _))))
    · exact .fail _

/-- **`add_div_mod`** on arbitrary host gates (equal widths, either endianness): for `b ≠ 0` the
results are `⌊a/b⌋` and `a mod b`; for `b = 0` both are `0`; both have the operands' width -/
theorem c09_div_mod {st st' : GSt} {x y q r : List Label} {be : Bool}
    (h : (addDivMod x y be).run st = .ok ((q, r), st')) (hw : WFS st.c)
    (hx : ∀ l ∈ x, l ∈ st.c.labels) (hy : ∀ l ∈ y, l ∈ st.c.labels)
    {b v : Label → Bool} (hv : IsValB st.c b v) :
    q.length = x.length ∧ r.length = x.length ∧
    ∃ v', IsValB st'.c b v' ∧ (∀ l ∈ st.c.labels, v' l = v l) ∧
      (valLE v (revIf y be) = 0 → valLE v' (revIf q be) = 0 ∧ valLE v' (revIf r be) = 0) ∧
      (0 < valLE v (revIf y be) →
        valLE v' (revIf q be) = valLE v (revIf x be) / valLE v (revIf y be) ∧
        valLE v' (revIf r be) = valLE v (revIf x be) % valLE v (revIf y be)) := by
  obtain ⟨v', h1, h2, h3⟩ := run_total h hw hv
  obtain ⟨e1, e2, e3, e4⟩ := sem_addDivMod h3
  rw [valLE_congr (v := v) (v' := v') (fun l hl => h2 l (hx l (mem_revIf.mp hl))),
    valLE_congr (v := v) (v' := v') (fun l hl => h2 l (hy l (mem_revIf.mp hl)))] at e4
  rw [valLE_congr (v := v) (v' := v') (fun l hl => h2 l (hy l (mem_revIf.mp hl)))] at e3
  exact ⟨e1, e2, v', h1, h2, e3, e4⟩

/-- **`add_sqrt`** on arbitrary host gates (any width ≥ 1, either endianness): the result `R`, on
`⌈n/2⌉` bits, is the integer square root — `R² ≤ a < (R+1)²` -/
theorem c09_sqrt {st st' : GSt} {x out : List Label} {be : Bool}
    (h : (addSqrt x be).run st = .ok (out, st')) (hw : WFS st.c)
    (hx : ∀ l ∈ x, l ∈ st.c.labels) {b v : Label → Bool} (hv : IsValB st.c b v) :
    out.length = (x.length + 1) / 2 ∧
    ∃ v', IsValB st'.c b v' ∧ (∀ l ∈ st.c.labels, v' l = v l) ∧
      valLE v' (revIf out be) * valLE v' (revIf out be) ≤ valLE v (revIf x be) ∧
      valLE v (revIf x be) < (valLE v' (revIf out be) + 1) * (valLE v' (revIf out be) + 1) := by
  obtain ⟨v', h1, h2, h3⟩ := run_total h hw hv
  obtain ⟨e1, e2, e3⟩ := sem_addSqrt h3
  rw [valLE_congr (v := v) (v' := v') (fun l hl => h2 l (hx l (mem_revIf.mp hl)))] at e2 e3
  exact ⟨e1, v', h1, h2, e2, e3⟩

#print axioms c09_generators_only_add_fresh_gates
#print axioms c09_sub_two_numbers
#print axioms c09_subtract_with_compare
#print axioms c09_equal
#print axioms c09_plus_one
#print axioms c09_if_then_else
#print axioms c09_pairwise_xor
#print axioms c09_pairwise_if_then_else
#print axioms c09_outputs_only_when_asked
#print axioms c09_div_mod
#print axioms c09_sqrt

/-- **every generator of this property returns on valid arguments** (operands are gates of the host circuit,
widths ≥ 1, equal lengths where the code checks them; result labels given by the caller are not gates and
pairwise different) — or stops because the 128-bit space of random labels is exhausted.  For
`add_pairwise_if_then_else` with caller-given result labels one more condition is needed and is necessary: no
given label may be a label the generator draws later (`ca_NF`; with real `uuid4` labels a 122-bit collision —
`ca_pairIte_collision` is the closed run of the model that fails without it, and the Python code fails the same
way under the pinned counter). -/
theorem c09_generators_return (st : GSt) :
    (∀ x1 x2 be, x1 ∈ st.c.labels → x2 ∈ st.c.labels → Returns (addSub2 [x1, x2] be) st (fun r => r.length = 2)) ∧
    (∀ x0 x1 x2 be, x0 ∈ st.c.labels → x1 ∈ st.c.labels → x2 ∈ st.c.labels →
      Returns (addSub3 [x0, x1, x2] be) st (fun r => r.length = 2)) ∧
    (∀ a b be, (∀ l ∈ a, l ∈ st.c.labels) → (∀ l ∈ b, l ∈ st.c.labels) → a ≠ [] → b ≠ [] →
      Returns (addSubTwoNumbers a b be) st (fun r => r.length = a.length)) ∧
    (∀ a b be, (∀ l ∈ a, l ∈ st.c.labels) → (∀ l ∈ b, l ∈ st.c.labels) → a ≠ [] → b ≠ [] →
      Returns (addSubtractWithCompare a b be) st (fun r => r.1.length = max a.length b.length)) ∧
    (∀ ins (num : Int), (∀ l ∈ ins, l ∈ st.c.labels) → Returns (addEqualZ ins num) st (fun _ => True)) ∧
    (∀ ins rl ao be, (∀ l ∈ ins, l ∈ st.c.labels) → ins ≠ [] →
      (∀ g, rl = some g → g ≠ [] ∧ g.Nodup ∧ ∀ l ∈ g, l ∉ st.c.labels) →
      Returns (addPlusOne ins rl ao be) st (fun r => (∀ g, rl = some g → r = g) ∧ (rl = none → r.length = ins.length + 1))) ∧
    (∀ i t e rl ao, i ∈ st.c.labels → t ∈ st.c.labels → e ∈ st.c.labels → (∀ res, rl = some res → res ∉ st.c.labels) →
      Returns (addIfThenElse i t e rl ao) st (fun a => ∀ res, rl = some res → a = res)) ∧
    (∀ is ts es rl ao, (∀ l ∈ is, l ∈ st.c.labels) → (∀ l ∈ ts, l ∈ st.c.labels) → (∀ l ∈ es, l ∈ st.c.labels) →
      is.length = ts.length → ts.length = es.length →
      (∀ g, rl = some g → g.length = is.length ∧ g.Nodup ∧ ∀ l ∈ g, l ∉ st.c.labels ∧ ca_NF st l) →
      Returns (addPairwiseIfThenElse is ts es rl ao) st (fun r => (∀ g, rl = some g → r = g) ∧ r.length = is.length)) ∧
    (∀ xs ys rl ao, (∀ l ∈ xs, l ∈ st.c.labels) → (∀ l ∈ ys, l ∈ st.c.labels) → xs.length = ys.length →
      (∀ g, rl = some g → g.length = xs.length ∧ g.Nodup ∧ ∀ l ∈ g, l ∉ st.c.labels) →
      Returns (addPairwiseXor xs ys rl ao) st (fun r => (∀ g, rl = some g → r = g) ∧ r.length = xs.length)) ∧
    (∀ a b be, (∀ l ∈ a, l ∈ st.c.labels) → (∀ l ∈ b, l ∈ st.c.labels) → a.length = b.length → 1 ≤ a.length →
      Returns (addDivMod a b be) st (fun r => r.1.length = a.length ∧ r.2.length = a.length)) ∧
    (∀ ins be, (∀ l ∈ ins, l ∈ st.c.labels) → 1 ≤ ins.length →
      Returns (addSqrt ins be) st (fun r => r.length = (ins.length + 1) / 2)) := by
  have hinv := Inv.nil st
  have hk := kn_labels st
  refine ⟨?_, ?_, ?_, ?_, ?_, ?_, ?_, ?_, ?_, ?_, ?_⟩
  · intro x1 x2 be h1 h2; exact returns_of_ok (ca_ok_addSub2 (be := be) hinv hk h1 h2)
  · intro x0 x1 x2 be h0 h1 h2; exact returns_of_ok (ca_ok_addSub3 (be := be) hinv hk h0 h1 h2)
  · intro a b be ha hb hna hnb; exact returns_of_ok (ca_ok_addSubTwoNumbers (be := be) hinv hk ha hb hna hnb)
  · intro a b be ha hb hna hnb; exact returns_of_ok (ca_ok_addSubtractWithCompare (be := be) hinv hk ha hb hna hnb)
  · intro ins num hi; exact returns_of_ok (ca_ok_addEqualZ (num := num) hinv hk hi)
  · intro ins rl ao be hi hne hrl; exact returns_of_ok (ca_ok_addPlusOne (ao := ao) (be := be) hinv hk hi hne hrl)
  · intro i t e rl ao hi ht he hres; exact returns_of_ok (ca_ok_addIfThenElse (ao := ao) hinv hk hi ht he hres)
  · intro is ts es rl ao hi ht he h1 h2 hrl
    exact returns_of_ok (ca_ok_addPairwiseIfThenElse (ao := ao) hinv hk hi ht he h1 h2 hrl)
  · intro xs ys rl ao hx hy h1 hrl; exact returns_of_ok (ca_ok_addPairwiseXor (ao := ao) hinv hk hx hy h1 hrl)
  · intro a b be ha hb hlen hpos; exact returns_of_ok (ok_addDivMod (be := be) hinv hk ha hb hlen hpos)
  · intro ins be hi hpos; exact returns_of_ok (ok_addSqrt (be := be) hinv hk hi hpos)

#print axioms c09_generators_return

end Cirbo
