import Cirbo.Model.Gen2
/-! # C09 (placeholder until the theorems are in)
-- OBLIGATION: c09_placeholder
-/
namespace Cirbo
theorem c09_placeholder : True := trivial
#print axioms c09_placeholder
end Cirbo
