import Cirbo.Proofs.Rewrite
/-!
# C19 — Local rewrites keep or specialise the function exactly as documented

-- OBLIGATION: c19_replace_inputs_is_cofactor
-- OBLIGATION: c19_remove_gate
-- OBLIGATION: c19_remove_gate_rejects
-- PARTIAL: rename_gate (every reference follows the rename; truth table unchanged) and replace_subcircuit (equivalent replacement keeps the truth table and well-formedness or raises a documented error) are modelled one-to-one (Model/Mutate.lean renameGate, Mutate2.lean replaceSubcircuit incl. slice collection, block removal, re-insertion, restored users, final cycle check) and compared field by field with the code on every gate / many slices per circuit, with truth tables and checkWFU as oracles, but their theorems are not proved yet.
-/
namespace Cirbo
open Circuit

/-- **Fixing inputs to constants yields exactly the cofactor** over the remaining inputs in their
original relative order: for every assignment `b` with t ↦ True, f ↦ False and valuation `v` of
the original, every assignment `b'` of the *remaining* inputs that agrees with `b` makes `v` a
valuation of the result; outputs are unchanged; the result is well formed. -/
theorem c19_replace_inputs_is_cofactor {c c' : Circuit} {t f : List Label} (hw : WFS c)
    (h : c.replaceInputs t f = .ok c') {b v : Label → Bool} (hv : IsValB c b v)
    (ht : ∀ l ∈ t, b l = true) (hf : ∀ l ∈ f, b l = false) :
    WFS c' ∧ c'.outputs = c.outputs ∧ (∀ x, x ∈ c'.inputs ↔ x ∈ c.inputs ∧ x ∉ t ∧ x ∉ f) ∧
    c'.inputs.Sublist c.inputs ∧
    ∀ b', (∀ x ∈ c'.inputs, b' x = b x) → IsValB c' b' v :=
  replaceInputs_cofactor hw h hv ht hf

/-- removing a gate succeeds only for an existing gate nobody uses and removes it from the gate
map, the outputs and the blocks -/
theorem c19_remove_gate {c c' : Circuit} {l : Label} (h : c.removeGate l = .ok c') :
    l ∈ c.labels ∧ c.usersOf l = [] ∧
    c'.gates = c.gates.filter (fun x => !(x.label == l)) ∧
    c'.outputs = c.outputs.filter (fun o => !(o == l)) ∧
    c'.blocks = c.blocks.filter (fun b => !(b.gates.contains l || b.inputs.contains l || b.outputs.contains l)) ∧
    (∀ x ∈ c'.inputs, x ∈ c.inputs) := removeGate_spec h

theorem c19_remove_gate_rejects {c : Circuit} {l : Label} :
    (l ∉ c.labels → c.removeGate l = .error "CircuitValidationError") ∧
    (l ∈ c.labels → c.usersOf l ≠ [] → c.removeGate l = .error "GateHasUsersError") := removeGate_rejects

#print axioms c19_replace_inputs_is_cofactor
#print axioms c19_remove_gate
#print axioms c19_remove_gate_rejects

end Cirbo
