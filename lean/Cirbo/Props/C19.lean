import Cirbo.Proofs.ReplaceErr
import Cirbo.Proofs.Rewrite
import Cirbo.Proofs.Rename
import Cirbo.Proofs.RenameTotal
import Cirbo.Proofs.ReplaceSem
/-!
# C19 — Local rewrites keep or specialise the function exactly as documented

-- OBLIGATION: c19_replace_inputs_is_cofactor
-- OBLIGATION: c19_remove_gate
-- OBLIGATION: c19_remove_gate_rejects
-- OBLIGATION: c19_rename_references_follow
-- OBLIGATION: c19_rename_keeps_function
-- OBLIGATION: c19_rename_keeps_invariant
-- OBLIGATION: c19_rename_returns
-- OBLIGATION: c19_rename_errors
-- OBLIGATION: c19_replace_subcircuit_wellformed
-- OBLIGATION: c19_replace_subcircuit_keeps_function
-- OBLIGATION: c19_replace_subcircuit_errors
-- PARTIAL: rename_gate is total: on a well-formed circuit it returns exactly when the old label is a gate and the new one is not, and otherwise raises CircuitGateIsAbsentError / CircuitGateAlreadyExistsError for exactly that reason (c19_rename_returns, c19_rename_errors). replace_subcircuit: 'keeps the truth table and the circuit well formed whenever it returns' is proved (c19_replace_subcircuit_wellformed for ANY replacement; c19_replace_subcircuit_keeps_function for a replacement that agrees with the slice on every valuation of the circuit, under the side condition that no slice output is a circuit INPUT — without it the call can return a circuit with fewer inputs). Which errors it raises otherwise ('or raises one of the documented errors') is a theorem as well (c19_replace_subcircuit_errors: on a well-formed circuit only library errors, never a Python-internal one, and no fuel exhaustion).
-/
namespace Cirbo
open Circuit

/-- **Fixing inputs to constants yields exactly the cofactor** over the remaining inputs in their
original relative order: for every assignment `b` with t ↦ True, f ↦ False and valuation `v` of
the original, every assignment `b'` of the *remaining* inputs that agrees with `b` makes `v` a
valuation of the result; outputs are unchanged; the result is well formed. -/
theorem c19_replace_inputs_is_cofactor {c c' : Circuit} {t f : List Label} (hw : WFS c)
    (h : c.replaceInputs t f = .ok c') {b v : Label → Bool} (hv : IsValB c b v)
    (ht : ∀ l ∈ t, b l = true) (hf : ∀ l ∈ f, b l = false) :
    WFS c' ∧ c'.outputs = c.outputs ∧ (∀ x, x ∈ c'.inputs ↔ x ∈ c.inputs ∧ x ∉ t ∧ x ∉ f) ∧
    c'.inputs.Sublist c.inputs ∧
    ∀ b', (∀ x ∈ c'.inputs, b' x = b x) → IsValB c' b' v :=
  replaceInputs_cofactor hw h hv ht hf

/-- removing a gate succeeds only for an existing gate nobody uses and removes it from the gate
map, the outputs and the blocks -/
theorem c19_remove_gate {c c' : Circuit} {l : Label} (h : c.removeGate l = .ok c') :
    l ∈ c.labels ∧ c.usersOf l = [] ∧
    c'.gates = c.gates.filter (fun x => !(x.label == l)) ∧
    c'.outputs = c.outputs.filter (fun o => !(o == l)) ∧
    c'.blocks = c.blocks.filter (fun b => !(b.gates.contains l || b.inputs.contains l || b.outputs.contains l)) ∧
    (∀ x ∈ c'.inputs, x ∈ c.inputs) := removeGate_spec h

theorem c19_remove_gate_rejects {c : Circuit} {l : Label} :
    (l ∉ c.labels → c.removeGate l = .error "CircuitValidationError") ∧
    (l ∈ c.labels → c.usersOf l ≠ [] → c.removeGate l = .error "GateHasUsersError") := removeGate_rejects

/-- **Renaming a gate: every reference follows.** On a well-formed circuit, whenever `rename_gate(old, new)`
returns, the result is the circuit with `old` replaced by `new` everywhere: its gates are exactly the
gates of the argument with label and operands renamed, its labels are distinct, the input list, the
output list (every occurrence) and every block's inputs/members/outputs are the renamed lists, and the
users index is the renamed users index (`old` has no entry left). -/
theorem c19_rename_references_follow {c c' : Circuit} {old new : Label} (hw : WFS c)
    (h : c.renameGate old new = .ok c') : Renamed c c' old new ∧ old ∈ c.labels ∧ new ∉ c.labels :=
  renameGate_renamed hw h

/-- **Renaming changes no truth table**: every valuation of the argument, read through the inverse
renaming, is a valuation of the result, and the outputs get the same values position by position. -/
theorem c19_rename_keeps_function {c c' : Circuit} {old new : Label} (hw : WFS c)
    (h : c.renameGate old new = .ok c') {b v : Label → Bool} (hv : IsValB c b v) :
    IsValB c' (b ∘ rhoInv old new) (v ∘ rhoInv old new) ∧
    c'.outputs.map (v ∘ rhoInv old new) = c.outputs.map v := by
  obtain ⟨hr, _, hnew⟩ := renameGate_renamed hw h
  exact renamed_val hw hnew hr hv

/-- and the result is well formed again (operands, outputs, users index, inputs, acyclicity, blocks) -/
theorem c19_rename_keeps_invariant {c c' : Circuit} {old new : Label} (hw : WFS c)
    (h : c.renameGate old new = .ok c') : WFS c' := renameGate_wfs hw h

/-- **`rename_gate` returns** on a well-formed circuit whenever the old label is a gate and the new one is not:
the bookkeeping of the users index (one entry renamed per occurrence of the gate among an operand's users)
never runs dry — the index lists the gate exactly as often as the operand occurs -/
theorem c19_rename_returns {c : Circuit} {old new : Label} (hw : WFS c) (hold : old ∈ c.labels) (hnew : new ∉ c.labels) :
    ∃ c', c.renameGate old new = .ok c' := renameGate_total hw hold hnew

/-- and when it does not return, it raised one of its two documented errors for the documented reason -/
theorem c19_rename_errors {c : Circuit} {old new : Label} (hw : WFS c) {e : String} (h : c.renameGate old new = .error e) :
    (old ∉ c.labels ∧ e = "CircuitGateIsAbsentError") ∨
    (old ∈ c.labels ∧ new ∈ c.labels ∧ e = "CircuitGateAlreadyExistsError") := renameGate_error hw h

/-- **`replace_subcircuit` leaves the circuit well formed** whenever it returns: for a well-formed
circuit and replacement and mappings with distinct keys (Python dicts), after the renames, the
removal of the slice, the re-insertion of the replacement's gates, the restored outputs and users
and the whole-graph cycle check, every clause of the C02 invariant holds again (operands and outputs
exist, users index = operand multiset, input list, acyclic, blocks). No equivalence of the
replacement is needed for this half. `uuid` is the fresh uuid of the temporary block (any value). -/
theorem c19_replace_subcircuit_wellformed {c sub c' : Circuit} {im om : List (Label × Label)} {uuid k' : Nat}
    (hw : WFS c) (hs : WFS sub) (hik : (im.map (·.1)).Nodup) (hok : (om.map (·.1)).Nodup)
    (h : c.replaceSubcircuit sub im om uuid = .ok (c', k')) : WFS c' :=
  replaceSubcircuit_wfs hw hs hik hok h

/-- **replacing a subcircuit by one that agrees with it leaves the truth table unchanged and the
circuit well formed.** `SliceAgrees c sub im om`: on every valuation of `c`, the replacement fed the
values at the slice inputs (`im`: circuit gate ↦ replacement input) produces the values at the slice
outputs (`om`: circuit gate ↦ replacement output) — functional equivalence under the given
correspondence, asked only on value combinations that occur. Then, whenever the call returns, the
result is well formed and there is a relabelling `f` of its inputs onto the original inputs, position
by position, under which every valuation of the original yields a valuation of the result with the
same output values, position by position — i.e. the same truth table. -/
theorem c19_replace_subcircuit_keeps_function {c sub c' : Circuit} {im om : List (Label × Label)} {uuid k' : Nat}
    (hw : WFS c) (hsu : WFU sub)
    (hsb : ∀ b ∈ sub.blocks, (∀ l ∈ b.gates, l ∈ sub.labels) ∧ (∀ l ∈ b.inputs, l ∈ sub.labels))
    (hik : (im.map (·.1)).Nodup) (hok : (om.map (·.1)).Nodup)
    (hag : SliceAgrees c sub im om) (hnoin : ∀ p ∈ om, p.1 ∉ c.inputs)
    (h : c.replaceSubcircuit sub im om uuid = .ok (c', k')) :
    WFS c' ∧ ∃ f : Label → Label, c'.inputs.map f = c.inputs ∧
      ∀ b v, IsValB c b v → ∃ v', IsValB c' (b ∘ f) v' ∧ c'.outputs.map v' = c.outputs.map v :=
  replaceSubcircuit_sem hw hsu hsb hik hok hag hnoin h

open GateType in
/-- non-vacuity of the agreement hypothesis -/
example : SliceAgrees ⟨[⟨"a", INPUT, []⟩, ⟨"x", NOT, ["a"]⟩], ["a"], ["x"], [("a", ["x"])], []⟩
    ⟨[⟨"p", INPUT, []⟩, ⟨"r", NOT, ["p"]⟩], ["p"], ["r"], [("p", ["r"])], []⟩ [("a", "p")] [("x", "r")] := by
  intro b v bs vs hv hvs hin p hp
  simp only [List.mem_singleton] at hp; subst hp
  have h1 := hv ⟨"x", NOT, ["a"]⟩ (by simp)
  have h2 := hvs ⟨"r", NOT, ["p"]⟩ (by simp)
  have h3 := hin ("a", "p") (by simp)
  simp [bfun] at h1 h2 h3
  show vs "r" = v "x"
  rw [h3, h1] at h2
  cases hx : v "x" <;> cases hr : vs "r" <;> simp_all

open GateType in
/-- non-vacuity: a two-gate slice replaced by one gate -/
example : ((Circuit.replaceSubcircuit
    ⟨[⟨"a", INPUT, []⟩, ⟨"b", INPUT, []⟩, ⟨"x", NOT, ["a"]⟩, ⟨"y", NOR, ["x", "b"]⟩, ⟨"z", NOT, ["y"]⟩],
      ["a", "b"], ["z"], [("a", ["x"]), ("b", ["y"]), ("x", ["y"]), ("y", ["z"])], []⟩
    ⟨[⟨"p", INPUT, []⟩, ⟨"q", INPUT, []⟩, ⟨"r", GT, ["p", "q"]⟩], ["p", "q"], ["r"], [("p", ["r"]), ("q", ["r"])], []⟩
    [("a", "p"), ("b", "q")] [("y", "r")] 0).toOption.map
      (fun p => (p.1.gates.map (·.label), p.1.usersOf "r", p.2))) = some (["z", "p", "q", "r"], ["z"], 1) := by
  decide

#print axioms c19_replace_inputs_is_cofactor
#print axioms c19_remove_gate
#print axioms c19_remove_gate_rejects
#print axioms c19_rename_references_follow
#print axioms c19_rename_keeps_function
#print axioms c19_rename_keeps_invariant
#print axioms c19_rename_returns
#print axioms c19_rename_errors
#print axioms c19_replace_subcircuit_wellformed
#print axioms c19_replace_subcircuit_keeps_function

/-- **"… or raises one of the documented errors"**: on a well-formed circuit, whenever `replace_subcircuit` does not
return it raised a library error — never a Python-internal one (KeyError, ValueError, AssertionError, IndexError), and
the model's fuel never runs out -/
theorem c19_replace_subcircuit_errors {c sub : Circuit} {im om : List (Label × Label)} {ctr : Nat} (hw : WFS c) :
    (∀ e, c.replaceSubcircuit sub im om ctr = .error e →
      e ∈ ["ReplaceSubcircuitError", "GateDoesntExistError", "CircuitGateIsAbsentError", "CircuitGateAlreadyExistsError",
           "CircuitValidationError", "CreateBlockError", "DeleteBlockError", "GateHasUsersError", "CircuitIsCyclicalError"]) ∧
    (∀ e ∈ ["Py:KeyError", "Py:ValueError", "Py:AssertionError", "Py:IndexError", "fuel"],
      c.replaceSubcircuit sub im om ctr ≠ .error e) :=
  ⟨fun _ h => (re_replaceSubcircuit_errors_core hw h).documented, re_replaceSubcircuit_no_internal hw⟩

#print axioms c19_replace_subcircuit_errors

end Cirbo
