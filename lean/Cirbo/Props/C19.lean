import Cirbo.Proofs.Rewrite
import Cirbo.Proofs.Rename
import Cirbo.Proofs.ReplaceWfs
/-!
# C19 — Local rewrites keep or specialise the function exactly as documented

-- OBLIGATION: c19_replace_inputs_is_cofactor
-- OBLIGATION: c19_remove_gate
-- OBLIGATION: c19_remove_gate_rejects
-- OBLIGATION: c19_rename_references_follow
-- OBLIGATION: c19_rename_keeps_function
-- OBLIGATION: c19_rename_keeps_invariant
-- OBLIGATION: c19_replace_subcircuit_wellformed
-- PARTIAL: replace_subcircuit: that the result is well formed whenever the call returns is proved (c19_replace_subcircuit_wellformed — for ANY replacement, equivalent or not). That an equivalent replacement keeps the truth table is not proved yet: the call is modelled one-to-one (Mutate2.lean replaceSubcircuit incl. slice collection, block removal, re-insertion, restored users, whole-graph cycle check) and compared field by field with the code on many slices per circuit (identical, renamed, re-expressed and structurally entangled replacements), with truth tables as the search oracle.
-/
namespace Cirbo
open Circuit

/-- **Fixing inputs to constants yields exactly the cofactor** over the remaining inputs in their
original relative order: for every assignment `b` with t ↦ True, f ↦ False and valuation `v` of
the original, every assignment `b'` of the *remaining* inputs that agrees with `b` makes `v` a
valuation of the result; outputs are unchanged; the result is well formed. -/
theorem c19_replace_inputs_is_cofactor {c c' : Circuit} {t f : List Label} (hw : WFS c)
    (h : c.replaceInputs t f = .ok c') {b v : Label → Bool} (hv : IsValB c b v)
    (ht : ∀ l ∈ t, b l = true) (hf : ∀ l ∈ f, b l = false) :
    WFS c' ∧ c'.outputs = c.outputs ∧ (∀ x, x ∈ c'.inputs ↔ x ∈ c.inputs ∧ x ∉ t ∧ x ∉ f) ∧
    c'.inputs.Sublist c.inputs ∧
    ∀ b', (∀ x ∈ c'.inputs, b' x = b x) → IsValB c' b' v :=
  replaceInputs_cofactor hw h hv ht hf

/-- removing a gate succeeds only for an existing gate nobody uses and removes it from the gate
map, the outputs and the blocks -/
theorem c19_remove_gate {c c' : Circuit} {l : Label} (h : c.removeGate l = .ok c') :
    l ∈ c.labels ∧ c.usersOf l = [] ∧
    c'.gates = c.gates.filter (fun x => !(x.label == l)) ∧
    c'.outputs = c.outputs.filter (fun o => !(o == l)) ∧
    c'.blocks = c.blocks.filter (fun b => !(b.gates.contains l || b.inputs.contains l || b.outputs.contains l)) ∧
    (∀ x ∈ c'.inputs, x ∈ c.inputs) := removeGate_spec h

theorem c19_remove_gate_rejects {c : Circuit} {l : Label} :
    (l ∉ c.labels → c.removeGate l = .error "CircuitValidationError") ∧
    (l ∈ c.labels → c.usersOf l ≠ [] → c.removeGate l = .error "GateHasUsersError") := removeGate_rejects

/-- **Renaming a gate: every reference follows.** On a well-formed circuit, whenever `rename_gate(old, new)`
returns, the result is the circuit with `old` replaced by `new` everywhere: its gates are exactly the
gates of the argument with label and operands renamed, its labels are distinct, the input list, the
output list (every occurrence) and every block's inputs/members/outputs are the renamed lists, and the
users index is the renamed users index (`old` has no entry left). -/
theorem c19_rename_references_follow {c c' : Circuit} {old new : Label} (hw : WFS c)
    (h : c.renameGate old new = .ok c') : Renamed c c' old new ∧ old ∈ c.labels ∧ new ∉ c.labels :=
  renameGate_renamed hw h

/-- **Renaming changes no truth table**: every valuation of the argument, read through the inverse
renaming, is a valuation of the result, and the outputs get the same values position by position. -/
theorem c19_rename_keeps_function {c c' : Circuit} {old new : Label} (hw : WFS c)
    (h : c.renameGate old new = .ok c') {b v : Label → Bool} (hv : IsValB c b v) :
    IsValB c' (b ∘ rhoInv old new) (v ∘ rhoInv old new) ∧
    c'.outputs.map (v ∘ rhoInv old new) = c.outputs.map v := by
  obtain ⟨hr, _, hnew⟩ := renameGate_renamed hw h
  exact renamed_val hw hnew hr hv

/-- and the result is well formed again (operands, outputs, users index, inputs, acyclicity, blocks) -/
theorem c19_rename_keeps_invariant {c c' : Circuit} {old new : Label} (hw : WFS c)
    (h : c.renameGate old new = .ok c') : WFS c' := renameGate_wfs hw h

/-- **`replace_subcircuit` leaves the circuit well formed** whenever it returns: for a well-formed
circuit and replacement and mappings with distinct keys (Python dicts), after the renames, the
removal of the slice, the re-insertion of the replacement's gates, the restored outputs and users
and the whole-graph cycle check, every clause of the C02 invariant holds again (operands and outputs
exist, users index = operand multiset, input list, acyclic, blocks). No equivalence of the
replacement is needed for this half. `uuid` is the fresh uuid of the temporary block (any value). -/
theorem c19_replace_subcircuit_wellformed {c sub c' : Circuit} {im om : List (Label × Label)} {uuid k' : Nat}
    (hw : WFS c) (hs : WFS sub) (hik : (im.map (·.1)).Nodup) (hok : (om.map (·.1)).Nodup)
    (h : c.replaceSubcircuit sub im om uuid = .ok (c', k')) : WFS c' :=
  replaceSubcircuit_wfs hw hs hik hok h

open GateType in
/-- non-vacuity: a two-gate slice replaced by one gate -/
example : ((Circuit.replaceSubcircuit
    ⟨[⟨"a", INPUT, []⟩, ⟨"b", INPUT, []⟩, ⟨"x", NOT, ["a"]⟩, ⟨"y", NOR, ["x", "b"]⟩, ⟨"z", NOT, ["y"]⟩],
      ["a", "b"], ["z"], [("a", ["x"]), ("b", ["y"]), ("x", ["y"]), ("y", ["z"])], []⟩
    ⟨[⟨"p", INPUT, []⟩, ⟨"q", INPUT, []⟩, ⟨"r", GT, ["p", "q"]⟩], ["p", "q"], ["r"], [("p", ["r"]), ("q", ["r"])], []⟩
    [("a", "p"), ("b", "q")] [("y", "r")] 0).toOption.map
      (fun p => (p.1.gates.map (·.label), p.1.usersOf "r", p.2))) = some (["z", "p", "q", "r"], ["z"], 1) := by
  decide

#print axioms c19_replace_inputs_is_cofactor
#print axioms c19_remove_gate
#print axioms c19_remove_gate_rejects
#print axioms c19_rename_references_follow
#print axioms c19_rename_keeps_function
#print axioms c19_rename_keeps_invariant
#print axioms c19_replace_subcircuit_wellformed

end Cirbo
