import Cirbo.Model.Mutate2
/-! # C19 (placeholder until the theorems are in)
-- OBLIGATION: c19_placeholder
-/
namespace Cirbo
theorem c19_placeholder : True := trivial
#print axioms c19_placeholder
end Cirbo
