import Cirbo.Proofs.Connect
import Cirbo.Model.Miter
import Cirbo.Proofs.MiterFull
import Cirbo.Proofs.MiterTotal
/-!
# C13 — A miter is true exactly where the two circuits differ

-- OBLIGATION: c13_comparison_stage
-- OBLIGATION: c13_operands_keep_their_function
-- OBLIGATION: c13_shape_error
-- OBLIGATION: c13_miter_correct
-- OBLIGATION: c13_miter_true_iff_operands_differ
-- OBLIGATION: c13_build_miter_returns
-- PARTIAL: every clause has a theorem on the model: the end-to-end theorem for well-formed operands and non-empty block names (whenever build_miter returns), the shape error, and that it DOES return on operands of equal shape with the default block names (c13_build_miter_returns: each of the three connections meets the preconditions of the left-connection totality theorem — copy labels and block names stay apart because the prefixes circuit_left@ / circuit_right@ / pairwise_xor@ differ in a fixed position, generate_pairwise_xor's labels are pairwise distinct by injectivity of the decimal representation). 'Building it leaves both operands unmodified' is decided by the correspondence (Lean values cannot alias; the harness compares the operands before and after).
-/
namespace Cirbo
open GateType Circuit

/-- the comparison stage, for any number of outputs m ≥ 1 **including m = 1**: with gates
`x_i = XOR(l_i, r_i)` and the final gate over them (OR for m ≥ 2, buffer for m = 1), the miter
output is True exactly when some pair differs -/
theorem c13_comparison_stage {c : Circuit} {b v : Label → Bool} (hv : IsValB c b v)
    (ps : List (Label × Label × Label)) (out : Label)
    (hx : ∀ p ∈ ps, (⟨p.1, XOR, [p.2.1, p.2.2]⟩ : Gate) ∈ c.gates)
    (hout : (⟨out, if ps.length = 1 then IFF else OR, ps.map (·.1)⟩ : Gate) ∈ c.gates)
    (hm : 1 ≤ ps.length) :
    v out = true ↔ ∃ p ∈ ps, v p.2.1 ≠ v p.2.2 := miter_stage hv ps out hx hout hm

/-- every composition step of the miter is a left connection, which keeps the function of every
gate already present (so the left circuit's gates, once added, keep their values while the right
circuit and the xor stage are attached) -/
theorem c13_operands_keep_their_function {c other c' : Circuit} {thisC otherC : List Label} {name : Label}
    {addP : Bool} (h : c.connectCircuit other thisC otherC false name addP = .ok c')
    (hcl : ∀ g ∈ c.gates, ∀ o ∈ g.ops, o ∈ c.labels)
    (har : ∀ g ∈ other.gates, if g.ty = INPUT then True else arityOk g.ty g.ops.length = true)
    {b v : Label → Bool} (hv : IsValB c b v) :
    ∃ b' v', IsValB c' b' v' ∧ (∀ l ∈ c.labels, v' l = v l) ∧ (∀ l ∈ c.labels, b' l = b l) ∧
      (∀ l ∈ c.labels, l ∈ c'.labels) := connect_left_frame h hcl har hv

/-- mismatched shapes are rejected with the dedicated error and nothing else -/
theorem c13_shape_error (l r : Circuit) (ln rn : Label)
    (h : l.inputs.length ≠ r.inputs.length ∨ l.outputs.length ≠ r.outputs.length) :
    buildMiter l r ln rn = .error "MiterDifferentShapesError" := by
  unfold buildMiter
  have : (l.inputs.length != r.inputs.length || l.outputs.length != r.outputs.length) = true := by
    rcases h with h | h <;> simp [h]
  simp [this]

/-- **The miter, end to end.** For well-formed operands, whenever `build_miter` returns: the result has
the left operand's inputs (renamed by `φ0`) in the left operand's order — hence as many inputs — and
the single output `big_or`; every valuation of the miter restricts (through `φ0`, `φ1`) to a valuation
of the left operand and a valuation of the right operand that receive the same input values position
by position; and, with at least one output (a single output included), `big_or` is True exactly when
the two output vectors differ. -/
theorem c13_miter_correct {left right m : Circuit} {ln rn : Label} (hwl : WFG left) (hwr : WFG right)
    (hli : ∀ i ∈ left.inputs, ∃ g ∈ left.gates, g.label = i ∧ g.ty = INPUT)
    (hln : ln ≠ "") (hrn : rn ≠ "") (h : buildMiter left right ln rn = .ok m) :
    ∃ φ0 φ1 : Label → Label,
      m.inputs = left.inputs.map φ0 ∧ m.outputs = ["big_or"] ∧
      ∀ b v, IsValB m b v →
        IsValB left (v ∘ φ0) (v ∘ φ0) ∧ IsValB right (v ∘ φ1) (v ∘ φ1) ∧
        right.inputs.map (v ∘ φ1) = left.inputs.map (v ∘ φ0) ∧
        (1 ≤ left.outputs.length →
          (v "big_or" = true ↔ left.outputs.map (v ∘ φ0) ≠ right.outputs.map (v ∘ φ1))) :=
  miter_correct hwl hwr hli hln hrn h

/-- the same against the operands' own denotations: for any valuations `vL`, `vR` of the operands that
agree, position by position, with the values the miter's valuation gives its inputs, the miter's output
is True exactly when `vL` and `vR` give different output vectors (so the miter is satisfiable exactly
when the operands are not equivalent). Uses uniqueness of denotations (C01). -/
theorem c13_miter_true_iff_operands_differ {left right m : Circuit} {ln rn : Label}
    (hwl : WFU left) (hwr : WFU right) (hln : ln ≠ "") (hrn : rn ≠ "")
    (h : buildMiter left right ln rn = .ok m) (hn : 1 ≤ left.outputs.length)
    {b v : Label → Bool} (hv : IsValB m b v)
    {bL vL bR vR : Label → Bool} (hL : IsValB left bL vL) (hR : IsValB right bR vR)
    (hinL : left.inputs.map bL = m.inputs.map v) (hinR : right.inputs.map bR = m.inputs.map v) :
    (v "big_or" = true ↔ left.outputs.map vL ≠ right.outputs.map vR) := by
  have hli : ∀ i ∈ left.inputs, ∃ g ∈ left.gates, g.label = i ∧ g.ty = INPUT :=
    fun i hi => (hwl.inputsOK i).mp hi
  obtain ⟨φ0, φ1, him, _, hall⟩ := miter_correct hwl.toWFG hwr.toWFG hli hln hrn h
  obtain ⟨h0, h1, hconn, hiff⟩ := hall b v hv
  -- the restrictions are the operands' denotations under the same inputs
  have eqOn : ∀ {c : Circuit} (hw : WFU c) {b1 v1 b2 v2 : Label → Bool}, IsValB c b1 v1 → IsValB c b2 v2 →
      c.inputs.map b1 = c.inputs.map b2 → ∀ g ∈ c.gates, v1 g.label = v2 g.label := by
    intro c hw b1 v1 b2 v2 hv1 hv2 hin
    have hv2' : IsValB c b1 v2 := by
      intro g hg
      have := hv2 g hg
      by_cases ht : g.ty = INPUT
      · simp only [ht, if_true] at this ⊢
        have hgi : g.label ∈ c.inputs := (hw.inputsOK g.label).mpr ⟨g, hg, rfl, ht⟩
        have : b1 g.label = b2 g.label := by
          obtain ⟨k, hk, hkk⟩ := List.getElem_of_mem hgi
          have e1 := congrArg (fun l => l[k]?) hin
          simp only [List.getElem?_map, List.getElem?_eq_getElem hk, Option.map_some, Option.some.injEq, hkk] at e1
          exact e1
        rw [this]; assumption
      · simpa [ht] using this
    intro g hg
    exact valB_unique hw.toWF hv1 hv2' g hg
  have mapOut : ∀ {c : Circuit} (hw : WFU c) {v1 v2 : Label → Bool},
      (∀ g ∈ c.gates, v1 g.label = v2 g.label) → c.outputs.map v1 = c.outputs.map v2 := by
    intro c hw v1 v2 he
    apply List.map_congr_left
    intro o ho
    obtain ⟨g, hg, hgl⟩ : ∃ g ∈ c.gates, g.label = o := by simpa [Circuit.labels] using hw.outputsOK o ho
    rw [← hgl]; exact he g hg
  have inL : left.inputs.map (v ∘ φ0) = left.inputs.map bL := by
    rw [hinL, him, List.map_map]
  have inR : right.inputs.map (v ∘ φ1) = right.inputs.map bR := by
    rw [hconn, hinR, him, List.map_map]
  rw [hiff hn, mapOut hwl (eqOn hwl h0 hL inL), mapOut hwr (eqOn hwr h1 hR inR)]

/-- **`build_miter` returns** on any two operands of equal shape that satisfy the invariant, have distinct
block names and block outputs that exist — with the default block names `circuit_left` /
`circuit_right` (any names meeting `MiterNames` do) -/
theorem c13_build_miter_returns {left right : Circuit} (hL : MiterOperand left) (hR : MiterOperand right)
    (hi : left.inputs.length = right.inputs.length) (ho : left.outputs.length = right.outputs.length) :
    ∃ m, buildMiter left right "circuit_left" "circuit_right" = .ok m :=
  buildMiter_total miterNames_default hL hR hi ho

#print axioms c13_comparison_stage
#print axioms c13_operands_keep_their_function
#print axioms c13_shape_error
#print axioms c13_miter_correct
#print axioms c13_miter_true_iff_operands_differ
#print axioms c13_build_miter_returns

end Cirbo
