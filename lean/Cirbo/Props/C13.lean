import Cirbo.Proofs.Connect
import Cirbo.Model.Miter
/-!
# C13 — A miter is true exactly where the two circuits differ

-- OBLIGATION: c13_comparison_stage
-- OBLIGATION: c13_operands_keep_their_function
-- OBLIGATION: c13_shape_error
-- PARTIAL: the end-to-end theorem (the miter's output equals the disjunction of the differences of the two operands' outputs on shared inputs) needs the composition theorem for the attached circuit's gates (C10, pending); build_miter is modelled as the code composes it (add_circuit + connect_circuit + generate_pairwise_xor + connect_circuit + final gate) and compared exactly with the code; its value is checked on all assignments of every generated pair incl. single-output, shared labels, repeated outputs. "Operands unmodified" is correspondence-only.
-/
namespace Cirbo
open GateType Circuit

/-- the comparison stage, for any number of outputs m ≥ 1 **including m = 1**: with gates
`x_i = XOR(l_i, r_i)` and the final gate over them (OR for m ≥ 2, buffer for m = 1), the miter
output is True exactly when some pair differs -/
theorem c13_comparison_stage {c : Circuit} {b v : Label → Bool} (hv : IsValB c b v)
    (ps : List (Label × Label × Label)) (out : Label)
    (hx : ∀ p ∈ ps, (⟨p.1, XOR, [p.2.1, p.2.2]⟩ : Gate) ∈ c.gates)
    (hout : (⟨out, if ps.length = 1 then IFF else OR, ps.map (·.1)⟩ : Gate) ∈ c.gates)
    (hm : 1 ≤ ps.length) :
    v out = true ↔ ∃ p ∈ ps, v p.2.1 ≠ v p.2.2 := miter_stage hv ps out hx hout hm

/-- every composition step of the miter is a left connection, which keeps the function of every
gate already present (so the left circuit's gates, once added, keep their values while the right
circuit and the xor stage are attached) -/
theorem c13_operands_keep_their_function {c other c' : Circuit} {thisC otherC : List Label} {name : Label}
    {addP : Bool} (h : c.connectCircuit other thisC otherC false name addP = .ok c')
    (hcl : ∀ g ∈ c.gates, ∀ o ∈ g.ops, o ∈ c.labels)
    (har : ∀ g ∈ other.gates, if g.ty = INPUT then True else arityOk g.ty g.ops.length = true)
    {b v : Label → Bool} (hv : IsValB c b v) :
    ∃ b' v', IsValB c' b' v' ∧ (∀ l ∈ c.labels, v' l = v l) ∧ (∀ l ∈ c.labels, b' l = b l) ∧
      (∀ l ∈ c.labels, l ∈ c'.labels) := connect_left_frame h hcl har hv

/-- mismatched shapes are rejected with the dedicated error and nothing else -/
theorem c13_shape_error (l r : Circuit) (ln rn : Label)
    (h : l.inputs.length ≠ r.inputs.length ∨ l.outputs.length ≠ r.outputs.length) :
    buildMiter l r ln rn = .error "MiterDifferentShapesError" := by
  unfold buildMiter
  have : (l.inputs.length != r.inputs.length || l.outputs.length != r.outputs.length) = true := by
    rcases h with h | h <;> simp [h]
  simp [this]

#print axioms c13_comparison_stage
#print axioms c13_operands_keep_their_function
#print axioms c13_shape_error

end Cirbo
