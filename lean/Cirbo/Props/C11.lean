import Cirbo.Proofs.Bench
import Cirbo.Proofs.BenchDoc
import Cirbo.Proofs.BenchLayoutC
/-!
# C11 — Bench text round-trips and the parser is faithful

-- OBLIGATION: c11_keywords_roundtrip
-- OBLIGATION: c11_gate_line_never_a_declaration
-- OBLIGATION: c11_operand_list_roundtrip
-- OBLIGATION: c11_gate_line_roundtrip
-- OBLIGATION: c11_declaration_lines
-- OBLIGATION: c11_document_roundtrip
-- OBLIGATION: c11_gate_line_any_layout
-- OBLIGATION: c11_other_lines_any_layout
-- OBLIGATION: c11_document_any_declaration_order
-- OBLIGATION: c11_declaration_order_is_irrelevant
-- PARTIAL: every clause is proved on the parser model: the round trip for whole documents (c11_document_roundtrip); every accepted line form in any layout — spaces before/after the name, around '=', before '(', around every operand, operator keywords in any letter case, BUFF, vdd, INPUT/OUTPUT in any case with padded names, comments, blank lines, anything after ')' (c11_gate_line_any_layout, c11_other_lines_any_layout); and documents of such lines in any declaration order incl. use before definition (c11_document_any_declaration_order, c11_declaration_order_is_irrelevant). What 'the text denotes' is its list of statements (Stmt); that the result then computes the statements' function is C01's denotation of the gate list. Errors for malformed text (which exception class) are decided by correspondence only; the model's tie to the Python parser is the correspondence run.
-/
namespace Cirbo
open GateType

/-- printer keyword → parser dispatch: every non-INPUT type is printed with a keyword (BUFF for
IFF) that the parser maps back to that type, that does not trigger the `vdd` shortcut, and that
contains none of the structural characters -/
theorem c11_keywords_roundtrip (ty : GateType) (h : ty ≠ INPUT) :
    gateTypeOfKeyword (upperS (printedKeyword ty)) = some ty ∧
    upperS ((printedKeyword ty).take 3) ≠ strOf "VDD" ∧
    (∀ ch ∈ printedKeyword ty, ch ≠ '(' ∧ ch ≠ ')' ∧ ch ≠ ' ' ∧ ch ≠ '=') :=
  keyword_roundtrip ty h

/-- a gate line whose label is an identifier — including labels that begin with `input`/`output`
in any letter case — is never classified as blank, comment or INPUT/OUTPUT declaration -/
theorem c11_gate_line_never_a_declaration {lab tail : Str} (h : IsIdent lab) :
    let line := lab ++ ' ' :: tail
    line.isEmpty = false ∧ line ≠ ['\n'] ∧ line.head? ≠ some '#' ∧
    (strOf "INPUT(").isPrefixOf (upperS line) = false ∧
    (strOf "OUTPUT(").isPrefixOf (upperS line) = false :=
  gate_line_classified h

/-- `split(',')` + `strip(' ')` recover the operand list printed with `', '.join`, for any
number of identifier operands, in order -/
theorem c11_operand_list_roundtrip (o : Str) (ops : List Str) (ho : IsIdent o) (hops : ∀ x ∈ ops, IsIdent x) :
    (splitOn ',' (joinWith sepCS (o :: ops))).map (stripSet [' ']) = o :: ops :=
  split_join_operands o ops ho hops

/-- **Every printed gate line parses back to exactly that gate** (type, label, operand order),
for every gate type, arity accepted by the parser, identifier labels; with or without newline -/
theorem c11_gate_line_roundtrip (c : Circuit) (g : Gate) (hty : g.ty ≠ INPUT)
    (hl : IsIdent g.label.toList) (hops : ∀ o ∈ g.ops, IsIdent o.toList)
    (har : parserArityOk g.ty g.ops.length = true) (nl : Str) (hnl : nl = [] ∨ nl = ['\n']) :
    parseLine c (formatGate g ++ nl) = .ok (c.rawAddGate g) :=
  parseLine_formatGate c g hty hl hops har nl hnl

/-- printed `INPUT(l)` / `OUTPUT(l)` lines declare exactly `l` -/
theorem c11_declaration_lines (c : Circuit) (l : Label) (hl : IsIdent l.toList) (nl : Str)
    (hnl : nl = [] ∨ nl = ['\n']) :
    parseLine c (['I', 'N', 'P', 'U', 'T', '('] ++ l.toList ++ ')' :: nl) = .ok (c.rawAddGate ⟨l, INPUT, []⟩) ∧
    parseLine c (['O', 'U', 'T', 'P', 'U', 'T', '('] ++ l.toList ++ ')' :: nl)
      = .ok { c with outputs := c.outputs ++ [l] } :=
  ⟨parseLine_input c l hl nl hnl, parseLine_output c l hl nl hnl⟩

/-! Non-vacuity: identifiers exist (incl. keyword-prefixed ones), and a whole document round-trips -/
example : IsIdent "input_x".toList := ⟨by decide, by decide⟩
example : IsIdent "OUTPUT1".toList := ⟨by decide, by decide⟩
def exB : Circuit :=
  { gates := [⟨"a", INPUT, []⟩, ⟨"input_x", NOR, ["a", "a", "a"]⟩, ⟨"b", IFF, ["input_x"]⟩],
    inputs := ["a"], outputs := ["b", "a"], users := [("a", ["input_x", "input_x", "input_x"]), ("input_x", ["b"])],
    blocks := [] }
example : (parseBench (formatCircuit exB)).toOption = some exB := by decide

/-- **`from_bench_string(format_circuit(c)) == c` for whole circuits**: for every well-formed circuit
whose labels are identifiers and whose gate arities the reader accepts, the printed document — input
declarations, blank line, gate lines, blank line, output declarations, any section possibly empty — is
split into its lines and parsed back to a circuit with the same inputs in the same order, the same
outputs in the same order (repetitions included) and the same gate definitions. -/
theorem c11_document_roundtrip {c : Circuit} (hw : WF c) (hp : Printable c) :
    ∃ c', parseBench (formatCircuit c) = .ok c' ∧ c'.inputs = c.inputs ∧ c'.outputs = c.outputs ∧
      c'.gates.Perm c.gates :=
  bench_roundtrip hw hp

/-- **a gate line in any layout parses to exactly that gate**: any number of spaces before and after
the output name, around `=`, between the operator and `(`, around every operand (`ArgsLayout`); the
operator in any letter case (anything `gateTypeOfKeyword` accepts after upper-casing, e.g. `nand`,
`Buff`); anything at all after the closing parenthesis — as a statement usable in any document
(`LineSem`: with or without its line terminator, no newline inside) -/
theorem c11_gate_line_any_layout (g : Gate) (hty : g.ty ≠ INPUT)
    (hl : IsIdent g.label.toList) (hops : ∀ o ∈ g.ops, IsIdent o.toList)
    (har : parserArityOk g.ty g.ops.length = true)
    {sp0 sp1 sp2 sp3 kw A T : Str} (h0 : Sp sp0) (h1 : Sp sp1) (h2 : Sp sp2) (h3 : Sp sp3)
    (hkw : gateTypeOfKeyword (upperS kw) = some g.ty) (hA : ArgsLayout g.ops A) (hT : '\n' ∉ T) :
    LineSem (gateLine sp0 g.label.toList sp1 sp2 kw sp3 A T) (Stmt.gate g).apply :=
  gate_layout_sem g hty hl hops har h0 h1 h2 h3 hkw hA hT

/-- the other line forms: `INPUT(name)` / `OUTPUT(name)` with the keyword in any letter case and the
name padded by spaces and parentheses; `name = vdd` (any case, any spaces, anything after it) is the
constant-true gate; comment lines and blank lines say nothing -/
theorem c11_other_lines_any_layout (l : Label) (hl : IsIdent l.toList) :
    (∀ {kw p1 p2 : Str}, upperS kw = strOf "INPUT(" → DeclPad p1 → DeclPad p2 → '\n' ∉ p1 → '\n' ∉ p2 →
      LineSem (kw ++ p1 ++ l.toList ++ p2) (Stmt.gate ⟨l, .INPUT, []⟩).apply) ∧
    (∀ {kw p1 p2 : Str}, upperS kw = strOf "OUTPUT(" → DeclPad p1 → DeclPad p2 → '\n' ∉ p1 → '\n' ∉ p2 →
      LineSem (kw ++ p1 ++ l.toList ++ p2) (Stmt.output l).apply) ∧
    (∀ {sp0 sp1 sp2 v T : Str}, Sp sp0 → Sp sp1 → Sp sp2 → upperS v = strOf "VDD" → '\n' ∉ T →
      LineSem (sp0 ++ l.toList ++ sp1 ++ '=' :: (sp2 ++ v ++ T)) (Stmt.gate ⟨l, .ALWAYS_TRUE, []⟩).apply) ∧
    (∀ {rest : Str}, '\n' ∉ rest → LineSem ('#' :: rest) Stmt.skip.apply) ∧
    LineSem [] Stmt.skip.apply :=
  ⟨fun hk h1 h2 n1 n2 => input_layout_sem l hl hk h1 h2 n1 n2,
   fun hk h1 h2 n1 n2 => output_layout_sem l hl hk h1 h2 n1 n2,
   fun h0 h1 h2 hv hT => vdd_layout_sem l hl h0 h1 h2 hv hT,
   fun h => comment_sem h, blank_line_sem⟩

/-- **any declaration order**: a document whose lines (each in any accepted layout) say the statements
`ss`, with pairwise distinct gate names, parses to the circuit that has exactly the gates of `ss`
(line order), the inputs in `INPUT`-line order and the outputs in `OUTPUT`-line order — as long as
every operand is defined somewhere in the document, before or after its use; otherwise
`CircuitValidationError` -/
theorem c11_document_any_declaration_order (ls : StmtLines) (h : ∀ p ∈ ls, LineSem p.1 p.2.apply)
    (hnd : ((stmtGates (ls.map (·.2))).map (·.label)).Nodup) :
    let gs := stmtGates (ls.map (·.2))
    if gs.all (fun g => g.ops.all (fun o => gs.any (fun x => x.label == o))) then
      ∃ c, parseBench (docText ls) = .ok c ∧ c.gates = gs ∧
        c.inputs = (gs.filter (fun g => g.ty = .INPUT)).map (·.label) ∧ c.outputs = stmtOuts (ls.map (·.2))
    else parseBench (docText ls) = .error "CircuitValidationError" :=
  parse_document ls h hnd

/-- two documents that say the same gate definitions (as a multiset) and list the `INPUT` lines and
the `OUTPUT` lines in the same relative order parse to circuits with the same input list, the same
output list, the same gate definitions — hence exactly the same valuations (the same function) -/
theorem c11_declaration_order_is_irrelevant (l1 l2 : StmtLines) (h1 : ∀ p ∈ l1, LineSem p.1 p.2.apply)
    (h2 : ∀ p ∈ l2, LineSem p.1 p.2.apply)
    (hnd : ((stmtGates (l1.map (·.2))).map (·.label)).Nodup)
    (hperm : (stmtGates (l1.map (·.2))).Perm (stmtGates (l2.map (·.2))))
    (hin : (stmtGates (l1.map (·.2))).filter (fun g => g.ty = .INPUT) = (stmtGates (l2.map (·.2))).filter (fun g => g.ty = .INPUT))
    (hout : stmtOuts (l1.map (·.2)) = stmtOuts (l2.map (·.2)))
    {c1 : Circuit} (hp1 : parseBench (docText l1) = .ok c1) :
    ∃ c2, parseBench (docText l2) = .ok c2 ∧ c2.inputs = c1.inputs ∧ c2.outputs = c1.outputs ∧
      c2.gates.Perm c1.gates ∧ ∀ b v, IsValB c1 b v ↔ IsValB c2 b v :=
  parse_order_independent l1 l2 h1 h2 hnd hperm hin hout hp1

/-! Non-vacuity: a hand-written document — use before definition, odd spacing, mixed case, BUFF, vdd,
a comment, a blank line, junk after a parenthesis -/
example : (parseBench ("# c\n\noutput( y )\n y =nAnd ( a ,t )  junk\nInPuT(a)\nt = vdd\nz= Buff(y)\n".toList)).toOption.map
    (fun c => (c.gates.map (fun g => (g.label, g.ty, g.ops)), c.inputs, c.outputs)) =
    some ([("y", .NAND, ["a", "t"]), ("a", .INPUT, []), ("t", .ALWAYS_TRUE, []), ("z", .IFF, ["y"])], ["a"], ["y"]) := by
  decide
/-- and that very gate line is an instance of the layout theorem -/
example : gateLine [' '] "y".toList [' '] [] "nAnd".toList [' '] (joinWith [','] (List.zipWith padOp ["a", "t"] [([' '], [' ']), ([], [' '])])) "  junk".toList
    = " y =nAnd ( a ,t )  junk".toList := by decide

#print axioms c11_keywords_roundtrip
#print axioms c11_gate_line_never_a_declaration
#print axioms c11_operand_list_roundtrip
#print axioms c11_gate_line_roundtrip
#print axioms c11_declaration_lines
#print axioms c11_document_roundtrip
#print axioms c11_gate_line_any_layout
#print axioms c11_other_lines_any_layout
#print axioms c11_document_any_declaration_order
#print axioms c11_declaration_order_is_irrelevant

end Cirbo
