import Cirbo.Proofs.Bench
import Cirbo.Proofs.BenchDoc
/-!
# C11 — Bench text round-trips and the parser is faithful

-- OBLIGATION: c11_keywords_roundtrip
-- OBLIGATION: c11_gate_line_never_a_declaration
-- OBLIGATION: c11_operand_list_roundtrip
-- OBLIGATION: c11_gate_line_roundtrip
-- OBLIGATION: c11_declaration_lines
-- OBLIGATION: c11_document_roundtrip
-- PARTIAL: the round trip is proved for whole documents (c11_document_roundtrip). The layout-independence theorem for arbitrary hand-written text (random spaces / letter case / line order / comments / blank lines) is not proved; it is exercised by exact correspondence of the parser model with the code on such texts and by the layout search on every run. Errors for malformed text are decided by correspondence.
-/
namespace Cirbo
open GateType

/-- printer keyword → parser dispatch: every non-INPUT type is printed with a keyword (BUFF for
IFF) that the parser maps back to that type, that does not trigger the `vdd` shortcut, and that
contains none of the structural characters -/
theorem c11_keywords_roundtrip (ty : GateType) (h : ty ≠ INPUT) :
    gateTypeOfKeyword (upperS (printedKeyword ty)) = some ty ∧
    upperS ((printedKeyword ty).take 3) ≠ strOf "VDD" ∧
    (∀ ch ∈ printedKeyword ty, ch ≠ '(' ∧ ch ≠ ')' ∧ ch ≠ ' ' ∧ ch ≠ '=') :=
  keyword_roundtrip ty h

/-- a gate line whose label is an identifier — including labels that begin with `input`/`output`
in any letter case — is never classified as blank, comment or INPUT/OUTPUT declaration -/
theorem c11_gate_line_never_a_declaration {lab tail : Str} (h : IsIdent lab) :
    let line := lab ++ ' ' :: tail
    line.isEmpty = false ∧ line ≠ ['\n'] ∧ line.head? ≠ some '#' ∧
    (strOf "INPUT(").isPrefixOf (upperS line) = false ∧
    (strOf "OUTPUT(").isPrefixOf (upperS line) = false :=
  gate_line_classified h

/-- `split(',')` + `strip(' ')` recover the operand list printed with `', '.join`, for any
number of identifier operands, in order -/
theorem c11_operand_list_roundtrip (o : Str) (ops : List Str) (ho : IsIdent o) (hops : ∀ x ∈ ops, IsIdent x) :
    (splitOn ',' (joinWith sepCS (o :: ops))).map (stripSet [' ']) = o :: ops :=
  split_join_operands o ops ho hops

/-- **Every printed gate line parses back to exactly that gate** (type, label, operand order),
for every gate type, arity accepted by the parser, identifier labels; with or without newline -/
theorem c11_gate_line_roundtrip (c : Circuit) (g : Gate) (hty : g.ty ≠ INPUT)
    (hl : IsIdent g.label.toList) (hops : ∀ o ∈ g.ops, IsIdent o.toList)
    (har : parserArityOk g.ty g.ops.length = true) (nl : Str) (hnl : nl = [] ∨ nl = ['\n']) :
    parseLine c (formatGate g ++ nl) = .ok (c.rawAddGate g) :=
  parseLine_formatGate c g hty hl hops har nl hnl

/-- printed `INPUT(l)` / `OUTPUT(l)` lines declare exactly `l` -/
theorem c11_declaration_lines (c : Circuit) (l : Label) (hl : IsIdent l.toList) (nl : Str)
    (hnl : nl = [] ∨ nl = ['\n']) :
    parseLine c (['I', 'N', 'P', 'U', 'T', '('] ++ l.toList ++ ')' :: nl) = .ok (c.rawAddGate ⟨l, INPUT, []⟩) ∧
    parseLine c (['O', 'U', 'T', 'P', 'U', 'T', '('] ++ l.toList ++ ')' :: nl)
      = .ok { c with outputs := c.outputs ++ [l] } :=
  ⟨parseLine_input c l hl nl hnl, parseLine_output c l hl nl hnl⟩

/-! Non-vacuity: identifiers exist (incl. keyword-prefixed ones), and a whole document round-trips -/
example : IsIdent "input_x".toList := ⟨by decide, by decide⟩
example : IsIdent "OUTPUT1".toList := ⟨by decide, by decide⟩
def exB : Circuit :=
  { gates := [⟨"a", INPUT, []⟩, ⟨"input_x", NOR, ["a", "a", "a"]⟩, ⟨"b", IFF, ["input_x"]⟩],
    inputs := ["a"], outputs := ["b", "a"], users := [("a", ["input_x", "input_x", "input_x"]), ("input_x", ["b"])],
    blocks := [] }
example : (parseBench (formatCircuit exB)).toOption = some exB := by decide

/-- **`from_bench_string(format_circuit(c)) == c` for whole circuits**: for every well-formed circuit
whose labels are identifiers and whose gate arities the reader accepts, the printed document — input
declarations, blank line, gate lines, blank line, output declarations, any section possibly empty — is
split into its lines and parsed back to a circuit with the same inputs in the same order, the same
outputs in the same order (repetitions included) and the same gate definitions. -/
theorem c11_document_roundtrip {c : Circuit} (hw : WF c) (hp : Printable c) :
    ∃ c', parseBench (formatCircuit c) = .ok c' ∧ c'.inputs = c.inputs ∧ c'.outputs = c.outputs ∧
      c'.gates.Perm c.gates :=
  bench_roundtrip hw hp

#print axioms c11_keywords_roundtrip
#print axioms c11_gate_line_never_a_declaration
#print axioms c11_operand_list_roundtrip
#print axioms c11_gate_line_roundtrip
#print axioms c11_declaration_lines
#print axioms c11_document_roundtrip

end Cirbo
