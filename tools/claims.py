NOTE_COMMON = ('Trusted: Lean kernel; axioms propext/Classical.choice/Quot.sound only (audited each run); '
               'extract_tables.py translator; hand-written Model tied to the code by differential correspondence '
               '(tested, not proved); CPython. ')
CLAIMED['C15'] = (
    'DESIGN.md 5/C15',
    'Theorems for all circuits/arities/assignments: every operator of the regenerated tables is monotone and sound w.r.t. the '
    'Boolean spec at every arity (fold induction over finite table facts); evaluate_full_circuit (Kahn order + fold) never raises on '
    'well-formed circuits and yields a valuation; soundness, monotonicity, totality follow by rank induction; evaluate_circuit '
    '(explicit stack) is proved partially correct (sound at every gate, monotone/total at requested outputs). The model is re-tied to '
    'the code on every run (tables regenerated, 3^n partial assignments compared on 3 entry points).',
    NOTE_COMMON + 'Termination of the explicit-stack loop within the model fuel is checked by correspondence, not proved.',
    'Lean 4 proof (rank induction, loop invariants) + regenerated tables + differential correspondence')
NOT_CLAIMED = {}
CLAIMED['C01'] = (
    'DESIGN.md 5/C01',
    'Theorems for all circuits and total assignments: the operator of every gate type at every arity is the fixed Boolean '
    'function bfun (fold induction over the regenerated tables, which are also shown row by row to be what the reduce-shaped '
    'model computes); the denotation exists, is unique and independent of storage order; evaluate_full_circuit returns it on every '
    'gate and never raises; evaluate_circuit returns it on every requested output whenever it returns. Entry-point projections '
    '(evaluate, evaluate_at, truth tables) are modelled and compared with the code on every run.',
    NOTE_COMMON + 'Projection lemmas for evaluate/evaluate_at/get_truth_table and termination of the explicit-stack loop are '
    'validated by correspondence, not proved.',
    'Lean 4 proof (fold/rank induction, Kahn invariant) + regenerated tables + differential correspondence')
