NOTE_COMMON = ('Trusted: Lean kernel; axioms propext/Classical.choice/Quot.sound only (audited each run); '
               'extract_tables.py translator; hand-written Model tied to the code by differential correspondence '
               '(tested, not proved); CPython. ')
CLAIMED['C15'] = (
    'DESIGN.md 5/C15',
    'Theorems for all circuits/arities/assignments: every operator of the regenerated tables is monotone and sound w.r.t. the '
    'Boolean spec at every arity (fold induction over finite table facts); evaluate_full_circuit (Kahn order + fold) never raises on '
    'well-formed circuits and yields a valuation; soundness, monotonicity, totality follow by rank induction; evaluate_circuit '
    '(explicit stack) is proved partially correct (sound at every gate, monotone/total at requested outputs). The model is re-tied to '
    'the code on every run (tables regenerated, 3^n partial assignments compared on 3 entry points).',
    NOTE_COMMON + 'Termination of the explicit-stack loop within the model fuel is checked by correspondence, not proved.',
    'Lean 4 proof (rank induction, loop invariants) + regenerated tables + differential correspondence')
NOT_CLAIMED = {}
