NOTE_COMMON = ('Trusted: Lean kernel; axioms propext/Classical.choice/Quot.sound only (audited each run); '
               'extract_tables.py translator; hand-written Model tied to the code by differential correspondence '
               '(tested, not proved); CPython. ')
CLAIMED['C15'] = (
    'DESIGN.md 5/C15',
    'Theorems for all circuits/arities/assignments: every operator of the regenerated tables is monotone and sound w.r.t. the '
    'Boolean spec at every arity (fold induction over finite table facts); evaluate_full_circuit (Kahn order + fold) never raises on '
    'well-formed circuits and yields a valuation; soundness, monotonicity, totality follow by rank induction; evaluate_circuit '
    '(explicit stack) is proved partially correct (sound at every gate, monotone/total at requested outputs). The model is re-tied to '
    'the code on every run (tables regenerated, 3^n partial assignments compared on 3 entry points).',
    NOTE_COMMON + 'Termination of the explicit-stack loop within the model fuel is checked by correspondence, not proved.',
    'Lean 4 proof (rank induction, loop invariants) + regenerated tables + differential correspondence')
NOT_CLAIMED = {}
CLAIMED['C01'] = (
    'DESIGN.md 5/C01',
    'Theorems for all circuits and total assignments: the operator of every gate type at every arity is the fixed Boolean '
    'function bfun (fold induction over the regenerated tables, which are also shown row by row to be what the reduce-shaped '
    'model computes); the denotation exists, is unique and independent of storage order; evaluate_full_circuit returns it on every '
    'gate and never raises; evaluate_circuit returns it on every requested output whenever it returns; evaluate, evaluate_at, '
    'get_truth_table and get_gates_truth_table are the stated projections of it; every other interpreter of gate types (CNF templates at every arity, the two '
    'regenerated truth-table code tables, pattern simulation, bench conversion) denotes the same bfun. All entry points are compared with the code on every run.',
    NOTE_COMMON + 'Termination of the explicit-stack loop is validated by correspondence, not proved (partial correctness).',
    'Lean 4 proof (fold/rank induction, Kahn invariant) + regenerated tables + differential correspondence')
CLAIMED['C20'] = (
    'DESIGN.md 5/C20',
    'Theorems: the order-faithful Kahn model (LIFO work list, multiset successor lists) yields, on every well-formed circuit and in '
    'both directions, a permutation of the gates with every gate after (resp. before) all of its operands and never raises; the '
    'single-work-list DFS/BFS model yields exactly the gates reachable from any start list in either direction, each once, and hands '
    'exactly the unreached gates to the unvisited hook (storage or topological order). Event logs of the real traversals (all hooks) '
    'and the cycle check are compared with the model on DAGs and deliberately cyclic netlists on every run.',
    NOTE_COMMON + 'DFS enter/exit ordering, post-order and cycle-check exactness are modelled and correspondence-checked; their theorems '
    'are not proved yet (listed as partial in the evidence). Traversal theorems are partial-correctness (fuel).',
    'Lean 4 proof (loop invariants for Kahn and the work-list traversal) + differential correspondence of event logs')
CLAIMED['C05'] = (
    'DESIGN.md 5/C05',
    'Theorems for all circuits, output selections and assignments: every clause template (regenerated from the code for arity<=4 '
    'and shown equal to the model template; the model templates proved exact at EVERY accepted arity, incl. n-ary AND/OR/NAND/NOR by '
    'induction and XOR/NXOR parity clauses) ; the literal allocation (inputs first: input i = variable i+1; operands before the gate) '
    'and recursion of tseytin_transformation maintain an invariant from which: CNF + total input assignment is satisfiable iff all '
    'selected outputs evaluate to True, the satisfying extension gives every encoded gate its evaluated value (and is unique), and the '
    'satisfiability query with any sound+complete solver answers True iff some input makes all outputs True. Clause lists and literal '
    'maps of the real transformation are compared exactly with the model on every run.',
    NOTE_COMMON + 'pysat is absent in this sandbox: a shim (DPLL / z3 -dimacs, models re-checked) stands in for the solver; the solver is '
    'a parameter of the theorem. Python recursion limit not modelled.',
    'Lean 4 proof (template exactness by induction, allocation invariant, rank induction) + regenerated templates + exact CNF correspondence')
CLAIMED['C16'] = (
    'DESIGN.md 5/C16',
    'Theorems (all values, no bound): a number below 2^w written with w bits anywhere in a bit stream (any prefix/suffix, across byte '
    'boundaries, with padding) is read back exactly and larger numbers are rejected; the binary dictionary reader inverts the writer for '
    'every dictionary with distinct byte-string keys that fits the length fields, rejects every strict prefix and any trailing byte. '
    'The circuit codec (word size, dependency-order numbering, token stream, decoder) is modelled in Lean and compared byte for byte '
    'with the code on every run (conforming and non-conforming circuits, corrupted and truncated streams); the implementation round '
    'trip (counts, truth table, per-gate tables) is checked on every generated circuit.',
    NOTE_COMMON + 'The circuit-level theorem decode(encode c) ~ c is not proved yet (partial): that clause currently rests on the '
    'byte-exact correspondence plus the search oracle. Keys are byte strings in the model (CPython UTF-8 codec trusted).',
    'Lean 4 proof (bit/byte packing induction, length-prefixed parser inversion + prefix monotonicity) + regenerated codec tables + byte-exact correspondence')
CLAIMED['C12'] = (
    'DESIGN.md 5/C12',
    'Theorems for every function (any n, m, any evaluation function): the enumeration used by all queries is exactly the set of input '
    'vectors; is_constant(_at), is_output_equal_to_input(_negation), is_dependent_on_input_at / get_significant_inputs_of equal their '
    'mathematical definitions; the two differently written is_monotone_at scans (Circuit vs PyFunction/TruthTable) are the same predicate '
    'and equal the documented ordering notion, likewise is_monotone of Circuit and TruthTable. All three implementations (+ callables that '
    'return their argument object or tuples) are compared with the model on all 12 queries, exhaustively for small shapes, and the '
    'implementation answers are compared with brute-force definitions.',
    NOTE_COMMON + 'Symmetry queries, negation search, PyFunction.is_monotone, TruthTable index-based shortcuts, define() and integer wrappers are '
    'modelled and correspondence/search-checked but not yet proved (partial, listed in evidence).',
    'Lean 4 proof (enumeration completeness, scan invariants) + exhaustive small-shape correspondence of three implementations')
CLAIMED['C11'] = (
    'DESIGN.md 5/C11',
    'Theorems on character lists, for all identifier labels (incl. input*/OUTPUT* prefixed), all gate types and arities: a printed gate '
    'line is never classified as blank/comment/declaration; the printed keyword dispatches to the same type (BUFF/IFF) and never triggers '
    'the vdd shortcut; split/strip recover the operand list of any length in order; hence parseLine(format_gate(g)) adds exactly g '
    '(label, type, operand order), with or without newline; INPUT(l)/OUTPUT(l) lines declare exactly l. Printer and parser models are '
    'compared exactly with the code (formatted text, parsed circuits incl. users index, error classes) on circuits and on random '
    'layouts (order, case, spaces, comments, aliases); the implementation round trip incl. the file path is checked on every circuit.',
    NOTE_COMMON + 'Document-level assembly and layout-independence are not proved yet (partial); file IO is exercised through temp files only.',
    'Lean 4 proof (string lemmas: strip/split/find, classification) + exact printer/parser correspondence')
CLAIMED['C14'] = (
    'DESIGN.md 5/C14',
    'Theorems for all circuits (distinct labels, closed operands, accepted arities) and all assignments: each of the ten converter '
    'rewrites, and into_bench as the fold over a snapshot of the gate map, extend every valuation of the original to the result agreeing '
    'on all original gates (so the truth table is unchanged, incl. GT(x,x)-shaped gates, L*/R* gates and constants with operands), keep '
    'inputs/outputs, keep the netlist closed with distinct labels and accepted arities, and leave only bench-basis gate types. The '
    'model (users-index edits, block bookkeeping, pinned uuid labels) is compared exactly with the code on every run and every '
    'converted circuit is passed through the Lean well-formedness checker.',
    NOTE_COMMON + 'Users index / acyclicity / block membership after conversion: exact correspondence + checkWFU, not proved (partial).',
    'Lean 4 proof (per-rewrite semantic lemma + fold invariant over the snapshot iteration) + exact correspondence incl. users index')
CLAIMED['C02'] = (
    'DESIGN.md 5/C02',
    'Invariant by induction over operations (no bound on history length): the full C02 state predicate WFS (operands/outputs exist, '
    'users index = inverse operand multiset, input list = INPUT gates each once, acyclic by a rank, block labels exist) holds for the '
    'empty circuit and is preserved by add_gate/emplace_gate, add_inputs, mark_as_output, set_outputs, set_inputs, order_inputs, '
    'order_outputs, replace_inputs, make_block, delete_block and remove_gate; hence by every finite history of them, after which both topological '
    'iterations yield every gate once in dependency order (C20). All other mutators (rename, blocks removal and slices, '
    'connect_circuit both directions, replace_subcircuit, into_bench, copy) are modelled one-to-one and compared field by field with '
    'the code after every call of random histories; every state the code produces goes through the Lean checker checkWFU.',
    NOTE_COMMON + 'Invariant lemmas for rename_gate, connect_circuit, replace_subcircuit, into_bench(users), copy are not '
    'proved yet (partial). Aliasing clause of copy: correspondence-only.',
    'Lean 4 proof (state invariant by induction over operation histories; users-multiset lemmas) + per-call correspondence of histories')
CLAIMED['C19'] = (
    'DESIGN.md 5/C19',
    'Theorems: replace_inputs yields exactly the cofactor (any valuation of the original under t->True,f->False is a valuation of the '
    'result under every assignment of the remaining inputs; remaining inputs = originals minus t,f as a sublist; outputs unchanged; '
    'invariant WFS kept); remove_gate succeeds only for an existing gate without users and removes it from gate map, outputs and '
    'blocks, with the exact error class otherwise. rename_gate and replace_subcircuit are modelled one-to-one and compared with the '
    'code on every gate / many cut-bounded slices (identical, renamed, re-expressed, incomplete mappings), with truth-table and '
    'checkWFU oracles.',
    NOTE_COMMON + 'rename_gate and replace_subcircuit theorems not proved yet (partial).',
    'Lean 4 proof (fold invariant for replace_inputs, field characterisation for remove_gate) + exact correspondence')
CLAIMED['C10'] = (
    'DESIGN.md 5/C10',
    'Theorems (all circuits, connector choices incl. internal and repeated base gates, name/prefix options, all assignments): the '
    'frame lemma for add_gate and, through the loop invariant of the modelled connect_circuit, every left connection (connect_left, '
    'extend_circuit, add_circuit) only adds gates and leaves the value of every base gate unchanged, AND the attached gates compute the '
    'attached circuit\'s function of the connector values (loop invariant over the renaming table in topological order). The whole of connect_circuit '
    '(both directions, wrappers, interface recomputation, block creation) is modelled one-to-one and compared with the code field by '
    'field incl. repeated composition; the implementation is checked on every generated pair against the composed evaluation of the '
    'two operands on all assignments, the documented interface, checkWFU and block extraction.',
    NOTE_COMMON + 'Interface lists, right-connect and block extraction are not proved yet (partial); '
    '"attached circuit not modified" is correspondence-only.',
    'Lean 4 proof (frame lemma + loop invariant over the modelled connect loop) + field-exact correspondence and composed-evaluation oracle')
CLAIMED['C13'] = (
    'DESIGN.md 5/C13',
    'Theorems: the comparison stage for any m>=1 (XOR pairs + OR for m>=2 / buffer for m=1) is True exactly when some pair differs '
    '(n-ary OR fold); every composition step of the miter keeps the function of gates already present (left-connection frame theorem); '
    'mismatched shapes give exactly MiterDifferentShapesError. build_miter is modelled as the code composes it and compared exactly; '
    'the implementation\'s miter is evaluated on all assignments for every pair (single output, shared labels, repeated outputs, outputs '
    'that are inputs) and its satisfiability checked through the C05 path.',
    NOTE_COMMON + 'End-to-end miter theorem pending the composition theorem of C10 (partial). Operands unmodified: correspondence-only.',
    'Lean 4 proof (OR-of-XORs stage, frame theorem) + exact correspondence + exhaustive evaluation oracle')
CLAIMED['C03'] = (
    'DESIGN.md 5/C03',
    'Theorems for every circuit satisfying the C02 invariant with accepted arities: all four passes — RemoveRedundantGates (both modes), '
    'MergeUnaryOperators (parity maps over NOT/LNOT/RNOT and IFF/LIFF/RIFF chains), MergeDuplicateGates (signatures; symmetric types '
    'proved order-independent from the regenerated is_symmetric table) and MergeEquivalentGates (equal rows of get_gates_truth_table '
    'mean equal functions: row semantics of the nested dict folds + evaluator correctness + completeness of the input enumeration) — '
    'return a circuit satisfying the invariant again, with the inputs in order (dropped only when requested), the same number of '
    'outputs, on which every valuation of the argument is a valuation of the result giving every output position the same value, i.e. the '
    'identical truth table (uniqueness of valuations); RRG never returns more gates. The same for EVERY pipeline: Transformer.transform, '
    't1 | t2, apply_transformers on any (nested) list, cleanup light and heavy. Passes and pipeline machinery are modelled one-to-one and '
    'compared with the code field by field on every run; the search compares truth table, interface and size on the real passes and '
    'pipelines and that the argument is left untouched.',
    NOTE_COMMON + '"Argument not modified" is correspondence-only. Partial correctness (whenever the pass returns).',
    'Lean 4 proof (DFS reachability invariant, rebuild fold invariants, parity/signature/truth-table-group invariants, permutation lemmas) + field-exact correspondence + truth-table oracle')
CLAIMED['C18'] = (
    'DESIGN.md 5/C18',
    'Theorems: RemoveRedundantGates returns exactly the gates reachable from the outputs (DFS exit set = reachability closure), plus all '
    'inputs unless removal was requested, each gate unchanged; Transformer pipelines: apply_transformers, the pipe operator and cleanup '
    'equal manual sequencing of the linearised constituent passes, given idempotence of RemoveRedundantGates (reduction drops only a '
    'RemoveRedundantGates equal to its predecessor). Postconditions of the merging passes, idempotence of RRG and pipeline=sequencing '
    'are checked on the real code on every run; the passes and the pipeline machinery are modelled one-to-one and compared exactly.',
    NOTE_COMMON + 'RRG idempotence is a hypothesis of the pipeline theorems (checked on the code and the model on every run, not yet proved); '
    'postcondition theorems of MDG/MEG/MUO not proved yet (partial).',
    'Lean 4 proof (DFS exit-set exactness, list induction over linearisation/reduction) + exact correspondence + postcondition oracles')
CLAIMED['C07'] = (
    'DESIGN.md 5/C07',
    'Every add_* generator is a program over four primitives (fresh uuid label, add_gate, mark_as_output, raise); two theorems hold for '
    'ALL such programs: (frame) on a host satisfying the C02 invariant only fresh non-INPUT gates of accepted arity are appended, '
    'inputs/blocks/old gates are untouched and every valuation of the host extends to the result (pre-existing gates keep their '
    'function); (soundness) every valuation of the result satisfies the equations of the added gates. On top: the regenerated '
    'binary_tt_to_type table is correct; all seven blocks (half/full adders XAIG+AIG, Stockmeyer, MDFA, simplified MDFA); '
    'add_sum_n_bits (XAIG MDFA scheme, AIG scheme, easy) = number of true bits for every n, basis spelling, endianness; '
    'add_sum_two_numbers = a+b and with_shift = a+b*2^shift for every shift; add_sum_n_weighted_bits and _naive: '
    'sum(out*2^level)=sum(in*2^weight) with strictly increasing output levels (sorted-list/sentinel loop invariant incl. the level '
    'bound that makes the sentinel break unreachable); AIG basis (enum or any string spelling) adds no XOR/NXOR. The modelled '
    'generators are compared gate for gate (uuid pinned) with the code on hosts built through the public API.',
    NOTE_COMMON + 'Gate-count bounds and add_sum_pow2_m1 value: search oracle only (partial). Fuel sufficiency by correspondence.',
    'Lean 4 proof (free-monad program logic: frame + soundness once, loop invariants per generator) + regenerated table + gate-exact correspondence')
CLAIMED['C09'] = (
    'DESIGN.md 5/C09',
    'Through the program logic of C07 (frame + soundness for every generator program): add_sub_two_numbers = (a-b) mod 2^|a| '
    '(borrow-chain invariant, any widths); add_subtract_with_compare on unequal widths and both endiannesses: a + 2^w*borrow = b + res '
    'and borrow flag <=> a<b; add_equal (width>=1): True exactly when the little-endian operand equals the constant, never when the '
    'constant does not fit (binary-digit lemmas); add_plus_one = (x+1) mod 2^out_len for every out_len; if-then-else and the '
    'pairwise gadgets pointwise; outputs untouched without add_outputs. All eleven generators incl. add_div_mod and add_sqrt are '
    'modelled one-to-one and compared gate for gate (uuid pinned) on hosts built through the public API, operands = inputs or '
    'internal gates; the search evaluates the real results on all assignments.',
    NOTE_COMMON + 'add_div_mod and add_sqrt value theorems not proved yet (partial; frame theorem applies; correspondence + exhaustive oracle). '
    'Width 0 excluded.',
    'Lean 4 proof (free-monad program logic + chain invariants) + gate-exact correspondence + exhaustive evaluation oracle')
CLAIMED['C08'] = (
    'DESIGN.md 5/C08',
    'Through the program logic of C07: frame theorem for every mode; the partial-product matrix sums to a*b; add_mul_alter = a*b '
    'exactly for all widths and both endiannesses; add_mul (DEFAULT) = a*b exactly (the weighted sum returns levels 0,1,2,... in order on gapless weights — a second loop invariant over the sorted work lists). All six '
    'multiplication modes (incl. both Karatsuba variants with their recursion thresholds, Dadda, Wallace, 2^k-1) and both squarers '
    '(incl. the split at n>=48) are modelled one-to-one and compared gate for gate (uuid pinned) on hosts built through the public API '
    '(widths to 40x40 / 56); the search checks the real generators exhaustively for n+m<=12 and on random, extreme and dense operands '
    'above (widths chosen where each mode changes behaviour), result widths, and host operands that are internal gates.',
    NOTE_COMMON + 'Value theorems for Karatsuba, Dadda, Wallace, 2^k-1, squarers and the result widths are not proved yet '
    '(partial; gate-exact correspondence + oracle).',
    'Lean 4 proof (free-monad program logic, partial-product lemma, shift-add invariant) + gate-exact correspondence + value oracle')
CLAIMED['C06'] = (
    'DESIGN.md 5/C06',
    'Theorems about the CNF encoding (variables s/g/x/f, clause groups and user constraints mirrored from the code): SOUNDNESS — every '
    'satisfying assignment decodes to a circuit with exactly N gates, each reading two distinct earlier positions with an operation of '
    'the basis (built-in or custom), every output at a gate, agreeing with every table entry that is not a don\'t-care (value variables '
    '= evaluated values by induction over positions; don\'t-care rows skipped only when every output is a don\'t-care), and obeying '
    'every fix_gate / forbid_wire / normalisation constraint; COMPLETENESS — every such circuit is a satisfying assignment and decodes '
    'back to itself; hence with any sound+complete solver find_circuit returns only such circuits and raises NoSolutionError exactly '
    'when none exists. The regenerated _tt_to_gate_type table is proved correct. The code\'s clause multiset (names via IDPool) and '
    'its decoding of a model are compared with the Lean encoding on every run; the search cross-checks NoSolutionError by brute force.',
    NOTE_COMMON + 'pysat absent: shim solver (DPLL / z3, models re-checked); solver is a parameter of the theorem. Time-limit path and DB shortcut not modelled.',
    'Lean 4 proof (encoding soundness + completeness, exactly-one lemmas, induction over gate positions) + clause-exact correspondence + brute-force oracle')
CLAIMED['C17'] = (
    'DESIGN.md 5/C17',
    'Theorems for every raw truth table (any number of outputs/rows): normalisation (negate outputs starting with 1, stable sort, '
    'remove duplicates) followed by denormalisation (undo deletion through the mapping, un-sort through the recorded permutation, '
    're-negate) is the identity on the outputs\' truth tables; normalised outputs start with False; the recorded permutation is a '
    'permutation of the positions. NormalizationInfo (all fields + key text) and denormalize() on circuits are compared with the model '
    'field by field. The finite quantifier over the 2 x 349,724 shipped entries is discharged by executing the code\'s and the Lean '
    'model\'s decoder + evaluator + well-formedness check over the entries and comparing with the key and the basis (quick: all '
    'entries with <=2 inputs + a seeded sample; thorough: all). Lookups: all tables for (n,m) in {(2,1),(2,2),(2,3),(3,1)}, samples for '
    '(3,2),(3,3) incl. equal/complementary outputs; don\'t-care lookups against all completions on both shipped databases.',
    NOTE_COMMON + 'The sweep over the shipped entries is an execution (compiled Lean + CPython), not a kernel proof. Don\'t-care minimality: search oracle only.',
    'Lean 4 proof (permutation / mapping / negation inverses) + field-exact correspondence + exhaustive execution over the shipped tables')
CLAIMED['C04'] = (
    'DESIGN.md 5/C04',
    'Theorems for the parts of the algorithm that are logic: the leaf patterns of _generate_inputs_tt enumerate every leaf assignment '
    '(bit i of leaf j = bit j of i, any cut size); _PatternOperations.eval_pattern is the gate\'s Boolean function bit by bit for every '
    'supported type at every accepted arity (n-ary AND/OR/XOR and negations included); the replacement cone returned by exact synthesis '
    'has size-1 gates of the basis and agrees with every table entry that is not a don\'t-care (C06 soundness). The pattern primitives '
    'are compared with the code on every run. The whole of minimize_subcircuits is decided on every run by the search on the real '
    'code: random circuits over the supported gate set incl. n-ary gates, repeated outputs, outputs that are inputs, dead logic and '
    'asymmetrically correlated cut leaves x bases x parameter settings x admissible cut families (canonical, sub-families filtered '
    'during enumeration as cut_limit does, shuffled orders) — truth table, interface, non-trivial gate count, enable_validation.',
    NOTE_COMMON + 'PARTIAL: don\'t-care extraction, trivial-output shortcut, splice and driver loop are not proved (set-iteration-order dependent '
    'code, not modelled as a whole). mockturtle and pysat are shims. No open finding (the dead-logic and leaf-reads-cone bookkeeping defects are repaired in /repo).',
    'Lean 4 proof (bit-level lemmas for the pattern simulation, C06 soundness) + correspondence of the pattern primitives + search oracle on the real algorithm')
# ---- refreshed claim texts (as built) ----
def _upd(pid, desc, notes):
    ref, _, _, tech = CLAIMED[pid]
    CLAIMED[pid] = (ref, desc, NOTE_COMMON + notes, tech)

_upd('C01',
     'Theorems for all circuits and total assignments: every gate type at every arity denotes the fixed Boolean function bfun (fold '
     'induction over the regenerated tables); the denotation exists, is unique and independent of storage order; evaluate_full_circuit '
     'returns it on every gate and never raises; evaluate_circuit terminates, returns, and gives it on every gate it evaluates; evaluate, '
     'evaluate_at, get_truth_table, get_gates_truth_table are the stated projections; every other interpreter of gate types (CNF templates, '
     'the two regenerated truth-table-code tables, pattern simulation, bench conversion) denotes the same bfun. All entry points are compared '
     'with the code on every run; gates built from truth-table codes are checked for all 16 codes.',
     'The model of the evaluators is tied to the code by correspondence.')
_upd('C02',
     'Invariant by induction over operation histories (no bound): WFS (operands/outputs exist, users index = inverse operand multiset, input '
     'list = INPUT gates each once, acyclic by a rank, block labels exist) holds for the empty circuit and is preserved by add/emplace gate, '
     'add_inputs, mark/set/order inputs and outputs, replace_inputs, make/delete block, remove_gate, remove_block, rename_gate, copy, '
     'make_block_from_slice, into_bench and connect_circuit in BOTH directions with all wrappers (right direction via the invariant of the '
     'circuit with recomputed input list and an explicit rank function); after any such history both topological iterations yield every gate '
     'once in dependency order. replace_subcircuit is modelled one-to-one and compared field by field after every call; every state the code '
     'produces goes through the Lean checker checkWFU.',
     'replace_subcircuit invariant lemma not proved (partial). "copy equals original / shares no state": correspondence-only.')
_upd('C03',
     CLAIMED['C03'][1] + ' Total correctness: every pass, pipeline and cleanup returns on well-formed circuits.',
     '"Argument not modified" is correspondence-only.')
_upd('C08',
     'Through the program logic of C07 (frame theorem for every mode): add_mul (DEFAULT), add_mul_alter, add_mul_dadda (column-value '
     'invariant through all reduction stages), both Karatsuba variants (induction over the recursion for any base multiplier meeting a spec; '
     'thresholds, padding, non-borrowing subtraction), add_mul_pow2_m1 (chunk invariant of add_sum_pow2_m1, column-loop potential, '
     'anti-diagonal re-summation) and both squarers (AND triangle, square as anti-diagonal sum, recursive split) return exactly a*b resp. '
     'x^2, with the stated result widths (except DEFAULT, whose width is checked on the real generator). All modes are modelled one-to-one and compared gate for gate '
     '(uuid pinned) on hosts built through the public API; the search checks values and widths on the real generators.',
     'add_mul_wallace value theorem and the width of DEFAULT are not proved (partial; gate-exact correspondence + exhaustive/dense oracle).')
_upd('C09',
     'Through the program logic of C07: subtractor, subtract-with-compare (unequal widths, both endiannesses, borrow <=> a<b), equality '
     '(width>=1), plus-one (any out_len), if-then-else, pairwise gadgets, outputs untouched without add_outputs, add_div_mod (restoring '
     'division invariant, OR-prefixes, zero-divisor masking: floor(a/b), a mod b, (0,0) for b=0) and add_sqrt (digit-by-digit invariant: '
     'R^2 <= a < (R+1)^2 on ceil(n/2) bits). All generators are modelled one-to-one and compared gate for gate; the search evaluates the '
     'real results on all assignments.',
     'Width 0 of add_equal is outside the stated domain. Proofs/GenSqrt.lean uses Mathlib\'s ring tactic (no extra axioms).')
_upd('C07',
     CLAIMED['C07'][1] + ' add_sum_pow2_m1: the returned columns carry exactly the number of true inputs and the weight-1 column is a single bit.',
     'Gate-count bounds: search oracle on the real generators only (partial). Fuel sufficiency by correspondence.')
_upd('C10',
     'Theorems (all circuits, connector choices, name/prefix options, all assignments) for connect_circuit in BOTH directions and its five '
     'wrappers: one renaming of the attached circuit\'s labels turns every valuation of the result into a valuation of the attached circuit; '
     'left: base gates keep their values; right: the fed inputs become the connector gates and every other base gate is kept, so the result '
     'satisfies both circuits\' equations; exact inputs/outputs lists; the recorded block and survival of older blocks; extracting the named '
     'block (Block.into_circuit, modelled) gives a circuit with the attached circuit\'s interface whose valuations are valuations of the attached '
     'circuit; total correctness: with the documented preconditions connect_circuit returns. Everything is modelled one-to-one and compared field by field; '
     'the search checks composed evaluation, interface, checkWFU and block extraction on the real code.',
     '"Attached circuit not modified" and "into_circuit returns" are correspondence-only.')
_upd('C12',
     CLAIMED['C12'][1] + ' Also proved: is_symmetric(_at) = depends only on the weight, find_negations_to_make_symmetric sound and complete, '
     'PyFunction.is_monotone, truth-table ordering and TruthTable\'s index-based equal-to-input, define() (keeps defined values, fills don\'t-cares).',
     'Integer wrappers\' bit order is proved too (via Nat.toDigits 2). The negation search returns the first working vector of the enumeration (proved).')
_upd('C13',
     'Theorems: the comparison stage for any m>=1 is True exactly when some pair differs; end-to-end: on well-formed operands of equal shape '
     'with non-empty block names, whenever build_miter returns, the miter has the left inputs in order and one output that is True exactly on '
     'the inputs where the output vectors differ (miter_correct, via the left-connection theorems); mismatched shapes give '
     'MiterDifferentShapesError. build_miter is modelled as the code composes it and compared exactly; the implementation\'s miter is '
     'evaluated on all assignments and its satisfiability checked through the C05 path.',
     'That build_miter returns on operands of equal shape, and "operands unmodified", are decided by the correspondence (partial correctness).')
_upd('C14',
     CLAIMED['C14'][1] + ' into_bench also keeps the whole C02 invariant (users-count framework, rank constructions).',
     'Partial correctness (if into_bench returns).')
_upd('C15',
     'Theorems for all circuits/arities/assignments: every operator of the regenerated tables is monotone and sound at every arity; '
     'evaluate_full_circuit never raises on well-formed circuits and is sound, monotone and total; evaluate_circuit (explicit stack) terminates, '
     'returns, is sound at every gate, and — because the set of gates it visits depends only on which labels are defined — monotone and total at '
     'every gate it evaluates. The model is re-tied to the code on every run (3^n partial assignments on 3 entry points; the caller\'s assignment '
     'must come back untouched).',
     'The tie between the model\'s evaluators and the Python methods is by correspondence.')
_upd('C16',
     'Theorems (all values, no bound): bit/byte packing round trips; the binary dictionary reader inverts the writer and rejects strict '
     'prefixes/trailing bytes; the circuit-level round trip decode(encode c) ~ c for every well-formed circuit the encoder accepts, whatever '
     'its gate storage order (dependency-order enumeration, token stream, decoder), incl. same function. The codec model is compared byte for '
     'byte with the code on every run (conforming and non-conforming circuits, corrupted and truncated streams).',
     'Which circuits the encoder accepts and the error classes for malformed bytes are decided by correspondence. Keys are byte strings in the model.')
_upd('C18',
     'Theorems: RemoveRedundantGates returns exactly the gates reachable from the outputs (plus inputs unless removal requested) and is '
     'idempotent; after MDG+RRG no two gates have the same signature; after MEG+RRG no two non-input gates have the same truth table; after '
     'MUO+RRG no double negation / no buffer operand or output (under the stated hypotheses on unary gates); apply_transformers, the pipe '
     'operator and cleanup equal sequencing of the linearised constituent passes; every pass and pipeline returns on well-formed circuits. '
     'Passes and pipeline machinery are modelled one-to-one and compared exactly; the search checks the postconditions and pipeline=sequencing '
     'on the real code, incl. user-defined passes with nested declared dependencies.',
     'User-defined passes with dependencies are covered by the search oracle, not by the model (built-in passes only).')
_upd('C19',
     'Theorems: replace_inputs yields exactly the cofactor over the remaining inputs in order and keeps the invariant; remove_gate succeeds '
     'only for an existing gate without users and removes it from gate map, outputs and blocks, with the exact error class otherwise; '
     'rename_gate yields the renamed circuit (every reference points at the new label), keeps the invariant and every truth table. '
     'replace_subcircuit is modelled one-to-one and compared with the code on many cut-bounded slices with truth-table and checkWFU oracles.',
     'replace_subcircuit theorem not proved (partial).')
_upd('C20',
     'Theorems: Kahn in both directions yields every gate once in dependency order and never raises on well-formed circuits; DFS/BFS yield '
     'exactly the reachable gates, each once, and hand exactly the unreached gates to the unvisited hook (storage or topological order); DFS '
     'hooks are balanced, exit in post-order (both directions), enter before exit; the cycle check is silent exactly on circuits without a '
     'cycle reachable from the outputs; the traversal loop terminates and never raises on well-formed circuits. Event logs of the real '
     'traversals (all hooks) and the cycle check are compared with the model on DAGs and cyclic netlists on every run.',
     'The tie between the model\'s event log and the hooks the Python generator calls is by correspondence.')
_upd('C11',
     CLAIMED['C11'][1] + ' Document level: parse(format(c)) has the same inputs, outputs and the same gates (as a permutation) for every '
     'well-formed printable circuit.',
     'Layout independence for arbitrary hand-written text is exercised by exact parser correspondence and the layout search, not proved (partial).')

_upd('C06',
     CLAIMED['C06'][1] + ' End to end: the Circuit object built from a decoded solution (modelled, compared with _get_circuit_by_model on every run) '
     'has inputs 0..n-1 in order, one output per requested output, and computes the table wherever it is defined.',
     'pysat absent: shim solver (DPLL / z3, models re-checked); the solver is a parameter of the theorem. Time-limit path and DB shortcut not modelled.')

_upd('C05',
     CLAIMED['C05'][1] + ' Total correctness: the transformation returns on every well-formed circuit (its recursion depth never exceeds the number of gates).',
     'pysat is absent in this sandbox: a shim (DPLL / z3 -dimacs, models re-checked) stands in for the solver; the solver is a parameter of the theorem. CPython\'s recursion limit is not modelled.')

_upd('C08',
     'Through the program logic of C07 (frame theorem for every mode): ALL six multiplication modes — add_mul (DEFAULT), add_mul_alter, '
     'add_mul_dadda, both Karatsuba variants (induction over the recursion for any base multiplier meeting a spec), add_mul_pow2_m1, '
     'add_mul_wallace (placeholder matrices as numbers, per-round conservation modulo 2^(n+m), gap logic of the final adder; every drawn '
     'label differs from the placeholder string) — and both squarers return exactly a*b resp. x^2 for all widths, both endiannesses and '
     'operands that are arbitrary host gates; result widths proved for Dadda, Karatsuba, 2^k-1 and the squarers. All modes are modelled '
     'one-to-one and compared gate for gate (uuid pinned); the search checks values and widths on the real generators.',
     'Result widths of DEFAULT and Wallace are checked on the real generators, not proved (partial).')
_upd('C02',
     'Invariant by induction over operation histories (no bound): WFS (operands/outputs exist, users index = inverse operand multiset, input '
     'list = INPUT gates each once, acyclic by a rank, block labels exist) holds for the empty circuit and is preserved by add/emplace gate, '
     'add_inputs, mark/set/order inputs and outputs, replace_inputs, make/delete block, remove_gate, remove_block, rename_gate, copy, '
     'make_block_from_slice, into_bench, connect_circuit in BOTH directions with all wrappers, and replace_subcircuit (renames with pairwise '
     'distinct targets, slice removal, re-insertion of the replacement, restored outputs and users, whole-graph cycle check — the proof needed '
     'the fix 4cd9e3a: the old check only walked the cone of the outputs and a cyclic circuit could be returned); after any such history both '
     'topological iterations yield every gate once in dependency order. Histories of the real calls (incl. replace_subcircuit with identical, '
     'renamed, re-expressed and structurally entangled replacements) are compared field by field after every call; every state the code '
     'produces goes through the Lean checker checkWFU.',
     '"copy equals original / shares no state": correspondence-only (Lean values cannot alias). into_bench is a separate theorem (C14), not a '
     'history step (its precondition on arities depends on the state).')
_upd('C19',
     'Theorems: replace_inputs yields exactly the cofactor over the remaining inputs in order and keeps the invariant; remove_gate succeeds '
     'only for an existing gate without users and removes it from gate map, outputs and blocks, with the exact error class otherwise; '
     'rename_gate yields the renamed circuit (every reference points at the new label), keeps the invariant and every truth table, and is total: '
     'it returns exactly when the old label is a gate and the new one is not, and raises its two documented errors for exactly those reasons; '
     'replace_subcircuit leaves the circuit well formed whenever it returns (any replacement), and with a replacement that agrees with the slice '
     'on every valuation of the circuit (equivalence under the given correspondence, only on value combinations that occur) every valuation of '
     'the original extends to one of the result with the same output values and the same inputs position by position — the same truth table. '
     'All four calls are compared with the code on every run (many cut-bounded slices per circuit, truth-table and checkWFU oracles).',
     'Side condition of the replace_subcircuit function theorem: no slice output is a circuit INPUT. Which documented error replace_subcircuit raises when it '
     'does not return is established by correspondence only.')
_upd('C20',
     'Theorems: Kahn in both directions yields every gate once in dependency order and never raises on well-formed circuits; DFS/BFS yield '
     'exactly the reachable gates, each once, and hand exactly the unreached gates to the unvisited hook (storage or topological order); DFS '
     'hooks are balanced, exit in post-order (both directions), enter before exit; the cycle check is silent exactly on circuits without a '
     'cycle reachable from its start gates (the outputs by default, as the property states; replace_subcircuit passes all gates); the '
     'traversal loop terminates and never raises on well-formed circuits. Event logs of the real traversals (all hooks) and the cycle check '
     'are compared with the model on DAGs and cyclic netlists on every run.',
     'The tie between the model\'s event log and the hooks the Python generator calls is by correspondence.')
_upd('C17',
     'Theorems (every table, any number of outputs and rows; every circuit): normalisation followed by denormalisation is the identity on the '
     'outputs\' truth tables (negation, stable sort, duplicate removal and their inverses); normalised outputs start with False; the recorded '
     'permutation is one; denormalize(circuit) leaves the inputs alone, keeps the circuit well formed and puts the denormalised values on the '
     'outputs (fresh or reused not_<o> gates), so an entry whose stored circuit computes the normalised table yields a circuit computing the '
     'requested table, every output in the requested order (c17_lookup_entry_correct). The finite quantifier over the 2 x 349,724 shipped '
     'entries (decode, well-formedness, basis, truth table = key) is discharged by executing the code\'s and the Lean model\'s decoder + '
     'evaluator + checker over the entries (quick: all entries with <= 2 inputs + seeded sample; thorough: all) and lookups are run on the real '
     'databases incl. don\'t-care patterns with all completions.',
     'The sweep over the shipped entries is an execution, not a kernel proof (partial); that denormalize never raises on a matching entry and '
     'the don\'t-care lookup are correspondence/search only.')
_upd('C11',
     'Theorems on the parser/printer model, for all circuits / texts: parse(format(c)) has the same inputs, outputs and the same gates (as a '
     'permutation) for every printable well-formed circuit; EVERY accepted line form in ANY layout is read as the statement it denotes — gate '
     'lines with any number of spaces before/after the name, around "=", before "(", around every operand, the operator in any letter case, '
     'BUFF, anything after ")"; INPUT/OUTPUT in any case with padded names; name = vdd; comments; blank lines — and a document of such lines '
     'in ANY declaration order (use before definition included) parses to the circuit with exactly the stated gates, the inputs in INPUT-line '
     'order and the outputs in OUTPUT-line order, or raises CircuitValidationError iff some operand is defined nowhere; two documents stating '
     'the same definitions in different orders give circuits with the same valuations. The model is compared with the real parser/printer on '
     'random circuits and random layouts (leading spaces, junk after the parenthesis, padded declarations, shuffled lines) on every run.',
     'Which exception class malformed text raises is decided by correspondence only. "Computes what the text denotes" = the parsed gate list is '
     'the stated one; its function is C01\'s denotation.')
_upd('C07',
     'Through a program logic for generator programs (Prog, Sem, frame theorem run_frame: only fresh non-INPUT gates of the accepted arity '
     'are appended, every valuation of the host extends): add_sum_n_bits (XAIG MDFA scheme and AIG), add_sum_n_bits_easy, the ripple adders '
     '(plain and shifted), both weighted sums (pairwise distinct output levels, weighted value preserved) and add_sum_pow2_m1 return exactly '
     'the stated sums for all operand counts, weights, endiannesses, basis spellings and operands that are arbitrary host gates; AIG runs emit '
     'AIG gates only. Gate counts by a cost semantics (Cost, run_cost) and potential arguments: the documented bounds are proved for '
     'add_sum_n_bits (4.5n-2m / 7n-3m), add_sum_n_bits_easy, the naive weighted sum and the AIG weighted sum (each slightly stronger). '
     'All generators are modelled one-to-one and compared gate for gate with the code (uuid pinned) on every run; sizes are checked on '
     'operand counts far beyond the value oracle, incl. directed level profiles.',
     'OPEN FINDING: for add_sum_n_weighted_bits in XAIG the documented 4.5n-2m is false (profile 4,4,3,3,3,...: half a gate per level too '
     'many; n=35, m=13: 132 gates) — shown on the code by the search and on the model by a kernel-evaluated run (thorough tier); the theorem '
     'proved is 4.5n-1.5m. Termination within the model fuel is by correspondence.')
_upd('C08',
     'Through the program logic of C07 (frame theorem for every mode): ALL six multiplication modes — add_mul (DEFAULT), add_mul_alter, '
     'add_mul_dadda, both Karatsuba variants (induction over the recursion for any base multiplier meeting a spec), add_mul_pow2_m1, '
     'add_mul_wallace (placeholder matrices as numbers, per-round conservation modulo 2^(n+m), gap logic of the final adder; every drawn '
     'label differs from the placeholder string) — and both squarers return exactly a*b resp. x^2 for all widths, both endiannesses and '
     'operands that are arbitrary host gates; result widths proved for DEFAULT (the XAIG weighted loop outputs exactly the levels its level '
     'profile predicts; for the partial-product profile the carries stay between 1 and the previous level\'s height, so n+m levels, n+m-1 '
     'when one width is 1), Dadda, Karatsuba, 2^k-1 and the squarers. All modes are modelled one-to-one and compared gate for gate (uuid '
     'pinned); the search checks values and widths on the real generators, incl. generate_mul with every MulMode.',
     'Result width of Wallace is checked on the real generators, not proved (partial).')
_upd('C08',
     'Through the program logic of C07 (frame theorem for every mode): ALL six multiplication modes — add_mul (DEFAULT), add_mul_alter, '
     'add_mul_dadda, both Karatsuba variants (induction over the recursion for any base multiplier meeting a spec), add_mul_pow2_m1, '
     'add_mul_wallace (placeholder matrices as numbers, per-round conservation modulo 2^(n+m), gap logic of the final adder; every drawn '
     'label differs from the placeholder string) — and both squarers return exactly a*b resp. x^2 for all widths, both endiannesses and '
     'operands that are arbitrary host gates, on n+m result bits (n+m-1 when one width is 1; 2n for squares): widths proved for every mode, '
     'incl. DEFAULT (the XAIG weighted loop outputs exactly the levels its level profile predicts; for the partial-product profile the '
     'carries stay between 1 and the previous level\'s height) and Wallace (a non-empty column stays non-empty through the rounds and ends '
     'in row 0, so the final adder returns at least n+m bits). All modes are modelled one-to-one and compared gate for gate (uuid pinned); '
     'the search checks values and widths on the real generators, incl. generate_mul with every MulMode.',
     'That the generators return at all on valid arguments (model fuel, fresh-label loop) is by correspondence; the theorems are about every run that returns.')
_upd('C04',
     'Theorems: the pattern primitives of the cone simulation (leaf patterns enumerate all leaf assignments; eval_pattern is the gate\'s Boolean '
     'function bit by bit, n-ary gates included); through C06, any cone returned by exact synthesis agrees with the requested table on every '
     'defined entry; and the splice loop, abstractly: ANY finite sequence of replace_subcircuit steps whose replacements agree with the cones '
     'they replace leaves the circuit well formed with the same inputs, position by position, and the same output values on every assignment '
     '(through the C19 theorem). The real minimize_subcircuits is run on random circuits (all bases, parameter settings, admissible cut '
     'families incl. shuffled / sub-families, correlated cut leaves, n-ary cones) and compared with its argument on all assignments; every '
     'splice it performs is recorded in-process, checked against the theorem\'s hypotheses and compared with the Lean model of replace_subcircuit.',
     'PARTIAL: cut selection, don\'t-care extraction, the in-place merge of cone outputs with equal patterns and the size accounting are not '
     'modelled (search oracle only). mockturtle and pysat are shims. No open finding (the dead-logic and leaf-reads-cone bookkeeping defects are repaired in /repo).')
_upd('C13',
     'Theorems on the model (build_miter composed exactly as the code does: add_circuit + connect_circuit + generate_pairwise_xor + '
     'connect_circuit + final gate): for well-formed operands, whenever it returns, the result has the left operand\'s inputs in order and one '
     'output that is True exactly where the two output vectors differ (single output included), hence satisfiable exactly when the operands '
     'are not equivalent; mismatched shapes give the dedicated error and nothing else; and it DOES return on operands of equal shape with the '
     'default block names (the three connections meet the preconditions of the left-connection totality theorem: prefixed copy labels and '
     'block names cannot collide, generate_pairwise_xor\'s labels are distinct by injectivity of the decimal representation). Compared with '
     'the code on random operand pairs (incl. operands with blocks, shared labels, single outputs) on every run.',
     '"Leaves both operands unmodified": correspondence only (Lean values cannot alias); the harness compares the operands before and after.')
_upd('C17',
     'Theorems (every table, any number of outputs and rows; every circuit): normalisation followed by denormalisation is the identity on the '
     'outputs\' truth tables (negation, stable sort, duplicate removal and their inverses); normalised outputs start with False; the recorded '
     'permutation is one; denormalize(circuit) leaves the inputs alone, keeps the circuit well formed and puts the denormalised values on the '
     'outputs (fresh or reused not_<o> gates), so an entry whose stored circuit computes the normalised table yields a circuit computing the '
     'requested table, every output in the requested order (c17_lookup_entry_correct). Lookup with don\'t-cares, for every pattern of '
     'don\'t-cares and any lookup of full tables: the tables looked up are exactly the full tables of the model\'s shape agreeing with its '
     'defined entries (c17_dontcare_completions_exact); the circuit returned is the stored circuit of one of them, none of them has a smaller '
     'stored circuit, and nothing is returned only if none is stored (c17_dontcare_lookup, c17_dontcare_lookup_computes); the order of the '
     'completions and the circuit chosen are compared with get_by_raw_truth_table_model on the shipped databases (correspondence streams '
     'dc_completions, dc_choice). The finite quantifier over the 2 x 349,724 shipped entries (decode, well-formedness, basis, truth table = key) '
     'is discharged by executing the code\'s and the Lean model\'s decoder + evaluator + checker over the entries (quick: all entries with '
     '<= 2 inputs + seeded sample; thorough: all) and lookups are run on the real databases incl. don\'t-care patterns with all completions.',
     'The sweep over the shipped entries is an execution, not a kernel proof (partial); that denormalize never raises on a matching entry is '
     'correspondence/search only.')

def _add(pid, extra):
    """append a sentence to the claim text of a property (later additions)"""
    ref, desc, notes, tech = CLAIMED[pid]
    CLAIMED[pid] = (ref, desc + ' ' + extra, notes, tech)


_add('C07', 'Totality (c07_generators_return): on valid arguments (operands are gates, the basis name resolves, operands non-empty where '
     'the code indexes them) every summation generator returns — the fuel of every loop suffices, no block is handed a list of the wrong '
     'length, no label clashes — or stops because the 128-bit space of random labels is exhausted (a guard of the model, never reached by a run).')
_add('C09', 'Totality (c09_generators_return): on valid arguments every generator of this property returns (or the label space is exhausted); '
     'caller-given result labels must not be gates and be pairwise different, and for add_pairwise_if_then_else must not be labels the '
     'generator draws later (necessary: ca_pairIte_collision is the failing run).')
_add('C08', 'Totality (c08_generators_return): on operands of width >= 1 that are gates of the host circuit every multiplier and squarer '
     '(DEFAULT, ALTER, 2^k-1, both Karatsuba variants, Dadda, Wallace, both squarers) returns — recursion and round fuels suffice, no column '
     'that is read is empty — or the 128-bit label space is exhausted.')
_add('C10', 'Re-extraction is total: after a named connection in either direction get_block(name).into_circuit() returns '
     '(c10_block_extraction_left_returns / _right_returns).')
_add('C14', 'Total correctness (c14_into_bench_returns): every well-formed circuit with an input, accepted arities and no gate named like a '
     'helper gate of the run is converted (these conditions are the weakest: bt_intoBench_ok_iff); the documented refusal without inputs '
     'is a theorem too (c14_into_bench_no_input_error).')
_add('C16', 'Which circuits the encoder accepts is a theorem: exactly the well-formed circuits over the format\'s gate types and arities '
     '(word size < 256), and then decoding succeeds (c16_encode_succeeds_on_conforming); otherwise a codec error (c16_encode_errors).')
_add('C17', 'Denormalisation never raises on a matching entry and returns the requested table (c17_denormalize_returns).')
_add('C19', 'Error range of replace_subcircuit (c19_replace_subcircuit_errors): on a well-formed circuit, when it does not return it raised a '
     'library error, never a Python-internal one, and no model fuel runs out.')
_upd('C04',
     'Theorems: (1) the splice loop, abstractly: ANY finite sequence of replace_subcircuit steps whose replacements agree with the cones '
     'they replace leaves the circuit well formed with the same inputs, position by position, and the same output values on every assignment '
     '(through the C19 theorem). (2) the cone pipeline that produces such replacements (Model/ConeTable.lean, compared with the code on every '
     'cone of every run): the simulation loop of _get_subcircuits gives every leaf and cone gate the pattern whose bit at the row of the leaf '
     'vector is the gate\'s value, for every valuation of the circuit; _eval_dont_cares collects the leaf vector of every valuation (through '
     'C01\'s theorem on per-gate truth tables); evaluate_truth_table_with_dont_cares is defined exactly on the collected rows and carries the '
     'output pattern\'s bit there; hence ANY circuit implementing that table — in particular what exact synthesis builds from any satisfying '
     'assignment of its encoding (C06) — agrees with the cone on every valuation under the driver\'s identification of inputs and outputs, '
     'i.e. meets the hypothesis of (1) (c04_dont_care_table_sound, c04_synthesised_cone_slice_agrees). The real minimize_subcircuits is run on '
     'random circuits (all bases, parameter settings, admissible cut families incl. shuffled / sub-families, correlated cut leaves, n-ary '
     'cones, twin cones that differ only in their care sets) and compared with its argument on all assignments; every splice and every cone it '
     'builds is recorded in-process, checked against the theorems\' hypotheses and compared with the Lean model.',
     'PARTIAL: cut selection (nested-cut removal), the in-place merge of cone outputs with equal patterns, the relabelling before the splice '
     'and the driver loop over node states are not modelled (search oracle only); that the enumerator\'s cones are closed under their leaves is '
     'a hypothesis audited on every cone. mockturtle and pysat are shims. No open finding.')
