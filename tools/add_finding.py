#!/usr/bin/env python3
"""add_finding.py <property> <key> <status> <commit|-> <what> [json-input]  (run by hand, never by a check)"""
import json, sys, os
p = os.path.join(os.path.dirname(os.path.dirname(os.path.abspath(__file__))), 'known_findings.json')
d = json.load(open(p))
prop, key, status, commit, what = sys.argv[1:6]
inp = json.loads(sys.argv[6]) if len(sys.argv) > 6 else None
e = {'property': prop, 'key': key, 'status': status}
if commit != '-':
    e['commit'] = commit
e['what'] = (f'fixed: property={prop} {commit} {what}' if status == 'fixed' else what)
if inp is not None:
    e['input'] = inp
d['findings'] = [f for f in d['findings'] if not (f['property'] == prop and f['key'] == key)] + [e]
json.dump(d, open(p, 'w'), indent=1)
print('ok', len(d['findings']))
