#!/bin/bash
# Applies every confirmed seeded change to /repo in turn, runs the check of its property (quick tier) and records
# whether it is reported; /repo is restored after each one. Writes seeded/MATRIX.md. Run by hand (not a registered check).
cd "$(dirname "$0")/.."
# /repo must be clean before and is put back whatever ends this script (a seed left applied was once committed with the
# tree and showed up as a C06 violation on the "unchanged" tree).
[ -z "$(git -C /repo status --porcelain --untracked-files=no)" ] || { echo "/repo has uncommitted changes; refusing to run" >&2; exit 2; }
trap 'git -C /repo reset --hard HEAD -q' EXIT INT TERM
out=seeded/MATRIX.md
echo "| seed | property check | reported | first line |" > $out
echo "|---|---|---|---|" >> $out
for d in seeded/C??-*/; do d=${d%/}
  s=$(basename $d); p=${s%-*}
  if ! git -C /repo apply --3way /verif/$d/patch.diff >/dev/null 2>&1; then echo "| $s | $p | patch does not apply | |" >> $out; git -C /repo reset --hard HEAD -q; continue; fi
  r=$(./check $p 2>&1)
  git -C /repo reset --hard HEAD -q
  if echo "$r" | grep -q "^VIOLATION"; then
    kind=$(echo "$r" | grep "^VIOLATION" | grep -q "no-failing-input-found" && echo "yes (no failing input)" || echo "yes (failing input)")
    line=$(echo "$r" | grep -A1 "^VIOLATION" | tail -1 | cut -c1-110 | tr '|' '/')
  else kind="NO"; line=""; fi
  echo "| $s | $p | $kind | $line |" >> $out
done
cat $out
