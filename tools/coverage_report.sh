#!/bin/bash
# usage: tools/coverage_report.sh [IDs...]   — line/branch coverage of /repo/cirbo reached by the quick checks
# (analysis aid for generator quality; not a registered check). Writes seeded-independent report to coverage/REPORT.md
cd "$(dirname "$0")/.."
IDS=${@:-C01 C02 C03 C04 C05 C06 C07 C08 C09 C10 C11 C12 C13 C14 C15 C16 C17 C18 C19 C20}
D=$(mktemp -d /tmp/cov.XXXXXX)
export PYTHONHASHSEED=0
for p in $IDS; do
  COVERAGE_FILE=$D/.cov.$p /venv/bin/python -m coverage run --branch --include='/repo/cirbo/*' harness/check.py $p > $D/$p.log 2>&1
  tail -n 1 $D/$p.log
done
( cd $D && /venv/bin/python -m coverage combine -q .cov.* && /venv/bin/python -m coverage report -m --skip-empty > report.txt )
mkdir -p coverage
cp $D/report.txt coverage/REPORT.txt
rm -rf $D
tail -n 3 coverage/REPORT.txt
