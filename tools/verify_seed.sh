#!/bin/bash
# usage: verify_seed.sh <seed-dir containing patch.diff demo.py notes.md> <name> <property>
# Confirms in a scratch worktree: demo passes on the pinned tree, fails with the patch; the
# existing test suite result is unchanged.  On success copies to /verif/seeded/<name>/.
set -u
SRC=$1; NAME=$2; PROP=$3
WT=$(mktemp -d /tmp/vseed.XXXXXX)
git -C /repo worktree add -q --detach "$WT" HEAD || exit 2
cd "$WT"
res() { echo "$NAME: $1"; git -C /repo worktree remove --force "$WT"; exit $2; }
PYTHONPATH=$WT timeout 600 /venv/bin/python "$SRC/demo.py" >/dev/null 2>&1; D0=$?
git apply "$SRC/patch.diff" || res "patch does not apply" 1
PYTHONPATH=$WT timeout 600 /venv/bin/python "$SRC/demo.py" >/dev/null 2>&1; D1=$?
T=$(/venv/bin/python -m pytest -q -p no:cacheprovider --timeout=900 --continue-on-collection-errors tests 2>&1 | tail -1)
[ $D0 -eq 0 ] || res "demo fails on pristine tree (rc=$D0)" 1
[ $D1 -ne 0 ] || res "demo passes with patch" 1
echo "$T" | grep -q "2129 passed" || res "tests changed: $T" 1
echo "$T" | grep -q "failed" && res "tests failed: $T" 1
mkdir -p /verif/seeded/$NAME
cp "$SRC/patch.diff" "$SRC/demo.py" /verif/seeded/$NAME/
NOTES=$(cat "$SRC/notes.md" 2>/dev/null | python3 -c 'import sys,json; print(json.dumps(sys.stdin.read()))')
cat > /verif/seeded/$NAME/meta.json <<EOM
{"property": "$PROP", "name": "$NAME",
 "needs": $NOTES,
 "confirmed": {"demo_rc_pristine": $D0, "demo_rc_patched": $D1, "pytest_with_patch": "$T",
               "how": "tools/verify_seed.sh in a scratch worktree of /repo (removed afterwards)"}}
EOM
res "confirmed ($T)" 0
