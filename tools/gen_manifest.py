#!/usr/bin/env python3
"""Writes /verif/MANIFEST.json from the table below (kept in one place so it stays valid)."""
import json, os
VERIF = os.path.dirname(os.path.dirname(os.path.abspath(__file__)))
props = {json.loads(l)['id']: json.loads(l) for l in open(os.path.join(VERIF, 'properties.jsonl'))}

CLAIMED = {
    # id: (design_ref, text, note, technique)
}
exec(open(os.path.join(VERIF, 'tools', 'claims.py')).read())

checks = []
for pid in sorted(CLAIMED):
    ref, text, note, tech = CLAIMED[pid]
    checks.append({
        'property_id': pid,
        'quick_cmd': f'./check {pid} --tier quick',
        'thorough_cmd': f'./check {pid} --tier thorough',
        'evidence_file': f'evidence/{pid}.json',
        'replay_cmd_template': './check ' + pid + ' --replay {path}',
        'engine': 'lean4-cirbo',
        'level_claimed': {'category': 'proof', 'text': text, 'design_ref': ref},
        'level_note': note,
        'technique': tech,
    })
na = [{'property_id': pid, 'reason': NOT_CLAIMED.get(pid, 'Lean model and theorems for this property are not built yet; the technique applies (see DESIGN.md section 5) and the property will be claimed once its check is clean')}
      for pid in sorted(props) if pid not in CLAIMED]
m = {
    'version': 1,
    'setup_cmd': './setup.sh',
    'hooks': {'guard': 'CIRBO_VERIF', 'enable': 'no source hooks are needed; checks set CIRBO_VERIF=1 in their own process only',
              'baseline_off_cmd': 'cd /repo && /venv/bin/python -m pytest -ra -q -p no:cacheprovider --timeout=900 --continue-on-collection-errors',
              'source_commits': [], 'add_only': True},
    'engines': [{'name': 'lean4-cirbo', 'path': 'lean', 'serves_properties': sorted(CLAIMED),
                 'kind_free_text': 'Lean 4 package (Spec/Model/Generated/Proofs/Props) + compiled model driver + Python correspondence harness (harness/)'}],
    'checks': checks,
    'not_applicable': na,
    'notes': 'Machine-checked proof in Lean 4 over a model tied to /repo on every run by (1) tables regenerated from the code by harness/extract_tables.py and (2) a differential correspondence check of the hand-written model against the real code; see DESIGN.md.',
}
json.dump(m, open(os.path.join(VERIF, 'MANIFEST.json'), 'w'), indent=1)
print('claimed:', sorted(CLAIMED))
