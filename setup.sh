#!/bin/bash
# Build the framework from files on disk only (offline): regenerate tables from /repo, build all
# Lean targets (library with every Props file, and the model driver).
set -e
cd "$(dirname "$0")"
PYTHONHASHSEED=0 /venv/bin/python harness/extract_tables.py
cd lean
lake build Cirbo cirbo_model $(ls Cirbo/Props/*.lean | sed 's#/#.#g; s#\.lean$##')
