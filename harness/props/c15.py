"""C15 — evaluation under partial assignments is sound and monotone."""
import itertools
import json

import gen
from common import realize
from props.evalcommon import py_exec, compare_stream

RULE = ('random well-formed circuits (all gate types, n-ary arity<=5, repeated operands, dead logic, '
        'outputs that are inputs/repeated, storage order != topological) x all 3^n partial input '
        'assignments (n<=4 quick) x {evaluate_full_circuit, evaluate_circuit, evaluate_circuit_outputs}; '
        'non-trivial = circuit with >=1 non-input gate and assignment with >=1 Undefined input; '
        'distinct = distinct (circuit, assignment, entry point) triples')
ASSUMPTIONS = ['circuits handed to the evaluators are well formed (WFU); assignments are on inputs '
               '(assignments on internal gates are exercised by correspondence only)']
TRUSTED = ['search oracle: Lean checker checkValB (decides IsValB) on the implementation\'s total '
           'valuations + pointwise comparison in the harness']


def partial_assignments(inputs, rng, cap):
    alls = list(itertools.product('FTU', repeat=len(inputs)))
    if len(alls) > cap:
        alls = rng.sample(alls, cap)
    return [[[i, v] for i, v in zip(inputs, a)] for a in alls]


def table_search(ctx):
    """a table theorem broke: find the failing table entry inside Lean, confirm on the code"""
    issues = ctx.driver.ask({'op': 'optable_issues'})['ok']
    for s in issues[:20]:
        ctx.violation('optable:' + s.split('=')[0].strip(), 'operator table contradicts the spec: ' + s,
                      input=s)


def correspondence(ctx):
    rng = ctx.rng('corr')
    n_circ = ctx.scale(120, 2500)
    max_in = ctx.scale(4, 5)
    reqs = []
    for k in range(n_circ):
        j, info = gen.gen_circuit(rng, max_inputs=max_in, max_gates=ctx.scale(12, 24), min_inputs=0)
        j = realize(j)
        cap = ctx.scale(27, 81)
        for asg in partial_assignments(j['inputs'], rng, cap):
            for op in ('eval_full', 'eval_lazy', 'eval_outputs'):
                reqs.append({'op': op, 'c': j, 'asg': asg})
                nontriv = info['n_gates'] > info['n_inputs'] and any(v == 'U' for _, v in asg)
                ctx.case(json.dumps([op, j['gates'], j['inputs'], j['outputs'], asg]), nontriv)
        for f in ('nary3', 'repeat_operand', 'const_with_ops', 'cmp_same'):
            if info[f]:
                ctx.count('circ_with_' + f)
        ctx.count('circ_inputs=%d' % info['n_inputs'])
        if k < 2:
            ctx.sample({'circuit': j, 'example_assignment': reqs[-1]['asg']})
    # a few requests with explicit output subsets and assignments on internal gates / unknown keys
    for k in range(ctx.scale(60, 600)):
        j, info = gen.gen_circuit(rng, max_inputs=3, max_gates=8)
        j = realize(j)
        labels = [g[0] for g in j['gates']]
        if not labels:
            continue
        outs = [rng.choice(labels) for _ in range(rng.randint(0, 3))]
        asg = [[l, rng.choice('FTU')] for l in labels if rng.random() < 0.4]
        reqs.append({'op': 'eval_lazy', 'c': j, 'asg': asg, 'outs': outs})
        reqs.append({'op': 'eval_full', 'c': j, 'asg': asg})
        ctx.case(json.dumps(['lazy-sub', j['gates'], asg, outs]))
        ctx.count('stream:internal_assignment')
    # malformed: cyclic circuits, missing operands (error classes must agree)
    for k in range(ctx.scale(20, 200)):
        j, _ = gen.gen_circuit(rng, max_inputs=2, max_gates=5, min_inputs=1)
        if len(j['gates']) >= 3:
            g = rng.choice([g for g in j['gates'] if g[1] != 'INPUT'] or [None])
            if g and g[2]:
                g[2][0] = g[0] if rng.random() < 0.5 else j['gates'][-1][0]
                j = dict(gen_users(j))
                reqs.append({'op': 'eval_full', 'c': j, 'asg': []})
                ctx.case(json.dumps(['cyc', j['gates']]), False)
                ctx.count('stream:malformed')
    compare_stream(ctx, 'eval3', reqs)


def gen_users(j):
    users = {}
    for l, t, ops in j['gates']:
        for o in ops:
            users.setdefault(o, []).append(l)
    j = dict(j)
    j['users'] = [[k, v] for k, v in users.items()]
    return j


def le3(x, y):
    return x == 'U' or x == y


def search(ctx):
    """implementation only: soundness against all completions (Boolean valuations certified by the
    Lean checker), monotonicity along single-input refinements, totality"""
    live_object_stream(ctx)
    rng = ctx.rng('search')
    n_circ = ctx.scale(60, 1500)
    for k in range(n_circ):
        j, info = gen.gen_circuit(rng, max_inputs=ctx.scale(3, 5), max_gates=ctx.scale(10, 20))
        j = realize(j)
        ins = j['inputs']
        n = len(ins)
        labels = [g[0] for g in j['gates']]
        # total valuations, certified
        total = {}
        creq = []
        for bits in itertools.product('FT', repeat=n):
            asg = [[i, v] for i, v in zip(ins, bits)]
            r = py_exec({'op': 'eval_full', 'c': j, 'asg': asg})
            if 'err' in r:
                ctx.violation('eval_full.raises', f'evaluate_full_circuit raised {r["err"]} on a well-formed circuit',
                              input={'c': j, 'asg': asg})
                break
            total[bits] = dict(map(tuple, r['ok']))
            creq.append({'op': 'check_valb', 'c': j, 'asg': asg, 'v': r['ok']})
        else:
            certified = True
            for (bits, req), ans in zip(zip(total, creq), ctx.driver.ask_many(creq)):
                if ans.get('ok') is not True:
                    certified = False
                    ctx.violation('eval_full.total_wrong',
                                  'evaluate_full_circuit under a total assignment is not the denotation',
                                  input={'c': j, 'asg': req['asg']}, observed=req['v'])
            if not certified:
                continue
            cache = {}
            for part in itertools.product('FTU', repeat=n):
                asg = [[i, v] for i, v in zip(ins, part)]
                for op in ('eval_full', 'eval_lazy'):
                    r = py_exec({'op': op, 'c': j, 'asg': asg})
                    ctx.case(json.dumps(['s', op, j['gates'], j['outputs'], asg]),
                             'U' in part and info['n_gates'] > info['n_inputs'])
                    if 'err' in r:
                        ctx.violation(op + '.raises', f'{op} raised {r["err"]} on a well-formed circuit',
                                      input={'c': j, 'asg': asg})
                        continue
                    v3 = dict(map(tuple, r['ok']))
                    cache[(op, part)] = v3
                    # soundness vs every completion
                    for bits in total:
                        if all(p == 'U' or p == b for p, b in zip(part, bits)):
                            vb = total[bits]
                            for l in labels:
                                if not le3(v3.get(l, 'U'), vb[l]):
                                    ctx.violation(op + '.unsound',
                                                  f'{op}: gate {l} reported {v3.get(l)} under a partial assignment but is {vb[l]} under a completion',
                                                  input={'c': j, 'asg': asg, 'completion': list(bits)})
                    if 'U' not in part:
                        evaluated = labels if op == 'eval_full' else reach(j)
                        for l in evaluated:
                            if v3.get(l, 'U') == 'U':
                                ctx.violation(op + '.undefined_on_total',
                                              f'{op}: gate {l} is Undefined under a total assignment',
                                              input={'c': j, 'asg': asg})
            # monotonicity: refine one input
            for (op, part), v3 in cache.items():
                for i, p in enumerate(part):
                    if p == 'U':
                        for nv in 'FT':
                            part2 = part[:i] + (nv,) + part[i + 1:]
                            v3b = cache.get((op, part2))
                            if v3b is None:
                                continue
                            for l in labels:
                                if not le3(v3.get(l, 'U'), v3b.get(l, 'U')):
                                    ctx.violation(op + '.non_monotone',
                                                  f'{op}: gate {l} changed from {v3.get(l)} to {v3b.get(l)} when input {ins[i]} was defined',
                                                  input={'c': j, 'asg': [[a, b] for a, b in zip(ins, part)], 'refined_input': ins[i], 'value': nv})


def live_object_stream(ctx):
    """one circuit OBJECT evaluated several times with in-place edits in between (inputs fixed to constants, gates added,
    outputs changed, gates renamed or removed): every evaluation of the live object must obey the clauses for the
    netlist the object has at that moment — the reference is a fresh object built from the object's current state"""
    from common import circ_from_json, circ_to_json, err_name
    from props.evalcommon import asg_out
    from common import v3p
    rng = ctx.rng('live')
    for k in range(ctx.scale(150, 3000)):
        j, info = gen.gen_circuit(rng, max_inputs=4, max_gates=10, min_inputs=1)
        j = realize(j)
        try:
            c = circ_from_json(j)
        except Exception:  # noqa: BLE001
            continue
        ins0 = list(j['inputs'])
        # an assignment that names only some inputs; the others are left out (not even listed as Undefined)
        named = [i for i in ins0 if rng.random() < 0.6]
        asg = {i: rng.choice('FT' if rng.random() < 0.8 else 'U') for i in named}
        history = []
        same_dict = rng.random() < 0.3
        held = None
        for step in range(rng.randint(2, 5)):
            cur = circ_to_json(c)
            cur_in = list(cur['inputs'])
            a_now = {i: v for i, v in asg.items() if i in cur_in}
            labels = [g[0] for g in cur['gates']]
            outs = None
            op = rng.choice(['eval_lazy', 'eval_lazy', 'eval_outputs', 'eval_full'])
            try:
                if same_dict and held is not None and set(held) == set(a_now):
                    mine = held
                else:
                    mine = {i: v3p(v) for i, v in a_now.items()}
                held = mine
                if op == 'eval_full':
                    res = c.evaluate_full_circuit(dict(mine))
                elif op == 'eval_outputs':
                    res = c.evaluate_circuit_outputs(mine)
                else:
                    res = c.evaluate_circuit(mine)
                live = dict(map(tuple, asg_out(res)))
            except Exception as e:  # noqa: BLE001
                live = {'__err__': err_name(e)}
            history.append(['eval', op, sorted(a_now.items())])
            ctx.case(json.dumps(['live', j['gates'], history]), len(history) > 1)
            ctx.count('live:' + op)
            ref = py_exec({'op': op, 'c': cur, 'asg': [[i, v] for i, v in a_now.items()]})
            inp = {'start': j, 'history': history, 'current': cur, 'asg': [[i, v] for i, v in a_now.items()]}
            if 'err' in ref:
                if '__err__' not in live:
                    ctx.mismatch('eval3.live_object', inp, live, ref)
                break
            refd = dict(map(tuple, ref['ok']))
            if live != refd:
                if '__err__' in live:
                    ctx.violation(op + '.raises', f'{op} raised {live["__err__"]} on an edited object whose fresh copy evaluates',
                                  input=inp)
                    break
                free = [i for i in cur_in if a_now.get(i, 'U') == 'U']
                reported = False
                for bits in itertools.product('FT', repeat=len(free)):
                    full = dict(a_now)
                    full.update(zip(free, bits))
                    rt = py_exec({'op': 'eval_full', 'c': cur, 'asg': [[i, v] for i, v in full.items()]})
                    if 'err' in rt:
                        break
                    vb = dict(map(tuple, rt['ok']))
                    for l in labels:
                        if not le3(live.get(l, 'U'), vb[l]):
                            ctx.violation(op + '.unsound', f'{op} on an edited object: gate {l} reported {live.get(l)} but is {vb[l]} under a completion',
                                          input=dict(inp, completion=list(bits)))
                            reported = True
                            break
                    if reported:
                        break
                if not reported and not free:
                    evaluated = labels if op == 'eval_full' else reach(cur)
                    for l in evaluated:
                        if op != 'eval_outputs' and live.get(l, 'U') == 'U' or (op == 'eval_outputs' and l in live and live[l] == 'U'):
                            ctx.violation(op + '.undefined_on_total', f'{op} on an edited object: gate {l} is Undefined under a total assignment',
                                          input=inp)
                            reported = True
                            break
                if not reported:
                    ctx.mismatch('eval3.live_object', inp, sorted(live.items()), sorted(refd.items()))
                break
            # an in-place edit
            kind = rng.choice(['fix_inputs', 'fix_inputs', 'add_gate', 'set_outputs', 'rename', 'remove'])
            try:
                if kind == 'fix_inputs':
                    cand = [i for i in cur_in if i not in asg] or []
                    if not cand:
                        continue
                    pick = [i for i in cand if rng.random() < 0.7] or cand[:1]
                    t = [i for i in pick if rng.random() < 0.5]
                    f = [i for i in pick if i not in t]
                    c.replace_inputs(t, f)
                    history.append(['replace_inputs', t, f])
                elif kind == 'add_gate':
                    from cirbo.core.circuit import gate as G
                    lab = 'live_new_%d' % step
                    ops = [rng.choice(labels), rng.choice(labels)]
                    ty = rng.choice(['AND', 'OR', 'XOR', 'NAND', 'GT'])
                    c.emplace_gate(lab, getattr(G, ty), tuple(ops))
                    c.mark_as_output(lab)
                    history.append(['add_gate', lab, ty, ops])
                elif kind == 'set_outputs':
                    o = [rng.choice(labels) for _ in range(rng.randint(1, 2))]
                    c.set_outputs(o)
                    history.append(['set_outputs', o])
                elif kind == 'rename':
                    cand = [g[0] for g in cur['gates'] if g[1] != 'INPUT']
                    if cand:
                        old = rng.choice(cand)
                        c.rename_gate(old, old + '_r')
                        history.append(['rename_gate', old, old + '_r'])
                else:
                    used = {o for g in cur['gates'] for o in g[2]} | set(cur['outputs'])
                    cand = [g[0] for g in cur['gates'] if g[1] != 'INPUT' and g[0] not in used]
                    if cand:
                        x = rng.choice(cand)
                        c.remove_gate(x)
                        history.append(['remove_gate', x])
            except Exception as e:  # noqa: BLE001
                ctx.count('live_edit_refused:' + err_name(e))
                break


def reach(j):
    ops = {g[0]: g[2] for g in j['gates']}
    seen, st = set(), [o for o in j['outputs']]
    while st:
        x = st.pop()
        if x in seen:
            continue
        seen.add(x)
        st.extend(ops[x])
    return [l for l in ops if l in seen]


def replay(ctx, rp):
    v = rp.get('violation') or {}
    inp = v.get('input')
    if isinstance(inp, dict) and 'c' in inp:
        for op in ('eval_full', 'eval_lazy'):
            r = py_exec({'op': op, 'c': inp['c'], 'asg': inp['asg']})
            print(op, '->', r)
    search(ctx)
