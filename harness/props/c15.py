"""C15 — evaluation under partial assignments is sound and monotone."""
import itertools
import json

import gen
from common import realize
from props.evalcommon import py_exec, compare_stream

RULE = ('random well-formed circuits (all gate types, n-ary arity<=5, repeated operands, dead logic, '
        'outputs that are inputs/repeated, storage order != topological) x all 3^n partial input '
        'assignments (n<=4 quick) x {evaluate_full_circuit, evaluate_circuit, evaluate_circuit_outputs}; '
        'non-trivial = circuit with >=1 non-input gate and assignment with >=1 Undefined input; '
        'distinct = distinct (circuit, assignment, entry point) triples')
ASSUMPTIONS = ['circuits handed to the evaluators are well formed (WFU); assignments are on inputs '
               '(assignments on internal gates are exercised by correspondence only)']
TRUSTED = ['search oracle: Lean checker checkValB (decides IsValB) on the implementation\'s total '
           'valuations + pointwise comparison in the harness']


def partial_assignments(inputs, rng, cap):
    alls = list(itertools.product('FTU', repeat=len(inputs)))
    if len(alls) > cap:
        alls = rng.sample(alls, cap)
    return [[[i, v] for i, v in zip(inputs, a)] for a in alls]


def table_search(ctx):
    """a table theorem broke: find the failing table entry inside Lean, confirm on the code"""
    issues = ctx.driver.ask({'op': 'optable_issues'})['ok']
    for s in issues[:20]:
        ctx.violation('optable:' + s.split('=')[0].strip(), 'operator table contradicts the spec: ' + s,
                      input=s)


def correspondence(ctx):
    rng = ctx.rng('corr')
    n_circ = ctx.scale(120, 2500)
    max_in = ctx.scale(4, 5)
    reqs = []
    for k in range(n_circ):
        j, info = gen.gen_circuit(rng, max_inputs=max_in, max_gates=ctx.scale(12, 24), min_inputs=0)
        j = realize(j)
        cap = ctx.scale(27, 81)
        for asg in partial_assignments(j['inputs'], rng, cap):
            for op in ('eval_full', 'eval_lazy', 'eval_outputs'):
                reqs.append({'op': op, 'c': j, 'asg': asg})
                nontriv = info['n_gates'] > info['n_inputs'] and any(v == 'U' for _, v in asg)
                ctx.case(json.dumps([op, j['gates'], j['inputs'], j['outputs'], asg]), nontriv)
        for f in ('nary3', 'repeat_operand', 'const_with_ops', 'cmp_same'):
            if info[f]:
                ctx.count('circ_with_' + f)
        ctx.count('circ_inputs=%d' % info['n_inputs'])
        if k < 2:
            ctx.sample({'circuit': j, 'example_assignment': reqs[-1]['asg']})
    # a few requests with explicit output subsets and assignments on internal gates / unknown keys
    for k in range(ctx.scale(60, 600)):
        j, info = gen.gen_circuit(rng, max_inputs=3, max_gates=8)
        j = realize(j)
        labels = [g[0] for g in j['gates']]
        if not labels:
            continue
        outs = [rng.choice(labels) for _ in range(rng.randint(0, 3))]
        asg = [[l, rng.choice('FTU')] for l in labels if rng.random() < 0.4]
        reqs.append({'op': 'eval_lazy', 'c': j, 'asg': asg, 'outs': outs})
        reqs.append({'op': 'eval_full', 'c': j, 'asg': asg})
        ctx.case(json.dumps(['lazy-sub', j['gates'], asg, outs]))
        ctx.count('stream:internal_assignment')
    # malformed: cyclic circuits, missing operands (error classes must agree)
    for k in range(ctx.scale(20, 200)):
        j, _ = gen.gen_circuit(rng, max_inputs=2, max_gates=5, min_inputs=1)
        if len(j['gates']) >= 3:
            g = rng.choice([g for g in j['gates'] if g[1] != 'INPUT'] or [None])
            if g and g[2]:
                g[2][0] = g[0] if rng.random() < 0.5 else j['gates'][-1][0]
                j = dict(gen_users(j))
                reqs.append({'op': 'eval_full', 'c': j, 'asg': []})
                ctx.case(json.dumps(['cyc', j['gates']]), False)
                ctx.count('stream:malformed')
    compare_stream(ctx, 'eval3', reqs)


def gen_users(j):
    users = {}
    for l, t, ops in j['gates']:
        for o in ops:
            users.setdefault(o, []).append(l)
    j = dict(j)
    j['users'] = [[k, v] for k, v in users.items()]
    return j


def le3(x, y):
    return x == 'U' or x == y


def search(ctx):
    """implementation only: soundness against all completions (Boolean valuations certified by the
    Lean checker), monotonicity along single-input refinements, totality"""
    rng = ctx.rng('search')
    n_circ = ctx.scale(60, 1500)
    for k in range(n_circ):
        j, info = gen.gen_circuit(rng, max_inputs=ctx.scale(3, 5), max_gates=ctx.scale(10, 20))
        j = realize(j)
        ins = j['inputs']
        n = len(ins)
        labels = [g[0] for g in j['gates']]
        # total valuations, certified
        total = {}
        creq = []
        for bits in itertools.product('FT', repeat=n):
            asg = [[i, v] for i, v in zip(ins, bits)]
            r = py_exec({'op': 'eval_full', 'c': j, 'asg': asg})
            if 'err' in r:
                ctx.violation('eval_full.raises', f'evaluate_full_circuit raised {r["err"]} on a well-formed circuit',
                              input={'c': j, 'asg': asg})
                break
            total[bits] = dict(map(tuple, r['ok']))
            creq.append({'op': 'check_valb', 'c': j, 'asg': asg, 'v': r['ok']})
        else:
            certified = True
            for (bits, req), ans in zip(zip(total, creq), ctx.driver.ask_many(creq)):
                if ans.get('ok') is not True:
                    certified = False
                    ctx.violation('eval_full.total_wrong',
                                  'evaluate_full_circuit under a total assignment is not the denotation',
                                  input={'c': j, 'asg': req['asg']}, observed=req['v'])
            if not certified:
                continue
            cache = {}
            for part in itertools.product('FTU', repeat=n):
                asg = [[i, v] for i, v in zip(ins, part)]
                for op in ('eval_full', 'eval_lazy'):
                    r = py_exec({'op': op, 'c': j, 'asg': asg})
                    ctx.case(json.dumps(['s', op, j['gates'], j['outputs'], asg]),
                             'U' in part and info['n_gates'] > info['n_inputs'])
                    if 'err' in r:
                        ctx.violation(op + '.raises', f'{op} raised {r["err"]} on a well-formed circuit',
                                      input={'c': j, 'asg': asg})
                        continue
                    v3 = dict(map(tuple, r['ok']))
                    cache[(op, part)] = v3
                    # soundness vs every completion
                    for bits in total:
                        if all(p == 'U' or p == b for p, b in zip(part, bits)):
                            vb = total[bits]
                            for l in labels:
                                if not le3(v3.get(l, 'U'), vb[l]):
                                    ctx.violation(op + '.unsound',
                                                  f'{op}: gate {l} reported {v3.get(l)} under a partial assignment but is {vb[l]} under a completion',
                                                  input={'c': j, 'asg': asg, 'completion': list(bits)})
                    if 'U' not in part:
                        evaluated = labels if op == 'eval_full' else reach(j)
                        for l in evaluated:
                            if v3.get(l, 'U') == 'U':
                                ctx.violation(op + '.undefined_on_total',
                                              f'{op}: gate {l} is Undefined under a total assignment',
                                              input={'c': j, 'asg': asg})
            # monotonicity: refine one input
            for (op, part), v3 in cache.items():
                for i, p in enumerate(part):
                    if p == 'U':
                        for nv in 'FT':
                            part2 = part[:i] + (nv,) + part[i + 1:]
                            v3b = cache.get((op, part2))
                            if v3b is None:
                                continue
                            for l in labels:
                                if not le3(v3.get(l, 'U'), v3b.get(l, 'U')):
                                    ctx.violation(op + '.non_monotone',
                                                  f'{op}: gate {l} changed from {v3.get(l)} to {v3b.get(l)} when input {ins[i]} was defined',
                                                  input={'c': j, 'asg': [[a, b] for a, b in zip(ins, part)], 'refined_input': ins[i], 'value': nv})


def reach(j):
    ops = {g[0]: g[2] for g in j['gates']}
    seen, st = set(), [o for o in j['outputs']]
    while st:
        x = st.pop()
        if x in seen:
            continue
        seen.add(x)
        st.extend(ops[x])
    return [l for l in ops if l in seen]


def replay(ctx, rp):
    v = rp.get('violation') or {}
    inp = v.get('input')
    if isinstance(inp, dict) and 'c' in inp:
        for op in ('eval_full', 'eval_lazy'):
            r = py_exec({'op': op, 'c': inp['c'], 'asg': inp['asg']})
            print(op, '->', r)
    search(ctx)
