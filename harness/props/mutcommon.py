"""Executing mutator histories on the real code (same step encoding as the model driver)."""
import copy as pycopy
import json

import common
from common import circ_from_json, circ_to_json, err_name


class FakeUuid:
    def __init__(self, n):
        self.hex = '%032x' % n


class UuidPatch:
    """pins uuid.uuid4 to a counter (the model threads the same counter)"""

    def __enter__(self):
        import uuid
        self.orig = uuid.uuid4
        self.n = 0

        def fake():
            v = FakeUuid(self.n)
            self.n += 1
            return v
        uuid.uuid4 = fake
        return self

    def __exit__(self, *a):
        import uuid
        uuid.uuid4 = self.orig


def _attached(j):
    """the attached circuit: built afresh, or — for every third one, chosen by its text — a deep copy or a pickle round
    trip of it (objects whose gate types are equal to the module's constants without being identical to them)"""
    import copy as _copy
    import pickle as _pickle
    import zlib
    other = circ_from_json(j)
    k = zlib.crc32(json.dumps(j, sort_keys=True).encode()) % 6
    if k == 0:
        return _copy.deepcopy(other)
    if k == 1:
        return _pickle.loads(_pickle.dumps(other))
    return other


def apply_step(c, st):
    from cirbo.core.circuit import gate
    name = st[0]
    if name == 'add_gate':
        c.add_gate(gate.Gate(st[1], getattr(gate, st[2]), tuple(st[3])))
    elif name == 'remove_gate':
        c.remove_gate(st[1])
    elif name == 'rename_gate':
        c.rename_gate(st[1], st[2])
    elif name == 'mark_as_output':
        c.mark_as_output(st[1])
    elif name == 'set_outputs':
        c.set_outputs(list(st[1]))
    elif name == 'set_inputs':
        c.set_inputs(list(st[1]))
    elif name == 'add_inputs':
        c.add_inputs(list(st[1]))
    elif name == 'order_inputs':
        c.order_inputs(list(st[1]))
    elif name == 'order_outputs':
        c.order_outputs(list(st[1]))
    elif name == 'replace_inputs':
        c.replace_inputs(list(st[1]), list(st[2]))
    elif name == 'make_block':
        c.make_block(st[1], list(st[2]), list(st[3]), None if st[4] is None else list(st[4]))
    elif name == 'make_block_from_slice':
        c.make_block_from_slice(st[1], list(st[2]), list(st[3]))
    elif name == 'delete_block':
        c.delete_block(st[1])
    elif name == 'remove_block':
        c.remove_block(st[1])
    elif name == 'into_bench':
        c.into_bench()
    elif name == 'copy':
        return pycopy.copy(c)
    elif name == 'connect':
        other = _attached(st[1])
        before = circ_to_json(other)
        c.connect_circuit(other, list(st[2]), list(st[3]), right_connect=st[4], name=st[5], add_prefix=st[6])
        if circ_to_json(other) != before:
            raise AssertionError('attached circuit was modified')
    elif name == 'wrap':
        # the five wrappers, called as a user calls them: ['wrap', which, other, thisC|None, otherC|None, right, name, addp]
        _, which, oj, thisc, otherc, right, bname, addp = st
        other = _attached(oj)
        before = circ_to_json(other)
        if which == 'connect_left':
            c.connect_left(other, list(thisc), name=bname, add_prefix=addp)
        elif which == 'connect_right':
            c.connect_right(other, list(otherc), name=bname, add_prefix=addp)
        elif which == 'connect_inputs':
            c.connect_inputs(other, name=bname, add_prefix=addp)
        elif which == 'extend':
            c.extend_circuit(other, this_connectors=None if thisc is None else list(thisc),
                             other_connectors=None if otherc is None else list(otherc),
                             right_connect=right, name=bname, add_prefix=addp)
        elif which == 'add':
            c.add_circuit(other, name=bname, add_prefix=addp)
        else:
            raise ValueError('unknown wrapper ' + which)
        if circ_to_json(other) != before:
            raise AssertionError('attached circuit was modified')
    elif name == 'into_circuit':
        # the current circuit is replaced by the extracted block
        return c.get_block(st[1]).into_circuit()
    elif name == 'replace_subcircuit':
        sub = circ_from_json(st[1])
        c.replace_subcircuit(sub, dict(map(tuple, st[2])), dict(map(tuple, st[3])))
    else:
        raise ValueError('unknown step ' + name)
    return c


def py_mutate(req):
    # the circuit the calls are made on: built afresh, or (every third one) a deep copy / a pickle round trip of it
    c = _attached(req['c'])
    out = []
    with UuidPatch():
        for st in req['steps']:
            try:
                c = apply_step(c, st)
                out.append(circ_to_json(c))
            except RecursionError:
                out.append({'err': 'Py:RecursionError'})
                break
            except Exception as e:  # noqa: BLE001
                out.append({'err': err_name(e)})
                break
    return {'ok': out}


def canon_state(s):
    """canonical projection of a circuit state: gates as a map (operand order kept), inputs/outputs
    as lists, users index as a map of multisets, blocks by name with member *sets* (block member
    order comes out of Python sets in two places)"""
    if 'err' in s:
        return s
    return {
        'gates': sorted((g[0], g[1], tuple(g[2])) for g in s['gates']),
        'inputs': s['inputs'], 'outputs': s['outputs'],
        'users': sorted((k, tuple(sorted(v))) for k, v in s['users'] if v),
        'blocks': sorted((b[0], tuple(b[1]), tuple(sorted(b[2])), tuple(b[3])) for b in s['blocks']),
    }


def compare_mutate(ctx, stream, reqs):
    code = [py_mutate(r) for r in reqs]
    model = ctx.driver.ask_many(reqs)
    for r, a, b in zip(reqs, code, model):
        if 'bad' in b:
            raise RuntimeError('driver rejected request: %r' % (b,))
        if a == b:
            ctx.count('agree:' + stream)
        elif [canon_state(x) for x in a['ok']] == [canon_state(x) for x in b['ok']]:
            ctx.count('order_drift:' + stream)
        else:
            # first differing step
            k = next((i for i, (x, y) in enumerate(zip(a['ok'], b['ok'])) if canon_state(x) != canon_state(y)),
                     min(len(a['ok']), len(b['ok'])))
            ctx.mismatch(stream, {'c': r['c'], 'steps': r['steps'][:k + 1]},
                         a['ok'][k] if k < len(a['ok']) else None, b['ok'][k] if k < len(b['ok']) else None)
        for x in a['ok']:
            if 'err' in x:
                ctx.count('err:' + x['err'])
    return code


def check_wf(ctx, states):
    """Lean checkWFU on circuit states; returns list of verdict strings"""
    reqs = [{'op': 'check_wf', 'c': s} for s in states]
    return [r.get('ok') for r in ctx.driver.ask_many(reqs)] if reqs else []
