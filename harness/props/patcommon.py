"""Correspondence of the cone-simulation primitives (`_generate_inputs_tt`, `_PatternOperations.eval_pattern`) with the
Lean model (Model/Pattern.lean) — shared by C04 (where they are used) and C01 (they interpret gate types)."""
import json

from common import err_name


def pattern_correspondence(ctx, supported, n_cases=None):
    from cirbo.minimization.subcircuit import _PatternOperations, _generate_inputs_tt
    rng = ctx.rng('corr-pattern')
    reqs, code = [], []
    for k in range(0, 6):
        reqs.append({'op': 'pattern_inputs', 'k': k})
        code.append({'ok': [int(x) for x in _generate_inputs_tt(k)]})
    for _ in range(n_cases if n_cases is not None else ctx.scale(600, 6000)):
        k = rng.randint(0, 4)
        ty = rng.choice(list(supported) + ['IFF', 'LNOT', 'ALWAYS_TRUE', 'INPUT'])
        ar = 1 if ty == 'NOT' else rng.choice([2, 2, 2, 3, 3, 4])
        mx = (1 << (1 << k)) - 1
        ops = [rng.randint(0, mx) for _ in range(ar)]
        reqs.append({'op': 'pattern_eval', 'k': k, 'ty': ty, 'ops': ops})
        try:
            code.append({'ok': int(_PatternOperations(k).eval_pattern(list(ops), ty))})
        except Exception as e:  # noqa: BLE001
            code.append({'err': err_name(e)})
        ctx.case(json.dumps(['p', k, ty, ops]))
    model = ctx.driver.ask_many(reqs)
    for r, a, b in zip(reqs, code, model):
        if a == b:
            ctx.count('agree:' + r['op'])
        else:
            ctx.mismatch(r['op'], r, a, b)
