"""C04 — SAT-based subcircuit minimisation returns an equivalent, not larger circuit."""
import itertools
import json

import gen
from common import circ_from_json, circ_to_json, err_name, realize

RULE = ('circuits over the supported gate set (NOT, AND, OR, XOR, NAND, NOR, NXOR, GT, LT, GEQ, LEQ; 2..5 inputs, up to 12 gates, 1..3 '
        'outputs incl. repeated outputs and outputs that are inputs, dead logic, correlated cut leaves, cut leaves that read gates of '
        'their own cone, cones sharing leaves, a corpus of past failures) x bases AIG/XAIG/FULL x '
        'parameter settings (max_subcircuit_size, cut_size, cut_limit, time limit) x cut families (canonical k-feasible family of the shim '
        'enumerator, random sub-families, shuffled orders); the real minimize_subcircuits is run and its result compared with the '
        'argument on all input assignments; pattern primitives are compared with the Lean model')
ASSUMPTIONS = ['gates of the supported types, n-ary ones with up to four operands (others must raise UnsupportedOperationError)',
               'cut families: subsets/reorderings of the k-feasible cuts (every node keeps its trivial cut)']
TRUSTED = ['mockturtle_wrapper is not buildable in the sandbox: harness/shims/mockturtle_wrapper.py enumerates k-feasible cuts',
           'pysat shim solver (DPLL / z3, models re-checked)', 'search oracle: truth tables through the real evaluator (C01)']

SUPPORTED = ['NOT', 'AND', 'OR', 'XOR', 'NAND', 'NOR', 'NXOR', 'GT', 'LT', 'GEQ', 'LEQ']


def gen_case(rng):
    ni = rng.choice([2, 3, 3, 4, 4, 5])
    no = rng.choice([1, 1, 2, 3])
    # about a quarter of the circuits have AND/OR/XOR/NAND/NOR/NXOR gates with three or four operands
    nary = rng.random() < 0.25
    j, _ = gen.gen_circuit(rng, max_inputs=ni, min_inputs=ni, max_gates=rng.randint(3, 12), n_outputs=no,
                           max_arity=4 if nary else 2, types=SUPPORTED,
                           label_pool=rng.choice(['plain', 'plain', 'digits', 'digits', 'synth']))
    for g in j['gates']:
        if g[1] not in ('INPUT', 'NOT') and len(g[2]) > 2 and not (nary and g[1] in ('AND', 'OR', 'XOR', 'NAND', 'NOR', 'NXOR')):
            g[2] = g[2][:2]
    j['users'] = []
    cj = realize(j)
    basis = rng.choice(['AIG', 'XAIG', 'FULL', 'xaig'])
    params = {'max_subcircuit_size': rng.choice([9, 9, 4, 3]), 'cut_size': rng.choice([5, 4, 3, 2]), 'cut_limit': rng.choice([25, 8, 3]),
              'solver_time_limit_sec': rng.choice([15, 15, 0])}
    cutmode = rng.choice(['all', 'all', 'subset', 'shuffle'])
    return cj, basis, params, cutmode, rng.getrandbits(30)


BIN = ['AND', 'OR', 'XOR', 'NAND', 'NOR', 'NXOR', 'GT', 'LT', 'GEQ', 'LEQ']


def gen_correlated(rng, k):
    """cut leaves that are correlated asymmetrically (one implies the other, through reconvergent but not
    nested logic) under a redundant cone: the smaller replacement has to use the unreachable leaf vector as
    a don't-care"""
    fam = rng.choice(['AND', 'OR']) if k >= 6 else ['AND', 'OR'][k % 2]
    gates = [['a', 'INPUT', []], ['b', 'INPUT', []], ['c', 'INPUT', []],
             ['x', fam, ['a', 'b']], ['bc', fam, ['b', 'c']], ['y', fam, ['a', 'bc']]]
    if k < 6:
        # x XOR y written with three AIG gates; XOR needs three, so a two-gate answer exists only by using a don't-care row
        cone = [[['p', 'GEQ', ['x', 'y']], ['q', 'LEQ', ['x', 'y']], ['n', 'NAND', ['p', 'q']]],
                [['p', 'GT', ['x', 'y']], ['q', 'LT', ['x', 'y']], ['n', 'OR', ['p', 'q']]],
                [['p', 'NAND', ['x', 'y']], ['q', 'OR', ['x', 'y']], ['n', 'AND', ['p', 'q']]]][k // 2]
    else:
        avail = ['x', 'y']
        cone = []
        for i in range(rng.choice([3, 3, 4])):
            ops = [rng.choice(avail), rng.choice(avail)]
            if i >= 1:
                ops[0] = cone[-1][0]
            cone.append(['t%d' % i, rng.choice(BIN), ops])
            avail.append('t%d' % i)
    gates += cone
    outs = [cone[-1][0]] + (['y'] if (k >= 6 and rng.random() < 0.3) else [])
    j = {'gates': gates, 'inputs': ['a', 'b', 'c'], 'outputs': outs, 'blocks': []}
    params = {'max_subcircuit_size': 9, 'cut_size': 5, 'cut_limit': 25, 'solver_time_limit_sec': 15}
    if k >= 6 and rng.random() < 0.3:
        params = {'max_subcircuit_size': 4, 'cut_size': 3, 'cut_limit': 25, 'solver_time_limit_sec': 0}
    return realize(j), ('AIG' if k < 6 else rng.choice(['AIG', 'AIG', 'XAIG'])), params, 'all', 0


def gen_twin_cones(rng, k):
    """the same cone twice in one circuit — once over leaves that are correlated (one implies the other, so some leaf
    vectors never occur and the smaller replacement may use them as don't-cares) and once over independent inputs (no
    don't-cares): the two cones have the same number of leaves, the same size and the same local patterns, and differ
    only in their care sets. Whatever is remembered about one cone must not be applied to the other."""
    ins = ['x', 'y', 'z', 'w', 'p', 'q', 'r']
    gad = k % 3
    if gad == 0:
        pre = [['m', 'AND', ['x', 'y']], ['u', 'AND', ['m', 'z']], ['n', 'OR', ['x', 'y']], ['v', 'OR', ['n', 'z']]]
    elif gad == 1:
        pre = [['u', 'AND', ['x', 'y']], ['v', 'OR', ['x', 'y']]]
    else:
        pre = [['u', 'GT', ['x', 'y']], ['v', 'XOR', ['x', 'y']]]
    if k < 6:
        tmpl = [['1', 'XOR', ['L0', 'L1']], ['2', 'XOR', ['L0', 'L2']], ['3', 'AND', ['1', '2']], ['f', 'XOR', ['3', 'L0']]]
        basis = 'XAIG'
    else:
        tmpl, avail = [], ['L0', 'L1', 'L2']
        for i in range(rng.choice([3, 4, 4, 5])):
            ops = [rng.choice(avail), rng.choice(avail)]
            if i >= 1:
                ops[rng.randrange(2)] = tmpl[-1][0]
            if ops[0] == ops[1]:
                ops[1] = rng.choice([a for a in avail if a != ops[0]])
            tmpl.append([str(i + 1) if i < 10 else 'f', rng.choice(['AND', 'OR', 'XOR', 'XOR', 'NAND', 'GT']), ops])
            avail.append(tmpl[-1][0])
        tmpl[-1][0] = 'f'
        for g in tmpl[:-1]:
            pass
        basis = rng.choice(['XAIG', 'XAIG', 'AIG', 'FULL'])
    names = {g[0] for g in tmpl}
    pa, pb = rng.sample(['a', 'b', 'k', 'cone', 'T'], 2)

    def inst(prefix, leaves):
        ren = dict(zip(['L0', 'L1', 'L2'], leaves))
        ren.update({nm: prefix + nm for nm in names})
        return [[ren[g[0]], g[1], [ren[o] for o in g[2]]] for g in tmpl]
    perm = ['u', 'v', 'w'] if k < 6 or rng.random() < 0.5 else rng.sample(['u', 'v', 'w'], 3)
    A, B = inst(pa, perm), inst(pb, ['p', 'q', 'r'])
    body = pre + (A + B if rng.random() < 0.5 else B + A)
    j = {'gates': [[i, 'INPUT', []] for i in ins] + body, 'inputs': ins, 'outputs': [pa + 'f', pb + 'f'], 'blocks': []}
    params = {'max_subcircuit_size': 9, 'cut_size': rng.choice([3, 3, 5]), 'cut_limit': 25, 'solver_time_limit_sec': 15}
    return realize(j), basis, params, 'all', 0


def gen_nary_cone(rng, k):
    """small cones around one gate with three or four operands (optionally behind negations): the
    function of such a cone needs more two-input gates than the cone has gates, so the replacement search
    must not be given a larger budget than the number of gates of the cone"""
    n = rng.choice([3, 4, 4])
    ins = ['a', 'b', 'c', 'd'][:n]
    gates = [[i, 'INPUT', []] for i in ins]
    ops = []
    for i in ins:
        if rng.random() < 0.3:
            gates.append(['n' + i, 'NOT', [i]])
            ops.append('n' + i)
        else:
            ops.append(i)
    rng.shuffle(ops)
    gates.append(['t', rng.choice(['AND', 'OR', 'XOR', 'NAND', 'NOR', 'NXOR']), ops])
    outs = ['t']
    if rng.random() < 0.7:
        gates.append(['u', rng.choice(BIN), ['t', rng.choice(ins)] if rng.random() < 0.5 else [rng.choice(ins), 't']])
        outs = ['u'] + (['t'] if rng.random() < 0.2 else [])
    if rng.random() < 0.3:
        gates.append(['m', rng.choice(['AND', 'OR', 'XOR']), list(ins[:3])])
        gates.append(['v', rng.choice(BIN), [outs[0], 'm']])
        outs = ['v']
    j = {'gates': gates, 'inputs': ins, 'outputs': outs, 'blocks': []}
    params = {'max_subcircuit_size': 9, 'cut_size': rng.choice([5, 4]), 'cut_limit': 25, 'solver_time_limit_sec': 15}
    return realize(j), rng.choice(['AIG', 'XAIG', 'FULL']), params, 'all', 0


def gen_leaf_reads_cone(rng, k):
    """a cut whose leaves read gates of the cone they bound: p1, p2 depend on (a, b) only, the leaves L1, L2 read them
    together with inputs outside the cut, and the root reads v(a, b), L1, L2 — the cut {a, b, L1, L2} of the root has
    p1, p2 in its cone although only leaves read them.  No dead logic, every gate is observed."""
    nary = ['AND', 'OR', 'XOR', 'NAND', 'NOR', 'NXOR']
    t = lambda: rng.choice(BIN)
    wide = rng.random() < 0.5
    ins = ['a', 'b', 'c', 'd'] + (['e', 'f'] if wide else [])
    gates = [[i, 'INPUT', []] for i in ins]
    gates += [['p1', t(), ['a', 'b']], ['p2', t(), ['a', 'b']], ['v', t(), ['a', 'b']]]
    if wide:
        gates += [['L1', rng.choice(nary), ['p1', 'c', 'e']], ['L2', rng.choice(nary), ['p2', 'd', 'f']]]
    else:
        gates += [['L1', t(), ['p1', 'c']], ['L2', t(), ['p2', 'd']]]
    if rng.random() < 0.5:
        gates += [['o', rng.choice(nary), ['v', 'L1', 'L2']]]
    else:
        gates += [['w', t(), ['v', 'L1']], ['o', t(), ['w', 'L2']]]
    if rng.random() < 0.4:
        rng.shuffle(ins)
    j = {'gates': gates, 'inputs': ins, 'outputs': ['o', 'L1', 'L2'][:rng.choice([1, 3, 3])], 'blocks': []}
    params = {'max_subcircuit_size': rng.choice([9, 9, 4]), 'cut_size': rng.choice([4, 4, 3, 5]), 'cut_limit': 25, 'solver_time_limit_sec': 0}
    return realize(j), rng.choice(['AIG', 'XAIG', 'FULL']), params, rng.choice(['all', 'all', 'subset', 'shuffle']), rng.getrandbits(30)


def gen_leaf_above_output(rng, k):
    """a cut leaf that lies *above* an output of the cone it bounds (p2 -> p3 -> L1 with the cut {L1, p0, g}): a smaller
    replacement may compute p2 from L1 and close a cycle — the driver has to drop that splice without a trace"""
    t = lambda: rng.choice(BIN)
    ins = ['a', 'b', 'g', 'c', 'd']
    gates = [[i, 'INPUT', []] for i in ins]
    gates += [['p0', t(), ['a', 'b']], ['p1', t(), ['g', 'p0']], ['p2', t(), ['p0', 'g']], ['p3', t(), ['a', 'p2']],
              ['L1', t(), ['p3', 'c']], ['r0', t(), ['L1', 'p2']], ['r1', t(), ['r0', 'p0']], ['r2', t(), ['L1', 'r1']]]
    outs = ['p1', 'r2', 'L1']
    if rng.random() < 0.5:
        gates.append(['r3', rng.choice(['NXOR', 'NAND', 'NOR']), ['r2', 'r2']])
        outs = ['p1', 'r3', 'L1']
    j = {'gates': gates, 'inputs': ins, 'outputs': outs, 'blocks': []}
    params = {'max_subcircuit_size': 9, 'cut_size': rng.choice([4, 4, 5, 3]), 'cut_limit': 25, 'solver_time_limit_sec': 0}
    return realize(j), rng.choice(['AIG', 'AIG', 'XAIG', 'FULL']), params, rng.choice(['all', 'all', 'shuffle']), rng.getrandbits(30)


def gen_stale_cone(rng, k):
    """two cones over shared leaves: one is replaced by fewer gates (its old gates vanish), the other still lists them"""
    t = lambda: rng.choice(BIN)
    ins = ['a', 'b', 'c']
    blocks = [[['n', 'NOT', ['a']], ['m', t(), ['b', rng.choice(['b', 'c'])]], ['o1', t(), ['n', 'm']]],
              [['t1', t(), ['a', 'c']], ['t2', t(), ['a', 'c']], ['o2', t(), ['t1', 't2']]]]
    if rng.random() < 0.5:
        blocks[1].append(['t3', t(), ['t1', 'n']])
    rng.shuffle(blocks)
    gates = [[i, 'INPUT', []] for i in ins] + blocks[0] + blocks[1]
    outs = ['o1', 'o2'] + (['t3'] if any(g[0] == 't3' for g in gates) else [])
    rng.shuffle(outs)
    if rng.random() < 0.5:
        rng.shuffle(ins)
    j = {'gates': gates, 'inputs': ins, 'outputs': outs, 'blocks': []}
    params = {'max_subcircuit_size': 9, 'cut_size': 5, 'cut_limit': 25, 'solver_time_limit_sec': 0}
    return realize(j), rng.choice(['AIG', 'XAIG', 'FULL']), params, rng.choice(['all', 'all', 'shuffle']), rng.getrandbits(30)


def directed_cases():
    """inputs on which the pinned tree raised an internal error (no dead logic, no equivalent gates); kept as a corpus"""
    G = lambda l, t, *ops: [l, t, list(ops)]
    I = lambda *ls: [[l, 'INPUT', []] for l in ls]
    dflt = {'max_subcircuit_size': 9, 'cut_size': 5, 'cut_limit': 25, 'solver_time_limit_sec': 0}
    out = []
    stale = {'gates': I('a', 'b', 'c') + [G('n', 'NOT', 'a'), G('m', 'NAND', 'b', 'b'), G('o1', 'OR', 'n', 'm'), G('t1', 'OR', 'a', 'c'),
                                         G('t2', 'NAND', 'a', 'c'), G('o2', 'AND', 't1', 't2')],
             'inputs': ['a', 'b', 'c'], 'outputs': ['o1', 'o2'], 'blocks': []}
    over = {'gates': I('a', 'b', 'c', 'd', 'e', 'f') + [G('p1', 'AND', 'a', 'b'), G('p2', 'OR', 'a', 'b'), G('v', 'XOR', 'a', 'b'),
                                                       G('L1', 'XOR', 'p1', 'c', 'e'), G('L2', 'XOR', 'p2', 'd', 'f'), G('o', 'AND', 'v', 'L1', 'L2')],
            'inputs': ['a', 'b', 'c', 'd', 'e', 'f'], 'outputs': ['o', 'L1', 'L2'], 'blocks': []}
    leaf = {'gates': I('x0', 'x1', 'x2', 'x3') + [G('g0', 'XOR', 'x2', 'x0', 'x1'), G('g1', 'AND', 'g0', 'x3'), G('g2', 'NOR', 'x0', 'x1'),
                                                 G('g3', 'LEQ', 'x1', 'g2'), G('g4', 'NXOR', 'x2', 'g2', 'g3', 'x3'), G('g5', 'NAND', 'g4', 'g1'),
                                                 G('g6', 'LEQ', 'g4', 'g3')],
            'inputs': ['x0', 'x1', 'x2', 'x3'], 'outputs': ['g6', 'g5'], 'blocks': []}
    fam_c = {'gates': I('x0', 'x1', 'x2', 'x3') + [G('g1', 'NXOR', 'x3', 'x2'), G('g2', 'NXOR', 'x1', 'g1'), G('g3', 'AND', 'x2', 'g2'),
                                                  G('g4', 'NAND', 'g1', 'g3')],
             'inputs': ['x0', 'x1', 'x2', 'x3'], 'outputs': ['g2', 'g4', 'g3'], 'blocks': []}
    fam = {'x0': [['x0']], 'x1': [['x1']], 'x2': [['x2']], 'x3': [['x3']], 'g1': [['x2', 'x3'], ['g1']], 'g2': [['g1', 'x1'], ['g2']],
           'g3': [['g2', 'x2'], ['g3']], 'g4': [['g1', 'g3'], ['g2', 'x2', 'x3'], ['g4']]}
    cyc = {'gates': I('a', 'b', 'g', 'c', 'd') + [G('p0', 'OR', 'a', 'b'), G('p1', 'NOR', 'g', 'p0'), G('p2', 'NAND', 'p0', 'g'), G('p3', 'XOR', 'a', 'p2'),
                                                 G('L1', 'OR', 'p3', 'c'), G('r0', 'OR', 'L1', 'p2'), G('r1', 'AND', 'r0', 'p0'), G('r2', 'XOR', 'L1', 'r1'),
                                                 G('r3', 'NXOR', 'r2', 'r2')],
           'inputs': ['a', 'b', 'g', 'c', 'd'], 'outputs': ['p1', 'r3', 'L1'], 'blocks': []}
    # leaves that carry the labels exact synthesis gives its own inputs ('0', '1', '2'), in every assignment of roles
    for x, y, z in itertools.permutations(['0', '1', '2']):
        dig = {'gates': I(x, y, z) + [G('3', 'OR', x, z), G('4', 'GEQ', z, y), G('5', 'AND', '3', '4')],
               'inputs': [x, y, z], 'outputs': ['5'], 'blocks': []}
        for basis in ('AIG', 'XAIG', 'FULL'):
            out.append((realize(dig), basis, dflt, 'all', 0))
    # the same with 2..5 digit-labelled leaves: an XOR written with three AIG gates over leaves '0' and '1', then a
    # chain over the further leaves (the order in which a set of these labels is listed depends on the hash seed;
    # with several sizes some cut is listed in another order than the sorted one under any seed)
    for n in (2, 3, 4, 5):
        ls = [str(i) for i in range(n)]
        gates = I(*ls) + [G('p', 'NAND', '0', '1'), G('q', 'OR', '0', '1'), G('x', 'AND', 'p', 'q')]
        last = 'x'
        for i in range(2, n):
            gates.append(G('c%d' % i, ['AND', 'OR', 'GT'][i % 3], last, ls[i]))
            last = 'c%d' % i
        dig = {'gates': gates, 'inputs': ls, 'outputs': [last], 'blocks': []}
        for basis in ('XAIG', 'FULL'):
            out.append((realize(dig), basis, dflt, 'all', 0))
    for basis in ('AIG', 'XAIG', 'FULL'):
        out.append((realize(cyc), basis, dict(dflt, cut_size=4), 'all', 0))
        out.append((realize(stale), basis, dflt, 'all', 0))
        out.append((realize(over), basis, dict(dflt, cut_size=4), 'all', 0))
        out.append((realize(leaf), basis, dict(dflt, cut_size=3, max_subcircuit_size=3), 'all', 0))
        out.append((realize(fam_c), basis, dflt, 'family', fam))
    return out


def run_minimize(cj, basis, params, cutmode, cutseed, validate):
    import random
    # exact synthesis of a cone of more than four gates without a time limit can keep a solver busy for hours
    # (it has to prove that no smaller circuit exists): unlimited search only for small cones
    if params.get('solver_time_limit_sec') == 0 and params.get('max_subcircuit_size', 9) > 4:
        params = dict(params, solver_time_limit_sec=4)
    import mockturtle_wrapper as mw
    from cirbo.minimization.subcircuit import minimize_subcircuits

    r = random.Random(cutseed if cutmode != 'family' else 0)

    def hook(res):
        if cutmode == 'family':
            return {n: [list(c) for c in cs] for n, cs in cutseed.items()}
        out = {}
        for n, cuts in res.items():
            cuts = list(cuts)
            r.shuffle(cuts)
            out[n] = cuts
        items = list(out.items())
        r.shuffle(items)
        return dict(items)

    def cut_filter(node, found):
        # an admissible sub-family: like cut_limit, a node keeps some of its cuts and fan-outs merge only kept ones
        return [c for c in found if r.random() < 0.65]
    mw.CUT_HOOK = hook if cutmode in ('subset', 'shuffle', 'family') else None
    mw.CUT_FILTER = cut_filter if cutmode == 'subset' else None
    # record every splice the driver performs (monkeypatch in this process only; no source hook)
    from cirbo.core.circuit import Circuit
    orig_replace = Circuit.replace_subcircuit
    steps = []

    def recording_replace(self, subcircuit, inputs_mapping, outputs_mapping):
        rec = {'before': circ_to_json(self), 'sub': circ_to_json(subcircuit),
               'im': [list(p) for p in inputs_mapping.items()], 'om': [list(p) for p in outputs_mapping.items()]}
        steps.append(rec)
        try:
            out = orig_replace(self, subcircuit, inputs_mapping, outputs_mapping)
        except Exception as e:  # noqa: BLE001
            rec['err'] = err_name(e)
            raise
        rec['after'] = circ_to_json(self)
        return out
    Circuit.replace_subcircuit = recording_replace
    # record every cone with its simulation patterns, its assignment strings and its table with don't-cares
    # (wrapper around the module-level function in this process only; no source hook)
    import cirbo.minimization.subcircuit as SC
    orig_edc = SC._eval_dont_cares
    cones = []

    def recording_edc(circuit, subcircuits):
        out = orig_edc(circuit, subcircuits)
        try:
            from cirbo.core.logic import DontCare
            cjs = circ_to_json(circuit)
            for sc in out:
                labs = list(sc.inputs) + [g for g in sc.gates if g not in sc.inputs]
                cones.append({'c': cjs, 'inputs': list(sc.inputs), 'gates': list(sc.gates), 'outputs': list(sc.outputs),
                              'patterns': [[l, int(sc.patterns[l])] for l in labs] if all(l in sc.patterns for l in labs) else None,
                              'inputs_tt': list(sc.inputs_tt),
                              'table': [[None if x is DontCare else bool(x) for x in row]
                                        for row in sc.evaluate_truth_table_with_dont_cares()]})
        except Exception as e:  # noqa: BLE001
            cones.append({'record_error': err_name(e)})
        return out
    SC._eval_dont_cares = recording_edc
    try:
        c = circ_from_json(cj)
        before = circ_to_json(c)
        kw = dict(params)
        if kw.get('solver_time_limit_sec') == 0:
            kw['solver_time_limit_sec'] = None
        res = minimize_subcircuits(c, basis, enable_validation=validate, **kw)
        return {'ok': circ_to_json(res), 'arg_after': circ_to_json(c), 'arg_before': before, 'steps': steps, 'cones': cones}
    except Exception as e:  # noqa: BLE001
        return {'err': err_name(e), 'steps': steps, 'cones': cones}
    finally:
        Circuit.replace_subcircuit = orig_replace
        SC._eval_dont_cares = orig_edc
        mw.CUT_HOOK = None
        mw.CUT_FILTER = None


def audit_steps(ctx, cj, r, inp):
    """the tie of c04_improvement_steps_preserve_function to the driver: every splice the driver performed is a
    replace_subcircuit (i) whose replacement agrees with the cone on every input assignment of the circuit it is applied
    to, with no cone output among the circuit inputs (the theorem's hypotheses), (ii) that the Lean model of
    replace_subcircuit reproduces, and (iii) the circuits form a chain from the argument to the result"""
    from props import gencommon as G
    steps = r.get('steps') or []
    for st in steps:
        if 'err' in st:
            ctx.count('refused_splice:' + st['err'])
    cur = cj
    model_reqs = []
    for st in steps:
        if canon(st['before']) != canon(cur):
            # between two splices the driver may merge signals with equal patterns in place (its other kind of step,
            # not covered by the theorem): the circuit it splices next must still compute the same function
            ctx.count('in_place_merge_between_splices')
            if st['before']['inputs'] != cur['inputs'] or tts(st['before']) != tts(cur):
                ctx.mismatch('min.steps.chain', inp, 'function changed between two splices', None)
                return
        if 'after' not in st:
            break
        ctx.count('splice')
        before = st['before']
        tt = G.gates_tt(before)
        rows = 1 << len(before['inputs'])
        sub = circ_from_json(st['sub'])
        sub_in = list(sub.inputs)
        im = {k: v for k, v in st['im']}
        inv = {v: k for k, v in im.items()}
        ok = all(k not in before['inputs'] for k, _ in st['om']) and set(sub_in) <= set(inv)
        if ok:
            for row in range(rows):
                vals = sub.evaluate_full_circuit({i: tt[inv[i]][row] for i in sub_in}) if hasattr(sub, 'evaluate_full_circuit') else None
                for k, o in st['om']:
                    if bool(vals[o]) != bool(tt[k][row]):
                        ok = False
                        break
                if not ok:
                    break
        if not ok:
            ctx.mismatch('min.steps.hypotheses', {'step': {k: st[k] for k in ('sub', 'im', 'om')}, 'before': before},
                         'replacement does not agree with the cone / cone output is a circuit input', None)
        model_reqs.append({'op': 'mutate', 'c': before, 'steps': [['replace_subcircuit', st['sub'], st['im'], st['om']]]})
        cur = st['after']
    if 'ok' in r and canon(r['ok']) != canon(cur):
        ctx.count('in_place_merge_after_last_splice')
    if model_reqs:
        from props.mutcommon import compare_mutate
        compare_mutate(ctx, 'splice', model_reqs)


def canon(j):
    return {'gates': sorted((g[0], g[1], tuple(g[2])) for g in j['gates']), 'inputs': list(j['inputs']), 'outputs': list(j['outputs'])}


def tts(cj):
    from props.evalcommon import json_is_cyclic
    if json_is_cyclic(cj):
        raise ValueError('the circuit is cyclic')       # cirbo's evaluator would not terminate
    c = circ_from_json(cj)
    return [''.join('1' if b else '0' for b in row) for row in c.get_truth_table()]


def nontrivial(cj):
    return sum(1 for g in cj['gates'] if g[1] not in ('INPUT', 'NOT', 'IFF', 'LNOT', 'RNOT', 'LIFF', 'RIFF', 'ALWAYS_TRUE', 'ALWAYS_FALSE'))


def has_equivalent_gates(cj):
    c = circ_from_json(cj)
    tt = c.get_gates_truth_table()
    seen = {}
    for l, row in tt.items():
        key = tuple(row)
        if key in seen:
            return True
        seen[key] = l
    return False


def has_dead_logic(cj):
    ops = {g[0]: g[2] for g in cj['gates']}
    seen, stack = set(), list(cj['outputs'])
    while stack:
        l = stack.pop()
        if l in seen:
            continue
        seen.add(l)
        stack.extend(ops.get(l, []))
    return any(g[1] != 'INPUT' and g[0] not in seen for g in cj['gates'])


_VAL = [0]


def audit_cones(ctx, r, inp, limit=12):
    """the tie of c04_cone_simulation_computes_the_cone / c04_dont_care_table_sound to the driver: every cone the driver
    built is (i) closed (every operand of a simulated gate is a leaf or an earlier gate of the cone) with its outputs
    inside the cone — the theorems' hypotheses —, and (ii) its patterns, its assignment strings and its table with
    don't-cares are what the Lean model (Model/ConeTable.lean) computes from the circuit, the leaves and the cone"""
    cones = r.get('cones') or []
    reqs, code = [], []
    for cone in cones[:limit]:
        if 'record_error' in cone:
            ctx.mismatch('min.cone.record', inp, cone['record_error'], None)
            continue
        cj = cone['c']
        gates = {g[0]: g for g in cj['gates']}
        leaves = cone['inputs'][::-1]
        seen = set(leaves)
        closed = len(set(leaves)) == len(leaves)
        for nd in cone['gates']:
            if nd in leaves:
                continue
            if nd not in gates or any(o not in seen for o in gates[nd][2]):
                closed = False
            seen.add(nd)
        if not closed or any(o not in seen for o in cone['outputs']):
            # a cut family that is not admissible (the theorem does not speak about it); the harness supplies only
            # admissible ones, so this is reported
            ctx.mismatch('min.cone.hypotheses', {'cone': cone}, 'cone is not closed under its leaves / output outside', None)
            continue
        ctx.count('cone')
        ctx.count('cone_dc_rows:' + ('some' if any(x is None for row in cone['table'] for x in row) else 'none'))
        reqs.append({'op': 'cone_table', 'c': cj, 'leaves': leaves, 'nodes': cone['gates'], 'outs': cone['outputs']})
        code.append({'ok': {'patterns': cone['patterns'], 'reach': cone['inputs_tt'], 'table': cone['table']}})
    if not reqs:
        return
    model = ctx.driver.ask_many(reqs)
    for rq, a, b in zip(reqs, code, model):
        if 'ok' in b and a['ok']['patterns'] is not None:
            # the model lists leaves then nodes (a leaf that is also listed among the nodes twice): compare as a map
            b = {'ok': dict(b['ok'], patterns=sorted(map(list, {(l, p) for l, p in b['ok']['patterns']})))}
            a = {'ok': dict(a['ok'], patterns=sorted(a['ok']['patterns']))}
        if a == b:
            ctx.count('agree:cone_table')
        else:
            ctx.mismatch('cone_table', rq, a, b)


def check_case(ctx, cj, basis, params, cutmode, cutseed, audit=True):
    inp = {'c': cj, 'basis': basis, 'params': params, 'cutmode': cutmode, 'cutseed': cutseed}
    want = tts(cj)
    r = run_minimize(cj, basis, params, cutmode, cutseed, validate=False)
    if 'err' in r:
        if has_equivalent_gates(cj):
            ctx.count('raised_with_equivalent_gates:' + r['err'])
        elif has_dead_logic(cj):
            ctx.violation('min.raises.dead_logic', f'minimize_subcircuits raised {r["err"]} on a circuit with dead logic (no functionally equivalent gates)', input=inp)
        else:
            ctx.violation('min.raises', f'minimize_subcircuits raised {r["err"]} on a circuit without functionally equivalent gates', input=inp)
        return
    res = r['ok']
    if res['inputs'] != cj['inputs']:
        ctx.violation('min.inputs', f'inputs {cj["inputs"]} -> {res["inputs"]}', input=inp)
        return
    if len(res['outputs']) != len(cj['outputs']):
        ctx.violation('min.outputs', f'{len(cj["outputs"])} outputs -> {len(res["outputs"])}', input=inp)
        return
    try:
        got = tts(res)
    except Exception as e:  # noqa: BLE001
        ctx.violation('min.broken_result', f'result cannot be evaluated: {err_name(e)}', input=inp)
        return
    if got != want:
        ctx.violation('min.function', f'truth table {"_".join(want)} -> {"_".join(got)}', input=inp)
        return
    if nontrivial(res) > nontrivial(cj):
        ctx.violation('min.size.dead_logic' if has_dead_logic(cj) else 'min.size', f'{nontrivial(cj)} non-trivial gates -> {nontrivial(res)}', input=inp)
        return
    ctx.count('improved' if nontrivial(res) < nontrivial(cj) else 'same_size')
    if audit:
        audit_steps(ctx, cj, r, inp)
        audit_cones(ctx, r, inp)
    _VAL[0] += 1
    if ctx.tier == 'thorough' and _VAL[0] % 3:
        return
    rv = run_minimize(cj, basis, params, cutmode, cutseed, validate=True)
    if rv.get('err') == 'FailedValidationError':
        ctx.violation('min.validation', 'enable_validation=True reported a failed validation', input=inp)


class _ChildCtx:
    """collects what check_case reports, in a child interpreter"""
    tier = 'quick'

    def __init__(self):
        self.violations = []
        self.counts = {}

    def case(self, *a, **k):
        pass

    def sample(self, *a, **k):
        pass

    def count(self, k, n=1):
        self.counts[k] = self.counts.get(k, 0) + n

    def violation(self, key, what, input=None, **kw):
        self.violations.append({'key': key, 'what': what, 'input': input})


def child_main():
    """run by `corpus_under_hash_seeds` in an interpreter started with another PYTHONHASHSEED: the corpus only"""
    import sys
    import common
    common.setup_cirbo()
    ctx = _ChildCtx()
    for cj, basis, params, cutmode, cutseed in directed_cases():
        check_case(ctx, cj, basis, params, cutmode, cutseed, audit=False)
    sys.stdout.write('C04CHILD ' + json.dumps({'violations': ctx.violations, 'counts': ctx.counts}) + '\n')


def corpus_under_hash_seeds(ctx, seeds):
    """the property quantifies over hash-seed dependent set iteration orders; string hashing is fixed when an
    interpreter starts, so the corpus is also run in child interpreters started with other seeds"""
    import os
    import subprocess
    import sys
    here = os.path.dirname(os.path.dirname(os.path.abspath(__file__)))
    for hs in seeds:
        env = dict(os.environ, PYTHONHASHSEED=str(hs))
        try:
            out = subprocess.run([sys.executable, '-c', 'import sys; sys.path.insert(0, %r); from props import c04; c04.child_main()' % here],
                                 env=env, stdout=subprocess.PIPE, stderr=subprocess.PIPE, text=True, timeout=900)
        except subprocess.TimeoutExpired:
            ctx.count('hash_seed_child_timeout')
            continue
        line = [l for l in out.stdout.split('\n') if l.startswith('C04CHILD ')]
        if not line:
            ctx.count('hash_seed_child_failed')
            continue
        res = json.loads(line[-1][len('C04CHILD '):])
        ctx.count('corpus_under_hash_seed=%d' % hs, sum(v for k, v in res['counts'].items() if k in ('improved', 'same_size')))
        for v in res['violations']:
            inp = dict(v['input'] or {}, PYTHONHASHSEED=hs)
            ctx.violation(v['key'], v['what'] + f' (PYTHONHASHSEED={hs})', input=inp)


def correspondence(ctx):
    # pattern primitives vs the Lean model
    from props.patcommon import pattern_correspondence
    pattern_correspondence(ctx, SUPPORTED)


def search(ctx):
    rng = ctx.rng('search')
    for cj, basis, params, cutmode, cutseed in directed_cases():
        ctx.case(json.dumps(['directed', cj['gates'], cj['outputs'], basis, cutmode]))
        ctx.count('directed_corpus')
        check_case(ctx, cj, basis, params, cutmode, cutseed)
    base = int(__import__('os').environ.get('PYTHONHASHSEED', '0') or 0)
    corpus_under_hash_seeds(ctx, [base + 1, base + 2, base + 3] if ctx.tier == 'quick' else [base + i for i in range(1, 9)])
    for k in range(ctx.scale(60, 300)):
        cj, basis, params, cutmode, cutseed = gen_leaf_reads_cone(rng, k)
        ctx.case(json.dumps(['leafcone', cj['gates'], cj['inputs'], cj['outputs'], basis, params, cutmode, cutseed]))
        ctx.count('leaf_reads_cone')
        check_case(ctx, cj, basis, params, cutmode, cutseed)
    for k in range(ctx.scale(60, 300)):
        cj, basis, params, cutmode, cutseed = gen_leaf_above_output(rng, k)
        ctx.case(json.dumps(['leafabove', cj['gates'], cj['outputs'], basis, params, cutmode, cutseed]))
        ctx.count('leaf_above_cone_output')
        check_case(ctx, cj, basis, params, cutmode, cutseed)
    for k in range(ctx.scale(40, 200)):
        cj, basis, params, cutmode, cutseed = gen_stale_cone(rng, k)
        ctx.case(json.dumps(['stale', cj['gates'], cj['inputs'], cj['outputs'], basis, cutmode, cutseed]))
        ctx.count('stale_cone')
        check_case(ctx, cj, basis, params, cutmode, cutseed)
    for k in range(ctx.scale(60, 300)):
        cj, basis, params, cutmode, cutseed = gen_correlated(rng, k)
        ctx.case(json.dumps(['corr', cj['gates'], cj['outputs'], basis]))
        ctx.count('correlated_leaves')
        check_case(ctx, cj, basis, params, cutmode, cutseed)
    for k in range(ctx.scale(36, 200)):
        cj, basis, params, cutmode, cutseed = gen_twin_cones(rng, k)
        ctx.case(json.dumps(['twin', cj['gates'], cj['outputs'], basis, params]))
        ctx.count('twin_cones')
        check_case(ctx, cj, basis, params, cutmode, cutseed)
    for k in range(ctx.scale(40, 200)):
        cj, basis, params, cutmode, cutseed = gen_nary_cone(rng, k)
        ctx.case(json.dumps(['nary', cj['gates'], cj['outputs'], basis]))
        ctx.count('nary_cone')
        check_case(ctx, cj, basis, params, cutmode, cutseed)
    for k in range(ctx.scale(120, 1000)):
        cj, basis, params, cutmode, cutseed = gen_case(rng)
        ctx.case(json.dumps([cj['gates'], cj['outputs'], basis, params, cutmode, cutseed]))
        ctx.count('cutmode=' + cutmode)
        if k < 2:
            ctx.sample({'gates': cj['gates'], 'outputs': cj['outputs'], 'basis': basis, 'params': params})
        check_case(ctx, cj, basis, params, cutmode, cutseed)


def replay(ctx, rp):
    v = rp.get('violation') or {}
    i = v.get('input') or {}
    if 'c' in i:
        print(json.dumps(run_minimize(i['c'], i['basis'], i['params'], i['cutmode'], i['cutseed'], False))[:1200])
        check_case(ctx, i['c'], i['basis'], i['params'], i['cutmode'], i['cutseed'])
    else:
        search(ctx)
