"""C11 — bench text round-trips and the parser is faithful."""
import json
import os
import tempfile

import gen
from common import realize, circ_from_json, circ_to_json, err_name
from props.evalcommon import py_exec

RULE = ('(a) random circuits through the public API over all gate types/arities, labels from identifier pools '
        'that include keyword-prefixed ones (input_a, OUTPUT1, Input, vdd2, buff, not1), digits-first, mixed '
        'case; storage order != topological; format_circuit -> from_bench_string and save_to_file -> '
        'from_bench_file; (b) random textual layouts of the same netlist: shuffled declaration order (use '
        'before definition), random letter case of operators, extra spaces, comments, blank lines, BUFF/vdd '
        'aliases; (c) malformed lines for the error classes; non-trivial = >=1 non-input gate; distinct by text')
ASSUMPTIONS = ['labels are bench identifiers: non-empty ASCII words over [A-Za-z0-9_.@\\[\\]-] (no spaces, '
               'parentheses, commas, =, #); CRLF, whitespace-only lines and declaration lines with leading spaces are outside the layouts (the parser rejects or misreads them)',
               'file IO (save_to_file/from_bench_file) is exercised through a temp file; the model sees the text']
TRUSTED = ['search oracle: Circuit.__eq__ on the implementation (gates as maps with operand order, inputs, '
           'outputs) and denotation comparison through the real evaluator (certified in C01)']

IDENT_POOLS = ['plain', 'keyword', 'digits', 'punct']


def py_format(j):
    try:
        return {'ok': circ_from_json(j).format_circuit()}
    except Exception as e:  # noqa: BLE001
        return {'err': err_name(e)}


def py_parse(text):
    try:
        from cirbo.core.circuit import Circuit
        return {'ok': circ_to_json(Circuit.from_bench_string(text))}
    except Exception as e:  # noqa: BLE001
        return {'err': err_name(e)}


def layout(rng, j):
    """a random textual layout of the netlist j (what the text denotes = j)"""
    lines = []
    dpad = lambda: rng.choice(['', '', ' ', '  ', ') ', ' )'])
    junk = lambda: rng.choice(['', '', '', ' ', '  # c', ' junk', ') x = AND(', '  '])
    lead = lambda: ' ' * rng.choice([0, 0, 0, 1, 2])
    for l in j['inputs']:
        lines.append(('decl', rng.choice(['INPUT', 'input', 'Input', 'iNpUt']) + f'({dpad().replace(")", "")}{l}{dpad()})'))
    for l, t, ops in j['gates']:
        if t == 'INPUT':
            continue
        kw = 'BUFF' if t == 'IFF' and rng.random() < 0.5 else t
        kw = ''.join(ch.lower() if rng.random() < 0.4 else ch for ch in kw)
        sp = lambda: ' ' * rng.choice([0, 1, 1, 2])
        if t == 'ALWAYS_TRUE' and not ops and rng.random() < 0.4:
            body = rng.choice(['vdd', 'VDD', 'Vdd'])
            lines.append(('gate', f'{lead()}{l}{sp()}={sp()}{body}{junk()}'))
        else:
            args = (sp() + ',' + sp()).join(ops)
            lines.append(('gate', f'{lead()}{l}{sp()}={sp()}{kw}{sp()}({sp()}{args}{sp()}){junk()}'))
    outs = [('decl', rng.choice(['OUTPUT', 'output', 'Output', 'oUtPuT']) + f'({dpad().replace(")", "")}{l}{dpad()})') for l in j['outputs']]
    # inputs keep their relative order (it is the input order); gates/outputs may be anywhere
    body = [x for x in lines if x[0] == 'gate']
    rng.shuffle(body)
    merged = [x[1] for x in lines if x[0] == 'decl']
    for g in body:
        merged.insert(rng.randrange(len(merged) + 1), g[1])
    pos_sorted = sorted(rng.randrange(len(merged) + 1) for _ in outs)
    for k, (o, p) in enumerate(zip(outs, pos_sorted)):
        merged.insert(p + k, o[1])
    # input order must be preserved: re-extract and verify; else fall back to plain order
    ins_seen = [ln[ln.index('(') + 1:].strip(') ') for ln in merged if ln.upper().startswith('INPUT(')]
    if ins_seen != j['inputs']:
        merged = [x[1] for x in lines if x[0] == 'decl'] + [g[1] for g in body] + [o[1] for o in outs]
    out = []
    for ln in merged:
        if rng.random() < 0.15:
            out.append(rng.choice(['', '# comment = AND(a, b)', '#', '# INPUT(zz)', '# stage 2 (the slow one', '# closes ) more than it opens',
                                   '# ((( nested', '#= NOT(']))
        out.append(ln)
    text = '\n'.join(out)
    if rng.random() < 0.5:
        text += '\n'
    return text


def same_circuit(a, b):
    """Circuit.__eq__ on JSON: gates as maps (operand order kept), inputs, outputs as lists"""
    return ({g[0]: (g[1], list(g[2])) for g in a['gates']} == {g[0]: (g[1], list(g[2])) for g in b['gates']}
            and len(a['gates']) == len(b['gates']) and a['inputs'] == b['inputs'] and a['outputs'] == b['outputs'])


def gen_c11(rng, ctx):
    pool = rng.choice(IDENT_POOLS + ['plain'])
    j, info = gen.gen_circuit(rng, max_inputs=5, max_gates=ctx.scale(12, 24), max_arity=4, label_pool=pool)
    return realize(j), info, pool


def correspondence(ctx):
    rng = ctx.rng('corr')
    reqs, code = [], []
    for k in range(ctx.scale(400, 10000)):
        j, info, pool = gen_c11(rng, ctx)
        a = py_format(j)
        reqs.append({'op': 'format_circuit', 'c': j}); code.append(a)
        ctx.case(json.dumps(['fmt', j['gates'], j['inputs'], j['outputs']]), info['n_gates'] > info['n_inputs'])
        ctx.count('labels:' + pool)
        if 'ok' in a:
            reqs.append({'op': 'parse_bench', 'text': a['ok']}); code.append(py_parse(a['ok']))
        text = layout(rng, j)
        reqs.append({'op': 'parse_bench', 'text': text}); code.append(py_parse(text))
        ctx.case(json.dumps(['layout', text]), info['n_gates'] > info['n_inputs'])
        if k < 2:
            ctx.sample({'circuit': j, 'layout': text})
    bad = ['x = AND(a', 'x AND(a, b)', 'x = FOO(a, b)', 'x = NOT(a, b)', 'x = AND(a)', 'INPUT(a)\nx = NOT(b)',
           'x = NOT()', '  INPUT(a)', 'x = = AND(a,b)', 'x = INPUT(a)', 'x = vddd', 'OUTPUT(zz)', 'x == NOT(a)',
           'INPUT(a)\nINPUT(a)\nb = NOT(a)', 'INPUT(a)\nb = ALWAYS_TRUE()\nc = always_false(a,,b)\nOUTPUT(c)']
    for t in bad:
        reqs.append({'op': 'parse_bench', 'text': t}); code.append(py_parse(t))
        ctx.case(json.dumps(['bad', t]), False)
        ctx.count('stream:malformed')
    model = ctx.driver.ask_many(reqs)
    for r, a, b in zip(reqs, code, model):
        if a == b:
            ctx.count('agree:' + r['op'])
        elif 'ok' in a and 'ok' in b and isinstance(a['ok'], dict) and same_circuit(a['ok'], b['ok']) \
                and sorted(map(json.dumps, a['ok']['users'])) == sorted(map(json.dumps, b['ok']['users'])):
            ctx.count('order_drift:' + r['op'])
        else:
            ctx.mismatch(r['op'], r, a, b)
        if 'err' in a:
            ctx.count('err:' + a['err'])


def search(ctx):
    rng = ctx.rng('search')
    tmpdir = tempfile.mkdtemp(prefix='c11-')
    try:
        for k in range(ctx.scale(400, 10000)):
            j, info, pool = gen_c11(rng, ctx)
            nontriv = info['n_gates'] > info['n_inputs']
            ctx.case(json.dumps(['s', j['gates'], j['inputs'], j['outputs']]), nontriv)
            a = py_format(j)
            if 'err' in a:
                ctx.violation('format.raises', f'format_circuit raised {a["err"]}', input={'c': j})
                continue
            p = py_parse(a['ok'])
            if 'err' in p or not same_circuit(p['ok'], j):
                ctx.violation('roundtrip.string', f'from_bench_string(format_circuit(c)) != c ({p.get("err", "different circuit")})',
                              input={'c': j, 'text': a['ok']})
                continue
            if k % 10 == 0:
                try:
                    from cirbo.core.circuit import Circuit
                    # a few paths are used again and again (a file that is rewritten and loaded again in one process)
                    path = os.path.join(tmpdir, 'sub', f'c{k % 3}.bench')
                    circ_from_json(j).save_to_file(path)
                    back = circ_to_json(Circuit.from_bench_file(path))
                    if not same_circuit(back, j):
                        ctx.violation('roundtrip.file', 'from_bench_file(save_to_file(c)) != c', input={'c': j})
                except Exception as e:  # noqa: BLE001
                    ctx.violation('roundtrip.file_raises', f'file round trip raised {err_name(e)}', input={'c': j})
            # parser faithfulness on a random layout: the parsed circuit denotes the netlist
            text = layout(rng, j)
            p = py_parse(text)
            if 'err' in p:
                ctx.violation('parse.rejects_wellformed', f'well-formed bench text rejected with {p["err"]}', input={'text': text})
                continue
            if not same_circuit(p['ok'], j):
                # storage order may differ; as maps they must agree
                ctx.violation('parse.unfaithful', 'parsed circuit differs from what the text denotes', input={'text': text, 'denotes': j})
                continue
            if len(j['inputs']) <= 5 and k % 4 == 0:
                t1 = py_exec({'op': 'truth_table', 'c': j})
                t2 = py_exec({'op': 'truth_table', 'c': p['ok']})
                if t1 != t2:
                    ctx.violation('parse.function', f'parsed circuit computes {t2}, text denotes {t1}', input={'text': text})
    finally:
        import shutil
        shutil.rmtree(tmpdir, ignore_errors=True)


def replay(ctx, rp):
    v = rp.get('violation') or {}
    inp = v.get('input') or {}
    if 'text' in inp:
        print(py_parse(inp['text']))
    search(ctx)
