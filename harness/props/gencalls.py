"""dispatch for generators outside summation.py (filled in by c08/c09)"""


def call(c, name, a):
    raise ValueError('unknown generator ' + name)
