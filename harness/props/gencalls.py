"""dispatch for generators outside summation.py"""


def call(c, name, a):
    from cirbo.synthesis.generation.arithmetics import subtraction as SB, equality as EQ, div_mod as DM, sqrt as SQ
    from cirbo.synthesis.generation import generation as GG
    be = {'big_endian': bool(a.get('big_endian', False))}
    if name == 'add_sub2':
        return list(SB.add_sub2(c, a['ins'], **be))
    if name == 'add_sub3':
        return list(SB.add_sub3(c, a['ins'], **be))
    if name == 'add_sub_two_numbers':
        return list(SB.add_sub_two_numbers(c, a['a'], a['b'], **be))
    if name == 'add_subtract_with_compare':
        r, bal = SB.add_subtract_with_compare(c, a['a'], a['b'], **be)
        return [list(r), bal]
    if name == 'add_equal':
        return EQ.add_equal(c, a['ins'], a['num'])
    if name == 'add_plus_one':
        rl = a.get('result_labels')
        return list(GG.add_plus_one(c, list(a['ins']), result_labels=None if rl is None else list(rl),
                                    add_outputs=bool(a.get('add_outputs', False)), **be))
    if name == 'add_if_then_else':
        return GG.add_if_then_else(c, a['if'], a['then'], a['else'], result_label=a.get('result_label'),
                                   add_outputs=bool(a.get('add_outputs', False)))
    if name == 'add_pairwise_if_then_else':
        rl = a.get('result_labels')
        return list(GG.add_pairwise_if_then_else(c, list(a['if']), list(a['then']), list(a['else']),
                                                 result_labels=None if rl is None else list(rl),
                                                 add_outputs=bool(a.get('add_outputs', False))))
    if name == 'add_pairwise_xor':
        rl = a.get('result_labels')
        return list(GG.add_pairwise_xor(c, list(a['x']), list(a['y']), result_labels=None if rl is None else list(rl),
                                        add_outputs=bool(a.get('add_outputs', False))))
    if name == 'add_div_mod':
        d, m = DM.add_div_mod(c, a['a'], a['b'], **be)
        return [list(d), list(m)]
    if name == 'add_sqrt':
        return list(SQ.add_sqrt(c, a['ins'], **be))
    from props import gencalls2
    return gencalls2.call(c, name, a)
