"""C20 — traversals visit exactly the reachable gates in a valid order."""
import json

import gen
from common import realize, with_users
from props.evalcommon import py_exec, compare_stream

RULE = ('random circuits built through the public API (DAGs with sharing, repeated operands, disconnected '
        'parts, dead gates) plus deliberately cyclic netlists (self-loops, 2..4-cycles, reachable or not '
        'from the outputs, consistent users index) x {top_sort x 2 directions, dfs/bfs x 2 directions x '
        'start sets (default, random multisets, empty) x topsort_unvisited, cycle check}; event logs '
        'compared exactly; non-trivial = >=3 gates; distinct = distinct (op, circuit, options)')
ASSUMPTIONS = ['theorems assume WFU (Kahn) / arbitrary graphs for reach-exactness (partial correctness)']
TRUSTED = ['search oracles (harness, Python): isTopoOrder, reachable set, post-order predicate, '
           'brute-force cycle search on the JSON netlist']


def make_cyclic(rng, j):
    """turn a DAG json into a netlist with a cycle (users index rebuilt consistently)"""
    gates = [g for g in j['gates'] if g[1] != 'INPUT' and g[2]]
    if not gates:
        return None
    j = json.loads(json.dumps(j))
    gates = [g for g in j['gates'] if g[1] != 'INPUT' and g[2]]
    g = rng.choice(gates)
    kind = rng.choice(['self', 'back', 'back'])
    if kind == 'self':
        g[2][rng.randrange(len(g[2]))] = g[0]
    else:
        # make some (transitive) operand depend on g
        ops = {x[0]: x for x in j['gates']}
        cur, path = g, []
        for _ in range(rng.randint(1, 3)):
            cands = [o for o in cur[2] if ops[o][1] != 'INPUT' and ops[o][2] and o != g[0]]
            if not cands:
                break
            cur = ops[rng.choice(cands)]
            path.append(cur)
        if not path:
            g[2][0] = g[0]
        else:
            t = path[-1]
            t[2][rng.randrange(len(t[2]))] = g[0]
    return with_users(j)


def has_reachable_cycle(j, roots=None):
    ops = {g[0]: g[2] for g in j['gates']}
    WHITE, GREY, BLACK = 0, 1, 2
    col = {l: WHITE for l in ops}
    for o in (j['outputs'] if roots is None else roots):
        if col[o] != WHITE:
            continue
        st = [(o, iter(ops[o]))]
        col[o] = GREY
        while st:
            n, it = st[-1]
            for ch in it:
                if col[ch] == GREY:
                    return True
                if col[ch] == WHITE:
                    col[ch] = GREY
                    st.append((ch, iter(ops[ch])))
                    break
            else:
                col[n] = BLACK
                st.pop()
    return False


def reach(nextf, start):
    seen, st = set(), list(start)
    while st:
        x = st.pop()
        if x in seen:
            continue
        seen.add(x)
        st.extend(nextf(x))
    return seen


def gen_reqs(ctx, rng, j, info, cyclic):
    labels = [g[0] for g in j['gates']]
    reqs = []
    for inv in (False, True):
        reqs.append({'op': 'top_sort', 'c': j, 'inverse': inv})
    reqs.append({'op': 'cycle_check', 'c': j})
    if labels:
        # the optional start set: all gates, and a random selection
        reqs.append({'op': 'cycle_check', 'c': j, 'start': list(labels)})
        reqs.append({'op': 'cycle_check', 'c': j, 'start': [rng.choice(labels) for _ in range(rng.randint(1, 4))]})
    for bfs in (False, True):
        for inv in (False, True):
            starts = [None]
            if labels:
                starts.append([rng.choice(labels) for _ in range(rng.randint(0, 4))])
            for st in starts:
                tsu = rng.random() < 0.5
                r = {'op': 'traverse', 'c': j, 'bfs': bfs, 'inverse': inv, 'topsort_unvisited': tsu}
                if rng.random() < 0.4:
                    r['peek'] = True      # the enter hook looks up the state of every gate
                if st is not None:
                    r['start'] = st
                reqs.append(r)
    for r in reqs:
        ctx.case(json.dumps([r['op'], j['gates'], j['outputs'], r.get('bfs'), r.get('inverse'), r.get('start'),
                             r.get('topsort_unvisited')]), len(labels) >= 3)
    ctx.count('cyclic' if cyclic else 'dag')
    return reqs


def correspondence(ctx):
    rng = ctx.rng('corr')
    reqs = []
    for k in range(ctx.scale(250, 6000)):
        j, info = gen.gen_circuit(rng, max_inputs=4, max_gates=ctx.scale(14, 30), p_repeat_operand=0.3)
        j = realize(j)
        if k < 2:
            ctx.sample({'circuit': j})
        reqs += gen_reqs(ctx, rng, j, info, False)
        if rng.random() < 0.4:
            cj = make_cyclic(rng, j)
            if cj:
                reqs += gen_reqs(ctx, rng, cj, info, True)
    compare_stream(ctx, 'trav', reqs)


def edited_object(ctx, rng, j):
    """topological iteration on a circuit *object with a history*: gates were added and removed again through the public
    API (a gate that lost its last user keeps an empty entry in the users index), one gate was renamed"""
    from common import circ_from_json, build_via_api
    from cirbo.core.circuit import gate as G
    try:
        c = build_via_api(j)
        labels = list(c.gates)
        if not labels:
            return
        for i in range(rng.randint(1, 3)):
            g = rng.choice(labels)
            c.emplace_gate('tmp_reader_%d' % i, G.NOT, (g,))
            c.emplace_gate('tmp_reader2_%d' % i, G.AND, (g, 'tmp_reader_%d' % i))
            c.remove_gate('tmp_reader2_%d' % i)
            c.remove_gate('tmp_reader_%d' % i)
        non_in = [l for l in labels if c.get_gate(l).gate_type != G.INPUT]
        if non_in and rng.random() < 0.5:
            c.rename_gate(rng.choice(non_in), 'renamed_gate')
    except Exception:  # noqa: BLE001
        return
    ops = {l: list(g.operands) for l, g in c.gates.items()}
    for inverse in (True, False):
        ctx.case(json.dumps(['edited_top_sort', j['gates'], inverse]))
        try:
            order = [g.label for g in c.top_sort(inverse=inverse)]
        except Exception as e:  # noqa: BLE001
            ctx.violation('top_sort.raises', f'top_sort(inverse={inverse}) raised {type(e).__name__} on an acyclic circuit object that was edited through the API',
                          input={'c': j, 'inverse': inverse, 'edited': True})
            continue
        pos = {l: i for i, l in enumerate(order)}
        ok = sorted(order) == sorted(ops) and len(order) == len(ops)
        if ok:
            for l, os_ in ops.items():
                for o in os_:
                    if (pos[o] > pos[l]) == inverse:
                        ok = False
        if not ok:
            ctx.violation('top_sort.wrong', f'top_sort(inverse={inverse}) on an edited circuit object: {len(order)} of {len(ops)} gates, or not in dependency order',
                          input={'c': j, 'inverse': inverse, 'edited': True, 'order': order})
        else:
            ctx.count('edited_object:top_sort')


def search(ctx):
    rng = ctx.rng('search')
    for k in range(ctx.scale(250, 6000)):
        j, info = gen.gen_circuit(rng, max_inputs=4, max_gates=ctx.scale(14, 30), p_repeat_operand=0.3)
        j = realize(j)
        cands = [(j, False)]
        if rng.random() < 0.5:
            cj = make_cyclic(rng, j)
            if cj:
                cands.append((cj, True))
        for jj, cyc in cands:
            check_one(ctx, rng, jj, cyc)
        if k % 3 == 0:
            edited_object(ctx, rng, j)


def check_one(ctx, rng, j, cyclic):
    ops = {g[0]: g[2] for g in j['gates']}
    users = {l: [] for l in ops}
    for l, o in ops.items():
        for x in o:
            users[x].append(l)
    labels = list(ops)
    ctx.case(json.dumps(['s', j['gates'], j['outputs']]), len(labels) >= 3)
    # cycle check exactness
    r = py_exec({'op': 'cycle_check', 'c': j})
    exp = has_reachable_cycle(j)
    if r != {'ok': exp}:
        ctx.violation('cycle_check.wrong', f'check_circuit_has_no_cycles: raises={r} but reachable cycle={exp}',
                      input={'c': j})
    for roots in ([list(labels)] + [[rng.choice(labels) for _ in range(rng.randint(1, 4))] for _ in range(2)] if labels else []):
        r = py_exec({'op': 'cycle_check', 'c': j, 'start': roots})
        exp = has_reachable_cycle(j, roots)
        if r != {'ok': exp}:
            ctx.violation('cycle_check.wrong', f'check_circuit_has_no_cycles(start_gates={roots}): raises={r} but a cycle is reachable from them={exp}',
                          input={'c': j, 'start': roots})
    if cyclic:
        return
    for inv in (False, True):
        r = py_exec({'op': 'top_sort', 'c': j, 'inverse': inv})
        if 'err' in r:
            ctx.violation('top_sort.raises', f'top_sort(inverse={inv}) raised {r["err"]} on a DAG', input={'c': j})
            continue
        order = r['ok']
        if sorted(order) != sorted(labels):
            ctx.violation('top_sort.not_perm', f'top_sort(inverse={inv}) is not a permutation of the gates',
                          input={'c': j, 'inverse': inv}, observed=order)
            continue
        pos = {l: i for i, l in enumerate(order)}
        for l in labels:
            for o in ops[l]:
                if (pos[o] > pos[l]) == inv:
                    ctx.violation('top_sort.order', f'top_sort(inverse={inv}): {l} and its operand {o} in wrong order',
                                  input={'c': j, 'inverse': inv}, observed=order)
    for bfs in (False, True):
        for inv in (False, True):
            nextf = (lambda x: users[x]) if inv else (lambda x: ops[x])
            for st in (None, [rng.choice(labels) for _ in range(rng.randint(0, 3))] if labels else None):
                tsu = rng.random() < 0.5
                req = {'op': 'traverse', 'c': j, 'bfs': bfs, 'inverse': inv, 'topsort_unvisited': tsu}
                if rng.random() < 0.4:
                    req['peek'] = True
                if st is not None:
                    req['start'] = st
                r = py_exec(req)
                if 'err' in r:
                    ctx.violation('traverse.raises', f'traversal raised {r["err"]}', input=req)
                    continue
                log = r['ok']
                start = st if st is not None else (j['inputs'] if inv else j['outputs'])
                R = reach(nextf, start) if labels else set()
                ys = [e[1] for e in log if e[0] == 'yield']
                if len(set(ys)) != len(ys) or set(ys) != R:
                    ctx.violation('traverse.reach', 'yielded gates are not exactly the reachable ones, each once',
                                  input=req, observed=ys)
                uv = [e[1] for e in log if e[0] == 'unvisited']
                if sorted(uv) != sorted(set(labels) - R):
                    ctx.violation('traverse.unvisited', 'unvisited hook did not receive exactly the unreached gates',
                                  input=req, observed=uv)
                if tsu:
                    pos = {l: i for i, l in enumerate(uv)}
                    for l in uv:
                        for o in ops[l]:
                            if o in pos and pos[o] > pos[l]:
                                ctx.violation('traverse.unvisited_order', 'unvisited gates not in topological order',
                                              input=req, observed=uv)
                if not bfs:
                    ent = [e[1] for e in log if e[0] == 'enter']
                    ex = [e[1] for e in log if e[0] == 'exit']
                    if sorted(ent) != sorted(ex) or len(set(ent)) != len(ent):
                        ctx.violation('dfs.balance', 'enter/exit hooks not balanced', input=req)
                    tpos = {}
                    for i, e in enumerate(log):
                        if e[0] in ('enter', 'exit'):
                            tpos[(e[0], e[1])] = i
                    for l in ent:
                        if tpos.get(('enter', l), 1e9) > tpos.get(('exit', l), -1):
                            ctx.violation('dfs.enter_before_exit', f'exit of {l} precedes its enter', input=req)
                    expos = {l: i for i, l in enumerate(ex)}
                    for l in ex:
                        for ch in nextf(l):
                            if ch in expos and expos[ch] > expos[l] :
                                ctx.violation('dfs.postorder', f'{l} exits before its successor {ch}', input=req, observed=ex)


def replay(ctx, rp):
    v = rp.get('violation') or {}
    inp = v.get('input') or {}
    if 'c' in inp:
        for op in ('cycle_check',):
            print(op, '->', py_exec({'op': op, 'c': inp['c']}))
    search(ctx)
