"""Cut-bounded slices of a circuit and functionally equivalent replacements for them (used by C19 and C02)."""
import gen
from common import realize


def make_slice(rng, j):
    """a cut-bounded slice: outputs O, interior gates, frontier inputs; as a subcircuit JSON"""
    ops = {g[0]: (g[1], g[2]) for g in j['gates']}
    nonin = [l for l, (t, o) in ops.items() if t != 'INPUT' and o]
    if not nonin:
        return None
    outs = rng.sample(nonin, min(len(nonin), rng.choice([1, 1, 2])))
    depth = rng.choice([1, 1, 2, 3])
    interior, frontier = [], []
    seen = set()
    layer = list(outs)
    for d in range(depth):
        nxt = []
        for l in layer:
            if l in seen:
                continue
            seen.add(l)
            t, o = ops[l]
            if t == 'INPUT' or not o:
                if t == 'INPUT':
                    frontier.append(l)
                else:
                    interior.append(l)
                continue
            interior.append(l)
            nxt += o
        layer = nxt
    for l in layer:
        if l not in seen and l not in frontier:
            frontier.append(l)
    frontier = [l for l in dict.fromkeys(frontier) if l not in interior]
    # interior in dependency order
    order = [l for l in gen.topo_order(j) if l in interior]
    return {'outs': outs, 'interior': order, 'frontier': frontier}


def add_dead_loop_closer(rng, j):
    """append dead logic dl_x = NOT(o1), dl_o2 = NOT(dl_x) above a random gate o1: the slice {o1, dl_o2} then has
    the frontier gate dl_x depending on the slice output o1"""
    cand = [g[0] for g in j['gates'] if g[1] != 'INPUT' and g[2] and g[0] not in g[2]]
    if not cand:
        return j
    o1 = rng.choice(cand)
    j = dict(j)
    j['gates'] = j['gates'] + [['dl_x', 'NOT', [o1]], ['dl_o2', 'NOT', ['dl_x']]]
    return realize(j)


def dead_loop_slice(j):
    ops = {g[0]: (g[1], list(g[2])) for g in j['gates']}
    if 'dl_x' not in ops:
        return None
    o1 = ops['dl_x'][1][0]
    frontier = [l for l in dict.fromkeys(ops[o1][1]) if l != o1] + ['dl_x']
    return {'outs': [o1, 'dl_o2'], 'interior': [o1, 'dl_o2'], 'frontier': frontier}


def sub_from_slice(j, sl, variant, rng):
    ops = {g[0]: (g[1], list(g[2])) for g in j['gates']}
    ren = (lambda l: l) if variant == 'identical' else (lambda l: 'r_' + l)   # ('clash' is a renamed copy too)
    # 'entangled' is a renamed copy whose outputs also read an unrelated frontier gate
    gates = [[ren(l), 'INPUT', []] for l in sl['frontier']]
    for l in sl['interior']:
        t, o = ops[l]
        gates.append([ren(l), t, [ren(x) for x in o]])
    outs = [ren(l) for l in sl['outs']]
    if variant == 'clash':
        # like 'reexpressed', but the first inner gate of the replacement carries the label of a gate of the host that
        # lies outside the slice: the call has to refuse (the label exists) or at least must not disturb that gate
        taken = set(sl['frontier']) | set(sl['interior']) | set(sl['outs'])
        bystanders = [g[0] for g in j['gates'] if g[0] not in taken and not g[0].startswith('r_')]
        new_outs = []
        for k, o in enumerate(outs):
            inner = rng.choice(bystanders) if (k == 0 and bystanders) else f'dn1_{k}'
            gates.append([inner, 'NOT', [o]])
            gates.append([f'dn2_{k}', 'NOT', [inner]])
            new_outs.append(f'dn2_{k}')
        outs = new_outs
    if variant == 'reexpressed':
        # route every output through a double negation (function preserved, more gates)
        new_outs = []
        for k, o in enumerate(outs):
            gates.append([f'dn1_{k}', 'NOT', [o]])
            gates.append([f'dn2_{k}', 'NOT', [f'dn1_{k}']])
            new_outs.append(f'dn2_{k}')
        outs = new_outs
    if variant == 'entangled' and sl['frontier']:
        # every output additionally reads a frontier gate it does not depend on functionally:
        # o' = o OR (f AND NOT f) -- same function, one more structural dependency
        new_outs = []
        for k, o in enumerate(outs):
            f = ren('dl_x' if 'dl_x' in sl['frontier'] and k == 0 else rng.choice(sl['frontier']))
            gates.append([f'en1_{k}', 'NOT', [f]])
            gates.append([f'en2_{k}', 'AND', [f, f'en1_{k}']])
            gates.append([f'en3_{k}', 'OR', [o, f'en2_{k}']])
            new_outs.append(f'en3_{k}')
        outs = new_outs
    sub = realize({'gates': gates, 'inputs': [ren(l) for l in sl['frontier']], 'outputs': outs})
    im = [[l, ren(l)] for l in sl['frontier']]
    om = [[l, o] for l, o in zip(sl['outs'], outs)]
    if variant == 'incomplete' and im:
        im = im[:-1]
    return sub, im, om
