"""C09 — subtraction, division, sqrt, comparison and gadget generators are exact."""
import json
import math

from common import circ_to_json, err_name
from props import gencommon as G

RULE = ('parameter sets: generator kind (sub2/sub3, subtractor, subtract-with-compare incl. unequal widths, equality incl. constants '
        'that do not fit or are negative (all constants around the range for widths 1..4), plus-one incl. out_len <> inp_len+1 / given or generated result labels / add_outputs on and off, '
        'if-then-else, pairwise gadgets, div-mod, sqrt) x widths x endianness x host (bare or random circuit built through the '
        'public API) x operand choice (inputs or internal gates, repeats allowed); model and code compared on the whole resulting '
        'circuit, returned labels and uuid counter; search evaluates the real result on all assignments of the host inputs')
ASSUMPTIONS = ['host circuit well formed (built through the public API)', 'operand width >= 1',
               'given result labels are not labels of the host']
TRUSTED = ['search oracle: per-gate truth tables through the real evaluator (C01) + integer arithmetic in CPython']

KINDS = ['add_sub2', 'add_sub3', 'add_sub_two_numbers', 'add_sub_two_numbers', 'add_subtract_with_compare', 'add_subtract_with_compare',
         'add_equal', 'add_equal', 'add_plus_one', 'add_plus_one', 'add_plus_one', 'add_if_then_else', 'add_pairwise_if_then_else',
         'add_pairwise_xor', 'add_div_mod', 'add_div_mod', 'add_sqrt', 'add_sqrt']


def gen_request(ctx, rng, big=False):
    kind = rng.choice(KINDS)
    wmax = 9 if big else 5
    if kind in ('add_div_mod', 'add_sqrt'):
        host = G.host_circuit(rng, n_inputs=rng.randint(1, 8))
    else:
        host = G.host_circuit(rng, n_inputs=rng.randint(1, 7))
    a = {}
    be = rng.random() < 0.4
    if kind in ('add_sub2', 'add_sub3'):
        n = {'add_sub2': 2, 'add_sub3': 3}[kind]
        if rng.random() < 0.1:
            n += rng.choice([-1, 1])
        a = {'ins': G.pick_operands(rng, host, n), 'big_endian': be}
    elif kind in ('add_sub_two_numbers', 'add_subtract_with_compare', 'add_div_mod'):
        n, m = rng.randint(1, wmax), rng.randint(1, wmax)
        if kind == 'add_div_mod' and rng.random() < 0.9:
            m = n
        if rng.random() < 0.03:
            n = 0
        if rng.random() < 0.03:
            m = 0
        a = {'a': G.pick_operands(rng, host, n), 'b': G.pick_operands(rng, host, m), 'big_endian': be}
    elif kind == 'add_equal':
        n = rng.randint(1, wmax + 1) if rng.random() < 0.96 else 0
        num = rng.choice([0, 1, rng.randint(0, 2 ** n), 2 ** n - 1 if n else 0, 2 ** n, 2 ** n + rng.randint(0, 5),
                          -rng.randint(1, 2 ** n + 2)])
        a = {'ins': G.pick_operands(rng, host, n), 'num': num}
    elif kind == 'add_plus_one':
        n = rng.randint(1, wmax) if rng.random() < 0.97 else 0
        a = {'ins': G.pick_operands(rng, host, n, inputs_only=rng.random() < 0.3), 'add_outputs': rng.random() < 0.5, 'big_endian': be}
        if rng.random() < 0.6:
            ol = rng.choice([n + 1, n + 1, n, max(1, n - 1), n + 2, n + 3, 1, rng.randint(0, n + 3)])
            a['result_labels'] = ['z_%d' % i for i in range(ol)]
    elif kind == 'add_if_then_else':
        ops = G.pick_operands(rng, host, 3)
        if len(ops) == 3:
            a = {'if': ops[0], 'then': ops[1], 'else': ops[2], 'add_outputs': rng.random() < 0.5}
            if rng.random() < 0.5:
                a['result_label'] = 'ite_res'
        else:
            return None
    elif kind in ('add_pairwise_if_then_else', 'add_pairwise_xor'):
        n = rng.randint(0, 4)
        wrong = rng.random() < 0.08
        if kind == 'add_pairwise_xor':
            a = {'x': G.pick_operands(rng, host, n), 'y': G.pick_operands(rng, host, n + (1 if wrong else 0))}
        else:
            a = {'if': G.pick_operands(rng, host, n), 'then': G.pick_operands(rng, host, n), 'else': G.pick_operands(rng, host, n + (1 if wrong else 0))}
        a['add_outputs'] = rng.random() < 0.5
        if rng.random() < 0.5:
            a['result_labels'] = ['r_%d' % i for i in range(n + (1 if rng.random() < 0.08 else 0))]
    elif kind == 'add_sqrt':
        n = rng.randint(1, wmax + 2) if rng.random() < 0.97 else 0
        a = {'ins': G.pick_operands(rng, host, n), 'big_endian': be}
    return {'op': 'gen', 'c': host, 'ctr': rng.randint(0, 5), 'name': kind, 'args': a}


def correspondence(ctx):
    rng = ctx.rng('corr')
    reqs = []
    for k in range(ctx.scale(500, 6000)):
        r = gen_request(ctx, rng, big=(ctx.tier == 'thorough' and k % 8 == 0))
        if r is None:
            continue
        reqs.append(r)
        ctx.case(json.dumps([r['name'], r['args'], r['c']['gates']]))
        ctx.count('kind=' + r['name'])
        if len(reqs) <= 2:
            ctx.sample({'name': r['name'], 'args': r['args'], 'host_gates': len(r['c']['gates'])})
    G.compare(ctx, 'gen', reqs)
    # generate_* wrappers against the code's own add_* on a bare circuit
    from cirbo.synthesis.generation import generation as GG
    from cirbo.synthesis.generation.arithmetics import subtraction as SB, equality as EQ, div_mod as DM, sqrt as SQ
    from props.mutcommon import UuidPatch
    for k in range(ctx.scale(40, 400)):
        n, m = rng.randint(1, 5), rng.randint(1, 6)
        be = rng.random() < 0.5
        try:
            with UuidPatch():
                cj = circ_to_json(GG.generate_plus_one(n, m, big_endian=be))
        except Exception as e:  # noqa: BLE001
            ctx.violation('gadget.raises', f'generate_plus_one({n}, {m}, big_endian={be}) raised {err_name(e)}', input={'n': n, 'm': m, 'be': be})
            continue
        xs = ['x_%d' % i for i in range(n)]
        zs = ['z_%d' % i for i in range(m)]
        if be:
            xs, zs = xs[::-1], zs[::-1]
        host = {'gates': [[x, 'INPUT', []] for x in xs], 'inputs': xs, 'outputs': [], 'blocks': []}
        from common import realize
        host = realize(host)
        mres = ctx.driver.ask({'op': 'gen', 'c': host, 'ctr': 0, 'name': 'add_plus_one',
                               'args': {'ins': xs, 'result_labels': zs, 'add_outputs': True, 'big_endian': be}})
        if 'ok' in mres and mres['ok']['c']['gates'] == cj['gates'] and mres['ok']['c']['outputs'] == cj['outputs'] \
                and mres['ok']['c']['inputs'] == cj['inputs']:
            ctx.count('agree:generate_plus_one')
        else:
            ctx.mismatch('generate_plus_one', {'n': n, 'm': m, 'big_endian': be}, cj, mres)
        ctx.case(json.dumps(['gp1', n, m, be]))


def expected_error(r):
    name, a = r['name'], r['args']
    if name in ('add_sub2', 'add_sub3'):
        return len(a['ins']) != {'add_sub2': 2, 'add_sub3': 3}[name]
    if name in ('add_sub_two_numbers', 'add_subtract_with_compare'):
        return len(a['a']) == 0 or len(a['b']) == 0
    if name == 'add_div_mod':
        return len(a['a']) != len(a['b']) or len(a['a']) == 0
    if name == 'add_plus_one':
        return len(a['ins']) == 0 or ('result_labels' in a and len(a['result_labels']) == 0)
    if name == 'add_sqrt':
        return len(a['ins']) == 0
    if name == 'add_pairwise_xor':
        return len(a['x']) != len(a['y']) or ('result_labels' in a and len(a['result_labels']) != len(a['x']))
    if name == 'add_pairwise_if_then_else':
        n = len(a['if'])
        return len(a['then']) != n or len(a['else']) != n or ('result_labels' in a and len(a['result_labels']) != n)
    return False


def check_result(ctx, r, res):
    name, a, host = r['name'], r['args'], r['c']
    after, ret = res['c'], res['ret']
    inp = {'request': r}
    probs = G.frame_problems(host, after)
    marks_allowed = name in ('add_plus_one', 'add_if_then_else', 'add_pairwise_if_then_else', 'add_pairwise_xor') and a.get('add_outputs')
    if marks_allowed:
        new_out = ret if isinstance(ret, list) else [ret]
        if after['outputs'] != host['outputs'] + new_out:
            probs.append('outputs %s -> %s, expected the returned labels appended' % (host['outputs'], after['outputs']))
    elif after['outputs'] != host['outputs']:
        probs.append('outputs changed %s -> %s without add_outputs' % (host['outputs'], after['outputs']))
    if probs:
        ctx.violation('gadget.frame', f'{name}: ' + '; '.join(probs[:3]), input=inp)
        return
    tt = G.gates_tt(after)
    rows = 1 << len(after['inputs'])
    be = a.get('big_endian', False)

    def val(labels, row):
        return G.value(tt, labels, row, not be)

    if name in ('add_sub2', 'add_sub3'):
        ins = a['ins'][::-1] if be else a['ins']
        for row in range(rows):
            x = [tt[l][row] for l in ins]
            d = int(x[0]) - int(x[1]) - (int(x[2]) if len(x) == 3 else 0)
            if (int(tt[ret[0]][row]), int(tt[ret[1]][row])) != (d % 2, 1 if d < 0 else 0):
                ctx.violation('sub.block', f'{name}: inputs {x} gave diff/borrow {tt[ret[0]][row]}/{tt[ret[1]][row]}', input=inp, row=row)
                return
    elif name in ('add_sub_two_numbers', 'add_subtract_with_compare'):
        A, B = a['a'], a['b']
        out, bal = (ret, None) if name == 'add_sub_two_numbers' else (ret[0], ret[1])
        w = len(A) if name == 'add_sub_two_numbers' else max(len(A), len(B))
        if len(out) != w:
            ctx.violation('sub.width', f'{name}: result has {len(out)} bits, expected {w}', input=inp)
            return
        for row in range(rows):
            x, y = val(A, row), val(B, row)
            got = val(out, row)
            if got != (x - y) % (1 << w):
                ctx.violation('sub.value', f'{name}(|a|={len(A)}, |b|={len(B)}, big_endian={be}): a={x}, b={y}, result {got}, expected {(x - y) % (1 << w)}',
                              input=inp, row=row)
                return
            if bal is not None and tt[bal][row] != (x < y):
                ctx.violation('sub.borrow', f'{name}(|a|={len(A)}, |b|={len(B)}, big_endian={be}): a={x}, b={y}, borrow flag {tt[bal][row]}',
                              input=inp, row=row)
                return
    elif name == 'add_equal':
        ins, num = a['ins'], a['num']
        if not ins:
            ctx.count('skipped:add_equal width 0 (outside the stated domain, see ASSUMPTIONS)')
            return
        for row in range(rows):
            x = G.value(tt, ins, row, True)
            if tt[ret][row] != (x == num):
                ctx.violation('equal.value', f'add_equal({len(ins)} bits, num={num}): operand {x}, gadget {tt[ret][row]}', input=inp, row=row)
                return
    elif name == 'add_plus_one':
        ins = a['ins']
        for row in range(rows):
            x = val(ins, row)
            got = val(ret, row)
            if got != (x + 1) % (1 << len(ret)):
                ctx.violation('plus_one.value', f'add_plus_one({len(ins)} -> {len(ret)} bits, big_endian={be}): x={x}, result {got}', input=inp, row=row)
                return
    elif name == 'add_if_then_else':
        for row in range(rows):
            want = tt[a['then']][row] if tt[a['if']][row] else tt[a['else']][row]
            if tt[ret][row] != want:
                ctx.violation('ite.value', 'add_if_then_else wrong', input=inp, row=row)
                return
    elif name == 'add_pairwise_if_then_else':
        for k2, l in enumerate(ret):
            for row in range(rows):
                want = tt[a['then'][k2]][row] if tt[a['if'][k2]][row] else tt[a['else'][k2]][row]
                if tt[l][row] != want:
                    ctx.violation('ite.value', f'add_pairwise_if_then_else wrong at position {k2}', input=inp, row=row)
                    return
    elif name == 'add_pairwise_xor':
        for k2, l in enumerate(ret):
            for row in range(rows):
                if tt[l][row] != (tt[a['x'][k2]][row] != tt[a['y'][k2]][row]):
                    ctx.violation('xor.value', f'add_pairwise_xor wrong at position {k2}', input=inp, row=row)
                    return
    elif name == 'add_div_mod':
        A, B = a['a'], a['b']
        d, m = ret
        for row in range(rows):
            x, y = val(A, row), val(B, row)
            want = (x // y, x % y) if y else (0, 0)
            got = (val(d, row), val(m, row))
            if got != want:
                ctx.violation('divmod.value', f'add_div_mod({len(A)} bits, big_endian={be}): a={x}, b={y}: got {got}, expected {want}', input=inp, row=row)
                return
    elif name == 'add_sqrt':
        ins = a['ins']
        if len(ret) != (len(ins) + 1) // 2:
            ctx.violation('sqrt.width', f'add_sqrt({len(ins)} bits) returned {len(ret)} bits', input=inp)
            return
        for row in range(rows):
            x = val(ins, row)
            got = val(ret, row)
            if got != math.isqrt(x):
                ctx.violation('sqrt.value', f'add_sqrt({len(ins)} bits, big_endian={be}): x={x}, got {got}', input=inp, row=row)
                return


def directed_equal():
    """the equality gadget on a bare host for every constant around the operand range, negative ones included"""
    from common import realize
    out = []
    for n in range(1, 5):
        xs = ['x_%d' % i for i in range(n)]
        host = realize({'gates': [[x, 'INPUT', []] for x in xs], 'inputs': xs, 'outputs': [], 'blocks': []})
        for num in range(-(2 ** n) - 2, 2 ** n + 2):
            out.append({'op': 'gen', 'c': host, 'ctr': 0, 'name': 'add_equal', 'args': {'ins': xs, 'num': num}})
    return out


def search(ctx):
    G.check_generate_ite(ctx)
    G.check_generate_arith(ctx, thorough=(ctx.tier == 'thorough'))
    rng = ctx.rng('search')
    directed = directed_equal()
    for k in range(-len(directed), ctx.scale(400, 5000)):
        r = directed[k] if k < 0 else gen_request(ctx, rng, big=False)
        if r is None:
            continue
        if k < 0:
            ctx.count('directed:add_equal_all_constants')
        ctx.case(json.dumps(['s', r['name'], r['args'], r['c']['gates']]))
        res = G.py_gen(r)
        if 'err' in res:
            if not expected_error(r):
                ctx.violation('gadget.raises', f'{r["name"]} raised {res["err"]} on valid arguments {json.dumps(r["args"])[:200]}', input={'request': r})
            continue
        check_result(ctx, r, res['ok'])


def replay(ctx, rp):
    v = rp.get('violation') or {}
    r = (v.get('input') or {}).get('request')
    if r:
        res = G.py_gen(r)
        print(json.dumps(res)[:1500])
        if 'ok' in res:
            check_result(ctx, r, res['ok'])
        elif not expected_error(r):
            ctx.violation('gadget.raises', f'{r["name"]} raised {res["err"]}', input={'request': r})
    else:
        search(ctx)
