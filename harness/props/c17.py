"""C17 — shipped circuit databases are correct and lookups return the requested function."""
import itertools
import json

import gen
from common import circ_from_json, circ_to_json, err_name, realize

RULE = ('(a) random raw truth tables (1..4 inputs, 1..4 outputs, equal / complementary / first-bit-set outputs): NormalizationInfo '
        'fields and the key text compared with the Lean model; (b) denormalize() on circuits with matching and mismatching '
        'output counts compared with the model field by field; (c) database sweep: entries of both shipped databases (quick: a '
        'seeded sample of each arity class + every entry with <= 2 inputs; thorough: all 2 x 349,724) decoded by the code and by the '
        'Lean decoder, truth table recomputed by both and compared with the key, well-formedness and basis checked; (d) lookups: '
        'all tables for (n,m) in {(2,1),(2,2),(2,3),(3,1)}, samples for (3,2),(3,3), random don\'t-care patterns with all completions')
ASSUMPTIONS = ['tables have at least one output and 2^n entries per output']
TRUSTED = ['the finite sweep over the shipped databases is executed (compiled Lean decoder/evaluator/checker and CPython), not kernel-checked',
           'search oracle: truth tables through the real evaluator (C01)']

AIG_TYPES = {'INPUT', 'AND', 'NOT'}
XAIG_TYPES = {'INPUT', 'NOT', 'AND', 'OR', 'NAND', 'NOR', 'GT', 'LT', 'GEQ', 'LEQ', 'XOR', 'NXOR'}


def rows_str(tt):
    return [''.join('1' if b else '0' for b in row) for row in tt]


def py_normalize(tt):
    try:
        from cirbo.circuits_db.normalization import NormalizationInfo
        from cirbo.circuits_db.db import _truth_table_to_label
        ni = NormalizationInfo([[ch == '1' for ch in r] for r in tt])
        return {'ok': {'negations': list(ni.negations), 'permutation': list(ni.permutation), 'mapping': list(ni.mapping),
                       'table': rows_str(ni.truth_table), 'label': _truth_table_to_label(ni.truth_table)}}
    except Exception as e:  # noqa: BLE001
        return {'err': err_name(e)}


def py_denormalize(info, cj):
    try:
        from cirbo.circuits_db.normalization import NormalizationInfo
        ni = NormalizationInfo([[False]])
        ni.negations, ni.permutation, ni.mapping = list(info['negations']), list(info['permutation']), list(info['mapping'])
        c = circ_from_json(cj)
        ni.denormalize(c)
        return {'ok': circ_to_json(c)}
    except Exception as e:  # noqa: BLE001
        return {'err': err_name(e)}


def gen_tt(rng):
    n = rng.choice([1, 2, 2, 3, 3, 4])
    m = rng.choice([1, 2, 2, 3, 3, 4])
    rows = []
    for _ in range(m):
        k = rng.random()
        if rows and k < 0.25:
            rows.append(rng.choice(rows))
        elif rows and k < 0.45:
            r = rng.choice(rows)
            rows.append(''.join('1' if ch == '0' else '0' for ch in r))
        else:
            rows.append(''.join(rng.choice('01') for _ in range(1 << n)))
    if rng.random() < 0.02:
        rows = []
    return rows


def gen_dc(rng):
    """a table with don't-cares ('*'): related outputs, wholly undefined outputs, don't-cares in the first column"""
    n = rng.choice([2, 2, 2, 3])
    m = rng.choice([1, 2, 2, 3, 3]) if n == 2 else rng.choice([1, 1, 2, 3])
    rows = [[rng.choice('01') for _ in range(1 << n)] for _ in range(m)]
    # related outputs: copies and complements of the first one, so that several completions share a normal form
    for i in range(1, m):
        k = rng.random()
        if k < 0.25:
            rows[i] = list(rows[0])
        elif k < 0.5:
            rows[i] = ['1' if ch == '0' else '0' for ch in rows[0]]
    npos = rng.randint(1, 4 if n == 2 else 3)
    pos = []
    if m >= 2 and n == 2 and rng.random() < 0.2:
        i = rng.randrange(m)
        pos = [(i, j) for j in range(1 << n)]          # a wholly undefined output
        for (_, j) in pos:
            rows[i][j] = '*'
    for _ in range(npos):
        i, j = rng.randrange(m), (0 if rng.random() < 0.35 else rng.randrange(1 << n))
        if (i, j) not in pos and len(pos) < 6:
            pos.append((i, j))
            rows[i][j] = '*'
    return [''.join(r) for r in rows], pos


def dc_correspondence(ctx, dbs):
    """get_by_raw_truth_table_model against the Lean model: the tables it looks up, in order (`completions`),
    and which of the circuits found it returns (`lookupDC`: the first one of the least size)"""
    from cirbo.core.logic import DontCare
    from cirbo.core.circuit import gate as G
    rng = ctx.rng('corr-dc')
    reqs_c, reqs_l, code_c, code_l = [], [], [], []
    for name, db in dbs.items():
        for k in range(ctx.scale(150, 2500)):
            tt, _ = gen_dc(rng)
            if rng.random() < 0.05:
                tt = [r.replace('*', rng.choice('01')) for r in tt]       # no don't-care at all
            excl = rng.choice([None, None, [G.NOT], [G.NOT, G.AND]])
            ctx.case(json.dumps(['dcc', name, tt, [g.name for g in excl] if excl else None]))
            ctx.count('dc_positions=%d' % sum(r.count('*') for r in tt))
            model = [[DontCare if ch == '*' else ch == '1' for ch in r] for r in tt]
            calls = []
            orig = db.get_by_raw_truth_table

            def rec(t, _orig=orig, _calls=calls):
                seen = [''.join('1' if x else '0' for x in r) for r in t]
                c = _orig(t)
                _calls.append((seen, c))
                return c
            db.get_by_raw_truth_table = rec
            try:
                res = db.get_by_raw_truth_table_model(model, excl)
            except Exception as e:  # noqa: BLE001
                ctx.count('dc_raises:' + err_name(e))
                continue
            finally:
                del db.get_by_raw_truth_table
            reqs_c.append({'op': 'completions', 'tt': tt})
            code_c.append({'ok': [c[0] for c in calls]})
            found = [None if c is None else c.gates_number(excl) for (_, c) in calls]
            chosen = [i for i, (_, c) in enumerate(calls) if c is not None and c is res]
            reqs_l.append({'op': 'lookup_dc', 'tt': tt, 'found': found})
            code_l.append({'ok': chosen[0] if chosen else None} if (res is None) == (not chosen)
                          else {'err': 'result is none of the circuits found'})
    for what, reqs, code in (('dc_completions', reqs_c, code_c), ('dc_choice', reqs_l, code_l)):
        model = ctx.driver.ask_many(reqs)
        for r, a, b in zip(reqs, code, model):
            if a == b:
                ctx.count('agree:' + what)
            else:
                ctx.mismatch(what, r, a, b)


def open_dbs():
    from cirbo.circuits_db.db import CircuitsDatabase
    from cirbo.circuits_db.data_utils import DEFAULT_AIG_DB_PATH, DEFAULT_XAIG_DB_PATH
    dbs = {}
    for name, p in (('aig', DEFAULT_AIG_DB_PATH), ('xaig', DEFAULT_XAIG_DB_PATH)):
        d = CircuitsDatabase(p)
        d.open()
        dbs[name] = d
    return dbs


def correspondence(ctx):
    rng = ctx.rng('corr')
    reqs, code = [], []
    for k in range(ctx.scale(1500, 20000)):
        tt = gen_tt(rng)
        reqs.append({'op': 'normalize', 'tt': tt})
        code.append(py_normalize(tt))
        ctx.case(json.dumps(['n', tt]))
        ctx.count('outputs=%d' % len(tt))
        if k < 2:
            ctx.sample({'tt': tt})
    model = ctx.driver.ask_many(reqs)
    infos = []
    for r, a, b in zip(reqs, code, model):
        if a == b:
            ctx.count('agree:normalize')
            if 'ok' in a:
                infos.append((r['tt'], a['ok']))
        else:
            ctx.mismatch('normalize', r, a, b)
    # denormalize on circuits
    reqs, code = [], []
    from props.mutcommon import canon_state
    for k in range(ctx.scale(500, 6000)):
        tt, info = rng.choice(infos)
        want_outs = len(info['table']) + (rng.choice([-1, 1]) if rng.random() < 0.1 else 0)
        j, _ = gen.gen_circuit(rng, max_inputs=3, min_inputs=1, max_gates=6, n_outputs=max(want_outs, 0), max_arity=2)
        cj = realize(j)
        if rng.random() < 0.2 and cj['outputs']:
            # a circuit that already has the not_ gate of an output
            o = cj['outputs'][0]
            c = circ_from_json(cj)
            from cirbo.core.circuit import gate as G
            if not c.has_gate('not_' + o):
                c.emplace_gate('not_' + o, G.NOT, (o,))
                cj = circ_to_json(c)
        inf = {'negations': info['negations'], 'permutation': info['permutation'], 'mapping': info['mapping']}
        reqs.append({'op': 'denormalize', 'info': inf, 'c': cj})
        code.append(py_denormalize(inf, cj))
        ctx.case(json.dumps(['d', inf, cj['gates'], cj['outputs']]))
    model = ctx.driver.ask_many(reqs)
    for r, a, b in zip(reqs, code, model):
        if a == b or ('ok' in a and 'ok' in b and canon_state(a['ok']) == canon_state(b['ok'])):
            ctx.count('agree:denormalize')
        else:
            ctx.mismatch('denormalize', r, a, b)
        if 'err' in a:
            ctx.count('err:' + a['err'])
    # database entries through the Lean decoder / evaluator
    dbs = open_dbs()
    for name, db in dbs.items():
        keys = pick_keys(ctx, rng, db, ctx.scale(1500, 30000))
        reqs = [{'op': 'decode', 'bytes': list(db._dict[k])} for k in keys]
        dec = ctx.driver.ask_many(reqs)
        tts = ctx.driver.ask_many([{'op': 'truth_table', 'c': d['ok']} if 'ok' in d else {'op': 'ping'} for d in dec])
        wfs = ctx.driver.ask_many([{'op': 'check_wf', 'c': d['ok']} if 'ok' in d else {'op': 'ping'} for d in dec])
        for k, d, t, w in zip(keys, dec, tts, wfs):
            ctx.case(json.dumps(['e', name, k]))
            codec = db.get_by_label(k)
            cj = circ_to_json(codec)
            if 'ok' not in d or canon_state(d['ok']) != canon_state(cj):
                ctx.mismatch('db_decode:' + name, {'key': k}, cj, d)
                continue
            if t.get('ok') is None or '_'.join(t['ok']).replace('T', '1').replace('F', '0') != k:
                ctx.mismatch('db_truth_table:' + name, {'key': k}, k, t)
                continue
            if w.get('ok') != 'ok':
                ctx.mismatch('db_wf:' + name, {'key': k}, 'well formed', w)
                continue
            ctx.count('agree:db_entry:' + name)
    dc_correspondence(ctx, dbs)


def pick_keys(ctx, rng, db, k):
    keys = list(db._dict.keys())
    small = [x for x in keys if len(x.split('_')[0]) <= 4]
    rest = [x for x in keys if len(x.split('_')[0]) > 4]
    if ctx.tier == 'thorough' and k >= len(rest):
        return keys
    return small + rng.sample(rest, min(k, len(rest)))


def tt_of(c):
    return rows_str(c.get_truth_table())


def check_entry(ctx, name, db, key):
    try:
        c = db.get_by_label(key)
        tt = tt_of(c)
    except Exception as e:  # noqa: BLE001
        ctx.violation('db.entry', f'{name} entry {key} does not decode/evaluate: {err_name(e)}', input={'db': name, 'key': key})
        return
    if '_'.join(tt) != key:
        ctx.violation('db.entry', f'{name} entry {key} computes {"_".join(tt)}', input={'db': name, 'key': key})
        return
    allowed = AIG_TYPES if name == 'aig' else XAIG_TYPES
    bad = [g.gate_type.name for g in c.gates.values() if g.gate_type.name not in allowed]
    if bad:
        ctx.violation('db.basis', f'{name} entry {key} contains {bad[0]} gate(s)', input={'db': name, 'key': key})
        return
    from cirbo.core.circuit.validation import check_circuit_has_no_cycles
    try:
        check_circuit_has_no_cycles(c)
        for g in c.gates.values():
            for o in g.operands:
                assert c.has_gate(o)
        for o in c.outputs:
            assert c.has_gate(o)
    except Exception as e:  # noqa: BLE001
        ctx.violation('db.entry', f'{name} entry {key} is not well formed: {err_name(e)}', input={'db': name, 'key': key})


def norm_key(tt):
    """the database key of a table, computed here (not by the code): complement rows that start with 1, sort,
    drop duplicates"""
    rows = [r if r[0] == '0' else ''.join('1' if ch == '0' else '0' for ch in r) for r in tt]
    return '_'.join(sorted(set(rows)))


def check_lookup(ctx, name, db, tt, container='list'):
    # rows as lists, tuples or a mixture: RawTruthTable is Sequence[Sequence[bool]]
    mk = {'list': list, 'tuple': tuple}
    raw = [(mk[container] if container in mk else (tuple if i % 2 == 0 else list))(ch == '1' for ch in r) for i, r in enumerate(tt)]
    if container == 'tuple':
        raw = tuple(raw)
    ctx.count('lookup_rows:' + container)
    try:
        c = db.get_by_raw_truth_table(raw)
    except Exception as e:  # noqa: BLE001
        ctx.violation('db.lookup_raises', f'{name}: lookup of {tt} raised {err_name(e)}', input={'db': name, 'tt': tt})
        return None
    if c is None:
        lab = norm_key(tt)
        if lab in db._dict:
            ctx.violation('db.lookup_none', f'{name}: lookup of {tt} returned nothing although {lab} is stored', input={'db': name, 'tt': tt})
        ctx.count('lookup:none')
        return None
    got = tt_of(c)
    if got != list(tt):
        ctx.violation('db.lookup_value', f'{name}: lookup of {"_".join(tt)} returned a circuit computing {"_".join(got)}', input={'db': name, 'tt': tt})
    ctx.count('lookup:hit')
    return c


def all_rows(n):
    return [''.join(p) for p in itertools.product('01', repeat=1 << n)]


N_SHIPPED = 349724


def scratch_connections(ctx):
    """someone else in this process uses a connection to each shipped file as a scratch pad (adds circuits in memory,
    never saves) and closes it: what a NEW connection to the shipped file hands out must be the shipped entries only"""
    from cirbo.circuits_db.db import CircuitsDatabase
    from cirbo.circuits_db.data_utils import DEFAULT_AIG_DB_PATH, DEFAULT_XAIG_DB_PATH
    foreign = {'gates': [['x0', 'INPUT', []], ['x1', 'INPUT', []], ['x2', 'INPUT', []], ['x3', 'INPUT', []],
                         ['a', 'XOR', ['x0', 'x1']], ['b', 'XOR', ['x2', 'x3']], ['c', 'XOR', ['a', 'b']]],
               'inputs': ['x0', 'x1', 'x2', 'x3'], 'outputs': ['c'], 'blocks': []}
    info = {}
    for name, p in (('aig', DEFAULT_AIG_DB_PATH), ('xaig', DEFAULT_XAIG_DB_PATH)):
        try:
            c = circ_from_json(realize(foreign))
            with CircuitsDatabase(p) as d:
                d.add_circuit(c)
                d.add_circuit(c, label='verif_scratch_label')
            info[name] = c.get_truth_table()
            ctx.count('scratch_connection:' + name)
        except Exception as e:  # noqa: BLE001
            ctx.count('scratch_connection_refused:' + err_name(e))
    return info


def check_after_scratch(ctx, dbs, info):
    for name, db in dbs.items():
        if name not in info:
            continue
        inp = {'db': name, 'history': 'connection A: open shipped file, add_circuit(4-input parity) twice (by table, by label), close; '
                                      'connection B: open the same file'}
        n = len(db._dict)
        try:
            by_t = db.get_by_raw_truth_table(info[name])
            by_l = db.get_by_label('verif_scratch_label')
        except Exception as e:  # noqa: BLE001
            ctx.violation('db.foreign_entry', f'{name}: lookup on a new connection raised {err_name(e)}', input=inp)
            continue
        if by_t is not None or by_l is not None:
            ctx.violation('db.foreign_entry', f'{name}: a new connection to the shipped file returns a circuit that another connection '
                          f'added in memory (a 4-input table / a label the shipped file does not store; XOR gates)', input=inp)
        elif n != N_SHIPPED:
            ctx.violation('db.count', f'{name}: a new connection to the shipped file has {n} entries, the shipped file stores {N_SHIPPED}', input=inp)


def search(ctx):
    rng = ctx.rng('search')
    info = scratch_connections(ctx)
    dbs = open_dbs()
    check_after_scratch(ctx, dbs, info)
    # (1) sweep of the shipped entries
    for name, db in dbs.items():
        for key in pick_keys(ctx, rng, db, ctx.scale(12000, 10 ** 9)):
            ctx.case(json.dumps(['entry', name, key]))
            check_entry(ctx, name, db, key)
            ctx.count('entries:' + name)
    # (1b) quick tier: every entry is at least decoded (the full evaluation of every entry is the thorough tier's)
    if ctx.tier != 'thorough':
        for name, db in dbs.items():
            allowed = AIG_TYPES if name == 'aig' else XAIG_TYPES
            n_bad = 0
            for key in db._dict.keys():
                try:
                    c = db.get_by_label(key)
                    ok = len(c.outputs) == key.count('_') + 1 and all(g.gate_type.name in allowed for g in c.gates.values())
                except Exception as e:  # noqa: BLE001
                    ok = False
                if not ok:
                    n_bad += 1
                    if n_bad <= 3:
                        ctx.case(json.dumps(['entry', name, key]))
                        check_entry(ctx, name, db, key)
            ctx.count('entries_decoded:' + name, len(db._dict))
    # (2) fully defined lookups
    for name, db in dbs.items():
        for n, m, limit in ((2, 1, None), (2, 2, None), (2, 3, None), (3, 1, None), (3, 2, ctx.scale(1500, 20000)), (3, 3, ctx.scale(2500, 40000))):
            rows = all_rows(n)
            if limit is None:
                tables = itertools.product(rows, repeat=m)
            else:
                def sample_tables():
                    for _ in range(limit):
                        t = [rng.choice(rows) for _ in range(m)]
                        k = rng.random()
                        if m >= 2 and k < 0.2:
                            t[1] = t[0]
                        elif m >= 2 and k < 0.4:
                            t[1] = ''.join('1' if ch == '0' else '0' for ch in t[0])
                        yield tuple(t)
                tables = sample_tables()
            for tt in tables:
                ctx.case(json.dumps(['lookup', name, tt]))
                check_lookup(ctx, name, db, tt, rng.choice(['list', 'list', 'tuple', 'mixed']))
    # (3) don't-cares
    from cirbo.core.logic import DontCare
    for name, db in dbs.items():
        for k in range(ctx.scale(400, 6000)):
            tt, pos = gen_dc(rng)
            ctx.case(json.dumps(['dc', name, tt]))
            model = [[DontCare if ch == '*' else ch == '1' for ch in r] for r in tt]
            try:
                res = db.get_by_raw_truth_table_model(model)
            except Exception as e:  # noqa: BLE001
                ctx.violation('db.dc_raises', f'{name}: lookup of {tt} raised {err_name(e)}', input={'db': name, 'tt': tt})
                continue
            best = None
            for sub in itertools.product('01', repeat=len(pos)):
                comp = [list(r) for r in tt]
                for (i, j), v in zip(pos, sub):
                    comp[i][j] = v
                c2 = db.get_by_raw_truth_table([[ch == '1' for ch in r] for r in comp])
                if c2 is not None:
                    s = c2.gates_number()
                    best = s if best is None else min(best, s)
            if res is None:
                if best is not None:
                    ctx.violation('db.dc_none', f'{name}: lookup of {tt} returned nothing although a completion is stored', input={'db': name, 'tt': tt})
                continue
            got = tt_of(res)
            if any(g != w for gr, wr in zip(got, tt) for g, w in zip(gr, wr) if w != '*') or len(got) != len(tt):
                ctx.violation('db.dc_value', f'{name}: lookup of {tt} returned a circuit computing {got}', input={'db': name, 'tt': tt})
            elif best is not None and res.gates_number() > best:
                ctx.violation('db.dc_size', f'{name}: lookup of {tt} returned {res.gates_number()} gates, another completion has {best}',
                              input={'db': name, 'tt': tt})
            ctx.count('dc:ok')


def replay(ctx, rp):
    v = rp.get('violation') or {}
    i = v.get('input') or {}
    dbs = open_dbs()
    if 'key' in i:
        check_entry(ctx, i['db'], dbs[i['db']], i['key'])
    elif 'tt' in i and not any('*' in r for r in i['tt']):
        check_lookup(ctx, i['db'], dbs[i['db']], i['tt'])
    else:
        search(ctx)
