"""Running arithmetic generators on the real code, in the model driver's request/response shape."""
import json

import common
import gen
from common import circ_from_json, circ_to_json, err_name, realize
from props.mutcommon import UuidPatch


def _basis(b):
    from cirbo.synthesis.generation.helpers import GenerationBasis
    if b is None:
        return {}
    if b[0] == 'enum':
        return {'basis': getattr(GenerationBasis, b[1])}
    return {'basis': b[1]}


def call_generator(c, name, a):
    """one add_* call on circuit c; returns the JSON-able return value"""
    from cirbo.synthesis.generation.arithmetics import summation as S
    be = {'big_endian': bool(a.get('big_endian', False))}
    if name == 'add_sum2':
        return list(S.add_sum2(c, a['ins']))
    if name == 'add_sum3':
        return list(S.add_sum3(c, a['ins']))
    if name == 'add_sum_n_bits_easy':
        return list(S.add_sum_n_bits_easy(c, a['ins'], **be))
    if name == 'add_sum_n_bits':
        return list(S.add_sum_n_bits(c, a['ins'], **_basis(a.get('basis')), **be))
    if name == 'add_sum_two_numbers':
        return list(S.add_sum_two_numbers(c, a['a'], a['b'], **be))
    if name == 'add_sum_two_numbers_with_shift':
        return list(S.add_sum_two_numbers_with_shift(c, a['shift'], a['a'], a['b'], **be))
    if name == 'add_sum_n_weighted_bits':
        return [[l, x] for l, x in S.add_sum_n_weighted_bits(c, [tuple(p) for p in a['ins']], **_basis(a.get('basis')))]
    if name == 'add_sum_n_weighted_bits_naive':
        return [[l, x] for l, x in S.add_sum_n_weighted_bits_naive(c, [tuple(p) for p in a['ins']], **_basis(a.get('basis')))]
    if name == 'add_sum_pow2_m1':
        return [list(r) for r in S.add_sum_pow2_m1(c, a['ins'], **_basis(a.get('basis')), **be)]
    from props import gencalls
    return gencalls.call(c, name, a)


def py_gen(req):
    """{'op':'gen','c':..,'ctr':..,'name':..,'args':..} on the real code"""
    try:
        c = circ_from_json(req['c'])
        with UuidPatch() as u:
            u.n = req['ctr']
            ret = call_generator(c, req['name'], req['args'])
            n = u.n
        return {'ok': {'ret': ret, 'c': circ_to_json(c), 'ctr': n}}
    except RecursionError:
        return {'err': 'Py:RecursionError'}
    except Exception as e:  # noqa: BLE001
        return {'err': err_name(e)}


def host_circuit(rng, n_inputs=None, max_gates=8):
    """a random host (through the public API) or a bare circuit"""
    if n_inputs is None:
        n_inputs = rng.randint(1, 6)
    if rng.random() < 0.35:
        j = {'gates': [[str(i), 'INPUT', []] for i in range(n_inputs)], 'inputs': [str(i) for i in range(n_inputs)],
             'outputs': [], 'blocks': []}
        return realize(j)
    j, _ = gen.gen_circuit(rng, max_inputs=n_inputs, min_inputs=n_inputs, max_gates=max_gates, n_outputs=rng.randint(0, 2), max_arity=3)
    if rng.random() < 0.3:
        # host gates that carry names the generators use internally (sentinels, placeholders, generated-looking labels)
        special = ['inf_label', 'nan_label', '_PLACEHOLDER_STR_', 'new_' + '0' * 32, 'zero', 'PLACEHOLDER', 'inf', 'tmp_0']
        labels = [g[0] for g in j['gates']]
        ren = dict(zip(rng.sample(labels, min(len(labels), rng.randint(1, 3))), rng.sample(special, 3)))
        f = lambda l: ren.get(l, l)
        j = {'gates': [[f(g[0]), g[1], [f(o) for o in g[2]]] for g in j['gates']], 'inputs': [f(x) for x in j['inputs']],
             'outputs': [f(x) for x in j['outputs']], 'blocks': []}
    return realize(j)


def pick_operands(rng, host, n, distinct=False, inputs_only=False):
    labels = [g[0] for g in host['gates'] if (g[1] == 'INPUT' or not inputs_only)]
    if not labels:
        return []
    if distinct and len(labels) >= n:
        return rng.sample(labels, n)
    return [rng.choice(labels) for _ in range(n)]


def gates_tt(cj):
    """label -> tuple of bools over all assignments of the circuit's inputs (real evaluator)"""
    c = circ_from_json(cj)
    return {k: tuple(bool(x) for x in v) for k, v in c.get_gates_truth_table().items()}


def value(tt, labels, row, little=True):
    bits = [tt[l][row] for l in labels]
    if not little:
        bits = bits[::-1]
    return sum((1 << i) for i, b in enumerate(bits) if b)


XOR_TYPES = {'XOR', 'NXOR'}


def basis_norm(b):
    if b is None:
        return 'XAIG'
    return b[1].upper()


def frame_problems(before, after):
    """only fresh gates were added; inputs/outputs/blocks untouched (outputs: see caller)"""
    old = {g[0]: g for g in before['gates']}
    new = {g[0]: g for g in after['gates']}
    probs = []
    for l, g in old.items():
        if new.get(l) != g:
            probs.append('gate %s changed: %s -> %s' % (l, g, new.get(l)))
    if [g[0] for g in after['gates']][:len(before['gates'])] != [g[0] for g in before['gates']]:
        probs.append('storage order of old gates changed')
    if after['inputs'] != before['inputs']:
        probs.append('inputs changed %s -> %s' % (before['inputs'], after['inputs']))
    if after.get('blocks') != before.get('blocks'):
        probs.append('blocks changed')
    return probs


def compare(ctx, stream, reqs):
    code = [py_gen(r) for r in reqs]
    model = ctx.driver.ask_many(reqs)
    from props.mutcommon import canon_state
    for r, a, b in zip(reqs, code, model):
        if 'bad' in b:
            raise RuntimeError('driver rejected request: %r -> %r' % (r, b))
        if a == b:
            ctx.count('agree:' + stream)
        elif 'ok' in a and 'ok' in b and a['ok']['ret'] == b['ok']['ret'] and a['ok']['ctr'] == b['ok']['ctr'] \
                and canon_state(a['ok']['c']) == canon_state(b['ok']['c']):
            ctx.count('order_drift:' + stream)
        else:
            ctx.mismatch(stream, r, a, b)
        if 'err' in a:
            ctx.count('err:' + a['err'])
    return code, model


def wrapper_tt(c):
    """(inputs, outputs, truth table rows) of a generated circuit"""
    return list(c.inputs), list(c.outputs), [list(r) for r in c.get_truth_table()]


def bits_value(bits, big_endian):
    bits = list(bits)[::-1] if big_endian else list(bits)
    return sum((1 << i) for i, b in enumerate(bits) if b)


def check_generate_mul(ctx, sizes):
    """`generate_mul(n, m, type=mode, big_endian=be)`: the public entry with MulMode — inputs a then b, outputs the product"""
    import itertools
    from cirbo.synthesis.generation.arithmetics import multiplication as M
    for mode in M.MulMode:
        for (n, m) in sizes:
            for be in (False, True):
                ctx.case(json.dumps(['generate_mul', mode.name, n, m, be]))
                ctx.count('generate_mul:' + mode.name)
                try:
                    c = M.generate_mul(n, m, type=mode, big_endian=be)
                except Exception as e:  # noqa: BLE001
                    ctx.violation('mul.generate_raises', f'generate_mul({n},{m},{mode.name},big_endian={be}) raised {err_name(e)}',
                                  input={'n': n, 'm': m, 'mode': mode.name, 'be': be})
                    continue
                if len(c.inputs) != n + m:
                    ctx.violation('mul.generate_shape', f'generate_mul({n},{m},{mode.name}) has {len(c.inputs)} inputs', input={'n': n, 'm': m, 'mode': mode.name})
                    continue
                want_w = (n + m - 1) if min(n, m) == 1 else n + m
                if len(c.outputs) != want_w:
                    ctx.violation('mul.generate_width', f'generate_mul({n},{m},{mode.name},big_endian={be}) returns {len(c.outputs)} bits, expected {want_w}',
                                  input={'n': n, 'm': m, 'mode': mode.name, 'be': be})
                for bits in itertools.product((False, True), repeat=n + m):
                    out = c.evaluate(list(bits))
                    a, b = bits_value(bits[:n], be), bits_value(bits[n:], be)
                    got = bits_value(out, be)
                    if got != a * b:
                        ctx.violation('mul.generate_value', f'generate_mul({n},{m},{mode.name},big_endian={be}): a={a}, b={b}: got {got}',
                                      input={'n': n, 'm': m, 'mode': mode.name, 'be': be, 'a': a, 'b': b})
                        break


def check_generate_square(ctx, widths):
    """`generate_square(n, type=mode, big_endian=be)` for every SquareMode, by exhaustive evaluation"""
    import itertools
    from cirbo.synthesis.generation.arithmetics import square as SQR
    for mode in SQR.SquareMode:
        for n in widths:
            for be in (False, True):
                ctx.case(json.dumps(['generate_square', mode.name, n, be])); ctx.count('generate_square:' + mode.name)
                try:
                    c = SQR.generate_square(n, type=mode, big_endian=be)
                except Exception as e:  # noqa: BLE001
                    ctx.violation('mul.generate_raises', f'generate_square({n},{mode.name},big_endian={be}) raised {err_name(e)}', input={'n': n, 'mode': mode.name, 'be': be})
                    continue
                for bits in itertools.product((False, True), repeat=n):
                    a = bits_value(bits, be)
                    got = bits_value(c.evaluate(list(bits)), be)
                    if got != a * a:
                        ctx.violation('mul.generate_value', f'generate_square({n},{mode.name},big_endian={be}): a={a}: got {got}',
                                      input={'n': n, 'mode': mode.name, 'be': be, 'a': a})
                        break


def check_generate_weighted(ctx, rng, count):
    """`generate_sum_weighted_bits_{efficient,naive}(weights, basis=)` = bare circuit + the add_ function + set_outputs"""
    from cirbo.core.circuit import Circuit
    from cirbo.synthesis.generation.arithmetics import summation as S
    for _ in range(count):
        n = rng.randint(1, 7)
        ws = [rng.randint(0, rng.choice([0, 2, 4])) for _ in range(n)]
        basis = rng.choice(['XAIG', 'AIG', 'AIG', 'aig', 'Aig', 'xaig'])
        for gen_fn, add_fn, nm in ((S.generate_sum_weighted_bits_efficient, S.add_sum_n_weighted_bits, 'efficient'),
                                   (S.generate_sum_weighted_bits_naive, S.add_sum_n_weighted_bits_naive, 'naive')):
            ctx.case(json.dumps(['generate_weighted', nm, ws, basis]))
            ctx.count('generate_weighted:' + nm)
            try:
                c = gen_fn(ws, basis=basis)
                d = Circuit.bare_circuit(n)
                res = add_fn(d, [(w, l) for w, l in zip(ws, d.inputs)], basis=basis)
            except Exception as e:  # noqa: BLE001
                ctx.violation('sum.generate_raises', f'generate_sum_weighted_bits_{nm}({ws}, {basis}) raised {err_name(e)}', input={'weights': ws, 'basis': basis})
                continue
            d.set_outputs([r[1] for r in res])
            levels = [r[0] for r in res]
            if list(c.inputs) != list(d.inputs) or c.get_truth_table() != d.get_truth_table():
                ctx.violation('sum.generate_differs', f'generate_sum_weighted_bits_{nm}({ws}, {basis}) differs from add_ on a bare circuit', input={'weights': ws, 'basis': basis})
                continue
            # the requested basis, however it is spelled
            if basis.upper() == 'AIG':
                bad = sorted({g.gate_type.name for g in c.gates.values()} & {'XOR', 'NXOR'})
                if bad:
                    ctx.violation('sum.generate_basis', f'generate_sum_weighted_bits_{nm}({ws}, basis={basis!r}) contains {bad} gates',
                                  input={'weights': ws, 'basis': basis})
                    continue
            # and the value, using the levels the add_ function reported
            tt = c.get_truth_table()
            for row in range(1 << n):
                bits = [(row >> (n - 1 - i)) & 1 for i in range(n)]
                want = sum(b << w for b, w in zip(bits, ws))
                got = sum((1 << lv) for lv, r in zip(levels, tt) if r[row])
                if want != got:
                    ctx.violation('sum.generate_value', f'generate_sum_weighted_bits_{nm}({ws}, {basis}): inputs {bits} sum to {want}, outputs decode to {got}',
                                  input={'weights': ws, 'basis': basis, 'bits': bits})
                    break


def check_generate_arith(ctx, thorough=False):
    """the `generate_*` wrappers of the arithmetic generators, called as a user calls them, by exhaustive evaluation:
    subtraction (unequal widths), div-mod, square root, equality, pairwise xor — both endiannesses"""
    import itertools
    from cirbo.synthesis.generation.arithmetics import subtraction as SB, div_mod as DM, sqrt as SQ, equality as EQ
    from cirbo.synthesis.generation import generation as GG
    import math

    def rows(c, n_in):
        return [(bits, c.evaluate(list(bits))) for bits in itertools.product((False, True), repeat=n_in)]
    wmax = 5 if thorough else 4
    for be in (False, True):
        for n in range(1, wmax + 1):
            for m in range(1, wmax + 1):
                ctx.case(json.dumps(['generate_sub', n, m, be])); ctx.count('generate_sub_two_numbers')
                try:
                    c = SB.generate_sub_two_numbers(n, m, big_endian=be)
                    for bits, out in rows(c, n + m):
                        a, b = bits_value(bits[:n], be), bits_value(bits[n:], be)
                        if len(out) != n or bits_value(out, be) != (a - b) % (1 << n):
                            ctx.violation('sub.generate_value', f'generate_sub_two_numbers({n},{m},big_endian={be}): a={a}, b={b}: got {bits_value(out, be)} on {len(out)} bits',
                                          input={'n': n, 'm': m, 'be': be, 'a': a, 'b': b})
                            break
                except Exception as e:  # noqa: BLE001
                    ctx.violation('gadget.generate_raises', f'generate_sub_two_numbers({n},{m},big_endian={be}) raised {err_name(e)}', input={'n': n, 'm': m, 'be': be})
        for n in range(1, (4 if thorough else 3) + 1):
            ctx.case(json.dumps(['generate_div_mod', n, be])); ctx.count('generate_div_mod')
            try:
                c = DM.generate_div_mod(n, big_endian=be)
                for bits, out in rows(c, 2 * n):
                    a, b = bits_value(bits[:n], be), bits_value(bits[n:], be)
                    want = (a // b, a % b) if b else (0, 0)
                    got = (bits_value(out[:n], be), bits_value(out[n:], be))
                    if len(out) != 2 * n or got != want:
                        ctx.violation('divmod.generate_value', f'generate_div_mod({n},big_endian={be}): a={a}, b={b}: got {got}, expected {want}',
                                      input={'n': n, 'be': be, 'a': a, 'b': b})
                        break
            except Exception as e:  # noqa: BLE001
                ctx.violation('gadget.generate_raises', f'generate_div_mod({n},big_endian={be}) raised {err_name(e)}', input={'n': n, 'be': be})
        for n in range(1, (9 if thorough else 7) + 1):
            ctx.case(json.dumps(['generate_sqrt', n, be])); ctx.count('generate_sqrt')
            try:
                c = SQ.generate_sqrt(n, big_endian=be)
                for bits, out in rows(c, n):
                    a = bits_value(bits, be)
                    if len(out) != (n + 1) // 2 or bits_value(out, be) != math.isqrt(a):
                        ctx.violation('sqrt.generate_value', f'generate_sqrt({n},big_endian={be}): a={a}: got {bits_value(out, be)} on {len(out)} bits',
                                      input={'n': n, 'be': be, 'a': a})
                        break
            except Exception as e:  # noqa: BLE001
                ctx.violation('gadget.generate_raises', f'generate_sqrt({n},big_endian={be}) raised {err_name(e)}', input={'n': n, 'be': be})
    for n in range(1, 4):
        for num in range(-2, (1 << n) + 2):
            ctx.case(json.dumps(['generate_equal', n, num])); ctx.count('generate_equal')
            try:
                c = EQ.generate_equal(n, num)
                for bits, out in rows(c, n):
                    if out != [bits_value(bits, False) == num]:
                        ctx.violation('equal.generate_value', f'generate_equal({n},{num}) on operand {bits_value(bits, False)}: {out}', input={'n': n, 'num': num})
                        break
            except Exception as e:  # noqa: BLE001
                ctx.violation('gadget.generate_raises', f'generate_equal({n},{num}) raised {err_name(e)}', input={'n': n, 'num': num})
    # eleven and more inputs (the bare circuit's labels '0', '1', ..., '10', '11' no longer sort like numbers): sampled
    import random as _random
    srng = _random.Random(20260926)

    def sample_rows(c, n_in, k=120):
        for _ in range(k):
            bits = tuple(srng.random() < 0.5 for _ in range(n_in))
            yield bits, c.evaluate(list(bits))
    for be in (False, True):
        for n in (11, 12, 13):
            ctx.case(json.dumps(['generate_sqrt_wide', n, be])); ctx.count('generate_wide')
            try:
                c = SQ.generate_sqrt(n, big_endian=be)
                for bits, out in sample_rows(c, n):
                    a = bits_value(bits, be)
                    if bits_value(out, be) != math.isqrt(a):
                        ctx.violation('sqrt.generate_value', f'generate_sqrt({n},big_endian={be}): a={a}: got {bits_value(out, be)}', input={'n': n, 'be': be, 'a': a})
                        break
            except Exception as e:  # noqa: BLE001
                ctx.violation('gadget.generate_raises', f'generate_sqrt({n},big_endian={be}) raised {err_name(e)}', input={'n': n, 'be': be})
        for n in (6, 7):
            ctx.case(json.dumps(['generate_div_mod_wide', n, be])); ctx.count('generate_wide')
            try:
                c = DM.generate_div_mod(n, big_endian=be)
                for bits, out in sample_rows(c, 2 * n):
                    a, b = bits_value(bits[:n], be), bits_value(bits[n:], be)
                    want = (a // b, a % b) if b else (0, 0)
                    if (bits_value(out[:n], be), bits_value(out[n:], be)) != want:
                        ctx.violation('divmod.generate_value', f'generate_div_mod({n},big_endian={be}): a={a}, b={b}', input={'n': n, 'be': be, 'a': a, 'b': b})
                        break
            except Exception as e:  # noqa: BLE001
                ctx.violation('gadget.generate_raises', f'generate_div_mod({n},big_endian={be}) raised {err_name(e)}', input={'n': n, 'be': be})
        for n, m in ((6, 6), (7, 5), (4, 8)):
            ctx.case(json.dumps(['generate_sub_wide', n, m, be])); ctx.count('generate_wide')
            try:
                c = SB.generate_sub_two_numbers(n, m, big_endian=be)
                for bits, out in sample_rows(c, n + m):
                    a, b = bits_value(bits[:n], be), bits_value(bits[n:], be)
                    if bits_value(out, be) != (a - b) % (1 << n):
                        ctx.violation('sub.generate_value', f'generate_sub_two_numbers({n},{m},big_endian={be}): a={a}, b={b}', input={'n': n, 'm': m, 'be': be, 'a': a, 'b': b})
                        break
            except Exception as e:  # noqa: BLE001
                ctx.violation('gadget.generate_raises', f'generate_sub_two_numbers({n},{m},big_endian={be}) raised {err_name(e)}', input={'n': n, 'm': m, 'be': be})
    for n in (11, 12):
        for num in (0, 4, 5, (1 << n) - 1, 1 << (n - 1), 1234):
            ctx.case(json.dumps(['generate_equal_wide', n, num])); ctx.count('generate_wide')
            try:
                c = EQ.generate_equal(n, num)
                probes = [tuple(bool((num >> i) & 1) for i in range(n))] + [bits for bits, _ in sample_rows(c, n, 40)]
                for bits in probes:
                    if c.evaluate(list(bits)) != [bits_value(bits, False) == num]:
                        ctx.violation('equal.generate_value', f'generate_equal({n},{num}) on operand {bits_value(bits, False)}', input={'n': n, 'num': num})
                        break
            except Exception as e:  # noqa: BLE001
                ctx.violation('gadget.generate_raises', f'generate_equal({n},{num}) raised {err_name(e)}', input={'n': n, 'num': num})
    for n in (1, 2, 3):
        ctx.case(json.dumps(['generate_pairwise_xor', n])); ctx.count('generate_pairwise_xor')
        try:
            c = GG.generate_pairwise_xor(n)
            for bits, out in rows(c, 2 * n):
                if out != [bits[k] != bits[n + k] for k in range(n)]:
                    ctx.violation('gadget.generate_xor_value', f'generate_pairwise_xor({n}) on {bits}: {out}', input={'n': n, 'bits': list(bits)})
                    break
        except Exception as e:  # noqa: BLE001
            ctx.violation('gadget.generate_raises', f'generate_pairwise_xor({n}) raised {err_name(e)}', input={'n': n})


def check_generate_ite(ctx):
    import itertools
    from cirbo.synthesis.generation import generation as GG
    ctx.count('generate_if_then_else')
    c = GG.generate_if_then_else()
    if list(c.inputs) != ['if', 'then', 'else'] or len(c.outputs) != 1:
        ctx.violation('gadget.generate_ite_shape', f'generate_if_then_else: inputs {c.inputs}, outputs {c.outputs}', input={})
    else:
        for i, t, e in itertools.product((False, True), repeat=3):
            if c.evaluate([i, t, e]) != [t if i else e]:
                ctx.violation('gadget.generate_ite_value', f'generate_if_then_else({i},{t},{e}) = {c.evaluate([i, t, e])}', input={'bits': [i, t, e]})
    for n in (1, 2, 3):
        ctx.count('generate_pairwise_if_then_else')
        c = GG.generate_pairwise_if_then_else(n)
        if len(c.inputs) != 3 * n or len(c.outputs) != n:
            ctx.violation('gadget.generate_ite_shape', f'generate_pairwise_if_then_else({n}): {len(c.inputs)} inputs, {len(c.outputs)} outputs', input={'n': n})
            continue
        for bits in itertools.product((False, True), repeat=3 * n):
            want = [bits[n + k] if bits[k] else bits[2 * n + k] for k in range(n)]
            if c.evaluate(list(bits)) != want:
                ctx.violation('gadget.generate_ite_value', f'generate_pairwise_if_then_else({n}) on {bits}: {c.evaluate(list(bits))}, expected {want}', input={'n': n, 'bits': list(bits)})
                break
