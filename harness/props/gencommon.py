"""Running arithmetic generators on the real code, in the model driver's request/response shape."""
import json

import common
import gen
from common import circ_from_json, circ_to_json, err_name, realize
from props.mutcommon import UuidPatch


def _basis(b):
    from cirbo.synthesis.generation.helpers import GenerationBasis
    if b is None:
        return {}
    if b[0] == 'enum':
        return {'basis': getattr(GenerationBasis, b[1])}
    return {'basis': b[1]}


def call_generator(c, name, a):
    """one add_* call on circuit c; returns the JSON-able return value"""
    from cirbo.synthesis.generation.arithmetics import summation as S
    be = {'big_endian': bool(a.get('big_endian', False))}
    if name == 'add_sum2':
        return list(S.add_sum2(c, a['ins']))
    if name == 'add_sum3':
        return list(S.add_sum3(c, a['ins']))
    if name == 'add_sum_n_bits_easy':
        return list(S.add_sum_n_bits_easy(c, a['ins'], **be))
    if name == 'add_sum_n_bits':
        return list(S.add_sum_n_bits(c, a['ins'], **_basis(a.get('basis')), **be))
    if name == 'add_sum_two_numbers':
        return list(S.add_sum_two_numbers(c, a['a'], a['b'], **be))
    if name == 'add_sum_two_numbers_with_shift':
        return list(S.add_sum_two_numbers_with_shift(c, a['shift'], a['a'], a['b'], **be))
    if name == 'add_sum_n_weighted_bits':
        return [[l, x] for l, x in S.add_sum_n_weighted_bits(c, [tuple(p) for p in a['ins']], **_basis(a.get('basis')))]
    if name == 'add_sum_n_weighted_bits_naive':
        return [[l, x] for l, x in S.add_sum_n_weighted_bits_naive(c, [tuple(p) for p in a['ins']], **_basis(a.get('basis')))]
    if name == 'add_sum_pow2_m1':
        return [list(r) for r in S.add_sum_pow2_m1(c, a['ins'], **_basis(a.get('basis')), **be)]
    from props import gencalls
    return gencalls.call(c, name, a)


def py_gen(req):
    """{'op':'gen','c':..,'ctr':..,'name':..,'args':..} on the real code"""
    try:
        c = circ_from_json(req['c'])
        with UuidPatch() as u:
            u.n = req['ctr']
            ret = call_generator(c, req['name'], req['args'])
            n = u.n
        return {'ok': {'ret': ret, 'c': circ_to_json(c), 'ctr': n}}
    except RecursionError:
        return {'err': 'Py:RecursionError'}
    except Exception as e:  # noqa: BLE001
        return {'err': err_name(e)}


def host_circuit(rng, n_inputs=None, max_gates=8):
    """a random host (through the public API) or a bare circuit"""
    if n_inputs is None:
        n_inputs = rng.randint(1, 6)
    if rng.random() < 0.35:
        j = {'gates': [[str(i), 'INPUT', []] for i in range(n_inputs)], 'inputs': [str(i) for i in range(n_inputs)],
             'outputs': [], 'blocks': []}
        return realize(j)
    j, _ = gen.gen_circuit(rng, max_inputs=n_inputs, min_inputs=n_inputs, max_gates=max_gates, n_outputs=rng.randint(0, 2), max_arity=3)
    return realize(j)


def pick_operands(rng, host, n, distinct=False, inputs_only=False):
    labels = [g[0] for g in host['gates'] if (g[1] == 'INPUT' or not inputs_only)]
    if not labels:
        return []
    if distinct and len(labels) >= n:
        return rng.sample(labels, n)
    return [rng.choice(labels) for _ in range(n)]


def gates_tt(cj):
    """label -> tuple of bools over all assignments of the circuit's inputs (real evaluator)"""
    c = circ_from_json(cj)
    return {k: tuple(bool(x) for x in v) for k, v in c.get_gates_truth_table().items()}


def value(tt, labels, row, little=True):
    bits = [tt[l][row] for l in labels]
    if not little:
        bits = bits[::-1]
    return sum((1 << i) for i, b in enumerate(bits) if b)


XOR_TYPES = {'XOR', 'NXOR'}


def basis_norm(b):
    if b is None:
        return 'XAIG'
    return b[1].upper()


def frame_problems(before, after):
    """only fresh gates were added; inputs/outputs/blocks untouched (outputs: see caller)"""
    old = {g[0]: g for g in before['gates']}
    new = {g[0]: g for g in after['gates']}
    probs = []
    for l, g in old.items():
        if new.get(l) != g:
            probs.append('gate %s changed: %s -> %s' % (l, g, new.get(l)))
    if [g[0] for g in after['gates']][:len(before['gates'])] != [g[0] for g in before['gates']]:
        probs.append('storage order of old gates changed')
    if after['inputs'] != before['inputs']:
        probs.append('inputs changed %s -> %s' % (before['inputs'], after['inputs']))
    if after.get('blocks') != before.get('blocks'):
        probs.append('blocks changed')
    return probs


def compare(ctx, stream, reqs):
    code = [py_gen(r) for r in reqs]
    model = ctx.driver.ask_many(reqs)
    from props.mutcommon import canon_state
    for r, a, b in zip(reqs, code, model):
        if 'bad' in b:
            raise RuntimeError('driver rejected request: %r -> %r' % (r, b))
        if a == b:
            ctx.count('agree:' + stream)
        elif 'ok' in a and 'ok' in b and a['ok']['ret'] == b['ok']['ret'] and a['ok']['ctr'] == b['ok']['ctr'] \
                and canon_state(a['ok']['c']) == canon_state(b['ok']['c']):
            ctx.count('order_drift:' + stream)
        else:
            ctx.mismatch(stream, r, a, b)
        if 'err' in a:
            ctx.count('err:' + a['err'])
    return code, model
