"""C16 — the database codec never silently changes a circuit."""
import io
import json

import gen
from common import with_users, realize, circ_from_json, circ_to_json, err_name
from props.evalcommon import py_exec

RULE = ('(a) random circuits through the public API: format-conforming ones (unary NOT/IFF, binary gates, '
        'constants with two operands, any storage order incl. non-topological, 0..5 inputs, 0..4 outputs, '
        'repeated outputs) and non-conforming ones (n-ary arity>=3, operand-less constants, L*/R* types); '
        'encode/decode bytes compared exactly with the model; (b) bit streams: random (number,width) sequences '
        'incl. too-large numbers, read back with the same widths; (c) dictionaries with non-ASCII keys, empty '
        'and long values; every strict prefix and a trailing byte; non-trivial = non-empty; distinct by content')
ASSUMPTIONS = ['UTF-8 encode/decode of CPython is a bijection on valid strings (keys are byte strings in the model)']
TRUSTED = ['search oracle: harness comparison of counts, truth tables (real evaluator, certified in C01) and '
           'per-gate truth-table multisets of original vs decoded circuit']

FORMAT_TYPES = ['NOT', 'IFF', 'AND', 'OR', 'NOR', 'NAND', 'XOR', 'NXOR', 'GEQ', 'GT', 'LEQ', 'LT',
                'ALWAYS_TRUE', 'ALWAYS_FALSE']


def py_encode(j):
    try:
        from cirbo.circuits_db.circuits_encoding import encode_circuit
        return {'ok': list(encode_circuit(circ_from_json(j)))}
    except Exception as e:  # noqa: BLE001
        return {'err': err_name(e)}


def py_decode(bs):
    try:
        from cirbo.circuits_db.circuits_encoding import decode_circuit
        return {'ok': circ_to_json(decode_circuit(bytes(bs)))}
    except Exception as e:  # noqa: BLE001
        return {'err': err_name(e)}


def py_bit_write(writes):
    try:
        from cirbo.circuits_db.bit_io import BitWriter
        w = BitWriter()
        for k, width in writes:
            w.write_number(k, width)
        return {'ok': list(bytes(w))}
    except Exception as e:  # noqa: BLE001
        return {'err': err_name(e)}


def py_bit_read(bs, widths):
    try:
        from cirbo.circuits_db.bit_io import BitReader
        r = BitReader(bytes(bs))
        return {'ok': [r.read_number(w) for w in widths]}
    except Exception as e:  # noqa: BLE001
        return {'err': err_name(e)}


def py_write_dict(d):
    try:
        from cirbo.circuits_db.binary_dict_io import write_binary_dict
        s = io.BytesIO()
        write_binary_dict(d, s)
        return {'ok': list(s.getvalue())}
    except Exception as e:  # noqa: BLE001
        return {'err': err_name(e)}


def py_read_dict(bs):
    try:
        from cirbo.circuits_db.binary_dict_io import read_binary_dict
        d = read_binary_dict(io.BytesIO(bytes(bs)))
        return {'ok': [[list(k.encode('utf-8')), list(v)] for k, v in d.items()]}
    except Exception as e:  # noqa: BLE001
        return {'err': err_name(e)}


def gen_codec_circuit(rng, conforming):
    if conforming:
        j, info = gen.gen_circuit(rng, max_inputs=5, max_gates=14, types=FORMAT_TYPES, max_arity=2,
                                  p_repeat_operand=0.2, min_inputs=rng.choice([0, 1, 1, 1]))
        # the format's arities: constants take two operands, n-ary gates exactly two
        ins = [g[0] for g in j['gates'] if g[1] == 'INPUT']
        order = gen.topo_order(j)
        avail = set()
        byl = {g[0]: g for g in j['gates']}
        ok = True
        for l in order:
            g = byl[l]
            if g[1] in ('ALWAYS_TRUE', 'ALWAYS_FALSE'):
                pool = sorted(avail)
                if not pool:
                    ok = False
                    break
                g[2] = [rng.choice(pool), rng.choice(pool)]
            elif g[1] not in ('INPUT', 'NOT', 'IFF') and len(g[2]) != 2:
                g[2] = (g[2] * 2)[:2]
            avail.add(l)
        if not ok:
            return None, None
        return j, info
    j, info = gen.gen_circuit(rng, max_inputs=4, max_gates=10, max_arity=4)
    return j, info


def rand_key(rng):
    alphabet = 'ab01 _é€𝄞ßΩ\x00'
    return ''.join(rng.choice(alphabet) for _ in range(rng.randint(0, 6)))


def correspondence(ctx):
    rng = ctx.rng('corr')
    reqs, code = [], []
    for k in range(ctx.scale(600, 15000)):
        conforming = rng.random() < 0.6
        j, info = gen_codec_circuit(rng, conforming)
        if j is None:
            continue
        j = realize(j)
        a = py_encode(j)
        reqs.append({'op': 'encode', 'c': j})
        code.append(a)
        ctx.case(json.dumps(['enc', j['gates'], j['inputs'], j['outputs']]), len(j['gates']) > 0)
        ctx.count('encode:' + ('ok' if 'ok' in a else a['err']))
        ctx.count('conforming' if conforming else 'nonconforming')
        if 'ok' in a:
            bs = a['ok']
            body_from = (8 + 3 * bs[0] + 7) // 8 if bs else 0
            if rng.random() < 0.25 and len(bs) > body_from:
                # corrupted stream (gate/output part only: corrupted counts just make both sides loop)
                bs = list(bs)
                bs[rng.randrange(body_from, len(bs))] ^= 1 << rng.randrange(8)
                ctx.count('decode:corrupted')
            elif rng.random() < 0.1 and bs:
                bs = bs[:rng.randrange(len(bs))]
                ctx.count('decode:truncated')
            reqs.append({'op': 'decode', 'bytes': bs})
            code.append(py_decode(bs))
            ctx.case(json.dumps(['dec', bs]))
        if k < 2:
            ctx.sample({'circuit': j, 'encoded': a})
    for k in range(ctx.scale(300, 6000)):
        writes = []
        for _ in range(rng.randint(0, 8)):
            w = rng.choice([0, 1, 3, 4, 7, 8, 9, 16, 17, 24, 33, 57, 63, 64, 65, 90])
            kk = rng.randrange(1 << w) if (w and rng.random() < 0.9) else rng.randrange(1 << (w + 2))
            writes.append([kk, w])
        a = py_bit_write(writes)
        reqs.append({'op': 'bit_write', 'writes': writes})
        code.append(a)
        ctx.case(json.dumps(['bw', writes]), bool(writes))
        if 'ok' in a:
            widths = [w for _, w in writes] + ([rng.choice([1, 8])] if rng.random() < 0.3 else [])
            reqs.append({'op': 'bit_read', 'bytes': a['ok'], 'widths': widths})
            code.append(py_bit_read(a['ok'], widths))
    for k in range(ctx.scale(200, 4000)):
        d = {}
        for _ in range(rng.randint(0, 5)):
            d[rand_key(rng)] = bytes(rng.randrange(256) for _ in range(rng.choice([0, 1, 2, 5, 300])))
        entries = [[list(kk.encode('utf-8')), list(v)] for kk, v in d.items()]
        a = py_write_dict(d)
        reqs.append({'op': 'write_dict', 'entries': entries})
        code.append(a)
        ctx.case(json.dumps(['wd', entries]), bool(d))
        if 'ok' in a:
            bs = a['ok']
            variants = [bs, bs + [rng.randrange(256)]]
            if bs:
                variants.append(bs[:rng.randrange(len(bs))])
            for v in variants:
                reqs.append({'op': 'read_dict', 'bytes': v})
                code.append(py_read_dict(v))
    model = ctx.driver.ask_many(reqs)
    for r, a, b in zip(reqs, code, model):
        if a == b:
            ctx.count('agree:' + r['op'])
        else:
            ctx.mismatch(r['op'], r if r['op'] != 'encode' else {'op': 'encode', 'c': r['c']}, a, b)


CODEC_ERRORS = {'CircuitEncodingError', 'BitIOError'}


def check_codec(ctx, j, conforming, brief=None):
    inp = brief if brief is not None else {'c': j}
    a = py_encode(j)
    if 'err' in a:
        if a['err'] not in CODEC_ERRORS:
            ctx.violation('encode.wrong_error', f'encode_circuit raised {a["err"]}, not a database-codec error', input=inp)
        elif conforming:
            ctx.violation('encode.rejects_conforming', f'encode_circuit raised {a["err"]} on a circuit using only the format\'s types and arities',
                          input=inp)
        return
    d = py_decode(a['ok'])
    if 'err' in d:
        ctx.violation('decode.fails_after_encode', f'encode succeeded but decode raised {d["err"]}', input=inp)
        return
    dj = d['ok']
    if (len(dj['inputs']), len(dj['outputs']), len(dj['gates'])) != (len(j['inputs']), len(j['outputs']), len(j['gates'])):
        ctx.violation('codec.counts', 'decoded circuit has different numbers of inputs/outputs/gates', input=inp)
        return
    if len(j['inputs']) <= 6:
        t1 = py_exec({'op': 'truth_table', 'c': j})
        t2 = py_exec({'op': 'truth_table', 'c': dj})
        if t1 != t2:
            ctx.violation('codec.truth_table', f'decoded circuit computes {t2}, original {t1}', input=inp)
            return
        g1 = py_exec({'op': 'gates_tt', 'c': j})
        g2 = py_exec({'op': 'gates_tt', 'c': dj})
        if 'ok' in g1 and 'ok' in g2 and sorted(v for _, v in g1['ok']) != sorted(v for _, v in g2['ok']):
            ctx.violation('codec.gate_for_gate', 'per-gate truth tables differ (as multisets)', input=inp)


def search(ctx):
    rng = ctx.rng('search')
    for k in range(ctx.scale(500, 12000)):
        conforming = rng.random() < 0.6
        j, info = gen_codec_circuit(rng, conforming)
        if j is None:
            continue
        j = realize(j)
        ctx.case(json.dumps(['s', j['gates'], j['inputs'], j['outputs']]), len(j['gates']) > 0)
        check_codec(ctx, j, conforming)
    # long dependency chains, stored sink first and source first (the encoder must not depend on the stack depth)
    for depth in (1500, 3000):
        for sink_first in (True, False):
            chain = [['n%d' % i, 'NOT', ['n%d' % (i - 1) if i else 'x']] for i in range(depth)]
            if sink_first:
                chain.reverse()
            j = with_users({'gates': [['x', 'INPUT', []]] + chain, 'inputs': ['x'], 'outputs': ['n%d' % (depth - 1)], 'blocks': []})
            ctx.case(json.dumps(['chain', depth, sink_first]))
            ctx.count('deep_chain')
            check_codec(ctx, j, True, brief={'chain_of_not_gates': depth, 'stored_sink_first': sink_first})
    # bit level and dictionary level, implementation only
    for k in range(ctx.scale(300, 6000)):
        writes = [[rng.randrange(1 << w) if w else 0, w] for w in (rng.choice([1, 2, 5, 8, 13, 16, 24, 32, 33, 57, 58, 63, 64, 65, 100]) for _ in range(rng.randint(1, 6)))]
        a = py_bit_write(writes)
        b = py_bit_read(a.get('ok', []), [w for _, w in writes]) if 'ok' in a else a
        ctx.case(json.dumps(['sb', writes]))
        if b != {'ok': [kk for kk, _ in writes]}:
            ctx.violation('bitio.roundtrip', f'wrote {writes}, read back {b}', input={'writes': writes})
        kk, w = writes[0]
        big = py_bit_write([[kk + (1 << w), w]])
        if big != {'err': 'BitIOError'}:
            ctx.violation('bitio.too_large', f'write_number({kk + (1 << w)}, {w}) -> {big}', input={'writes': [[kk + (1 << w), w]]})
    # the largest values and keys the two-byte length fields can carry (round trip only)
    for d in ({'k': bytes(65535)}, {'k': bytes(65534), 'l': b'x'}, {'a' * 65535: b'v'}, {'é' * 32767 + '1': b''}):
        ctx.case(json.dumps(['sd-limit', [[len(kk.encode('utf-8')), len(v)] for kk, v in d.items()]]))
        ctx.count('dict_at_size_limit')
        a = py_write_dict(d)
        brief = {'dict_sizes': [[len(kk.encode('utf-8')), len(v)] for kk, v in d.items()]}
        if 'err' in a:
            ctx.violation('dict.write_raises', f'write_binary_dict raised {a["err"]} on a key/value of a length within the limit', input=brief)
        elif py_read_dict(a['ok']) != {'ok': [[list(kk.encode('utf-8')), list(v)] for kk, v in d.items()]}:
            ctx.violation('dict.roundtrip', 'read_binary_dict(write_binary_dict(d)) != d at the size limit', input=brief)
    for k in range(ctx.scale(200, 4000)):
        d = {rand_key(rng): bytes(rng.randrange(256) for _ in range(rng.choice([0, 1, 3, 40]))) for _ in range(rng.randint(0, 5))}
        a = py_write_dict(d)
        ctx.case(json.dumps(['sd', sorted((kk, list(v)) for kk, v in d.items())]), bool(d))
        if 'err' in a:
            ctx.violation('dict.write_raises', f'write_binary_dict raised {a["err"]}', input={'dict': {kk: list(v) for kk, v in d.items()}})
            continue
        exp = {'ok': [[list(kk.encode('utf-8')), list(v)] for kk, v in d.items()]}
        if py_read_dict(a['ok']) != exp:
            ctx.violation('dict.roundtrip', 'read_binary_dict(write_binary_dict(d)) != d', input={'dict': {kk: list(v) for kk, v in d.items()}})
        for cut in range(len(a['ok'])):
            if py_read_dict(a['ok'][:cut]) != {'err': 'BinaryDictIOError'}:
                ctx.violation('dict.truncated_accepted', f'prefix of length {cut} was not rejected with BinaryDictIOError',
                              input={'dict': {kk: list(v) for kk, v in d.items()}, 'cut': cut})
                break
        if py_read_dict(a['ok'] + [0]) != {'err': 'BinaryDictIOError'}:
            ctx.violation('dict.trailing_accepted', 'trailing byte was not rejected', input={'dict': {kk: list(v) for kk, v in d.items()}})


def replay(ctx, rp):
    v = rp.get('violation') or {}
    inp = v.get('input') or {}
    if 'c' in inp:
        a = py_encode(inp['c'])
        print('encode ->', a)
        if 'ok' in a:
            print('decode ->', py_decode(a['ok']))
    search(ctx)
