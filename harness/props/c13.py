"""C13 — a miter is true exactly where the two circuits differ."""
import itertools
import json

import gen
from common import realize, circ_from_json, circ_to_json, err_name
from props.evalcommon import py_exec

RULE = ('pairs of random circuits of equal shape (1..3 outputs incl. a single output, 0..4 inputs), with shared '
        'labels between the two, outputs that are inputs or repeated, equivalent pairs (copy / cleaned) and '
        'inequivalent pairs (one gate type flipped), plus mismatched shapes; miter compared exactly with the model '
        'and evaluated on all assignments; non-trivial = both have >=1 non-input gate; distinct by pair')
ASSUMPTIONS = ['both operands well formed (WFU)']
TRUSTED = ['search oracle: pointwise difference of the operands\' outputs through the real evaluator (C01); '
           'satisfiability through the C05 path with the shim solver']


def py_miter(l, r):
    try:
        from cirbo.sat.miter import build_miter
        a, b = circ_from_json(l), circ_from_json(r)
        if l == r:
            b = a          # a circuit against itself: the very same object as both operands
        ja, jb = circ_to_json(a), circ_to_json(b)
        m = build_miter(a, b)
        if circ_to_json(a) != ja or circ_to_json(b) != jb:
            return {'err': 'Py:AssertionError(operands modified)'}
        return {'ok': circ_to_json(m)}
    except Exception as e:  # noqa: BLE001
        return {'err': err_name(e)}


WIDE = [13, 15, 16, 17, 18, 31, 32, 33, 34, 47, 48, 49, 63, 64, 65, 66, 97, 127, 128, 129, 255, 256, 257, 272, 273, 289, 513]


def gen_wide_pair(ctx, rng):
    """many outputs (13..513: a wide OR, or whatever the library builds from it in groups), the operands equal except
    at exactly one output position — first, last, or random — so that only one xor is ever True"""
    ni = rng.choice([1, 2, 2, 3])
    no = rng.choice(WIDE) if rng.random() < 0.7 else rng.randint(13, 300)
    j, _ = gen.gen_circuit(rng, max_inputs=ni, min_inputs=ni, max_gates=6, n_outputs=1, max_arity=3)
    a = realize(j)
    labels = [g[0] for g in a['gates']]
    if not labels or 'neg_of_out' in labels:
        return None
    outs = [rng.choice(labels) for _ in range(no)]
    a = realize({'gates': a['gates'], 'inputs': a['inputs'], 'outputs': outs, 'blocks': []})
    b = json.loads(json.dumps(a))
    mode = rng.choice(['neg_last', 'neg_last', 'neg_first', 'neg_random', 'same'])
    if mode != 'same':
        k = {'neg_last': no - 1, 'neg_first': 0}.get(mode, rng.randrange(no))
        b['gates'].append(['neg_of_out', 'NOT', [b['outputs'][k]]])
        b['outputs'][k] = 'neg_of_out'
        b = realize({'gates': b['gates'], 'inputs': b['inputs'], 'outputs': b['outputs'], 'blocks': []})
    ctx.count('wide_outputs')
    return a, b


def gen_pair(ctx, rng):
    if rng.random() < 0.12:
        return gen_wide_pair(ctx, rng)
    ni = rng.choice([0, 1, 2, 2, 3, 3, 4])
    no = rng.choice([1, 1, 2, 2, 3, 4, 6, 7, 10, 12])
    j, _ = gen.gen_circuit(rng, max_inputs=ni, min_inputs=ni, max_gates=10, n_outputs=no, max_arity=3)
    a = realize(j)
    mode = rng.choice(['other', 'other', 'same', 'flip', 'shape', 'neg_one', 'neg_one', 'perm_inputs'])
    if mode == 'perm_inputs' and ni >= 2:
        # the same gates with the input list in another order: inputs are positional, so this is another function
        b = json.loads(json.dumps(a))
        ins = list(b['inputs'])
        while ins == b['inputs']:
            rng.shuffle(ins)
        b = realize({'gates': b['gates'], 'inputs': ins, 'outputs': b['outputs'], 'blocks': []})
        if len(a['outputs']) != no:
            return None
        return a, b
    if mode == 'neg_one':
        # the same circuit with exactly one output position complemented: the miter is True everywhere
        b = json.loads(json.dumps(a))
        k = rng.randrange(no)
        lab = 'neg_of_out'
        if any(g[0] == lab for g in b['gates']) or not b['outputs']:
            return None
        b['gates'].append([lab, 'NOT', [b['outputs'][k]]])
        b['outputs'][k] = lab
        b = realize({'gates': b['gates'], 'inputs': b['inputs'], 'outputs': b['outputs'], 'blocks': []})
    elif mode == 'same':
        b = json.loads(json.dumps(a))
    elif mode == 'flip':
        b = json.loads(json.dumps(a))
        cands = [g for g in b['gates'] if g[1] in ('AND', 'OR', 'XOR', 'NAND', 'NOR', 'NXOR') and len(g[2]) >= 2]
        if cands:
            g = rng.choice(cands)
            g[1] = rng.choice([t for t in ('AND', 'OR', 'XOR', 'NAND') if t != g[1]])
    else:
        ni2, no2 = (ni, no) if mode == 'other' else (ni + rng.choice([0, 1]), no + rng.choice([0, 1]))
        j2, _ = gen.gen_circuit(rng, max_inputs=ni2, min_inputs=ni2, max_gates=10, n_outputs=no2, max_arity=3)
        b = realize(j2)
    if len(a['outputs']) != no:   # generator could not produce that many outputs
        return None
    return a, b


def correspondence(ctx):
    rng = ctx.rng('corr')
    reqs, code = [], []
    for k in range(ctx.scale(400, 10000)):
        p = gen_pair(ctx, rng)
        if p is None:
            continue
        a, b = p
        reqs.append({'op': 'build_miter', 'left': a, 'right': b})
        code.append(py_miter(a, b))
        ctx.case(json.dumps([a['gates'], a['outputs'], b['gates'], b['outputs']]))
        ctx.count('outputs=%d' % len(a['outputs']))
        if k < 1:
            ctx.sample({'left': a, 'right': b})
    model = ctx.driver.ask_many(reqs)
    from props.mutcommon import canon_state
    for r, x, y in zip(reqs, code, model):
        if x == y:
            ctx.count('agree:miter')
        elif 'ok' in x and 'ok' in y and canon_state(x['ok']) == canon_state(y['ok']):
            ctx.count('order_drift:miter')
        else:
            ctx.mismatch('miter', r, x, y)
        if 'err' in x:
            ctx.count('err:' + x['err'])


def search(ctx):
    rng = ctx.rng('search')
    for k in range(ctx.scale(300, 8000)):
        p = gen_pair(ctx, rng)
        if p is None:
            continue
        a, b = p
        nontriv = any(g[1] != 'INPUT' for g in a['gates']) and any(g[1] != 'INPUT' for g in b['gates'])
        ctx.case(json.dumps(['s', a['gates'], a['outputs'], b['gates'], b['outputs']]), nontriv)
        m = py_miter(a, b)
        same_shape = len(a['inputs']) == len(b['inputs']) and len(a['outputs']) == len(b['outputs'])
        if not same_shape:
            if m != {'err': 'MiterDifferentShapesError'}:
                ctx.violation('miter.shape_error', f'mismatched shapes gave {m.get("err", "a circuit")} instead of MiterDifferentShapesError',
                              input={'left': a, 'right': b})
            continue
        if 'err' in m:
            ctx.violation('miter.raises', f'build_miter raised {m["err"]} on circuits of equal shape', input={'left': a, 'right': b})
            continue
        mj = m['ok']
        n = len(a['inputs'])
        if len(mj['inputs']) != n or len(mj['outputs']) != 1 or mj['inputs'] != ['circuit1@' + i for i in a['inputs']]:
            ctx.violation('miter.interface', f'miter inputs {mj["inputs"]} / outputs {mj["outputs"]}', input={'left': a, 'right': b})
            continue
        differ_somewhere = False
        for bits in itertools.product('FT', repeat=n):
            ra = py_exec({'op': 'evaluate', 'c': a, 'vals': list(bits)})
            rb = py_exec({'op': 'evaluate', 'c': b, 'vals': list(bits)})
            rm = py_exec({'op': 'evaluate', 'c': mj, 'vals': list(bits)})
            if 'err' in ra or 'err' in rb:
                break
            want = 'T' if ra['ok'] != rb['ok'] else 'F'
            differ_somewhere |= want == 'T'
            if rm != {'ok': [want]}:
                ctx.violation('miter.value', f'miter evaluates to {rm} where outputs are {ra["ok"]} vs {rb["ok"]}',
                              input={'left': a, 'right': b, 'assignment': list(bits)})
                break
        else:
            if k % 5 == 0:
                try:
                    from cirbo.sat import is_circuit_satisfiable
                    res = is_circuit_satisfiable(circ_from_json(mj))
                    if res.answer != differ_somewhere:
                        ctx.violation('miter.sat', f'miter satisfiable={res.answer} but circuits differ somewhere={differ_somewhere}',
                                      input={'left': a, 'right': b})
                except Exception as e:  # noqa: BLE001
                    ctx.violation('miter.sat_raises', f'is_circuit_satisfiable raised {err_name(e)}', input={'left': a, 'right': b})


def replay(ctx, rp):
    v = rp.get('violation') or {}
    inp = v.get('input') or {}
    if 'left' in inp:
        print(json.dumps(py_miter(inp['left'], inp['right']))[:1500])
    search(ctx)
