"""C06 — exact synthesis is sound and complete for the requested size and basis."""
import itertools
import json

from common import err_name

RULE = ('specs: n in 1..3 inputs, m in 1..2 outputs, random tables with don\'t-cares (incl. rows that are don\'t-care for some or all '
        'outputs), N in 0..4 gates, bases AIG/XAIG/FULL as enum, string or custom operation lists (incl. full lists), need_normalized '
        'on/off, random fix_gate (both / first only / second only / gate_type) and forbid_wire constraints incl. rejected ones; the '
        'CNF of the real encoder is compared clause by clause (as a multiset, names through IDPool) with the Lean encoding, decoded '
        'circuits are compared for the same model; search: every returned circuit is checked against all clauses of the property and '
        'NoSolutionError is cross-checked by brute-force enumeration of all circuits of that size')
ASSUMPTIONS = ['no circuit database shortcut (circuit_db=None)', 'solver sound and complete (shim: DPLL / z3, models re-checked)']
TRUSTED = ['pysat is absent in the sandbox: harness/shims/pysat provides CNF/IDPool/Solver (DPLL or z3 -dimacs, every model re-checked)',
           'search oracle: brute-force enumeration of circuits in CPython']

OPS = ['0000', '1111', '1100', '0011', '1010', '0101', '0111', '1000', '0001', '1110', '0110', '1001', '0010', '0100', '1011', '1101']
BASES = {
    'AIG': ['1100', '0001', '0111', '1110', '1000', '0010', '0100', '1011', '1101'],
    'XAIG': ['1100', '0001', '0111', '1110', '1000', '0010', '0100', '1011', '1101', '0110', '1001'],
    'FULL': list(OPS),
}


def gen_spec(rng):
    n = rng.choice([1, 2, 2, 3, 3])
    m = rng.choice([1, 1, 2, 2, 3])
    N = rng.choice([0, 1, 2, 2, 3, 3, 4]) if n < 3 else rng.choice([1, 2, 3])
    pdc = rng.choice([0, 0, 0.2, 0.5])
    table = [''.join('*' if rng.random() < pdc else rng.choice('01') for _ in range(1 << n)) for _ in range(m)]
    if rng.random() < 0.15 and m == 2:      # a row that is don't-care for one output only
        t = rng.randrange(1 << n)
        table[0] = table[0][:t] + '*' + table[0][t + 1:]
        table[1] = table[1][:t] + rng.choice('01') + table[1][t + 1:]
    bkind = rng.choice(['AIG', 'XAIG', 'FULL', 'aig', 'full', 'custom', 'custom_full'])
    if bkind == 'custom':
        basis = sorted(rng.sample(OPS, rng.randint(1, 12)))
    elif bkind == 'custom_full':
        basis = list(OPS)
        rng.shuffle(basis)
    else:
        # what the code says the built-in basis is (the model spec takes the operation list as data)
        from cirbo.synthesis.circuit_search import Basis
        basis = [o.value for o in getattr(Basis, bkind.upper()).value]
        if sorted(basis) != sorted(BASES[bkind.upper()]):
            basis = basis  # a changed basis definition is reported by search() against the documented sets
    cons = []
    gates = list(range(n, n + N))
    for _ in range(rng.choice([0, 0, 0, 1, 1, 2, 3])):
        if not gates:
            break
        g = rng.choice(gates)
        k = rng.random()
        if k < 0.25:
            a, b = sorted(rng.sample(range(n + N), 2)) if n + N >= 2 else (0, 0)
            cons.append(['fixBoth', g, a, b])
        elif k < 0.45:
            cons.append(['fixFirst', g, rng.randrange(n + N)])
        elif k < 0.65:
            cons.append(['fixSecond', g, rng.randrange(n + N)])
        elif k < 0.8:
            ty = rng.choice(['AND', 'OR', 'XOR', 'NAND', 'GT', 'LNOT', 'RIFF', 'ALWAYS_TRUE', 'NXOR', 'LEQ'])
            kk = rng.random()
            if kk < 0.5 or n + N < 2:
                cons.append(['fixType', g, ty])
            elif kk < 0.8:
                a, b = sorted(rng.sample(range(n + N), 2))
                cons.append(['fixBothType', g, a, b, ty])            # both predecessors and the operation
            else:
                cons.append(['fixSecondType', g, rng.randrange(n + N), ty])
        else:
            cons.append(['forbidWire', rng.randrange(n + N), g])
    return {'n': n, 'm': m, 'N': N, 'table': table, 'bkind': bkind, 'basis': basis, 'normalized': rng.random() < 0.3, 'cons': cons,
            'edit_list_after': (rng.choice([None, 'clear', 'extend']) if bkind in ('custom', 'custom_full') else None)}


def make_finder(spec):
    """returns (finder, accepted constraints in the model's vocabulary) or raises what the code raises"""
    from cirbo.core.truth_table import TruthTableModel
    from cirbo.core.logic import DontCare
    from cirbo.core.circuit import gate as G
    from cirbo.synthesis.circuit_search import CircuitFinderSat, Basis, Operation
    tt = [[DontCare if ch == '*' else ch == '1' for ch in row] for row in spec['table']]
    bk = spec['bkind']
    if bk in ('AIG', 'XAIG', 'FULL'):
        basis = getattr(Basis, bk)
    elif bk in ('aig', 'full'):
        basis = bk
    else:
        basis = [Operation(o) for o in spec['basis']]
    f = CircuitFinderSat(TruthTableModel(tt), spec['N'], basis=basis, need_normalized=spec['normalized'])
    if isinstance(basis, list) and spec.get('edit_list_after'):
        # the caller goes on using its list of operations: the finder was asked for the basis it was constructed with
        if spec['edit_list_after'] == 'clear':
            del basis[:]
        else:
            basis.extend(o for o in Operation if o not in basis)
    accepted = []
    rejected = []
    for c in spec['cons']:
        try:
            if c[0] == 'fixBoth':
                f.fix_gate(c[1], first_predecessor=c[2], second_predecessor=c[3])
                accepted.append(['fixBoth', c[1], c[2], c[3]])
            elif c[0] == 'fixFirst':
                f.fix_gate(c[1], first_predecessor=c[2])
                accepted.append(['fixOne', c[1], c[2]])
            elif c[0] == 'fixSecond':
                f.fix_gate(c[1], second_predecessor=c[2])
                accepted.append(['fixOne', c[1], c[2]])
            elif c[0] == 'fixType':
                gt = getattr(G, c[2])
                f.fix_gate(c[1], first_predecessor=0, gate_type=gt) if False else None
                # gate_type needs a predecessor argument: use the form (first only) and record both constraints
                p = 0
                f.fix_gate(c[1], first_predecessor=p, gate_type=gt)
                ttbits = ''.join('1' if gt.operator(bool(a), bool(b)) else '0' for a in (0, 1) for b in (0, 1))
                accepted.append(['fixOne', c[1], p])
                accepted.append(['fixType', c[1], ttbits])
            elif c[0] == 'fixBothType':
                gt = getattr(G, c[4])
                f.fix_gate(c[1], first_predecessor=c[2], second_predecessor=c[3], gate_type=gt)
                ttbits = ''.join('1' if gt.operator(bool(a), bool(b)) else '0' for a in (0, 1) for b in (0, 1))
                accepted.append(['fixBoth', c[1], c[2], c[3]])
                accepted.append(['fixType', c[1], ttbits])
            elif c[0] == 'fixSecondType':
                gt = getattr(G, c[3])
                f.fix_gate(c[1], second_predecessor=c[2], gate_type=gt)
                ttbits = ''.join('1' if gt.operator(bool(a), bool(b)) else '0' for a in (0, 1) for b in (0, 1))
                accepted.append(['fixOne', c[1], c[2]])
                accepted.append(['fixType', c[1], ttbits])
            elif c[0] == 'forbidWire':
                f.forbid_wire(c[1], c[2])
                accepted.append(['forbidWire', c[1], c[2]])
        except Exception as e:  # noqa: BLE001
            rejected.append([c, err_name(e)])
    return f, accepted, rejected


def expected_rejection(spec, c):
    n, N = spec['n'], spec['N']
    gates = range(n + N)
    if c[0] == 'fixBoth':
        _, g, a, b = c
        if a not in gates or b not in gates:
            return 'GateIsAbsentError'
        return None if g > b > a else 'FixGateOrderError'
    if c[0] in ('fixFirst', 'fixSecond'):
        return None if c[1] > c[2] else 'FixGateOrderError'
    if c[0] == 'fixType':
        return None if c[1] > 0 else 'FixGateOrderError'
    if c[0] == 'fixBothType':
        _, g, a, b, _ = c
        if a not in gates or b not in gates:
            return 'GateIsAbsentError'
        return None if g > b > a else 'FixGateOrderError'
    if c[0] == 'fixSecondType':
        return None if c[1] > c[2] else 'FixGateOrderError'
    if c[0] == 'forbidWire':
        return None if c[1] < c[2] else 'ForbidWireOrderError'
    return None


def model_spec(spec, accepted):
    return {'n': spec['n'], 'm': spec['m'], 'N': spec['N'], 'table': spec['table'], 'basis': spec['basis'],
            'normalized': spec['normalized'], 'cons': accepted}


def named_cnf(f):
    out = []
    for cl in f.get_cnf():
        out.append(sorted((f._vpool.obj(abs(l)), l > 0) for l in cl))
    return sorted(out)


def correspondence(ctx):
    rng = ctx.rng('corr')
    for k in range(ctx.scale(250, 3000)):
        spec = gen_spec(rng)
        ctx.case(json.dumps(spec))
        ctx.count('basis=' + spec['bkind'])
        if k < 2:
            ctx.sample(spec)
        try:
            f, accepted, rejected = make_finder(spec)
        except Exception as e:  # noqa: BLE001
            ctx.mismatch('finder', spec, {'err': err_name(e)}, None)
            continue
        for c, e in rejected:
            want = expected_rejection(spec, c)
            if want != e:
                ctx.mismatch('constraint_check', {'spec': spec, 'constraint': c}, e, want)
            ctx.count('rejected:' + e)
        for c in spec['cons']:
            if expected_rejection(spec, c) is not None and not any(r[0] == c for r in rejected):
                ctx.mismatch('constraint_check', {'spec': spec, 'constraint': c}, 'accepted', expected_rejection(spec, c))
        ms = model_spec(spec, accepted)
        code = named_cnf(f)
        r = ctx.driver.ask({'op': 'synth_encode', 'spec': ms})
        if 'ok' not in r:
            raise RuntimeError('driver: %r' % (r,))
        model = sorted(sorted((a, b) for a, b in cl) for cl in r['ok'])
        if code == model:
            ctx.count('agree:cnf')
        else:
            only_code = [c for c in code if c not in model][:3]
            only_model = [c for c in model if c not in code][:3]
            ctx.mismatch('cnf', ms, {'clauses': len(code), 'only_in_code': only_code}, {'clauses': len(model), 'only_in_model': only_model})
            continue
        # decoding: same model on both sides
        clauses = f.get_cnf()
        if [] in clauses:
            continue
        from pysat.solvers import Solver
        s = Solver(name='cadical195', bootstrap_with=clauses)
        if not s.solve():
            ctx.count('unsat')
            continue
        mdl = s.get_model()
        try:
            circ = f._get_circuit_by_model(mdl)
        except Exception as e:  # noqa: BLE001
            ctx.mismatch('decode', ms, {'err': err_name(e)}, None)
            continue
        trues = [f._vpool.obj(l) for l in mdl if l > 0 and f._vpool.obj(l) is not None]
        rd = ctx.driver.ask({'op': 'synth_decode', 'spec': ms, 'true_vars': trues})
        got = circuit_to_sol(spec, circ)
        if rd.get('ok') == got:
            ctx.count('agree:decode')
        else:
            ctx.mismatch('decode', ms, got, rd)
        # the Circuit object built from the model: labels, gate types, operand order, inputs, outputs
        from common import circ_to_json
        rc = ctx.driver.ask({'op': 'synth_circuit', 'spec': ms, 'true_vars': trues})
        cj = circ_to_json(circ)
        view = lambda j: None if j is None else {'gates': [[g[0], g[1], list(g[2])] for g in j['gates']],
                                                 'inputs': list(j['inputs']), 'outputs': list(j['outputs'])}
        if view(rc.get('ok')) == view(cj):
            ctx.count('agree:circuit')
        else:
            ctx.mismatch('circuit', ms, view(cj), rc)


def idx(label):
    return int(label[1:]) if label.startswith('s') else int(label)


def circuit_to_sol(spec, circ):
    from cirbo.synthesis.circuit_search import _tt_to_gate_type
    inv = {v: ''.join(str(b) for b in k) for k, v in _tt_to_gate_type.items()}
    n, N = spec['n'], spec['N']
    preds, ops = [], []
    for g in range(n, n + N):
        gt = circ.get_gate('s%d' % g)
        preds.append([idx(gt.operands[0]), idx(gt.operands[1])])
        ops.append(inv[gt.gate_type])
    return {'preds': preds, 'ops': ops, 'outs': [idx(o) for o in circ.outputs]}


def apply_op(op, a, b):
    return op[2 * a + b] == '1'


def check_solution(spec, accepted, sol):
    """every clause of the property on a returned circuit; returns a description of the first failure"""
    n, m, N = spec['n'], spec['m'], spec['N']
    if len(sol['preds']) != N or len(sol['outs']) != m:
        return 'wrong number of gates or outputs'
    for k, (a, b) in enumerate(sol['preds']):
        g = n + k
        if not (0 <= a < b < g):
            return f'gate {g} reads {a},{b} (not two distinct earlier positions)'
        if sol['ops'][k] not in spec['basis']:
            return f'gate {g} has operation {sol["ops"][k]} outside the basis'
        if spec['normalized'] and sol['ops'][k][0] == '1':
            return f'gate {g} is not normalised'
    for o in sol['outs']:
        if not (n <= o < n + N):
            return f'output taken at position {o}, not at a gate'
    for t in range(1 << n):
        vals = [(t >> (n - 1 - i)) & 1 for i in range(n)]
        for k, (a, b) in enumerate(sol['preds']):
            vals.append(1 if apply_op(sol['ops'][k], vals[a], vals[b]) else 0)
        for h in range(m):
            want = spec['table'][h][t]
            if want != '*' and str(vals[sol['outs'][h]]) != want:
                return f'output {h} on row {t} is {vals[sol["outs"][h]]}, table says {want}'
    for c in accepted:
        k = c[1] - n
        if c[0] == 'fixBoth' and sol['preds'][k] != [c[2], c[3]]:
            return f'fix_gate({c[1]}, {c[2]}, {c[3]}) not obeyed: reads {sol["preds"][k]}'
        if c[0] == 'fixOne' and c[2] not in sol['preds'][k]:
            return f'fix_gate({c[1]}, predecessor {c[2]}) not obeyed: reads {sol["preds"][k]}'
        if c[0] == 'fixType' and sol['ops'][k] != c[2]:
            return f'fix_gate({c[1]}, gate_type {c[2]}) not obeyed: operation {sol["ops"][k]}'
        if c[0] == 'forbidWire' and c[1] in sol['preds'][c[2] - n]:
            return f'forbid_wire({c[1]}, {c[2]}) not obeyed'
    return None


ASYM = ['0010', '0100', '1011', '1101', '0011', '0101', '1100', '1010']   # GT, LT, GEQ, LEQ, LIFF, RIFF, LNOT, RNOT as op tables


def gen_planted(rng):
    """a function that HAS a circuit of the requested size over a small custom basis, by construction: a random circuit
    over the basis is drawn first and its table is the request (completeness by witness, for sizes the brute force
    cannot enumerate). The bases are small and mostly contain an order-sensitive operation WITHOUT its mirror image, so
    that which of two gates comes first, and which operand is the left one, cannot be repaired by renumbering."""
    n = rng.choice([3, 4, 4, 5])
    N = rng.choice([2, 3, 3, 4])
    basis = sorted(set([rng.choice(ASYM)] + rng.sample(OPS, rng.randint(0, 2)) + ([rng.choice(['0001', '0111', '0110'])] if rng.random() < 0.7 else [])))
    preds, ops = [], []
    if rng.random() < 0.5 and n >= 3:
        # a tree: two (or three) gates over pairs of inputs, in either order of their pairs, joined by the order-sensitive
        # operation — which operand is the left one is then fixed by the positions of the two gates
        N = rng.choice([3, 3, 4])
        sym = ['0001', '0111', '0110', '1000', '1110']
        asym = rng.choice(ASYM[:4])
        leaf_ops = [rng.choice(sym) for _ in range(N - 1)]
        basis = sorted(set(leaf_ops + [asym]))
        for k in range(N - 1 if N == 3 else 2):
            preds.append(sorted(rng.sample(range(n), 2)))
            ops.append(leaf_ops[k])
        if N == 4:
            preds.append(sorted([rng.choice([n, n + 1]), rng.randrange(n)]))
            ops.append(leaf_ops[2])
            preds.append(sorted(rng.sample([n, n + 1, n + 2], 2)) if rng.random() < 0.5 else [n + 1 if preds[2][1] == n else n, n + 2])
        else:
            preds.append([n, n + 1])
        ops.append(asym)
    for g in range(n + len(preds), n + N):
        # later gates prefer earlier gates as operands, so that the circuit is one cone
        pool = list(range(g))
        a, b = sorted(rng.sample(pool, 2))
        if g > n and rng.random() < 0.7:
            hi = rng.randrange(n, g)
            lo = rng.choice([x for x in pool if x != hi])
            a, b = sorted((hi, lo))
        preds.append([a, b])
        ops.append(rng.choice(basis))
    m = rng.choice([1, 1, 2])
    outs = [n + N - 1] + [rng.randrange(n, n + N) for _ in range(m - 1)]
    table = []
    for h in range(m):
        row = ''
        for t in range(1 << n):
            vals = [(t >> (n - 1 - i)) & 1 for i in range(n)]
            for k, (a, b) in enumerate(preds):
                vals.append(1 if apply_op(ops[k], vals[a], vals[b]) else 0)
            row += str(vals[outs[h]])
        table.append(row)
    if rng.random() < 0.2:
        t = rng.randrange(1 << n)
        table[0] = table[0][:t] + '*' + table[0][t + 1:]
    spec = {'n': n, 'm': m, 'N': N, 'table': table, 'bkind': 'custom', 'basis': basis, 'normalized': False, 'cons': [],
            'edit_list_after': None}
    return spec, {'preds': preds, 'ops': ops, 'outs': outs}


def planted_search(ctx):
    from cirbo.synthesis.exception import NoSolutionError
    rng = ctx.rng('planted')
    for k in range(ctx.scale(220, 2500)):
        spec, witness = gen_planted(rng)
        if check_solution(spec, [], witness) is not None:
            continue
        ctx.case(json.dumps(['planted', spec]))
        ctx.count('planted:n=%d,N=%d' % (spec['n'], spec['N']))
        try:
            f, accepted, rejected = make_finder(spec)
            circ = f.find_circuit(time_limit=60) if k % 2 else f.find_circuit()
        except NoSolutionError:
            ctx.violation('synth.incomplete', f'NoSolutionError although a circuit with {spec["N"]} gates over the basis exists (witness attached)',
                          input={'spec': spec, 'accepted': [], 'witness': witness})
            continue
        except Exception as e:  # noqa: BLE001
            ctx.violation('synth.raises', f'find_circuit raised {err_name(e)}', input={'spec': spec})
            continue
        try:
            why = check_solution(spec, accepted, circuit_to_sol(spec, circ))
        except Exception as e:  # noqa: BLE001
            why = 'returned circuit is not in the promised shape (%s)' % err_name(e)
        if why:
            ctx.violation('synth.unsound', why, input={'spec': spec, 'accepted': accepted})
        ctx.count('planted:found')


def brute_force_exists(spec, accepted):
    n, m, N = spec['n'], spec['m'], spec['N']
    if N == 0:
        return False
    choices = []
    for g in range(n, n + N):
        ch = [([a, b], op) for a, b in itertools.combinations(range(g), 2) for op in spec['basis']
              if not (spec['normalized'] and op[0] == '1')]
        choices.append(ch)
    count = 0
    for combo in itertools.product(*choices):
        count += 1
        if count > 400000:
            return None
        base = {'preds': [c[0] for c in combo], 'ops': [c[1] for c in combo]}
        # outputs: any gate per output
        for outs in itertools.product(range(n, n + N), repeat=m):
            sol = dict(base, outs=list(outs))
            if check_solution(spec, accepted, sol) is None:
                return True
    return False


def search(ctx):
    rng = ctx.rng('search')
    from cirbo.synthesis.exception import NoSolutionError
    from cirbo.synthesis.circuit_search import Basis
    planted_search(ctx)
    for name, ops in BASES.items():
        got = sorted(o.value for o in getattr(Basis, name).value)
        if got != sorted(ops):
            ctx.violation('synth.basis_def', f'Basis.{name} is {got}, documented {sorted(ops)}', input={'basis': name})
    # one gate of every order-sensitive type, requested by table and pinned by fix_gate(..., gate_type=T) in its three forms
    directed = []
    from cirbo.core.circuit import gate as _G
    for ty in ('GT', 'LT', 'GEQ', 'LEQ', 'LNOT', 'RNOT', 'LIFF', 'RIFF'):
        gt = getattr(_G, ty)
        table = ''.join('1' if gt.operator(bool(a), bool(b)) else '0' for a in (0, 1) for b in (0, 1))
        for con in (['fixBothType', 2, 0, 1, ty], ['fixType', 2, ty], ['fixSecondType', 2, 1, ty]):
            directed.append({'n': 2, 'm': 1, 'N': 1, 'table': [table], 'bkind': 'FULL', 'basis': list(BASES['FULL']), 'normalized': False,
                             'cons': [con], 'edit_list_after': None})
    for k in range(-len(directed), ctx.scale(160, 2500)):
        spec = directed[k] if k < 0 else gen_spec(rng)
        if k < 0:
            ctx.count('directed:order_sensitive_type_pinned')
        ctx.case(json.dumps(['s', spec]))
        try:
            f, accepted, rejected = make_finder(spec)
        except Exception as e:  # noqa: BLE001
            ctx.violation('synth.finder', f'constructor raised {err_name(e)}', input={'spec': spec})
            continue
        try:
            # with and without a solver time limit (generous: the shim solver answers these sizes at once)
            circ = f.find_circuit(time_limit=60) if k % 3 == 0 else f.find_circuit()
            ctx.count('time_limit=' + ('60' if k % 3 == 0 else 'none'))
        except NoSolutionError:
            ex = brute_force_exists(spec, accepted) if spec['n'] + spec['N'] <= 5 or spec['N'] <= 2 else None
            if ex is True:
                ctx.violation('synth.incomplete', f'NoSolutionError although a circuit with {spec["N"]} gates exists', input={'spec': spec, 'accepted': accepted})
            ctx.count('nosolution' + ('' if ex is not None else ':unchecked'))
            continue
        except Exception as e:  # noqa: BLE001
            ctx.violation('synth.raises', f'find_circuit raised {err_name(e)}', input={'spec': spec})
            continue
        try:
            sol = circuit_to_sol(spec, circ)
        except Exception as e:  # noqa: BLE001
            ctx.violation('synth.shape', f'returned circuit is not in the promised shape ({err_name(e)})', input={'spec': spec})
            continue
        why = check_solution(spec, accepted, sol)
        if why:
            ctx.violation('synth.unsound', why, input={'spec': spec, 'accepted': accepted, 'solution': sol})
        ctx.count('found')
        # the same finder asked again after one more constraint: a wire the first answer uses is forbidden
        if not why and spec['N'] >= 1 and k % 2 == 0:
            n = spec['n']
            gk = rng.randrange(spec['N'])
            wire = [sol['preds'][gk][rng.randrange(2)], n + gk]
            acc2 = accepted + [['forbidWire', wire[0], wire[1]]]
            try:
                f.forbid_wire(wire[0], wire[1])
                sol2 = circuit_to_sol(spec, f.find_circuit())
                why2 = check_solution(spec, acc2, sol2)
                if why2:
                    ctx.violation('synth.unsound', 'second search on the same finder after forbid_wire(%d, %d): %s' % (wire[0], wire[1], why2),
                                  input={'spec': spec, 'accepted': acc2, 'solution': sol2, 'second_search': True})
                ctx.count('second_search:found')
            except NoSolutionError:
                ex = brute_force_exists(spec, acc2) if spec['n'] + spec['N'] <= 5 or spec['N'] <= 2 else None
                if ex is True:
                    ctx.violation('synth.incomplete', 'second search on the same finder: NoSolutionError although a circuit exists',
                                  input={'spec': spec, 'accepted': acc2, 'second_search': True})
                ctx.count('second_search:nosolution')
            except Exception as e:  # noqa: BLE001
                ctx.violation('synth.raises', f'second search on the same finder raised {err_name(e)}', input={'spec': spec, 'accepted': acc2})


def replay(ctx, rp):
    v = rp.get('violation') or {}
    spec = (v.get('input') or {}).get('spec')
    if spec:
        from cirbo.synthesis.exception import NoSolutionError
        f, accepted, rejected = make_finder(spec)
        try:
            circ = f.find_circuit()
            sol = circuit_to_sol(spec, circ)
            print(sol, check_solution(spec, accepted, sol))
            why = check_solution(spec, accepted, sol)
            if why:
                ctx.violation('synth.unsound', why, input={'spec': spec})
        except NoSolutionError:
            ex = brute_force_exists(spec, accepted)
            print('NoSolutionError; brute force exists =', ex)
            if ex:
                ctx.violation('synth.incomplete', 'NoSolutionError although a circuit exists', input={'spec': spec})
    else:
        search(ctx)
