"""Running simplification passes / pipelines on the real code, in the driver's request shape."""
from common import circ_from_json, circ_to_json, err_name


def mk_tr(spec):
    from cirbo.minimization.simplification import (RemoveRedundantGates, MergeUnaryOperators, MergeDuplicateGates,
                                                   MergeEquivalentGates)
    from cirbo.core.circuit.transformer import TransformerComposition
    if spec == 'RRG':
        return RemoveRedundantGates()
    if spec == 'RRG+':
        return RemoveRedundantGates(allow_inputs_removal=True)
    if spec == 'MUO':
        return MergeUnaryOperators()
    if spec == 'MDG':
        return MergeDuplicateGates()
    if spec == 'MEG':
        return MergeEquivalentGates()
    if spec[0] == 'or':
        return mk_tr(spec[1]) | mk_tr(spec[2])
    if spec[0] == 'comp':
        return TransformerComposition([mk_tr(x) for x in spec[1]])
    if spec == 'KEEP1':
        # a user-defined *idempotent* pass that is not one of the library's: keep only the first output
        from cirbo.core.circuit.transformer import Transformer
        import copy as _copy

        class KeepFirstOutput(Transformer):
            __idempotent__ = True

            def _transform(self, circuit):
                c = _copy.copy(circuit)
                c.set_outputs(list(c.outputs)[:1])
                return c

        return KeepFirstOutput()
    if spec[0] == 'user':
        # a user-defined pass: the body of RemoveRedundantGates under its own class, with the given
        # passes declared as its pre- and post-transformers (which bring their own implied passes)
        from cirbo.core.circuit.transformer import Transformer

        class UserSweep(Transformer):
            def __init__(self, pre, post):
                super().__init__(pre_transformers=pre, post_transformers=post)

            def _transform(self, circuit):
                return RemoveRedundantGates()._transform(circuit)

        return UserSweep([mk_tr(x) for x in spec[1]], [mk_tr(x) for x in spec[2]])
    raise ValueError(spec)


def is_empty_pipeline(t):
    """a composition that contains no pass at all (nothing to apply: the code returns its argument)"""
    if isinstance(t, list) and t and t[0] == 'comp':
        return all(is_empty_pipeline(x) for x in t[1])
    if isinstance(t, list) and t and t[0] == 'or':
        return is_empty_pipeline(t[1]) and is_empty_pipeline(t[2])
    return False   # (a user-defined pass is never empty: it has a body)


def py_passes(req):
    from cirbo.core.circuit.transformer import Transformer
    from cirbo.minimization.simplification import cleanup
    try:
        c = circ_from_json(req['c'])
        before = circ_to_json(c)
        mode = req['mode']
        if mode == 'transform':
            r = mk_tr(req['t']).transform(c)
        elif mode == 'raw':
            r = mk_tr(req['t'])._transform(c)
        elif mode == 'apply':
            r = Transformer.apply_transformers(c, [mk_tr(x) for x in req['ts']])
        elif mode == 'cleanup':
            r = cleanup(c, use_heavy=req['heavy'])
        else:
            raise ValueError(mode)
        if circ_to_json(c) != before:
            return {'err': 'Py:AssertionError(argument modified)'}
        if r is c and mode != 'apply' and not (mode in ('transform', 'raw') and is_empty_pipeline(req['t'])):
            return {'err': 'Py:AssertionError(same object returned)'}
        return {'ok': circ_to_json(r)}
    except Exception as e:  # noqa: BLE001
        return {'err': err_name(e)}


LEAVES = ['RRG', 'RRG+', 'MUO', 'MDG', 'MEG']


def gen_spec(rng, depth=0, heavy=True, user=False):
    leaves = LEAVES if heavy else LEAVES[:-1]
    r = rng.random()
    if user and depth < 2 and r < 0.3:
        # user-defined passes with (possibly nested) declared dependencies: search oracle only
        return ['user', [gen_spec(rng, depth + 1, heavy, user) for _ in range(rng.randint(0, 1))],
                [gen_spec(rng, depth + 1, heavy, user) for _ in range(rng.randint(0, 2))]]
    if depth >= 2 or r < 0.5:
        return rng.choice(leaves)
    if r < 0.8:
        return ['or', gen_spec(rng, depth + 1, heavy, user), gen_spec(rng, depth + 1, heavy, user)]
    return ['comp', [gen_spec(rng, depth + 1, heavy, user) for _ in range(rng.randint(0, 3))]]


def gen_pass_circuit(ctx, rng, n_in=5):
    import gen
    from common import realize
    j, info = gen.gen_circuit(rng, max_inputs=n_in, max_gates=ctx.scale(14, 26), max_arity=4, p_repeat_operand=0.25,
                              types=gen.SYM_NARY + gen.CMP + gen.LR * 2 + gen.UNARY * 3 + gen.CONST, const_ops=False)
    # force duplicate / equivalent gates and unary chains
    gates = j['gates']
    non_in = [g for g in gates if g[1] != 'INPUT']
    k = 0
    for g in list(non_in):
        if rng.random() < 0.25:
            k += 1
            ops = list(g[2])
            if g[1] in gen.SYM_NARY and rng.random() < 0.5:
                rng.shuffle(ops)
            gates.append([f'dup{k}', g[1], ops])
            if rng.random() < 0.5:
                j['outputs'].append(f'dup{k}')
        if g[1] in gen.SYM_NARY and len(g[2]) >= 2 and rng.random() < 0.25:
            # same type over the same operand *set* but a different multiset (matters for XOR/NXOR)
            k += 1
            ops = list(g[2]) + [rng.choice(g[2])]
            rng.shuffle(ops)
            gates.append([f'rep{k}', g[1], ops])
            j['outputs'].append(f'rep{k}')
            if rng.random() < 0.5:
                j['outputs'].append(g[0])
        if rng.random() < 0.2:
            k += 1
            gates.append([f'nn{k}', rng.choice(['NOT', 'LNOT', 'RNOT', 'IFF', 'LIFF', 'RIFF']), [g[0], g[0]][:2]])
            if gates[-1][1] in ('NOT', 'IFF'):
                gates[-1][2] = [g[0]]
            k += 1
            gates.append([f'nn{k}', rng.choice(['NOT', 'NOT', 'IFF']), [gates[-1][0]]])
            if rng.random() < 0.6:
                j['outputs'].append(gates[-1][0])
    return realize({'gates': gates, 'inputs': j['inputs'], 'outputs': j['outputs']}), info
