"""C05 — the circuit-to-CNF reduction is exact."""
import itertools
import json

import gen
from common import realize, circ_from_json, err_name
from props.evalcommon import py_exec

RULE = ('random circuits built through the public API over all 19 gate types, n-ary arity 2..5 (directed: one wide gate of 6..12 operands per n-ary type), repeated '
        'operands, twin gates (same type, same operands in another order), constants with operands, outputs that are inputs/repeated, unused inputs, reordered inputs '
        '(set_inputs) x output selections (None, subsets, repeats, empty); CNF clause lists and the literal '
        'map compared exactly; non-trivial = >=1 non-input gate reachable from a selected output; distinct = '
        'distinct (circuit, selection)')
ASSUMPTIONS = ['WF circuits; the SAT solver is a parameter (shim: DPLL / z3 -dimacs, models re-checked)']
TRUSTED = ['search oracle: Lean checkValB for the denotation; CNF satisfaction and uniqueness of the '
           'extension decided by the shim DPLL solver in harness/shims/pysat (model re-checked)']


def py_tseytin(j, outs):
    try:
        from cirbo.sat.cnf import tseytin_transformation
        import cirbo.sat.cnf.tseytin as T
        c = circ_from_json(j)
        # literal map is local to the function: recover it from an instrumented defaultdict
        import collections
        captured = {}
        orig = collections.defaultdict

        class Spy(collections.defaultdict):
            def __init__(self, *a, **k):
                super().__init__(*a, **k)
                captured['d'] = self
        T.collections.defaultdict = Spy
        try:
            cnf = tseytin_transformation(c, outs if outs is None else list(outs)).get_raw()
        finally:
            T.collections.defaultdict = orig
        return {'ok': {'cnf': [list(cl) for cl in cnf], 'lits': [[k, v] for k, v in captured['d'].items()]}}
    except RecursionError:
        return {'err': 'Py:RecursionError'}
    except Exception as e:  # noqa: BLE001
        return {'err': err_name(e)}


def selections(rng, j):
    m = len(j['outputs'])
    sels = [None]
    if m:
        sels.append([rng.randrange(m) for _ in range(rng.randint(0, 3))])
    if rng.random() < 0.15:
        sels.append([m + 1])      # out of range: GateDoesntExistError
    return sels


def correspondence(ctx):
    rng = ctx.rng('corr')
    reqs, code = [], []
    for k in range(ctx.scale(500, 12000)):
        j, info = gen.gen_circuit(rng, max_inputs=5, max_gates=ctx.scale(14, 30), max_arity=5, p_twin=0.12 if k % 3 == 0 else 0.0)
        j = realize(j)
        for sel in selections(rng, j):
            r = {'op': 'tseytin', 'c': j}
            if sel is not None:
                r['outs'] = sel
            reqs.append(r)
            code.append(py_tseytin(j, sel))
            ctx.case(json.dumps(['t', j['gates'], j['inputs'], j['outputs'], sel]), info['n_gates'] > info['n_inputs'])
        if info['nary3']:
            ctx.count('circ_with_nary3')
        if k < 2:
            ctx.sample({'circuit': j, 'cnf': code[-1]})
    model = ctx.driver.ask_many(reqs)
    for r, a, b in zip(reqs, code, model):
        if a == b:
            ctx.count('agree:tseytin')
        else:
            ctx.mismatch('tseytin', r, a, b)
        if 'err' in a:
            ctx.count('err:' + a['err'])


def sat(clauses):
    from pysat.solvers import Solver
    s = Solver(bootstrap_with=clauses)
    return s.get_model() if s.solve() else None


def directed_twins():
    """two gates of one order-sensitive type on the same operands in the two orders, separately and combined"""
    out = []
    for t in gen.CMP + gen.LR:
        for comb in ('OR', 'AND', 'XOR', None):
            gates = [['a', 'INPUT', []], ['b', 'INPUT', []], ['g1', t, ['a', 'b']], ['g2', t, ['b', 'a']]]
            outs = ['g1', 'g2']
            if comb:
                gates.append(['g3', comb, ['g1', 'g2']])
                outs = ['g3']
            out.append({'gates': gates, 'inputs': ['a', 'b'], 'outputs': outs, 'blocks': []})
    return out


def directed_wide(rng):
    """one wide gate (6..12 operands over three inputs, so operands repeat) per n-ary type, alone and under a NOT"""
    out = []
    for t in gen.SYM_NARY:
        for ar in (6, 7, 8, 9, 11, 12):
            ops = [rng.choice(['a', 'b', 'c']) for _ in range(ar)]
            if ar % 2:
                ops[:3] = ['a', 'b', 'c']
            gates = [['a', 'INPUT', []], ['b', 'INPUT', []], ['c', 'INPUT', []], ['w', t, ops]]
            outs = ['w']
            if rng.random() < 0.5:
                gates.append(['nw', 'NOT', ['w']])
                outs = ['nw']
            out.append({'gates': gates, 'inputs': ['a', 'b', 'c'], 'outputs': outs, 'blocks': []})
    # distinct operands too: seven and nine inputs under one parity gate
    for t in ('XOR', 'NXOR'):
        for ar in (7, 9):
            ins = ['x%d' % i for i in range(ar)]
            out.append({'gates': [[i, 'INPUT', []] for i in ins] + [['w', t, list(ins)]], 'inputs': ins, 'outputs': ['w'], 'blocks': []})
    return out


def search(ctx):
    rng = ctx.rng('search')
    directed = directed_twins() + directed_wide(ctx.rng('search-wide'))
    for k in range(-len(directed), ctx.scale(150, 4000)):
        if k >= 0 and k % 25 == 7:
            # a large circuit (250..400 gates over three inputs, heavily reconvergent): size-dependent code paths
            j, info = gen.gen_circuit(rng, max_inputs=3, min_inputs=3, max_gates=400, min_gates=260, max_arity=3, n_outputs=rng.choice([1, 2]),
                                      p_output_is_input=0.0)
            ctx.count('large_circuit')
        elif k < 0:
            j, info = directed[k], {'n_gates': 5, 'n_inputs': 2, 'twin': 1}
            ctx.count('directed_twins_and_wide_gates')
        elif k % 25 != 7:
            j, info = gen.gen_circuit(rng, max_inputs=ctx.scale(4, 6), max_gates=ctx.scale(10, 20), max_arity=5,
                                      p_twin=0.2 if k % 2 == 0 else 0.0,
                                      types=(gen.CMP + gen.LR) * 3 + gen.SYM_NARY + gen.UNARY + gen.CONST if k % 4 == 0 else None)
        ctx.count('twin_gates=%d' % min(info.get('twin', 0), 3))
        j = realize(j)
        ins, outs = j['inputs'], j['outputs']
        # certified denotation per assignment
        dens, creq = [], []
        ok = True
        for bits in itertools.product('FT', repeat=len(ins)):
            asg = [[i, v] for i, v in zip(ins, bits)]
            r = py_exec({'op': 'eval_full', 'c': j, 'asg': asg})
            if 'err' in r:
                ok = False
                break
            dens.append((bits, dict(map(tuple, r['ok']))))
            creq.append({'op': 'check_valb', 'c': j, 'asg': asg, 'v': r['ok']})
        if not ok or any(a.get('ok') is not True for a in ctx.driver.ask_many(creq)):
            ctx.count('skipped:evaluator_not_certified')
            continue
        for sel in selections(rng, j):
            if sel is not None and any(i >= len(outs) for i in sel):
                continue
            r = py_tseytin(j, sel)
            ctx.case(json.dumps(['s', j['gates'], ins, outs, sel]), info['n_gates'] > info['n_inputs'])
            if 'err' in r:
                ctx.violation('tseytin.raises', f'tseytin_transformation raised {r["err"]} on a well-formed circuit',
                              input={'c': j, 'outs': sel})
                continue
            cnf, lits = r['ok']['cnf'], dict(map(tuple, r['ok']['lits']))
            for idx, i in enumerate(ins):
                if lits.get(i) != idx + 1:
                    ctx.violation('tseytin.input_numbering', f'input #{idx} ({i}) is CNF variable {lits.get(i)}, not {idx+1}',
                                  input={'c': j, 'outs': sel})
            selected = [outs[i] for i in (sel if sel is not None else range(len(outs)))]
            for bits, den in dens:
                units = [[lits[i]] if b == 'T' else [-lits[i]] for i, b in zip(ins, bits) if i in lits]
                want = all(den[o] == 'T' for o in selected)
                m = sat(cnf + units)
                if (m is not None) != want:
                    ctx.violation('tseytin.not_exact',
                                  f'CNF + input assignment satisfiable={m is not None} but all selected outputs True={want}',
                                  input={'c': j, 'outs': sel, 'assignment': list(bits)})
                    continue
                if m is not None:
                    ms = set(m)
                    for l, v in lits.items():
                        if (v in ms) != (den[l] == 'T'):
                            ctx.violation('tseytin.wrong_gate_value',
                                          f'satisfying assignment gives encoded gate {l} the value {v in ms}, evaluation gives {den[l]}',
                                          input={'c': j, 'outs': sel, 'assignment': list(bits)})
                            break
                    # uniqueness of the extension on encoded gates
                    block = [(-v if v in ms else v) for v in lits.values()]
                    if block and sat(cnf + units + [block]) is not None:
                        ctx.violation('tseytin.extension_not_unique', 'a second satisfying extension differs on an encoded gate',
                                      input={'c': j, 'outs': sel, 'assignment': list(bits)})
        # one Cnf object solved, extended by the unit clauses of an input assignment, solved again
        try:
            from cirbo.sat.cnf import Cnf
            from cirbo.sat import is_satisfiable
            cnf_obj = Cnf.from_circuit(circ_from_json(j))
            is_satisfiable(cnf_obj)
            bits, den = dens[rng.randrange(len(dens))]
            for idx, b in enumerate(bits):
                cnf_obj.add_clause([idx + 1] if b == 'T' else [-(idx + 1)])
            res2 = is_satisfiable(cnf_obj)
            want2 = all(den[o] == 'T' for o in outs)
            if res2.answer != want2:
                ctx.violation('cnf_object.second_solve', f'a Cnf object solved again after adding the units of an input assignment: answer {res2.answer}, '
                              f'all outputs True under it = {want2}', input={'c': j, 'assignment': list(bits)})
            elif res2.answer and any((idx + 1 in set(res2.model)) != (b == 'T') for idx, b in enumerate(bits) if idx + 1 <= len(res2.model)):
                ctx.violation('cnf_object.second_solve', 'the model of the second solve contradicts the added unit clauses', input={'c': j, 'assignment': list(bits)})
            else:
                ctx.count('cnf_object:second_solve_ok')
        except Exception as e:  # noqa: BLE001
            ctx.violation('is_circuit_satisfiable.raises', f'Cnf object reuse raised {err_name(e)}', input={'c': j})
        # the satisfiability query itself
        try:
            from cirbo.sat import is_circuit_satisfiable
            res = is_circuit_satisfiable(circ_from_json(j))
            want = any(all(den[o] == 'T' for o in outs) for _, den in dens)
            if res.answer != want:
                ctx.violation('is_circuit_satisfiable.wrong', f'answer {res.answer}, but exists satisfying input = {want}',
                              input={'c': j})
            elif res.answer:
                bits = tuple('T' if (i + 1) in set(res.model) else 'F' for i in range(len(ins)))
                den = dict(dens)[bits]
                if not all(den[o] == 'T' for o in outs):
                    ctx.violation('is_circuit_satisfiable.model', 'returned model does not project onto a satisfying input',
                                  input={'c': j, 'model': res.model})
        except Exception as e:  # noqa: BLE001
            ctx.violation('is_circuit_satisfiable.raises', f'raised {err_name(e)}', input={'c': j})


def replay(ctx, rp):
    v = rp.get('violation') or {}
    inp = v.get('input') or {}
    if 'c' in inp:
        print(py_tseytin(inp['c'], inp.get('outs')))
    search(ctx)
