"""C02 — circuits stay well formed under every history of public mutations."""
import json

from common import circ_from_json, circ_to_json
from props.histgen import gen_history, ALL_OPS, PRIMITIVE_OPS, directed_reconvert
from props.mutcommon import compare_mutate, py_mutate, check_wf
from props.evalcommon import py_exec

RULE = ('histories of 5..25 public mutator calls from a weighted grammar (add/remove/rename gate, outputs/inputs '
        'setters and orderings, replace_inputs, blocks, into_bench, copy, connect_circuit in both directions with '
        'internal/repeated connectors and block names, replace_subcircuit on cut-bounded slices with identical / '
        'renamed / re-expressed / structurally entangled replacements; every tenth history is a replacement that '
        'would close a cycle through dead logic) applied to random starting circuits; ~12% deliberately '
        'invalid arguments; after every call the full state (gates, inputs, outputs, users index, blocks) is '
        'compared with the model; non-trivial = history with >=3 successful calls; distinct by (start, steps)')
ASSUMPTIONS = ['state after an exception is unspecified: a history stops at its first raising call']
TRUSTED = ['search oracle: Lean checkWFU (decides the C02 well-formedness conditions incl. users multiset, '
           'input list, acyclicity via both topological iterations, block labels) on every state the code produces; '
           'copy equality/aliasing checked in the harness']


def directed(rng, start):
    """a replacement that closes a cycle through dead logic unless the code notices (documented error)"""
    from props.slicegen import add_dead_loop_closer, dead_loop_slice, sub_from_slice
    j = add_dead_loop_closer(rng, start)
    sl = dead_loop_slice(j)
    if sl is None:
        return None
    sub, im, om = sub_from_slice(j, sl, rng.choice(['entangled', 'entangled', 'renamed']), rng)
    return j, [['replace_subcircuit', sub, im, om], ['copy'], ['mark_as_output', om[0][1]]]


def directed_blocks(rng, start):
    """a block whose listed output reads a member without being one, then `remove_block`: the members are still in
    use from outside, the call has to be refused (or at least must not leave a dangling operand)"""
    ops = {g[0]: g[2] for g in start['gates']}
    unused = [l for l in ops if not any(l in o for o in ops.values())]
    members = [l for l in ops if l not in unused]
    if unused and members and rng.random() < 0.5:
        # a block that lists a gate nobody reads among its *inputs*; that gate is then removed
        g = rng.choice(unused)
        return start, [['make_block', 'DI', [rng.choice(members)], [], [g]], ['remove_gate', g], ['copy']]
    readers = [(o, l) for l, os_ in ops.items() for o in os_ if start and any(g[0] == o and g[1] != 'INPUT' for g in start['gates'])]
    if not readers:
        return None
    member, reader = rng.choice(readers)
    name = 'DB'
    return start, [['make_block', name, [member], [reader], None if rng.random() < 0.5 else list(ops[member])], ['remove_block', name], ['copy']]


def directed_order(rng, start):
    """order_inputs / order_outputs with a label listed once too often: refused, or at least no duplicate in the lists"""
    which = rng.choice(['order_inputs', 'order_outputs'])
    ls = list(start['inputs'] if which == 'order_inputs' else start['outputs'])
    if not ls:
        return None
    k = rng.randint(1, len(ls))
    part = rng.sample(ls, k) if which == 'order_inputs' else ls[:k]
    return start, [[which, part + [rng.choice(part)]], ['copy']]


def correspondence(ctx):
    rng = ctx.rng('corr')
    reqs = []
    for k in range(ctx.scale(400, 10000)):
        ops = ALL_OPS if rng.random() < 0.7 else PRIMITIVE_OPS
        start, steps = gen_history(rng, rng.randint(5, ctx.scale(14, 25)), ops)
        if k % 10 == 9:
            start, steps = directed(rng, start) or (start, steps)
        if k % 10 == 4:
            start, steps = directed_blocks(rng, start) or (start, steps)
        if k % 10 == 2:
            start, steps = directed_order(rng, start) or (start, steps)
        reqs.append({'op': 'mutate', 'c': start, 'steps': steps})
        for s in steps:
            ctx.count('op:' + s[0])
        if k < 1:
            ctx.sample({'start': start, 'steps': steps})
    code = compare_mutate(ctx, 'history', reqs)
    for r, a in zip(reqs, code):
        good = sum(1 for x in a['ok'] if 'err' not in x)
        ctx.case(json.dumps([r['c']['gates'], r['steps']]), good >= 3)
        ctx.count('successful_calls', good)


def search(ctx):
    rng = ctx.rng('search')
    states, origin = [], []
    for k in range(ctx.scale(300, 8000)):
        start, steps = gen_history(rng, rng.randint(5, ctx.scale(14, 25)))
        if k % 10 == 9:
            start, steps = directed(rng, start) or (start, steps)
        if k % 10 == 4:
            start, steps = directed_blocks(rng, start) or (start, steps)
        if k % 10 == 2:
            start, steps = directed_order(rng, start) or (start, steps)
        if k % 10 == 6:
            start, steps = directed_reconvert(rng, start) or (start, steps)
        res = py_mutate({'c': start, 'steps': steps})['ok']
        good = [x for x in res if 'err' not in x]
        ctx.case(json.dumps(['s', start['gates'], steps]), len(good) >= 3)
        for i, st in enumerate(good):
            states.append(st)
            origin.append((start, steps[:i + 1]))
        # copy: equal to and independent of its original
        if good:
            import copy as pycopy
            c = circ_from_json(good[-1])
            try:
                d = pycopy.copy(c)
                if not (d == c) or sorted(d.blocks) != sorted(c.blocks):
                    ctx.violation('copy.not_equal', 'copy is not equal to its original', input={'c': good[-1]})
                before = circ_to_json(c)
                # mutate the copy through every kind of field
                for l in list(d.gates)[:1]:
                    d.rename_gate(l, 'renamed_in_copy')
                d.add_inputs(['fresh_in_copy'])
                d.mark_as_output('fresh_in_copy')
                if circ_to_json(c) != before:
                    ctx.violation('copy.shares_state', 'mutating a copy changed the original', input={'c': good[-1]})
            except Exception as e:  # noqa: BLE001
                ctx.violation('copy.raises', f'copy of a reachable state raised {type(e).__name__}', input={'start': start, 'steps': steps})
    for (start, steps), verdict in zip(origin, check_wf(ctx, states)):
        if verdict != 'ok':
            ctx.violation('history.not_wellformed:' + steps[-1][0], f'after {steps[-1][0]}: {verdict}',
                          input={'start': start, 'steps': steps})


def replay(ctx, rp):
    v = rp.get('violation') or {}
    inp = v.get('input') or {}
    if 'start' in inp:
        print(json.dumps(py_mutate({'c': inp['start'], 'steps': inp['steps']}))[:2000])
    search(ctx)
