"""C08 — multiplier and squarer generators compute exact products."""
import json
import random

from common import circ_to_json, err_name, realize
from props import gencommon as G

RULE = ('parameter sets: multiplication mode (default, alter, pow2-1, Karatsuba with efficient sum incl. widths that trigger the '
        'recursion, plain Karatsuba, Dadda, Wallace) / squaring mode x width pair x endianness x host (bare circuit or random '
        'circuit built through the public API) x operand choice (inputs or internal gates, repeats allowed); model and code '
        'compared on the whole resulting circuit, returned labels and uuid counter; search evaluates the real result on all '
        '(small hosts) or sampled assignments and checks the result width')
ASSUMPTIONS = ['host circuit well formed (built through the public API)', 'operand widths >= 1']
TRUSTED = ['search oracle: truth tables / evaluation through the real evaluator (C01) + integer arithmetic in CPython']

MULS = ['add_mul', 'add_mul_alter', 'add_mul_pow2_m1', 'add_mul_karatsuba_with_efficient_sum', 'add_mul_karatsuba',
        'add_mul_dadda', 'add_mul_wallace']
SQUARES = ['add_square', 'add_square_pow2_m1']


def gen_request(ctx, rng, wide=False):
    host_inputs = rng.randint(2, 8)
    host = G.host_circuit(rng, n_inputs=host_inputs)
    be = rng.random() < 0.4
    if rng.random() < 0.8:
        kind = rng.choice(MULS)
        if wide:
            n, m = rng.choice([(2, 11), (2, 13), (11, 2), (3, 12), (20, 20), (21, 19), (18, 18), (22, 5), (24, 24), (19, 20), (40, 40), (7, 13),
                               (21, 21), (23, 9), (5, 25), (25, 25), (26, 31), (33, 33)])
        else:
            n, m = rng.randint(1, 6), rng.randint(1, 6)
            if rng.random() < 0.15:
                n, m = rng.choice([(2, 11), (2, 12), (12, 2), (1, 9), (9, 1), (3, 10)])
        if rng.random() < 0.02:
            n = 0
        a = {'a': G.pick_operands(rng, host, n), 'b': G.pick_operands(rng, host, m), 'big_endian': be}
        if n >= 2 and rng.random() < 0.12:
            a['b'] = list(a['a'])          # a number multiplied by itself: the same gates in the same order
    else:
        kind = rng.choice(SQUARES)
        n = rng.choice([48, 49, 50, 53, 56]) if wide else rng.randint(1, 9)
        a = {'ins': G.pick_operands(rng, host, n), 'big_endian': be}
    return {'op': 'gen', 'c': host, 'ctr': rng.randint(0, 3), 'name': kind, 'args': a}


def correspondence(ctx):
    rng = ctx.rng('corr')
    reqs = []
    for k in range(ctx.scale(260, 3000)):
        r = gen_request(ctx, rng, wide=(k % 20 == 19))
        reqs.append(r)
        ctx.case(json.dumps([r['name'], r['args'], r['c']['gates']]))
        ctx.count('kind=' + r['name'])
        if k < 2:
            ctx.sample({'name': r['name'], 'args': r['args'], 'host_gates': len(r['c']['gates'])})
    G.compare(ctx, 'gen', reqs)


def expected_error(r):
    a = r['args']
    if 'ins' in a:
        return len(a['ins']) == 0
    return len(a['a']) == 0 or len(a['b']) == 0


def bare_value_check(ctx, name, n, m, be, rng, samples):
    """operands = primary inputs of a bare circuit: exhaustive for small widths, sampled above"""
    from cirbo.core.circuit import Circuit
    from props.mutcommon import UuidPatch
    c = Circuit.bare_circuit(n + m)
    ins = list(c.inputs)
    try:
        with UuidPatch():
            ret = G.call_generator(c, name, {'a': ins[:n], 'b': ins[n:], 'big_endian': be} if m else {'ins': ins, 'big_endian': be})
        c.set_outputs(ret)
    except Exception as e:  # noqa: BLE001
        ctx.violation('mul.raises', f'{name}({n},{m}, big_endian={be}) raised {err_name(e)}', input={'name': name, 'n': n, 'm': m, 'be': be})
        return
    want_w = (n + m - 1 if (n == 1 or m == 1) else n + m) if m else (1 if n == 1 else 2 * n)
    if len(ret) != want_w:
        ctx.violation('mul.width', f'{name}({n},{m}) returned {len(ret)} bits, expected {want_w}', input={'name': name, 'n': n, 'm': m, 'be': be})
        return
    total = n + m
    if total <= 12:
        cases = range(1 << total)
    else:
        dense = [((1 << total) - 1) & ~(1 << rng.randrange(total)) for _ in range(8)]
        cases = [rng.getrandbits(total) for _ in range(samples)] + [(1 << total) - 1, 0, (1 << n) - 1] + dense

    def bits(x, w):
        b = [(x >> i) & 1 == 1 for i in range(w)]
        return b[::-1] if be else b
    for x in cases:
        av, bv = x & ((1 << n) - 1), x >> n
        vec = bits(av, n) + bits(bv, m)
        out = c.evaluate(vec)
        if be:
            out = out[::-1]
        got = sum(1 << i for i, o in enumerate(out) if o)
        want = av * bv if m else av * av
        if got != want:
            ctx.violation('mul.value', f'{name}({n},{m}, big_endian={be}): a={av}, b={bv}: got {got}, expected {want}',
                          input={'name': name, 'n': n, 'm': m, 'be': be, 'a': av, 'b': bv})
            return


def check_host(ctx, r, res):
    name, a, host = r['name'], r['args'], r['c']
    after, ret = res['c'], res['ret']
    inp = {'request': r}
    probs = G.frame_problems(host, after)
    if after['outputs'] != host['outputs']:
        probs.append('outputs changed')
    if probs:
        ctx.violation('mul.frame', f'{name}: ' + '; '.join(probs[:3]), input=inp)
        return
    if len(after['inputs']) > 9:
        return
    tt = G.gates_tt(after)
    rows = 1 << len(after['inputs'])
    be = a.get('big_endian', False)
    for row in range(rows):
        if 'ins' in a:
            x = G.value(tt, a['ins'], row, not be)
            want = x * x
        else:
            want = G.value(tt, a['a'], row, not be) * G.value(tt, a['b'], row, not be)
        if any(l not in tt for l in ret):
            ctx.violation('mul.labels', f'{name} returned labels that are not gates', input=inp)
            return
        got = G.value(tt, ret, row, not be)
        if got != want:
            ctx.violation('mul.value', f'{name}(|a|={len(a.get("a", a.get("ins")))}, |b|={len(a.get("b", []))}, big_endian={be}) on a host: got {got}, expected {want}',
                          input=inp, row=row)
            return


def search(ctx):
    G.check_generate_mul(ctx, [(n, m) for n in range(1, 5) for m in range(1, 5)] + ([(5, 5), (6, 3), (3, 6)] if ctx.tier == 'thorough' else [(5, 4)]))
    G.check_generate_square(ctx, list(range(1, 8)) + ([9, 11] if ctx.tier == 'thorough' else []))
    rng = ctx.rng('search')
    prng = random.Random(ctx.seed + 17)
    # (1) bare circuits: every mode on a grid of width pairs
    pairs = [(n, m) for n in range(1, 6) for m in range(1, 6)]
    pairs += [(2, 11), (2, 12), (11, 2), (3, 11), (1, 8), (8, 1), (7, 6), (6, 7)]
    if ctx.tier == 'thorough':
        pairs += [(n, m) for n in range(1, 9) for m in range(1, 9) if (n, m) not in pairs]
        pairs += [(2, 13), (2, 16), (3, 14), (18, 18), (20, 20), (21, 20), (19, 22), (24, 24), (38, 38), (40, 40)]
    else:
        pairs += [(20, 20), (18, 18), (21, 21), (23, 9), (25, 25), (12, 12)]
    for name in MULS:
        for n, m in pairs:
            if ctx.tier != 'thorough' and n >= 18:
                # quick tier: wide pairs only where a mode changes behaviour (Karatsuba recursion at >= 20 / odd widths,
                # 31-bit blocks of the 2^k-1 splitter at min(n, m) >= 25)
                if name in ('add_mul_alter', 'add_mul_dadda', 'add_mul_wallace', 'add_mul'):
                    continue
                if name == 'add_mul_pow2_m1' and (n, m) != (25, 25):
                    continue
                if name.startswith('add_mul_karatsuba') and (n, m) == (25, 25):
                    continue
            be = prng.random() < 0.3
            ctx.case(json.dumps(['bare', name, n, m, be]))
            ctx.count('bare:' + name)
            bare_value_check(ctx, name, n, m, be, prng, 40 if n + m > 30 else 200)
    for name in SQUARES:
        for n in list(range(1, 11)) + ([48, 49, 50, 53] if ctx.tier == 'thorough' else [48]):
            be = prng.random() < 0.3
            ctx.case(json.dumps(['bare', name, n, be]))
            ctx.count('bare:' + name)
            bare_value_check(ctx, name, n, 0, be, prng, 30 if n > 20 else 200)
    # (2a) a number times itself: both operands are the same gates in the same order (every mode, both endiannesses)
    from common import realize
    squares = []
    for name in MULS:
        for n in (2, 3, 4):
            for be in (False, True):
                xs = ['x%d' % i for i in range(n)]
                host = realize({'gates': [[x, 'INPUT', []] for x in xs], 'inputs': xs, 'outputs': [], 'blocks': []})
                squares.append({'op': 'gen', 'c': host, 'ctr': 0, 'name': name, 'args': {'a': list(xs), 'b': list(xs), 'big_endian': be}})
    # (2) host circuits with arbitrary operand gates
    for k in range(-len(squares), ctx.scale(150, 2500)):
        r = squares[k] if k < 0 else gen_request(ctx, rng, wide=False)
        if k < 0:
            ctx.count('directed:a_times_a')
        ctx.case(json.dumps(['s', r['name'], r['args'], r['c']['gates']]))
        res = G.py_gen(r)
        if 'err' in res:
            if not expected_error(r):
                ctx.violation('mul.raises', f'{r["name"]} raised {res["err"]} on valid arguments', input={'request': r})
            continue
        check_host(ctx, r, res['ok'])


def replay(ctx, rp):
    v = rp.get('violation') or {}
    i = v.get('input') or {}
    if 'request' in i:
        r = i['request']
        res = G.py_gen(r)
        print(json.dumps(res)[:800])
        if 'ok' in res:
            check_host(ctx, r, res['ok'])
    elif 'name' in i:
        bare_value_check(ctx, i['name'], i['n'], i['m'], i['be'], random.Random(1), 500)
    else:
        search(ctx)
