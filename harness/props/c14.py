"""C14 — conversion to the bench basis preserves the function."""
import json

import gen
from common import realize, circ_from_json, circ_to_json, err_name
from props.evalcommon import py_exec
from props.mutcommon import compare_mutate, py_mutate, check_wf

RULE = ('random circuits through the public API over all gate types (comparison gates with identical operands, '
        'L*/R* gates, constants with 0/1/2 operands, gates that are outputs or members of one/several/nested '
        'blocks), >=1 input (plus the documented no-input error case) -> into_bench (and: a gate outside the basis '
        'added to the converted object, converted again); result compared exactly '
        'with the model (gates, users index, blocks, fresh labels via pinned uuid); non-trivial = contains a '
        'gate outside the bench basis; distinct by circuit')
ASSUMPTIONS = ['WFU circuits with at least one input (the no-input case is checked for the documented error only)']
TRUSTED = ['search oracle: Lean checkWFU on the converted circuit; truth tables via the real evaluator (C01); '
           'type-set and block-membership checks in the harness']

BENCH_TYPES = {'INPUT', 'NOT', 'AND', 'OR', 'NAND', 'NOR', 'XOR', 'NXOR', 'IFF'}


def gen_c14(ctx, rng):
    j, info = gen.gen_circuit(rng, max_inputs=4, max_gates=ctx.scale(12, 24), max_arity=4, min_inputs=rng.choice([0, 1, 1, 1, 1, 1]),
                              p_repeat_operand=0.3, blocks=True)
    # a second (overlapping / nested) block now and then
    nonin = [g[0] for g in j['gates'] if g[1] != 'INPUT']
    if nonin and rng.random() < 0.3:
        members = rng.sample(nonin, rng.randint(1, min(3, len(nonin))))
        j['blocks'].append(['outer', [], members, [members[0]]])
    special = [g[0] for g in j['gates'] if g[1] in gen.CMP + gen.LR + gen.CONST]
    if special and rng.random() < 0.3:
        # what two levels of named composition leave behind: a gate labelled `stage@cmp@<x>` that is a member of the
        # block `stage@cmp` and of the enclosing block `stage`
        old = rng.choice(special)
        new = 'stage@cmp@' + old
        f = lambda l: new if l == old else l
        j['gates'] = [[f(g[0]), g[1], [f(o) for o in g[2]]] for g in j['gates']]
        j['inputs'] = [f(x) for x in j['inputs']]
        j['outputs'] = [f(x) for x in j['outputs']]
        j['blocks'] = [[b[0], [f(x) for x in b[1]], [f(x) for x in b[2]], [f(x) for x in b[3]]] for b in j['blocks']]
        others = [g[0] for g in j['gates'] if g[1] != 'INPUT' and g[0] != new]
        j['blocks'].append(['stage@cmp', [], [new], [new]])
        j['blocks'].append(['stage', [], [new] + (rng.sample(others, 1) if others else []), [new]])
    return realize(j), info


def correspondence(ctx):
    rng = ctx.rng('corr')
    reqs = []
    for k in range(ctx.scale(500, 12000)):
        j, info = gen_c14(ctx, rng)
        reqs.append({'op': 'mutate', 'c': j, 'steps': [['into_bench']]})
        ctx.case(json.dumps(['ib', j['gates'], j['inputs'], j['outputs'], j['blocks']]),
                 any(g[1] not in BENCH_TYPES for g in j['gates']))
        if k < 2:
            ctx.sample({'circuit': j})
    compare_mutate(ctx, 'into_bench', reqs)


def search(ctx):
    rng = ctx.rng('search')
    todo = []
    for k in range(ctx.scale(400, 10000)):
        j, info = gen_c14(ctx, rng)
        nontriv = any(g[1] not in BENCH_TYPES for g in j['gates'])
        ctx.case(json.dumps(['s', j['gates'], j['inputs'], j['outputs'], j['blocks']]), nontriv)
        r = py_mutate({'c': j, 'steps': [['into_bench']]})['ok'][0]
        needs_input = any(g[1] in ('ALWAYS_TRUE', 'ALWAYS_FALSE') for g in j['gates'])
        if 'err' in r:
            if not j['inputs'] and needs_input and r['err'] == 'GateDoesntExistError':
                ctx.count('documented_no_input_error')
                continue
            ctx.violation('into_bench.raises', f'into_bench raised {r["err"]}', input={'c': j})
            continue
        from props.evalcommon import json_is_cyclic
        if json_is_cyclic(r):
            ctx.violation('into_bench.not_wellformed', 'converted circuit is cyclic', input={'c': j})
            continue
        todo.append((j, r))
        if r['inputs'] != j['inputs'] or r['outputs'] != j['outputs']:
            ctx.violation('into_bench.interface', 'inputs/outputs changed', input={'c': j})
        bad = sorted({g[1] for g in r['gates']} - BENCH_TYPES)
        if bad:
            ctx.violation('into_bench.types', f'gate types {bad} remain after conversion', input={'c': j})
        # helper gates stay inside every block that contained the rewritten gate
        old = {g[0] for g in j['gates']}
        newops = {}
        for l, t, ops in r['gates']:
            for o in ops:
                if o not in old:
                    newops.setdefault(l, []).append(o)
        for b0, b1 in zip(j['blocks'], r['blocks']):
            for l in b0[2]:
                for h in newops.get(l, []):
                    if h not in b1[2]:
                        ctx.violation('into_bench.block_helper', f'helper gate {h} of {l} is missing from block {b1[0]}', input={'c': j})
        if len(j['inputs']) <= 5:
            t1 = py_exec({'op': 'truth_table', 'c': j})
            t2 = py_exec({'op': 'truth_table', 'c': r})
            if t1 != t2:
                ctx.violation('into_bench.truth_table', f'truth table changed: {t1} -> {t2}', input={'c': j})
        # the same object converted, extended by a gate outside the basis, converted again
        if k % 4 == 0 and j['inputs']:
            again(ctx, rng, j)
        if k % 4 == 1 and j['inputs']:
            rc = reconvert(ctx, rng, j)
            if rc is not None:
                from props.evalcommon import json_is_cyclic as _cyc
                if _cyc(rc[1]):
                    ctx.violation('into_bench.not_wellformed', 'circuit is cyclic after convert / free a label / reuse it / convert',
                                  input={'start': rc[0][0], 'steps': rc[0][1]})
                else:
                    todo.append(({'start': rc[0][0], 'steps': rc[0][1]}, rc[1]))
        # graphviz path: must not raise nor modify self
        if k % 25 == 0:
            try:
                c = circ_from_json(j)
                before = circ_to_json(c)
                c.into_graphviz_digraph(as_bench=True, draw_blocks=False)
                if circ_to_json(c) != before:
                    ctx.violation('graphviz.modifies_self', 'into_graphviz_digraph(as_bench=True) modified the circuit', input={'c': j})
            except Exception as e:  # noqa: BLE001
                ctx.violation('graphviz.raises', f'into_graphviz_digraph(as_bench=True) raised {err_name(e)}', input={'c': j})
    for (j, r), verdict in zip(todo, check_wf(ctx, [r for _, r in todo])):
        if verdict != 'ok':
            ctx.violation('into_bench.not_wellformed', f'converted circuit is not well formed: {verdict}', input=j if 'steps' in j else {'c': j})


def reconvert(ctx, rng, j):
    """convert, free the label of a rewritten gate, give the label to a new gate of the same kind, convert again: every
    conversion keeps the function of the circuit it was applied to, and the result is well formed"""
    from props.histgen import directed_reconvert
    h = directed_reconvert(rng, j)
    if h is None:
        return None
    start, steps = h
    res = py_mutate({'c': start, 'steps': steps})['ok']
    ctx.count('reconvert')
    states = [start]
    for st, r in zip(steps, res):
        if 'err' in r:
            if st[0] == 'into_bench':
                ctx.violation('into_bench.again_raises', f'into_bench raised {r["err"]} in a history that converts twice', input={'start': start, 'steps': steps})
            return None
        if st[0] == 'into_bench' and len(r['inputs']) <= 5:
            prev = states[-1]
            if r['inputs'] != prev['inputs'] or r['outputs'] != prev['outputs'] or \
                    py_exec({'op': 'truth_table', 'c': prev}) != py_exec({'op': 'truth_table', 'c': r}):
                ctx.violation('into_bench.again_function', 'a conversion inside a history (convert, free a label, reuse it, convert) '
                              'changed the interface or the truth table', input={'start': start, 'steps': steps[:len(states)]})
                return None
        states.append(r)
    return (start, steps), states[-1]


def again(ctx, rng, j):
    from cirbo.core.circuit import gate as G
    try:
        c = circ_from_json(j)
        c.into_bench()
        labels = list(c.gates)
        t = rng.choice([G.GT, G.LT, G.GEQ, G.LEQ, G.LIFF, G.RIFF, G.LNOT, G.RNOT, G.ALWAYS_TRUE, G.ALWAYS_FALSE])
        ops = () if t in (G.ALWAYS_TRUE, G.ALWAYS_FALSE) else (rng.choice(labels), rng.choice(labels))
        how = rng.choice(['emplace_gate', 'add_gate'])
        if how == 'emplace_gate':
            c.emplace_gate('again_new', t, ops)
        else:
            c.add_gate(G.Gate('again_new', t, ops))
        c.mark_as_output('again_new')
        mid = circ_to_json(c)
        c.into_bench()
        r = circ_to_json(c)
    except Exception as e:  # noqa: BLE001
        ctx.violation('into_bench.again_raises', f'second conversion of the same object raised {err_name(e)}', input={'c': j})
        return
    ctx.count('again:' + how)
    bad = sorted({g[1] for g in r['gates']} - BENCH_TYPES)
    if bad:
        ctx.violation('into_bench.again_types', f'gate types {bad} remain after converting the object a second time '
                      f'(a {t.name} gate was added by {how} after the first conversion)', input={'c': j, 'added': [t.name, list(ops), how]})
        return
    if r['inputs'] != mid['inputs'] or r['outputs'] != mid['outputs'] or \
            py_exec({'op': 'truth_table', 'c': mid}) != py_exec({'op': 'truth_table', 'c': r}):
        ctx.violation('into_bench.again_function', 'second conversion of the same object changed the interface or the truth table',
                      input={'c': j, 'added': [t.name, list(ops), how]})


def replay(ctx, rp):
    v = rp.get('violation') or {}
    inp = v.get('input') or {}
    if 'c' in inp:
        print(py_mutate({'c': inp['c'], 'steps': [['into_bench']]}))
    search(ctx)
