"""C03 — simplification passes preserve the function, the interface and their argument."""
import json

from props.evalcommon import py_exec
from props.mutcommon import canon_state, check_wf
from props.passcommon import py_passes, gen_spec, gen_pass_circuit, LEAVES, mk_tr
from common import circ_from_json, circ_to_json, err_name, realize

RULE = ('random circuits over all gate types (n-ary gates, L*/R* chains feeding symmetric gates, forced duplicate and '
        'equivalent gates, unary chains, constants, outputs that are inputs/repeated/dead logic) x {each pass via '
        'transform, each _transform alone, random pipelines (|, compositions, lists), cleanup light/heavy}; one pass object reused on several circuits (relabelled copies, fresh ones); results '
        'compared exactly with the model; non-trivial = >=3 non-input gates; distinct by (circuit, pipeline)')
ASSUMPTIONS = ['argument circuits are well formed (WFU)']
TRUSTED = ['search oracle: truth tables through the real evaluator (C01), interface and size comparisons in the harness, '
           'Lean checkWFU on the result']


def requests(ctx, rng, j):
    reqs = []
    for t in LEAVES:
        reqs.append({'op': 'passes', 'c': j, 'mode': 'transform', 't': t})
        reqs.append({'op': 'passes', 'c': j, 'mode': 'raw', 't': t})
    for _ in range(2):
        reqs.append({'op': 'passes', 'c': j, 'mode': 'transform', 't': gen_spec(rng)})
    reqs.append({'op': 'passes', 'c': j, 'mode': 'apply', 'ts': [gen_spec(rng) for _ in range(rng.randint(0, 3))]})
    reqs.append({'op': 'passes', 'c': j, 'mode': 'cleanup', 'heavy': False})
    reqs.append({'op': 'passes', 'c': j, 'mode': 'cleanup', 'heavy': True})
    return reqs


def correspondence(ctx):
    rng = ctx.rng('corr')
    reqs = []
    for k in range(ctx.scale(60, 1500)):
        j, info = gen_pass_circuit(ctx, rng)
        rs = requests(ctx, rng, j)
        reqs += rs
        for r in rs:
            ctx.case(json.dumps([j['gates'], j['outputs'], r['mode'], r.get('t'), r.get('ts'), r.get('heavy')]),
                     sum(1 for g in j['gates'] if g[1] != 'INPUT') >= 3)
        if k < 1:
            ctx.sample({'circuit': j})
    code = [py_passes(r) for r in reqs]
    model = ctx.driver.ask_many(reqs)
    for r, a, b in zip(reqs, code, model):
        if a == b:
            ctx.count('agree:passes')
        elif 'ok' in a and 'ok' in b and canon_state(a['ok']) == canon_state(b['ok']):
            ctx.count('order_drift:passes')
        else:
            ctx.mismatch('passes', r, a, b)
        if 'err' in a:
            ctx.count('err:' + a['err'])


def uses_removal(spec):
    if spec == 'RRG+':
        return True
    if isinstance(spec, list):
        return any(uses_removal(x) for x in (spec[1:] if spec[0] == 'or' else spec[1]))
    return False


def search(ctx):
    rng = ctx.rng('search')
    states, origin = [], []
    for k in range(ctx.scale(60, 1500)):
        j, info = gen_pass_circuit(ctx, rng)
        base_tt = py_exec({'op': 'truth_table', 'c': j})
        if 'err' in base_tt:
            continue
        n = len(j['inputs'])
        for r in requests(ctx, rng, j):
            ctx.case(json.dumps(['s', j['gates'], j['outputs'], r['mode'], r.get('t'), r.get('ts'), r.get('heavy')]),
                     sum(1 for g in j['gates'] if g[1] != 'INPUT') >= 3)
            res = py_passes(r)
            name = r['mode'] + ':' + json.dumps(r.get('t') or r.get('ts') or r.get('heavy'))
            if 'err' in res:
                ctx.violation('pass.raises', f'{name} raised {res["err"]}', input=r)
                continue
            o = res['ok']
            removal = uses_removal(r.get('t')) or any(uses_removal(x) for x in r.get('ts', []))
            if len(o['outputs']) != len(j['outputs']):
                ctx.violation('pass.outputs', f'{name}: number of outputs changed', input=r)
                continue
            if not removal and o['inputs'] != j['inputs']:
                ctx.violation('pass.inputs', f'{name}: inputs changed {j["inputs"]} -> {o["inputs"]}', input=r)
                continue
            if removal:
                it = iter(j['inputs'])
                if not all(x in it for x in o['inputs']):
                    ctx.violation('pass.inputs', f'{name}: remaining inputs are not a subsequence of the original', input=r)
                    continue
            if len(o['gates']) > len(j['gates']):
                ctx.violation('pass.size', f'{name}: result has more gates ({len(o["gates"])} > {len(j["gates"])})', input=r)
            t2 = py_exec({'op': 'truth_table', 'c': o})
            if removal and o['inputs'] != j['inputs']:
                # compare after dropping the removed input columns: they must be irrelevant
                keep = [i for i, l in enumerate(j['inputs']) if l in o['inputs']]
                rows = []
                ok = True
                for row in base_tt['ok']:
                    proj = {}
                    for idx, ch in enumerate(row):
                        bits = format(idx, '0%db' % n) if n else ''
                        key = ''.join(bits[i] for i in keep)
                        if proj.setdefault(key, ch) != ch:
                            ok = False
                    rows.append(''.join(proj[format(i, '0%db' % len(keep))] if keep else proj[''] for i in range(2 ** len(keep))))
                if not ok or t2 != {'ok': rows}:
                    ctx.violation('pass.truth_table', f'{name}: truth table changed (after input removal)', input=r)
            elif t2 != base_tt:
                ctx.violation('pass.truth_table', f'{name}: truth table changed {base_tt} -> {t2}', input=r)
            states.append(o); origin.append(r)
    for r, verdict in zip(origin, check_wf(ctx, states)):
        if verdict != 'ok':
            ctx.violation('pass.not_wellformed', f'result of {r["mode"]} is not well formed: {verdict}', input=r)
    reuse(ctx)
    directed(ctx)


def label_collision_circuits():
    """labels that contain separator characters, arranged so that two different operand tuples read the same once
    joined by that separator: ('a', 'b', 'c') and ('a,b', 'c'), ('x,y', 'z') and ('x', 'y,z')"""
    out = []
    for sep in (',', ' ', '|', ';', ':', '-', '_', '(', "', '"):
        a, b, c, ab, bc = 'a', 'b', 'c', 'a' + sep + 'b', 'b' + sep + 'c'
        ins = [a, b, c, ab, bc]
        for t in ('AND', 'OR', 'XOR', 'NAND', 'NXOR'):
            gates = [[i, 'INPUT', []] for i in ins] + [['g1', t, [a, b, c]], ['g2', t, [ab, c]], ['g3', t, [a, bc]], ['d', 'XOR', ['g1', 'g2']]]
            out.append(realize({'gates': gates, 'inputs': ins, 'outputs': ['g1', 'g2', 'g3', 'd'], 'blocks': []}))
        for t in ('GT', 'LEQ', 'LIFF'):
            gates = [[i, 'INPUT', []] for i in ins] + [['g1', t, [ab, c]], ['g2', t, [a, bc]], ['d', 'XOR', ['g1', 'g2']]]
            out.append(realize({'gates': gates, 'inputs': ins, 'outputs': ['d', 'g1'], 'blocks': []}))
    # constants that carry operands (what exact synthesis emits) next to gates with the same function
    for kt, expr in (('ALWAYS_FALSE', 'AND'), ('ALWAYS_TRUE', 'OR')):
        for kops in (['a', 'z'], ['a'], ['x', 'x']):
            gates = [[i, 'INPUT', []] for i in ('a', 'z', 'x')] + [['k', kt, kops], ['n', 'NOT', ['x']], ['g', expr, ['x', 'n']],
                                                                  ['h', 'XOR', ['k', 'a']], ['m', 'OR', ['g', 'z']]]
            out.append(realize({'gates': gates, 'inputs': ['a', 'z', 'x'], 'outputs': ['h', 'm', 'k', 'g'], 'blocks': []}))
    return out


def directed(ctx):
    """every pass, alone and in the cleanups, on the label-collision circuits: same interface, same truth table"""
    for j in label_collision_circuits():
        base_tt = py_exec({'op': 'truth_table', 'c': j})
        for r in [{'op': 'passes', 'c': j, 'mode': 'transform', 't': t} for t in LEAVES if t != 'RRG+'] + \
                 [{'op': 'passes', 'c': j, 'mode': 'cleanup', 'heavy': False}, {'op': 'passes', 'c': j, 'mode': 'cleanup', 'heavy': True}]:
            ctx.case(json.dumps(['collision', j['gates'], r['mode'], r.get('t'), r.get('heavy')]))
            res = py_passes(r)
            name = r['mode'] + ':' + json.dumps(r.get('t') or r.get('heavy'))
            if 'err' in res:
                ctx.violation('pass.raises', f'{name} raised {res["err"]}', input=r)
            elif len(res['ok']['outputs']) != len(j['outputs']) or py_exec({'op': 'truth_table', 'c': res['ok']}) != base_tt:
                ctx.violation('pass.truth_table', f'{name}: truth table changed on a circuit whose labels contain separator characters', input=r)
            else:
                ctx.count('label_collision:ok')


def relabel(rng, j):
    """the same circuit with the labels of its non-input gates permuted (same function, other label -> gate association)"""
    non_in = [g[0] for g in j['gates'] if g[1] != 'INPUT']
    perm = list(non_in)
    rng.shuffle(perm)
    m = dict(zip(non_in, perm))
    f = lambda l: m.get(l, l)
    return {'gates': [[f(g[0]), g[1], [f(o) for o in g[2]]] for g in j['gates']], 'inputs': list(j['inputs']),
            'outputs': [f(o) for o in j['outputs']], 'blocks': []}


def reuse(ctx):
    """one pass / pipeline object applied to several circuits in a row (a pass keeps no state between calls):
    every result must have the argument's interface and truth table"""
    rng = ctx.rng('reuse')
    for k in range(ctx.scale(40, 800)):
        spec = rng.choice(LEAVES) if rng.random() < 0.5 else gen_spec(rng)
        try:
            t = mk_tr(spec)
        except Exception:  # noqa: BLE001
            continue
        seq = []
        j, _ = gen_pass_circuit(ctx, rng)
        for i in range(rng.randint(2, 4)):
            seq.append(j)
            j = relabel(rng, j) if rng.random() < 0.6 else gen_pass_circuit(ctx, rng)[0]
        removal = uses_removal(spec)
        for i, j in enumerate(seq):
            ctx.case(json.dumps(['reuse', spec, i, j['gates'], j['outputs']]))
            inp = {'spec': spec, 'circuits': seq[:i + 1]}
            base_tt = py_exec({'op': 'truth_table', 'c': j})
            if 'err' in base_tt:
                break
            try:
                r = circ_to_json(t.transform(circ_from_json(j)))
            except Exception as e:  # noqa: BLE001
                ctx.violation('pass.reuse_raises', f'{json.dumps(spec)} applied to its circuit #{i + 1} raised {err_name(e)}', input=inp)
                break
            if removal and r['inputs'] != j['inputs']:
                ctx.count('reuse:inputs_removed')
                continue
            if r['inputs'] != j['inputs'] or len(r['outputs']) != len(j['outputs']):
                ctx.violation('pass.reuse_interface', f'{json.dumps(spec)} applied to its circuit #{i + 1}: interface changed', input=inp)
                break
            if py_exec({'op': 'truth_table', 'c': r}) != base_tt:
                ctx.violation('pass.reuse_truth_table', f'{json.dumps(spec)} applied to its circuit #{i + 1}: truth table changed', input=inp)
                break
            ctx.count('reuse:ok')


def replay(ctx, rp):
    v = rp.get('violation') or {}
    inp = v.get('input') or {}
    if 'c' in inp:
        print(json.dumps(py_passes(inp))[:1500])
    search(ctx)
