"""C01 — evaluation equals the denotational semantics of the gate network."""
import itertools
import json

import gen
from common import realize, err_name
from common import v3s
from props.evalcommon import py_exec, compare_stream
from props import c15

RULE = ('random well-formed circuits built through the public API (all gate types, n-ary arity<=6, '
        'repeated operands, constants with operands, dead gates, unused inputs, outputs that are inputs/'
        'repeated/absent, storage order != topological, odd labels) x all 2^n total assignments (n<=6) x '
        '{evaluate, evaluate_at, evaluate_circuit(+output subsets), evaluate_circuit_outputs, '
        'evaluate_full_circuit, get_truth_table, get_gates_truth_table}; the same object queried again after edits '
        '(gate redefined under its label, renamed, outputs reset, gate added); non-trivial = >=1 non-input gate; '
        'distinct = distinct (entry point, circuit, assignment)')
ASSUMPTIONS = ['circuits are well formed (WFU); total assignments on inputs']
TRUSTED = ['search oracle: Lean checker checkValB (decides IsValB, unique by c01_den_unique)']

table_search = c15.table_search


def total_reqs(j, rng, cap):
    ins = j['inputs']
    alls = list(itertools.product('FT', repeat=len(ins)))
    if len(alls) > cap:
        alls = rng.sample(alls, cap)
    return alls


def correspondence(ctx):
    rng = ctx.rng('corr')
    reqs = []
    for k in range(ctx.scale(150, 4000)):
        pool = rng.choice(['plain', 'plain', 'keyword', 'digits', 'weird'])
        j, info = gen.gen_circuit(rng, max_inputs=ctx.scale(5, 7), max_gates=ctx.scale(16, 40),
                                  max_arity=6, label_pool=pool)
        j = realize(j)
        nontriv = info['n_gates'] > info['n_inputs']
        labels = [g[0] for g in j['gates']]
        for bits in total_reqs(j, rng, ctx.scale(16, 64)):
            asg = [[i, v] for i, v in zip(j['inputs'], bits)]
            reqs.append({'op': 'eval_full', 'c': j, 'asg': asg})
            reqs.append({'op': 'eval_lazy', 'c': j, 'asg': asg})
            reqs.append({'op': 'eval_outputs', 'c': j, 'asg': asg})
            reqs.append({'op': 'evaluate', 'c': j, 'vals': list(bits)})
            if j['outputs']:
                reqs.append({'op': 'evaluate_at', 'c': j, 'vals': list(bits),
                             'idx': rng.randrange(len(j['outputs']) + 1)})
            if labels and rng.random() < 0.3:
                reqs.append({'op': 'eval_lazy', 'c': j, 'asg': asg,
                             'outs': [rng.choice(labels) for _ in range(rng.randint(0, 3))]})
            for r in reqs[-6:]:
                ctx.case(json.dumps([r['op'], j['gates'], j['inputs'], j['outputs'], bits, r.get('outs'), r.get('idx')]), nontriv)
        if len(j['inputs']) <= 5:
            reqs.append({'op': 'truth_table', 'c': j})
            reqs.append({'op': 'gates_tt', 'c': j})
            ctx.case(json.dumps(['tt', j['gates'], j['inputs'], j['outputs']]), nontriv)
        for f in ('nary3', 'repeat_operand', 'const_with_ops', 'cmp_same'):
            if info[f]:
                ctx.count('circ_with_' + f)
        ctx.count('labels:' + pool)
        if k < 2:
            ctx.sample({'circuit': j})
    # error branches: wrong arity (1-operand AND etc.), short input vectors
    for k in range(ctx.scale(30, 300)):
        j, info = gen.gen_circuit(rng, max_inputs=3, max_gates=6, min_inputs=1)
        j = realize(j)
        nonin = [g for g in j['gates'] if g[1] not in ('INPUT', 'ALWAYS_TRUE', 'ALWAYS_FALSE')]
        if nonin:
            g = rng.choice(nonin)
            g[2] = g[2][:max(0, len(g[2]) - 1)]   # drop an operand: arity error or different gate
            j = c15.gen_users(j)
        bits = [rng.choice('FT') for _ in j['inputs']]
        reqs.append({'op': 'evaluate', 'c': j, 'vals': bits[:rng.randint(0, len(bits))]})
        reqs.append({'op': 'eval_full', 'c': j, 'asg': [[i, v] for i, v in zip(j['inputs'], bits)]})
        ctx.case(json.dumps(['err', j['gates'], bits]), False)
        ctx.count('stream:malformed')
    compare_stream(ctx, 'eval', reqs)
    from props.patcommon import pattern_correspondence
    pattern_correspondence(ctx, ['NOT', 'AND', 'OR', 'XOR', 'NAND', 'NOR', 'NXOR', 'GT', 'LT', 'GEQ', 'LEQ'], ctx.scale(300, 3000))


def pattern_oracle(ctx, rng, n):
    """subcircuit pattern simulation is one of the gate-interpreting modules: `eval_pattern` against the Lean
    `evalPattern`, which is proved (c01_pattern_simulation_denotes_bfun) to be `bfun` bit by bit"""
    try:
        from cirbo.minimization.subcircuit import _PatternOperations
    except Exception as e:  # noqa: BLE001
        ctx.count('pattern_import_failed:' + type(e).__name__)
        return
    nary = ['AND', 'OR', 'XOR', 'NAND', 'NOR', 'NXOR']
    binary = ['GT', 'LT', 'GEQ', 'LEQ']
    reqs, code = [], []
    for _ in range(n):
        k = rng.randint(1, 4)
        ty = rng.choice(nary + nary + binary + ['NOT'])
        ar = 1 if ty == 'NOT' else (2 if ty in binary else rng.choice([2, 3, 3, 4, 5]))
        mx = (1 << (1 << k)) - 1
        ops = [rng.randint(0, mx) for _ in range(ar)]
        reqs.append({'op': 'pattern_eval', 'k': k, 'ty': ty, 'ops': ops})
        try:
            code.append({'ok': int(_PatternOperations(k).eval_pattern(list(ops), ty))})
        except Exception as e:  # noqa: BLE001
            code.append({'err': err_name(e)})
        ctx.case(json.dumps(['pat', k, ty, ops]))
    for r, a, b in zip(reqs, code, ctx.driver.ask_many(reqs)):
        if 'ok' in b and a != b:
            ctx.violation('pattern.wrong', f'eval_pattern({r["ops"]}, {r["ty"]}) on {r["k"]} leaves = {a}, '
                          f'the gate function bit by bit gives {b["ok"]}', input={'pattern': r})
        else:
            ctx.count('pattern_ok')


def tt_gate_oracle(ctx):
    """gates created from a truth-table code (`add_gate_from_tt`, the constructor every arithmetic
    generator uses): all 16 codes x all operand values, evaluated by every entry point, against the code itself"""
    try:
        from cirbo.core.circuit import Circuit
        from cirbo.synthesis.generation.arithmetics._utils import add_gate_from_tt
    except Exception:  # noqa: BLE001  (import problems are reported by C07's correspondence)
        return
    for code in [''.join(b) for b in itertools.product('01', repeat=4)]:
        ctx.case(json.dumps(['tt_gate', code]))
        try:
            c = Circuit.bare_circuit(2)
            x, y = c.inputs
            g = add_gate_from_tt(c, x, y, code)
            c.set_outputs([g])
            got = ''
            for a in (False, True):
                for b in (False, True):
                    v1 = c.evaluate([a, b])[0]
                    v2 = c.evaluate_full_circuit({x: a, y: b})[g]
                    v3 = c.evaluate_circuit({x: a, y: b})[g]
                    if not (v1 == v2 == v3):
                        got += '?'
                    else:
                        got += '1' if v1 is True else ('0' if v1 is False else '*')
        except Exception as e:  # noqa: BLE001
            ctx.violation('tt_gate.raises', f'add_gate_from_tt({code}) / its evaluation raised {err_name(e)}', input={'code': code})
            continue
        if got != code:
            ctx.violation('tt_gate.wrong', f'the gate created for truth table {code} evaluates to {got}', input={'code': code})


def search(ctx):
    """implementation only: every entry point's values vs the certified denotation"""
    rng = ctx.rng('search')
    tt_gate_oracle(ctx)
    pattern_oracle(ctx, ctx.rng('search-pattern'), ctx.scale(300, 4000))
    for k in range(ctx.scale(120, 3000)):
        j, info = gen.gen_circuit(rng, max_inputs=ctx.scale(4, 6), max_gates=ctx.scale(14, 30), max_arity=6)
        j = realize(j)
        ins, outs = j['inputs'], j['outputs']
        labels = [g[0] for g in j['gates']]
        nontriv = info['n_gates'] > info['n_inputs']
        creq, fulls = [], []
        bad = False
        for bits in itertools.product('FT', repeat=len(ins)):
            asg = [[i, v] for i, v in zip(ins, bits)]
            r = py_exec({'op': 'eval_full', 'c': j, 'asg': asg})
            ctx.case(json.dumps(['sf', j['gates'], ins, outs, bits]), nontriv)
            if 'err' in r:
                ctx.violation('eval_full.raises', f'evaluate_full_circuit raised {r["err"]} on a well-formed circuit',
                              input={'c': j, 'asg': asg})
                bad = True
                break
            fulls.append((bits, asg, dict(map(tuple, r['ok']))))
            creq.append({'op': 'check_valb', 'c': j, 'asg': asg, 'v': r['ok']})
        if bad:
            continue
        for (bits, asg, _), ans in zip(fulls, ctx.driver.ask_many(creq)):
            if ans.get('ok') is not True:
                bad = True
                ctx.violation('eval_full.wrong', 'evaluate_full_circuit is not the denotation (checkValB rejects it)',
                              input={'c': j, 'asg': asg})
        if bad:
            continue
        # all other entry points against the certified values
        tt = py_exec({'op': 'truth_table', 'c': j})
        gtt = py_exec({'op': 'gates_tt', 'c': j})
        for idx, (bits, asg, den) in enumerate(fulls):
            exp_out = [den[o] for o in outs]
            r = py_exec({'op': 'evaluate', 'c': j, 'vals': list(bits)})
            if r != {'ok': exp_out}:
                ctx.violation('evaluate.wrong', f'evaluate returned {r} expected {exp_out}', input={'c': j, 'vals': list(bits)})
            for oi in range(len(outs)):
                r = py_exec({'op': 'evaluate_at', 'c': j, 'vals': list(bits), 'idx': oi})
                if r != {'ok': exp_out[oi]}:
                    ctx.violation('evaluate_at.wrong', f'evaluate_at({oi}) returned {r} expected {exp_out[oi]}',
                                  input={'c': j, 'vals': list(bits), 'idx': oi})
            r = py_exec({'op': 'eval_lazy', 'c': j, 'asg': asg})
            if 'err' in r:
                ctx.violation('eval_lazy.raises', f'evaluate_circuit raised {r["err"]}', input={'c': j, 'asg': asg})
            else:
                got = dict(map(tuple, r['ok']))
                for l in labels:
                    if got.get(l) not in (den[l], 'U') or (l in outs and got.get(l) != den[l]):
                        ctx.violation('eval_lazy.wrong', f'evaluate_circuit: gate {l} = {got.get(l)}, denotation {den[l]}',
                                      input={'c': j, 'asg': asg})
            r = py_exec({'op': 'eval_outputs', 'c': j, 'asg': asg})
            if r.get('ok') is None or dict(map(tuple, r['ok'])) != {o: den[o] for o in outs}:
                ctx.violation('eval_outputs.wrong', f'evaluate_circuit_outputs returned {r}', input={'c': j, 'asg': asg})
            if 'ok' in tt:
                col = [row[idx] if idx < len(row) else '?' for row in tt['ok']]
                if col != exp_out:
                    ctx.violation('truth_table.wrong', f'get_truth_table column {idx} = {col}, expected {exp_out}',
                                  input={'c': j, 'column': idx})
            if 'ok' in gtt:
                g = dict(map(tuple, gtt['ok']))
                for l in labels:
                    if len(g.get(l, '')) <= idx or g[l][idx] != den[l]:
                        ctx.violation('gates_tt.wrong', f'get_gates_truth_table[{l}][{idx}] != {den[l]}',
                                      input={'c': j, 'gate': l, 'column': idx})
        if 'err' in tt and outs:
            ctx.violation('truth_table.raises', f'get_truth_table raised {tt["err"]}', input={'c': j})
        if 'err' in gtt:
            ctx.violation('gates_tt.raises', f'get_gates_truth_table raised {gtt["err"]}', input={'c': j})
        # bench conversion is another interpreter of gate types: it has to denote the same function
        if 'ok' in tt and outs:
            try:
                from common import build_via_api
                cb = build_via_api(j)
                cb.into_bench()
                tb = [''.join(v3s(x) for x in row) for row in cb.get_truth_table()]
                if tb != tt['ok']:
                    ctx.violation('into_bench.function', f'into_bench changed the truth table {tt["ok"]} -> {tb}', input={'c': j})
            except Exception as e:  # noqa: BLE001
                # which circuits into_bench accepts (e.g. constants need an input to hang on) is C14's clause
                ctx.count('into_bench_raised:' + type(e).__name__)
    edited_objects(ctx)
    deep_chains(ctx)
    cnf_template_oracle(ctx)


def deep_chains(ctx):
    """dependency chains of 1100..6000 gates (beyond any recursion depth CPython allows), stored sink first or shuffled:
    every entry point must still return the denotation — the reference is evaluate_full_circuit certified by the Lean
    checker, plus the harness's own fold along the chain"""
    rng = ctx.rng('deep')
    for depth in ctx.scale([1100, 3000], [1100, 1500, 3000, 6000]):
        types = ['AND', 'OR', 'XOR', 'NAND', 'NOR', 'NXOR', 'GT', 'LT', 'GEQ', 'LEQ', 'NOT', 'IFF']
        gates = [['a', 'INPUT', []], ['b', 'INPUT', []], ['g0', 'XOR', ['a', 'b']]]
        for i in range(1, depth):
            ty = rng.choice(types)
            prev = 'g%d' % (i - 1)
            if ty in ('NOT', 'IFF'):
                ops = [prev]
            else:
                other = rng.choice(['a', 'b', 'g%d' % rng.randrange(max(0, i - 3), i)])
                ops = [prev, other] if rng.random() < 0.5 else [other, prev]
            gates.append(['g%d' % i, ty, ops])
        order = rng.choice(['sink_first', 'shuffled', 'source_first'])
        body = gates[2:]
        if order == 'sink_first':
            body = body[::-1]
        elif order == 'shuffled':
            rng.shuffle(body)
        outs = ['g%d' % (depth - 1), 'g%d' % (depth // 2)]
        j = realize({'gates': gates[:2] + body, 'inputs': ['a', 'b'], 'outputs': outs, 'blocks': []})
        ctx.count('deep_chain:%d:%s' % (depth, order))
        creq, fulls = [], []
        for bits in itertools.product('FT', repeat=2):
            asg = [['a', bits[0]], ['b', bits[1]]]
            ctx.case(json.dumps(['deep', depth, order, bits, hash(json.dumps(gates))]), True)
            r = py_exec({'op': 'eval_full', 'c': j, 'asg': asg})
            if 'err' in r:
                ctx.violation('eval_full.raises', f'evaluate_full_circuit raised {r["err"]} on a chain of {depth} gates',
                              input={'deep_chain': {'depth': depth, 'order': order}, 'c': j, 'asg': asg})
                return
            fulls.append((bits, asg, dict(map(tuple, r['ok']))))
            creq.append({'op': 'check_valb', 'c': j, 'asg': asg, 'v': r['ok']})
        for (bits, asg, _), ans in zip(fulls, ctx.driver.ask_many(creq)):
            if ans.get('ok') is not True:
                ctx.violation('eval_full.wrong', f'evaluate_full_circuit is not the denotation on a chain of {depth} gates',
                              input={'c': j, 'asg': asg})
                return
        tt = py_exec({'op': 'truth_table', 'c': j})
        for idx, (bits, asg, den) in enumerate(fulls):
            exp_out = [den[o] for o in outs]
            inp = {'deep_chain': {'depth': depth, 'order': order}, 'c': j, 'asg': asg}
            for name, req, want in (
                    ('evaluate', {'op': 'evaluate', 'c': j, 'vals': list(bits)}, {'ok': exp_out}),
                    ('evaluate_at', {'op': 'evaluate_at', 'c': j, 'vals': list(bits), 'idx': 0}, {'ok': exp_out[0]})):
                r = py_exec(req)
                if r != want:
                    ctx.violation(name + '.wrong', f'{name} on a chain of {depth} gates returned {str(r)[:80]}, expected {want}', input=inp)
            r = py_exec({'op': 'eval_lazy', 'c': j, 'asg': asg})
            if 'err' in r:
                ctx.violation('eval_lazy.raises', f'evaluate_circuit raised {r["err"]} on a chain of {depth} gates', input=inp)
            elif any(dict(map(tuple, r['ok'])).get(o) != den[o] for o in outs):
                ctx.violation('eval_lazy.wrong', f'evaluate_circuit on a chain of {depth} gates: outputs differ from the denotation', input=inp)
            r = py_exec({'op': 'eval_outputs', 'c': j, 'asg': asg})
            if r.get('ok') is None or dict(map(tuple, r['ok'])) != {o: den[o] for o in outs}:
                ctx.violation('eval_outputs.wrong', f'evaluate_circuit_outputs on a chain of {depth} gates returned {str(r)[:80]}', input=inp)
            if 'ok' in tt:
                col = [row[idx] if idx < len(row) else '?' for row in tt['ok']]
                if col != exp_out:
                    ctx.violation('truth_table.wrong', f'get_truth_table column {idx} = {col}, expected {exp_out} (chain of {depth} gates)', input=inp)
        if 'err' in tt:
            ctx.violation('truth_table.raises', f'get_truth_table raised {tt["err"]} on a chain of {depth} gates',
                          input={'deep_chain': {'depth': depth, 'order': order}, 'c': j})


def cnf_template_oracle(ctx):
    """the CNF templates are another interpreter of gate types: for one gate of every type over operands that repeat
    once, twice, three and more times, the CNF plus an input assignment is satisfiable exactly when the gate evaluates
    to True"""
    from props.c05 import py_tseytin, sat
    from common import with_users
    rng = ctx.rng('cnf-templates')
    cases = []
    for t in gen.SYM_NARY:
        for ops in (['a', 'a'], ['a', 'a', 'a'], ['a', 'b', 'a', 'a'], ['a', 'a', 'a', 'b', 'b'], ['b', 'a', 'a', 'a', 'a', 'a'],
                    ['a', 'b', 'c', 'b', 'b'], [rng.choice('abc') for _ in range(7)]):
            cases.append((t, ops))
    for t in gen.CMP + gen.LR:
        cases += [(t, ['a', 'a']), (t, ['a', 'b']), (t, ['b', 'a'])]
    for t, ops in cases:
        j = with_users({'gates': [['a', 'INPUT', []], ['b', 'INPUT', []], ['c', 'INPUT', []], ['g', t, ops]],
                        'inputs': ['a', 'b', 'c'], 'outputs': ['g'], 'blocks': []})
        ctx.case(json.dumps(['cnf_template', t, ops]))
        r = py_tseytin(j, None)
        if 'err' in r:
            ctx.violation('cnf_template.raises', f'tseytin_transformation raised {r["err"]} on {t}{ops}', input={'c': j})
            continue
        cnf, lits = r['ok']['cnf'], dict(map(tuple, r['ok']['lits']))
        for bits in itertools.product('FT', repeat=3):
            ev = py_exec({'op': 'evaluate', 'c': j, 'vals': list(bits)})
            units = [[lits[i]] if b == 'T' else [-lits[i]] for i, b in zip(['a', 'b', 'c'], bits) if i in lits]
            if (sat(cnf + units) is not None) != (ev.get('ok') == ['T']):
                ctx.violation('cnf_template.wrong', f'CNF of {t}{ops} under inputs {bits}: satisfiable={sat(cnf + units) is not None}, '
                              f'evaluation gives {ev}', input={'c': j, 'assignment': list(bits)})
                break
        else:
            ctx.count('cnf_template:ok')


def snapshot(c):
    """every entry point on this very object, over all total assignments"""
    from common import v3p
    ins = list(c.inputs)
    out = {}
    for bits in itertools.product('FT', repeat=len(ins)):
        asg = {i: v3p(b) for i, b in zip(ins, bits)}
        out['full', bits] = sorted((k, v3s(v)) for k, v in c.evaluate_full_circuit(dict(asg)).items())
        out['outs', bits] = sorted((k, v3s(v)) for k, v in c.evaluate_circuit_outputs(dict(asg)).items())
        out['evaluate', bits] = [v3s(x) for x in c.evaluate([v3p(b) for b in bits])]
    out['gates_tt'] = sorted((k, ''.join(v3s(x) for x in v)) for k, v in c.get_gates_truth_table().items())
    if c.outputs:
        out['tt'] = [''.join(v3s(x) for x in row) for row in c.get_truth_table()]
    return out


def edited_objects(ctx):
    """one Circuit object, queried, edited through the public API, queried again: after every edit each entry
    point must answer as a circuit freshly built from the object's current gates does (whose answers the main
    stream checks against the denotation)"""
    from common import circ_from_json, circ_to_json
    from cirbo.core.circuit import gate as G
    rng = ctx.rng('edits')
    types2 = [G.AND, G.OR, G.XOR, G.NAND, G.NOR, G.NXOR, G.GT, G.LT, G.GEQ, G.LEQ, G.LIFF, G.RIFF, G.LNOT, G.RNOT]
    for k in range(ctx.scale(60, 1500)):
        j, info = gen.gen_circuit(rng, max_inputs=4, max_gates=10, max_arity=4, min_inputs=1)
        j = realize(j)
        c = circ_from_json(j)
        edits = []
        try:
            first = snapshot(c)
        except Exception:  # noqa: BLE001
            continue
        # the same circuit as a shallow copy, a deep copy and after a pickle round trip (gate types that are equal to
        # the module's constants without being the same objects): every entry point answers alike
        import copy as _copy
        import pickle as _pickle
        for how, mk in (('copy', _copy.copy), ('deepcopy', _copy.deepcopy), ('pickle', lambda x: _pickle.loads(_pickle.dumps(x)))):
            ctx.case(json.dumps(['copied', how, j['gates'], j['outputs']]))
            try:
                other = snapshot(mk(c))
            except Exception as e:  # noqa: BLE001
                ctx.violation('eval.copied_object_raises', f'evaluation of a {how} of the circuit raised {err_name(e)}', input={'c': j, 'how': how})
                continue
            if other != first:
                key = sorted(str(x) for x in first if first.get(x) != other.get(x))[0]
                ctx.violation('eval.copied_object', f'a {how} of the circuit answers {key} differently from the circuit itself', input={'c': j, 'how': how})
            else:
                ctx.count('copied:' + how)
        for step in range(rng.randint(1, 4)):
            labels = list(c.gates)
            non_in = [l for l in labels if c.get_gate(l).gate_type != G.INPUT]
            kind = rng.choice(['redefine', 'redefine', 'rename', 'rename_input', 'outputs', 'add'])
            try:
                if kind == 'redefine':
                    # a gate nobody uses is removed and defined anew under the same label (the gate count stays)
                    free = [l for l in non_in if not c.get_gate_users(l) and l not in c.outputs]
                    if not free:
                        continue
                    l = rng.choice(free)
                    ops = [rng.choice([x for x in labels if x != l]) for _ in range(2)]
                    t = rng.choice(types2)
                    c.remove_gate(l)
                    c.emplace_gate(l, t, tuple(ops))
                    c.mark_as_output(l)
                    edits.append(['redefine', l, t.name, ops])
                elif kind == 'rename' and non_in:
                    l = rng.choice(non_in)
                    c.rename_gate(l, 'rn%d_%s' % (step, l))
                    edits.append(['rename', l])
                elif kind == 'rename_input':
                    l = rng.choice(list(c.inputs))
                    c.rename_gate(l, 'ri%d_%s' % (step, l))
                    edits.append(['rename', l])
                elif kind == 'outputs':
                    outs = [rng.choice(labels) for _ in range(rng.randint(1, 3))]
                    c.set_outputs(outs)
                    edits.append(['set_outputs', outs])
                else:
                    l = 'new%d' % step
                    ops = [rng.choice(labels) for _ in range(2)]
                    t = rng.choice(types2)
                    c.emplace_gate(l, t, tuple(ops))
                    c.mark_as_output(l)
                    edits.append(['add', l, t.name, ops])
            except Exception as e:  # noqa: BLE001
                ctx.count('edit_refused:' + type(e).__name__)
                break
            now = circ_to_json(c)
            ctx.case(json.dumps(['edited', j['gates'], j['outputs'], edits]))
            try:
                same = snapshot(c)
            except Exception as e:  # noqa: BLE001
                ctx.violation('eval.after_edit_raises', f'evaluation of an edited circuit object raised {err_name(e)}',
                              input={'c': j, 'edits': edits})
                break
            fresh = snapshot(circ_from_json(now))
            if same != fresh:
                key = sorted(str(x) for x in same if same.get(x) != fresh.get(x))[0]
                ctx.violation('eval.stale_after_edit', f'after {edits[-1]} the object answers {key} differently from a circuit '
                              'built afresh from the same gates', input={'c': j, 'edits': edits, 'now': now})
                break
            ctx.count('edited:' + kind)


def replay(ctx, rp):
    v = rp.get('violation') or {}
    inp = v.get('input') or {}
    if 'c' in inp:
        for op in ('eval_full', 'eval_lazy', 'truth_table', 'gates_tt'):
            req = {'op': op, 'c': inp['c'], 'asg': inp.get('asg', [])}
            print(op, '->', py_exec(req))
    search(ctx)
