"""C18 — simplification passes achieve their stated effect; pipelines equal sequencing."""
import json

from props.evalcommon import py_exec
from props.mutcommon import canon_state
from props.passcommon import py_passes, gen_spec, gen_pass_circuit, LEAVES
from props import c03

RULE = ('random circuits (as C03, plus circuits whose unary gates are all negations / all buffers) x {RRG, RRG with '
        'input removal, applied once and twice; MDG; MEG; MUO} postconditions, and pipeline shapes (nested |, '
        'compositions, lists, repeated RRG with equal/different flags, implied post-passes, cleanup) vs applying the '
        'constituents one after another; compared as circuits; non-trivial = >=3 non-input gates; distinct by '
        '(circuit, pipeline)')
ASSUMPTIONS = ['argument circuits are well formed (WFU)']
TRUSTED = ['search oracle: reachability, signature and truth-table class computations in the harness (Python) on the '
           'implementation\'s outputs; truth tables via the real evaluator (C01)']

correspondence = c03.correspondence      # same model/code stream (passes and pipelines)


def flatten(spec):
    if isinstance(spec, str):
        return [spec]
    if spec[0] == 'or':
        return flatten(spec[1]) + flatten(spec[2])
    if spec[0] == 'user':
        # declared pre-passes, the body (that of RemoveRedundantGates), declared post-passes — each a
        # constituent pass applied with its own implied passes
        return [x for s in spec[1] for x in flatten(s)] + ['RRG'] + [x for s in spec[2] for x in flatten(s)]
    return [x for s in spec[1] for x in flatten(s)]


def same(a, b):
    return {g[0]: (g[1], tuple(g[2])) for g in a['gates']} == {g[0]: (g[1], tuple(g[2])) for g in b['gates']} \
        and len(a['gates']) == len(b['gates']) and a['inputs'] == b['inputs'] and a['outputs'] == b['outputs']


SYM = {'AND', 'OR', 'XOR', 'NAND', 'NOR', 'NXOR', 'NOT', 'IFF', 'ALWAYS_TRUE', 'ALWAYS_FALSE', 'INPUT'}


def unary_variant(rng, j, kind):
    """make all unary gates negations (kind='not') or buffers (kind='iff')"""
    j = json.loads(json.dumps(j))
    for g in j['gates']:
        if g[1] in ('NOT', 'IFF', 'LNOT', 'RNOT', 'LIFF', 'RIFF'):
            first = g[2][0] if g[1] not in ('RNOT', 'RIFF') else g[2][1]
            g[1] = 'NOT' if kind == 'not' else 'IFF'
            g[2] = [first]
    from common import realize
    return realize({'gates': j['gates'], 'inputs': j['inputs'], 'outputs': j['outputs']})


def search(ctx):
    rng = ctx.rng('search')
    for k in range(ctx.scale(60, 1500)):
        j, info = gen_pass_circuit(ctx, rng)
        ops = {g[0]: g[2] for g in j['gates']}
        nontriv = sum(1 for g in j['gates'] if g[1] != 'INPUT') >= 3
        # --- RRG: exactly the reachable gates (+ inputs), idempotent
        reach, st = set(), list(j['outputs'])
        while st:
            x = st.pop()
            if x not in reach:
                reach.add(x)
                st += ops[x]
        for t, keep_inputs in (('RRG', True), ('RRG+', False)):
            ctx.case(json.dumps(['rrg', t, j['gates'], j['outputs']]), nontriv)
            r = py_passes({'c': j, 'mode': 'transform', 't': t})
            if 'err' in r:
                ctx.violation('rrg.raises', f'{t} raised {r["err"]}', input={'c': j, 't': t})
                continue
            got = {g[0] for g in r['ok']['gates']}
            want = reach | (set(j['inputs']) if keep_inputs else set())
            if got != want:
                ctx.violation('rrg.exact', f'{t}: kept {sorted(got ^ want)} wrongly', input={'c': j, 't': t})
            r2 = py_passes({'c': r['ok'], 'mode': 'transform', 't': t})
            if 'err' in r2 or not same(r2['ok'], r['ok']):
                ctx.violation('rrg.idempotent', f'{t} applied twice differs from once', input={'c': j, 't': t})
        # --- MDG: no two gates with the same type and operands (multiset for symmetric types)
        r = py_passes({'c': j, 'mode': 'transform', 't': 'MDG'})
        ctx.case(json.dumps(['mdg', j['gates'], j['outputs']]), nontriv)
        if 'ok' in r:
            seen = {}
            for l, t, o in r['ok']['gates']:
                if t == 'INPUT':
                    continue
                sig = (t, tuple(sorted(o)) if t in SYM else tuple(o))
                if sig in seen:
                    ctx.violation('mdg.duplicates_left', f'gates {seen[sig]} and {l} have the same type and operands after MDG',
                                  input={'c': j, 't': 'MDG'})
                    break
                seen[sig] = l
        # --- MEG: no two non-input gates with the same truth table
        if len(j['inputs']) <= 5:
            r = py_passes({'c': j, 'mode': 'transform', 't': 'MEG'})
            ctx.case(json.dumps(['meg', j['gates'], j['outputs']]), nontriv)
            if 'ok' in r:
                gtt = py_exec({'op': 'gates_tt', 'c': r['ok']})
                types = {g[0]: g[1] for g in r['ok']['gates']}
                if 'ok' in gtt:
                    seen = {}
                    for l, tt in gtt['ok']:
                        if types[l] == 'INPUT':
                            continue
                        if tt in seen:
                            ctx.violation('meg.equivalent_left', f'gates {seen[tt]} and {l} have the same truth table after MEG',
                                          input={'c': j, 't': 'MEG'})
                            break
                        seen[tt] = l
        # --- MUO under its hypotheses
        for kind in ('not', 'iff'):
            jv = unary_variant(rng, j, kind)
            r = py_passes({'c': jv, 'mode': 'transform', 't': 'MUO'})
            ctx.case(json.dumps(['muo', kind, jv['gates'], jv['outputs']]), nontriv)
            if 'err' in r:
                ctx.violation('muo.raises', f'MUO raised {r["err"]}', input={'c': jv, 't': 'MUO'})
                continue
            types = {g[0]: g[1] for g in r['ok']['gates']}
            for l, t, o in r['ok']['gates']:
                if kind == 'not' and t == 'NOT' and types[o[0]] == 'NOT':
                    ctx.violation('muo.double_negation', f'{l} = NOT({o[0]}) and {o[0]} is a NOT after MUO', input={'c': jv, 't': 'MUO'})
                    break
                if kind == 'iff' and any(types[x] == 'IFF' for x in o):
                    ctx.violation('muo.buffer_operand', f'{l} still has a buffer operand after MUO', input={'c': jv, 't': 'MUO'})
                    break
            if kind == 'iff' and any(types[x] == 'IFF' for x in r['ok']['outputs']):
                ctx.violation('muo.buffer_output', 'an output is still a buffer after MUO', input={'c': jv, 't': 'MUO'})
        # --- pipelines = sequencing
        for _ in range(ctx.scale(4, 8)):
            heavy = len(j['inputs']) <= 5
            spec = gen_spec(rng, heavy=heavy, user=True)
            mode = rng.choice(['transform', 'apply'])
            if mode == 'transform':
                req = {'c': j, 'mode': 'transform', 't': spec}
                leaves = flatten(spec)
            else:
                specs = [gen_spec(rng, heavy=heavy, user=True) for _ in range(rng.randint(1, 3))]
                req = {'c': j, 'mode': 'apply', 'ts': specs}
                leaves = [x for s in specs for x in flatten(s)]
            ctx.case(json.dumps(['pipe', j['gates'], j['outputs'], req.get('t'), req.get('ts')]), nontriv)
            got = py_passes(req)
            cur = {'ok': j}
            for lf in leaves:
                cur = py_passes({'c': cur['ok'], 'mode': 'transform', 't': lf})
                if 'err' in cur:
                    break
            if 'err' in got or 'err' in cur:
                if got.get('err') != cur.get('err'):
                    ctx.violation('pipeline.error', f'pipeline {got.get("err")} vs sequencing {cur.get("err")}', input=req)
                continue
            if not leaves:
                continue
            if not same(got['ok'], cur['ok']):
                ctx.violation('pipeline.sequencing', f'pipeline result differs from applying {leaves} one after another', input=req)
                continue
            if mode == 'transform':
                # the same pipeline object used a second time, and used twice inside one composition
                from props.passcommon import mk_tr
                from common import circ_from_json, circ_to_json
                from cirbo.core.circuit.transformer import TransformerComposition
                try:
                    t = mk_tr(spec)
                    t.transform(circ_from_json(j))
                    second = circ_to_json(t.transform(circ_from_json(j)))
                    twice = circ_to_json(TransformerComposition([t, t]).transform(circ_from_json(j)))
                except Exception as e:  # noqa: BLE001
                    ctx.violation('pipeline.reuse_raises', f'a pipeline object used again raised {type(e).__name__}', input=req)
                    continue
                cur2 = cur
                for lf in leaves:
                    cur2 = py_passes({'c': cur2['ok'], 'mode': 'transform', 't': lf})
                    if 'err' in cur2:
                        break
                if not same(second, cur['ok']):
                    ctx.violation('pipeline.second_use', f'the second use of one pipeline object differs from applying {leaves} one after another', input=req)
                elif 'ok' in cur2 and not same(twice, cur2['ok']):
                    ctx.violation('pipeline.nested_reuse', 'a pipeline object listed twice in a composition differs from applying its passes twice', input=req)
                else:
                    ctx.count('pipeline:object_reused')
        # idempotent passes separated by another idempotent pass (a user-defined one): nothing may be dropped
        if j['outputs']:
            for leaves in (['RRG+', 'KEEP1', 'RRG+'], ['RRG', 'KEEP1', 'RRG'], ['KEEP1', 'RRG', 'KEEP1', 'RRG+']):
                for req in ({'c': j, 'mode': 'transform', 't': ['comp', leaves]}, {'c': j, 'mode': 'apply', 'ts': leaves}):
                    ctx.case(json.dumps(['idem', j['gates'], j['outputs'], req['mode'], leaves]), nontriv)
                    got = py_passes(req)
                    cur = {'ok': j}
                    for lf in leaves:
                        cur = py_passes({'c': cur['ok'], 'mode': 'transform', 't': lf})
                        if 'err' in cur:
                            break
                    if 'ok' in got and 'ok' in cur and not same(got['ok'], cur['ok']):
                        ctx.violation('pipeline.sequencing', f'pipeline result differs from applying {leaves} one after another', input=req)
                    elif ('err' in got) != ('err' in cur):
                        ctx.violation('pipeline.error', f'pipeline {got.get("err")} vs sequencing {cur.get("err")}', input=req)
                    else:
                        ctx.count('pipeline:idempotent_interleaved')
        for heavy in (False, True):
            if heavy and len(j['inputs']) > 5:
                continue
            got = py_passes({'c': j, 'mode': 'cleanup', 'heavy': heavy})
            cur = {'ok': j}
            for lf in ['RRG', 'MUO', 'MDG'] + (['MEG'] if heavy else []):
                cur = py_passes({'c': cur['ok'], 'mode': 'transform', 't': lf})
                if 'err' in cur:
                    break
            if 'ok' in got and 'ok' in cur and not same(got['ok'], cur['ok']):
                ctx.violation('cleanup.sequencing', 'cleanup differs from applying its passes one after another',
                              input={'c': j, 'mode': 'cleanup', 'heavy': heavy})


def replay(ctx, rp):
    search(ctx)
