"""C10 — circuit composition computes the documented functional composition."""
import itertools
import json

import gen
from common import realize, circ_from_json, circ_to_json, err_name
from props.evalcommon import py_exec
from props.histgen import small_other
from props.mutcommon import compare_mutate, py_mutate, check_wf

RULE = ('pairs (base, other) of random circuits x connector choices (internal base gates, repeated base gates, '
        'repeated attached gates, partial lists, empty; bases that already own a copy label `name@x`) x {left, right} x wrappers (connect_left/right/inputs, extend_circuit, add_circuit) x '
        'name/prefix options x 1..3 successive compositions; then evaluation of the result on all assignments, '
        'copy, block extraction; non-trivial = both circuits have >=1 non-input gate; distinct by request')
ASSUMPTIONS = ['both operands well formed (WFU)']
TRUSTED = ['search oracle: composition of the two operands\' evaluations (real evaluator, certified in C01) computed '
           'in the harness; Lean checkWFU on the result']


def gen_pair(ctx, rng):
    j, info = gen.gen_circuit(rng, max_inputs=3, max_gates=8, min_inputs=1, blocks=(rng.random() < 0.2))
    base = realize(j)
    other = small_other(rng, rng.choice(['o', 'p']))
    return base, other


def gen_connect(rng, base, other, allow_repeated_other=False):
    right = rng.random() < 0.45
    blabels = [g[0] for g in base['gates']]
    olabels = [g[0] for g in other['gates']]
    if right:
        k = rng.randint(0, len(base['inputs']))
        thisc = rng.sample(base['inputs'], k)
        otherc = rng.sample(olabels, min(k, len(olabels)))
        thisc = thisc[:len(otherc)]
        if len(otherc) >= 2 and rng.random() < 0.3:
            otherc[1] = otherc[0]        # one gate of the attached circuit feeding two base inputs: refused
    else:
        k = rng.randint(0, len(other['inputs']))
        otherc = rng.sample(other['inputs'], k)
        thisc = [rng.choice(blabels) for _ in otherc]
    name = rng.choice(['', '', 'blk', 'Sub'])
    return ['connect', other, thisc, otherc, right, name, rng.random() < 0.7]


def add_clash(rng, base, st):
    """the base with one more gate (an output) whose label is the prefixed copy label of a non-connector gate of the
    attached circuit — what a BENCH round trip or `delete_block` followed by reuse of the block name leaves behind.
    The composition must not be returned with that gate redefined."""
    d = documented(base, st)
    _, other, thisc, otherc, right, name, addp = d
    if not (name != '' and addp):
        return base
    cands = [g[0] for g in other['gates'] if g[0] not in otherc]
    if not cands:
        return base
    lab = name + '@' + rng.choice(cands)
    blabels = [g[0] for g in base['gates']]
    if lab in blabels:
        return base
    a, b = rng.choice(blabels), rng.choice(blabels)
    j = {'gates': [list(g) for g in base['gates']] + [[lab, rng.choice(['NOR', 'XOR', 'NAND']), [a, b]]],
         'inputs': list(base['inputs']), 'outputs': list(base['outputs']) + [lab], 'blocks': [list(b) for b in base.get('blocks', [])]}
    try:
        return realize(j)
    except Exception:  # noqa: BLE001
        return base


def wrapper_step(rng, base, other):
    """the five wrappers, called as a user calls them (step kind 'wrap'); defaults are left to the wrapper"""
    w = rng.choice(['connect_left', 'connect_right', 'connect_inputs', 'extend', 'extend', 'add'])
    name = rng.choice(['', 'W'])
    addp = rng.random() < 0.8
    blabels = [g[0] for g in base['gates']]
    olabels = [g[0] for g in other['gates']]
    if w == 'connect_left':
        return ['wrap', w, other, [rng.choice(blabels) for _ in other['inputs']], None, False, name, addp]
    if w == 'connect_right' and len(olabels) >= len(base['inputs']):
        return ['wrap', w, other, None, rng.sample(olabels, len(base['inputs'])), True, name, addp]
    if w == 'connect_inputs':
        return ['wrap', w, other, None, None, True, name, addp]
    if w == 'extend':
        right = rng.random() < 0.3
        kind = rng.choice(['defaults', 'defaults', 'empty', 'explicit', 'half'])
        if kind == 'defaults':
            return ['wrap', w, other, None, None, right, name, addp]
        if kind == 'empty':          # explicit empty connector lists: side by side
            return ['wrap', w, other, [], [], right, name, addp]
        if kind == 'half':           # one default, one explicit
            if right:
                return ['wrap', w, other, None, rng.sample(olabels, min(len(olabels), len(base['inputs']))), right, name, addp]
            return ['wrap', w, other, [rng.choice(blabels) for _ in other['inputs']], None, right, name, addp]
        if right:
            k = rng.randint(0, min(len(base['inputs']), len(olabels)))
            return ['wrap', w, other, rng.sample(base['inputs'], k), rng.sample(olabels, k), right, name, addp]
        k = rng.randint(0, len(other['inputs']))
        oc = rng.sample(other['inputs'], k)
        return ['wrap', w, other, [rng.choice(blabels) for _ in oc], oc, right, name, addp]
    return ['wrap', 'add', other, None, None, False, name, addp]


def documented(base, st):
    """the `connect_circuit` call a step stands for, by the wrappers' documentation"""
    if st[0] == 'connect':
        return st
    _, which, other, thisc, otherc, right, name, addp = st
    if which == 'connect_left':
        return ['connect', other, list(thisc), list(other['inputs']), False, name, addp]
    if which == 'connect_right':
        return ['connect', other, list(base['inputs']), list(otherc), True, name, addp]
    if which == 'connect_inputs':
        return ['connect', other, list(base['inputs']), list(other['inputs']), True, name, addp]
    if which == 'extend':
        t = list(thisc) if thisc is not None else list(base['inputs'] if right else base['outputs'])
        o = list(otherc) if otherc is not None else list(other['outputs'] if right else other['inputs'])
        return ['connect', other, t, o, right, name, addp]
    return ['connect', other, [], [], False, name, addp]


def correspondence(ctx):
    rng = ctx.rng('corr')
    reqs = []
    for k in range(ctx.scale(400, 10000)):
        base, other = gen_pair(ctx, rng)
        steps = []
        cur_base = base
        for _ in range(rng.choice([1, 1, 2, 3])):
            other = small_other(rng, rng.choice(['o', 'p', 'q', 'r']))
            steps.append(gen_connect(rng, cur_base, other) if rng.random() < 0.7 else wrapper_step(rng, cur_base, other))
        if len(steps) == 1 and rng.random() < 0.06:
            base = add_clash(rng, base, steps[0])
        # half of the histories end by extracting the last named block as a circuit, the others by a copy
        last = steps[-1]
        bname = last[5] if last[0] == 'connect' else last[6]
        if bname and rng.random() < 0.5:
            steps.append(['into_circuit', bname])
            ctx.count('ends:into_circuit')
        else:
            steps.append(['copy'])
        reqs.append({'op': 'mutate', 'c': base, 'steps': steps})
        ctx.case(json.dumps([base['gates'], steps]))
        if k < 1:
            ctx.sample({'base': base, 'steps': steps})
    compare_mutate(ctx, 'connect', reqs)


def evalf(j, asg):
    r = py_exec({'op': 'eval_full', 'c': j, 'asg': [[k, v] for k, v in asg.items()]})
    return dict(map(tuple, r['ok'])) if 'ok' in r else None


def expected_composition(base, other, st, bits_for):
    """value of every output of the documented composition under an assignment of its inputs"""
    _, _, thisc, otherc, right, name, addp = st
    pre = name + '@' if (name != '' and addp) else ''
    if right:
        # an attached *input* that is a connector is identified with the base input (stays an input)
        ov = evalf(other, {i: (bits_for[thisc[otherc.index(i)]] if i in otherc else bits_for[pre + i]) for i in other['inputs']})
        if ov is None:
            return None
        basg = {}
        for i in base['inputs']:
            basg[i] = ov[otherc[thisc.index(i)]] if i in thisc else bits_for[i]
        bv = evalf(base, basg)
    else:
        bv = evalf(base, {i: bits_for[i] for i in base['inputs']})
        if bv is None:
            return None
        oasg = {}
        for i in other['inputs']:
            oasg[i] = bv[thisc[otherc.index(i)]] if i in otherc else bits_for[pre + i]
        ov = evalf(other, oasg)
    if bv is None or ov is None:
        return None
    outs = [bv[o] for o in base['outputs'] if o not in thisc] + [ov[o] for o in other['outputs'] if o not in otherc]
    return outs


def search(ctx):
    rng = ctx.rng('search')
    wf_states, wf_origin = [], []
    for k in range(ctx.scale(300, 8000)):
        base, other = gen_pair(ctx, rng)
        st_run = gen_connect(rng, base, other) if rng.random() < 0.7 else wrapper_step(rng, base, other)
        if rng.random() < 0.08:
            nb = add_clash(rng, base, st_run)
            if nb is not base:
                base = nb
                ctx.count('directed:copy_label_taken')
        st = documented(base, st_run)
        other = st[1]
        _, _, thisc, otherc, right, name, addp = st
        if right and len(set(otherc)) != len(otherc):
            ctx.count('directed:repeated_right_connector')
        if st_run[0] == 'wrap':
            ctx.count('wrapper:' + st_run[1])
        nontriv = any(g[1] != 'INPUT' for g in base['gates']) and any(g[1] != 'INPUT' for g in other['gates'])
        ctx.case(json.dumps(['s', base['gates'], st]), nontriv)
        r = py_mutate({'c': base, 'steps': [st_run]})['ok'][0]
        pre = name + '@' if (name != '' and addp) else ''
        clash = bool({g[0] for g in base['gates']} & {pre + g[0] for g in other['gates'] if g[0] not in otherc})
        if 'err' in r:
            ctx.count('connect:' + r['err'])
            if r['err'] == 'Py:AssertionError':
                ctx.violation('connect.modifies_other', 'attached circuit was modified', input={'base': base, 'step': st_run})
            elif not clash and r['err'] not in ('CircuitValidationError', 'CreateBlockError'):
                ctx.violation('connect.raises', f'connect_circuit raised {r["err"]}', input={'base': base, 'step': st_run})
            continue
        ctx.count('connect:ok:' + ('right' if right else 'left'))
        if k % 2 == 0:
            aliasing_probe(ctx, base, st_run)
        # interface
        otype = {g[0]: g[1] for g in other['gates']}
        exp_in = [i for i in base['inputs'] if not (right and i in thisc and otype[otherc[thisc.index(i)]] != 'INPUT')] \
            + [pre + i for i in other['inputs'] if i not in otherc]
        exp_out = [o for o in base['outputs'] if o not in thisc] + [pre + o for o in other['outputs'] if o not in otherc]
        if r['inputs'] != exp_in or r['outputs'] != exp_out:
            ctx.violation('connect.interface', f'inputs/outputs {r["inputs"]}/{r["outputs"]}, documented {exp_in}/{exp_out}',
                          input={'base': base, 'step': st_run})
            continue
        wf_states.append(r); wf_origin.append((base, st_run))
        if len(exp_in) <= 6:
            for bits in itertools.product('FT', repeat=len(exp_in)):
                bf = dict(zip(exp_in, bits))
                want = expected_composition(base, other, st, bf)
                got = py_exec({'op': 'evaluate', 'c': r, 'vals': list(bits)})
                if want is None:
                    break
                if got != {'ok': want}:
                    ctx.violation('connect.function', f'composition evaluates to {got}, documented composition gives {want}',
                                  input={'base': base, 'step': st_run, 'assignment': list(bits)})
                    break
        # block extraction gives back the attached circuit's function
        # (right direction: only when no gate of the attached circuit feeds two base inputs — the
        # documented composition identifies connector pairs one to one)
        if name != '' and len(set(thisc)) == len(thisc) and (not right or len(set(otherc)) == len(otherc)):
            try:
                c = circ_from_json(r)
                ex = circ_to_json(c.get_block(name).into_circuit())
                if len(other['inputs']) <= 5:
                    t1 = py_exec({'op': 'truth_table', 'c': other})
                    t2 = py_exec({'op': 'truth_table', 'c': ex})
                    if 'ok' in t1 and t1 != t2:
                        ctx.violation('connect.block_extraction', f'extracted block computes {t2}, attached circuit {t1}',
                                      input={'base': base, 'step': st_run})
            except Exception as e:  # noqa: BLE001
                if True:
                    ctx.violation('connect.block_extraction_raises', f'Block.into_circuit raised {err_name(e)}', input={'base': base, 'step': st_run})
    for (base, st), verdict in zip(wf_origin, check_wf(ctx, wf_states)):
        if verdict != 'ok':
            ctx.violation('connect.not_wellformed', f'after connect_circuit: {verdict}', input={'base': base, 'step': st_run})


def aliasing_probe(ctx, base, st_run):
    """the composition shares no list with the attached circuit: editing the result afterwards (renaming its gates)
    leaves the attached circuit as it was, and editing the attached circuit afterwards leaves the recorded block as
    it was"""
    from props.mutcommon import apply_step
    import props.mutcommon as M
    try:
        c = circ_from_json(base)
        st = documented(base, st_run)
        other = circ_from_json(st[1])
        before = circ_to_json(other)
        c.connect_circuit(other, list(st[2]), list(st[3]), right_connect=st[4], name=st[5], add_prefix=st[6])
    except Exception:  # noqa: BLE001
        return
    ctx.count('aliasing_probe')
    name = st[5]
    blk_before = None
    if name:
        b = c.get_block(name)
        blk_before = (list(b.inputs), sorted(b.gates), list(b.outputs))
    # (1) edit the attached circuit
    try:
        for l in list(other.gates)[:2]:
            other.mark_as_output(l)
            if other.get_gate(l).gate_type.name != 'INPUT':
                other.rename_gate(l, 'later_' + l)
    except Exception:  # noqa: BLE001
        pass
    if name:
        b = c.get_block(name)
        if (list(b.inputs), sorted(b.gates), list(b.outputs)) != blk_before:
            ctx.violation('connect.shares_state', 'editing the attached circuit after the composition changed the block recorded in the result',
                          input={'base': base, 'step': st_run})
            return
    # (2) rename the gates of the result
    other2 = circ_from_json(st[1])
    c2 = circ_from_json(base)
    try:
        c2.connect_circuit(other2, list(st[2]), list(st[3]), right_connect=st[4], name=st[5], add_prefix=st[6])
        for l in list(c2.gates):
            c2.rename_gate(l, 'rn~' + l)
    except Exception:  # noqa: BLE001
        return
    if circ_to_json(other2) != before:
        ctx.violation('connect.shares_state', 'renaming gates of the result modified the attached circuit', input={'base': base, 'step': st_run})


def replay(ctx, rp):
    v = rp.get('violation') or {}
    inp = v.get('input') or {}
    if 'base' in inp:
        print(json.dumps(py_mutate({'c': inp['base'], 'steps': [inp['step']]}))[:1500])
    search(ctx)
