"""C12 — all function representations answer every protocol query alike and correctly."""
import copy
import itertools
import json

import gen
from common import realize, circ_from_json, err_name

RULE = ('all functions {0,1}^n -> {0,1}^m exhaustively for (n,m) in {(0,1),(1,1),(1,2),(2,1),(2,2)} and (3,1) '
        '(quick: sampled beyond n=2), sampled n<=4, m<=3 x three representations (Circuit synthesised as a '
        'sum of products, TruthTable, PyFunction incl. callables returning their argument object / tuples) x '
        'all 12 protocol queries with all index arguments and both `inverse` values x negation search on '
        'output subsets; plus model completion and integer-function wrappers; non-trivial = n>=1; '
        'distinct = distinct (representation, table)')
ASSUMPTIONS = ['functions are total with the declared sizes; m >= 1']
TRUSTED = ['search oracle: brute-force mathematical definitions in the harness (Python) over the truth table']


def table_of(bits_rows):
    return [''.join('1' if b else '0' for b in r) for r in bits_rows]


def mk_circuit_json(n, rows):
    """a circuit computing the table (sum of minterms; constants via ALWAYS_*), labels x0.."""
    gates = [[f'x{i}', 'INPUT', []] for i in range(n)]
    outs = []
    cnt = [0]

    def fresh():
        cnt[0] += 1
        return f't{cnt[0]}'
    for o, r in enumerate(rows):
        ones = [i for i, b in enumerate(r) if b]
        if not ones:
            l = fresh(); gates.append([l, 'ALWAYS_FALSE', []]); outs.append(l); continue
        if len(ones) == len(r):
            l = fresh(); gates.append([l, 'ALWAYS_TRUE', []]); outs.append(l); continue
        # a projection (or its complement): the output is the input gate itself (a NOT of it)
        proj = [i for i in range(n) if all(bool(r[idx]) == bool((idx >> (n - 1 - i)) & 1) for idx in range(len(r)))]
        nproj = [i for i in range(n) if all(bool(r[idx]) != bool((idx >> (n - 1 - i)) & 1) for idx in range(len(r)))]
        if proj:
            outs.append(f'x{proj[0]}'); continue
        if nproj:
            l = fresh(); gates.append([l, 'NOT', [f'x{nproj[0]}']]); outs.append(l); continue
        terms = []
        for idx in ones:
            lits = []
            for i in range(n):
                bit = (idx >> (n - 1 - i)) & 1
                if bit:
                    lits.append(f'x{i}')
                else:
                    l = fresh(); gates.append([l, 'NOT', [f'x{i}']]); lits.append(l)
            if len(lits) == 1:
                terms.append(lits[0])
            else:
                l = fresh(); gates.append([l, 'AND', lits]); terms.append(l)
        if len(terms) == 1:
            outs.append(terms[0])
        else:
            l = fresh(); gates.append([l, 'OR', terms]); outs.append(l)
    return {'gates': gates, 'inputs': [f'x{i}' for i in range(n)], 'outputs': outs}


def answers(obj, n, m, neg_sets):
    """all protocol answers of a Function object, in the driver's shape"""
    def bs(l):
        return ''.join('1' if b else '0' for b in l)
    return {
        'const': obj.is_constant(),
        'const_at': [obj.is_constant_at(o) for o in range(m)],
        'mono': [obj.is_monotone(inverse=False), obj.is_monotone(inverse=True)],
        'mono_at': [[obj.is_monotone_at(o, inverse=False), obj.is_monotone_at(o, inverse=True)] for o in range(m)],
        'sym': obj.is_symmetric(),
        'sym_at': [obj.is_symmetric_at(o) for o in range(m)],
        'dep': [bs(obj.is_dependent_on_input_at(o, i) for i in range(n)) for o in range(m)],
        'eq': [bs(obj.is_output_equal_to_input(o, i) for i in range(n)) for o in range(m)],
        'eqn': [bs(obj.is_output_equal_to_input_negation(o, i) for i in range(n)) for o in range(m)],
        'sig': [list(obj.get_significant_inputs_of(o)) for o in range(m)],
        'neg': [(lambda r: None if r is None else bs(r))(obj.find_negations_to_make_symmetric(list(s))) for s in neg_sets],
        'tt': [bs(r) for r in obj.get_truth_table()],
    }


def make_reps(n, rows, rng):
    from cirbo.core.truth_table import TruthTable
    from cirbo.core.python_function import PyFunction
    from cirbo.core.utils import input_to_canonical_index
    m = len(rows)
    tt = TruthTable([list(r) for r in rows])
    tcols = [[rows[o][i] for o in range(m)] for i in range(2 ** n)]

    def f_list(x):
        return list(tcols[input_to_canonical_index(x)])

    def f_tuple(x):
        return tuple(tcols[input_to_canonical_index(x)])
    reps = {'table': tt, 'py': PyFunction(f_list, input_size=n), 'py_tuple': PyFunction(f_tuple, input_size=n, output_size=m)}
    # the same table given as strings of 0/1, as 0/1 integers, as tuples
    reps['table_str'] = TruthTable([''.join('1' if b else '0' for b in r) for r in rows])
    reps['table_int'] = TruthTable([[1 if b else 0 for b in r] for r in rows])
    reps['table_tuple'] = TruthTable(tuple(tuple(r) for r in rows))
    # a callable with positional parameters (n >= 1: the signature fixes the input size)
    if 1 <= n <= 4:
        src = 'lambda ' + ', '.join(f'a{i}' for i in range(n)) + ': F([' + ', '.join(f'a{i}' for i in range(n)) + '])'
        reps['py_positional'] = PyFunction.from_positional(eval(src, {'F': f_list}), output_size=(m if rng.random() < 0.5 else None))
    # identity-like functions given as callables that return their ARGUMENT OBJECT
    if m == n and all(tcols[i] == [bool((i >> (n - 1 - k)) & 1) for k in range(n)] for i in range(2 ** n)):
        reps['py_alias'] = PyFunction(lambda x: x, input_size=n, output_size=n)
    cj = realize(mk_circuit_json(n, rows))
    reps['circuit'] = circ_from_json(cj)
    return reps, cj


def spec_answers(n, m, rows, neg_sets):
    """the mathematical definitions, by brute force over the table"""
    N = 2 ** n
    xs = list(itertools.product((False, True), repeat=n))
    idx = {x: i for i, x in enumerate(xs)}

    def bs(l):
        return ''.join('1' if b else '0' for b in l)

    def mono(o, inv):
        r = rows[o]
        return all(not (r[i] != inv and r[j] == inv) for i in range(N) for j in range(i + 1, N))

    def sym_on(outs, neg):
        for x in xs:
            for y in xs:
                if sum(a ^ b for a, b in zip(x, neg)) == sum(a ^ b for a, b in zip(y, neg)):
                    if any(rows[o][idx[x]] != rows[o][idx[y]] for o in outs):
                        return False
        return True

    def dep(o, i):
        return any(rows[o][idx[x]] != rows[o][idx[x[:i] + (not x[i],) + x[i + 1:]]] for x in xs)
    zero = tuple([False] * n)
    negs = []
    for s in neg_sets:
        found = None
        for neg in xs:
            if sym_on(s, neg):
                found = bs(neg)
                break
        negs.append(found)
    return {
        'const': all(len(set(r)) == 1 for r in rows),
        'const_at': [len(set(rows[o])) == 1 for o in range(m)],
        'mono': [all(mono(o, False) for o in range(m)), all(mono(o, True) for o in range(m))],
        'mono_at': [[mono(o, False), mono(o, True)] for o in range(m)],
        'sym': sym_on(range(m), zero),
        'sym_at': [sym_on([o], zero) for o in range(m)],
        'dep': [bs(dep(o, i) for i in range(n)) for o in range(m)],
        'eq': [bs(all(rows[o][idx[x]] == x[i] for x in xs) for i in range(n)) for o in range(m)],
        'eqn': [bs(all(rows[o][idx[x]] == (not x[i]) for x in xs) for i in range(n)) for o in range(m)],
        'sig': [[i for i in range(n) if dep(o, i)] for o in range(m)],
        'neg': negs,
        'tt': [bs(r) for r in rows],
    }


def functions(ctx, rng):
    """(n, rows) stream: exhaustive small shapes, then samples"""
    shapes_ex = [(0, 1), (1, 1), (1, 2), (2, 1), (2, 2)] + ([(3, 1), (2, 3)] if ctx.tier == 'thorough' else [])
    for n, m in shapes_ex:
        N = 2 ** n
        for code in range(2 ** (N * m)):
            yield n, [[bool((code >> (o * N + i)) & 1) for i in range(N)] for o in range(m)], True
    for k in range(ctx.scale(120, 3000)):
        n = rng.choice([3, 3, 3, 4]); m = rng.choice([1, 2, 3])
        p = rng.choice([0.1, 0.5, 0.5, 0.9])
        rows = [[rng.random() < p for _ in range(2 ** n)] for _ in range(m)]
        if rng.random() < 0.3:   # make it interesting: symmetric / monotone / projection rows
            kind = rng.choice(['sym', 'mono', 'proj', 'nproj'])
            for o in range(m):
                if kind == 'sym':
                    w = [rng.random() < 0.5 for _ in range(n + 1)]
                    rows[o] = [w[bin(i).count('1')] for i in range(2 ** n)]
                elif kind == 'mono':
                    t = rng.randrange(2 ** n + 1)
                    rows[o] = [i >= t for i in range(2 ** n)]
                else:
                    j = rng.randrange(n)
                    rows[o] = [bool((i >> (n - 1 - j)) & 1) ^ (kind == 'nproj') for i in range(2 ** n)]
        yield n, rows, False


def neg_sets_for(m, rng):
    sets = [list(range(m))]
    if m > 1:
        sets.append([rng.randrange(m)])
    sets.append([])
    return sets


def run(ctx, rng, do_model):
    reqs, expect = [], []
    for n, rows, exhaustive in functions(ctx, rng):
        m = len(rows)
        ns = neg_sets_for(m, rng)
        try:
            reps, cj = make_reps(n, rows, rng)
        except Exception as e:  # noqa: BLE001
            ctx.violation('construct.raises', f'constructing representations raised {err_name(e)}', input={'n': n, 'table': table_of(rows)})
            continue
        spec = spec_answers(n, m, rows, ns)
        for name, obj in reps.items():
            ctx.case(json.dumps([name, n, table_of(rows)]), n >= 1)
            ctx.count('rep:' + name)
            try:
                a = answers(obj, n, m, ns)
            except Exception as e:  # noqa: BLE001
                a = {'err': err_name(e)}
            if do_model:
                kind = 'circuit' if name == 'circuit' else ('table' if name == 'table' else 'py')
                r = {'op': 'func_queries', 'kind': kind, 'neg_sets': ns}
                if kind == 'circuit':
                    r['c'] = cj
                else:
                    r['n'] = n
                    r['table'] = table_of(rows)
                reqs.append(r)
                expect.append(a)
            else:
                if a != spec:
                    diff = sorted(k for k in spec if a.get(k) != spec[k]) if 'err' not in a else ['raised ' + a['err']]
                    ctx.violation(f'{name}.{diff[0]}', f'{name}: query {diff[0]} answers {a.get(diff[0])}, definition says {spec.get(diff[0])}',
                                  input={'n': n, 'table': table_of(rows), 'representation': name, 'neg_sets': ns})
        if len(ctx.samples) < 2 and n >= 2:
            ctx.sample({'n': n, 'table': table_of(rows), 'spec': spec})
    if do_model:
        model = ctx.driver.ask_many(reqs)
        for r, a, b in zip(reqs, expect, model):
            if {'ok': a} == b:
                ctx.count('agree:func_queries')
            else:
                ctx.mismatch('func_queries', {k: v for k, v in r.items() if k != 'c'} , a, b)


def wrappers(ctx, rng, do_model):
    from cirbo.core.python_function import PyFunction
    from cirbo.core.utils import canonical_index_to_input, input_to_canonical_index, get_bit_value
    reqs, expect = [], []
    for k in range(ctx.scale(150, 3000)):
        in_len = rng.randint(0, 3)
        out_len = rng.randint(1, 4)
        be = rng.random() < 0.5
        binary = rng.random() < 0.5
        size = 2 ** (2 * in_len if binary else in_len)
        vals = [rng.randrange(2 ** out_len + (3 if rng.random() < 0.2 else 0)) for _ in range(size)]
        ctx.case(json.dumps(['wrap', vals, in_len, out_len, be, binary]), in_len >= 1)
        n = 2 * in_len if binary else in_len
        try:
            if binary:
                f = PyFunction.from_int_binary_func(lambda a, b: vals[a * 2 ** in_len + b], in_len, out_len, be)
            else:
                f = PyFunction.from_int_unary_func(lambda a: vals[a], in_len, out_len, be)
            got = [''.join('1' if b else '0' for b in f.evaluate(list(x))) for x in itertools.product((False, True), repeat=n)]
        except Exception as e:  # noqa: BLE001
            if do_model:
                reqs.append({'op': 'from_int', 'values': vals, 'in_len': in_len, 'out_len': out_len, 'big_endian': be, 'binary': binary})
                expect.append({'err': err_name(e)})
            else:
                ctx.violation('from_int.raises', f'integer wrapper raised {err_name(e)}',
                              input={'values': vals, 'in_len': in_len, 'out_len': out_len, 'big_endian': be, 'binary': binary})
            continue
        if do_model:
            reqs.append({'op': 'from_int', 'values': vals, 'in_len': in_len, 'out_len': out_len, 'big_endian': be, 'binary': binary})
            expect.append({'ok': got})
        else:
            # stated bit order: little-endian unless big_endian; result = f(args) mod 2^out_len on out_len bits
            for xi, x in enumerate(itertools.product((False, True), repeat=n)):
                def val(bits):
                    bits = list(bits) if be else list(bits)[::-1]
                    return int('0' + ''.join('1' if b else '0' for b in bits), 2)
                if binary:
                    want = vals[val(x[:in_len]) * 2 ** in_len + val(x[in_len:])] % 2 ** out_len
                else:
                    want = vals[val(x)] % 2 ** out_len
                gb = [c == '1' for c in got[xi]]
                if len(gb) != out_len or val(gb) != want:
                    ctx.violation('from_int.bit_order', f'integer wrapper returned bits {got[xi]} for input {x}, expected value {want} on {out_len} bits',
                                  input={'values': vals, 'in_len': in_len, 'out_len': out_len, 'big_endian': be, 'binary': binary})
                    break
    for k in range(ctx.scale(100, 2000)):
        size = rng.randint(1, 6)
        idx = rng.randrange(2 ** size)
        bits = list(canonical_index_to_input(idx, size))
        back = input_to_canonical_index(bits)
        ctx.case(json.dumps(['idx', idx, size]))
        if do_model:
            reqs.append({'op': 'index_to_input', 'index': idx, 'size': size})
            expect.append({'ok': ''.join('1' if b else '0' for b in bits)})
            reqs.append({'op': 'canonical_index', 'x': ''.join('1' if b else '0' for b in bits)})
            expect.append({'ok': back})
            j = rng.randrange(size)
            reqs.append({'op': 'get_bit_value', 'args': [idx, j, size]})
            expect.append({'ok': bool(get_bit_value(idx, j, size))})
        else:
            if back != idx or len(bits) != size or any(get_bit_value(idx, j, size) != bits[j] for j in range(size)):
                ctx.violation('index.inverse', f'canonical index helpers are not mutual inverses at index {idx}, size {size}',
                              input={'index': idx, 'size': size})
    if do_model:
        model = ctx.driver.ask_many(reqs)
        for r, a, b in zip(reqs, expect, model):
            if a == b:
                ctx.count('agree:' + r['op'])
            else:
                ctx.mismatch(r['op'], r, a, b)


def define_checks(ctx, rng, do_model=False):
    """model completion (implementation vs definition).  The definition covers every don't-care
    entry and, in about half of the cases, also some entries the model already defines (with
    random values): those must be ignored — the completed function agrees with the model wherever
    it was defined."""
    from cirbo.core.truth_table import TruthTableModel
    from cirbo.core.python_function import PyFunctionModel
    from cirbo.core.logic import DontCare
    from cirbo.core.utils import input_to_canonical_index
    reqs, expect = [], []
    for k in range(ctx.scale(150, 3000)):
        n = rng.randint(1, 3); m = rng.randint(1, 2)
        N = 2 ** n
        rows = [[rng.choice([False, True, DontCare]) for _ in range(N)] for _ in range(m)]
        xs = list(itertools.product((False, True), repeat=n))
        over = rng.random() < 0.5
        items = []
        for o in range(m):
            for i, x in enumerate(xs):
                if rows[o][i] == DontCare or (over and rng.random() < 0.5):
                    items.append(((x, o), rng.random() < 0.5))
        rng.shuffle(items)
        defn = dict(items)
        want = [[rows[o][i] if rows[o][i] != DontCare else defn[(xs[i], o)] for i in range(N)] for o in range(m)]
        srows = [''.join('*' if v == DontCare else ('1' if v else '0') for v in r) for r in rows]
        ctx.case(json.dumps(['define', n, srows, over]), over)
        try:
            tm = TruthTableModel([list(r) for r in rows])
            t = tm.define(dict(defn))
            got1 = [list(r) for r in t.get_truth_table()]
            # in a third of the cases the callable's don't-care marker is an equal copy of `DontCare` (a model that was
            # deep-copied or unpickled), not the module-level object itself
            src = copy.deepcopy(rows) if k % 3 == 0 else rows
            tcols = [[src[o][i] for o in range(m)] for i in range(N)]
            pm = PyFunctionModel(lambda x: list(tcols[input_to_canonical_index(x)]), input_size=n, output_size=m)
            got2 = [list(r) for r in pm.define(dict(defn)).get_truth_table()]
        except Exception as e:  # noqa: BLE001
            if not do_model:
                ctx.violation('define.raises', f'define raised {err_name(e)}', input={'n': n, 'rows': srows})
            continue
        if do_model:
            reqs.append({'op': 'define', 'rows': srows,
                         'defn': [[''.join('1' if b else '0' for b in x), o, bool(v)] for ((x, o), v) in defn.items()]})
            expect.append({'ok': [''.join('1' if v else '0' for v in r) for r in got1]})
        if not do_model:
            # the completed functions answer point queries too, with the input given as a list or as a tuple
            bad = None
            try:
                for f, nm in ((tm.define(dict(defn)), 'TruthTableModel'), (pm.define(dict(defn)), 'PyFunctionModel')):
                    for i, x in enumerate(xs):
                        for arg in (list(x), tuple(x)):
                            if list(f.evaluate(arg)) != [want[o][i] for o in range(m)] or f.evaluate_at(arg, 0) != want[0][i]:
                                bad = f'{nm}.define(...).evaluate({arg!r}) = {f.evaluate(arg)!r}'
            except Exception as e:  # noqa: BLE001
                bad = f'a point query on the completed function raised {err_name(e)}'
            if bad:
                ctx.violation('define.point_query', bad, input={'n': n, 'rows': srows})
                continue
        if do_model:
            pass
        elif got1 != want or got2 != want:
            key = 'define.overwrites_defined' if over and all(
                got1[o][i] == want[o][i] for o in range(m) for i in range(N) if rows[o][i] == DontCare) else 'define.wrong'
            ctx.violation(key, 'completed model disagrees with the model where it was defined, or with the definition elsewhere',
                          input={'n': n, 'rows': srows, 'defn': [[list(map(int, x)), o, bool(v)] for ((x, o), v) in defn.items()],
                                 'want': want, 'tt': got1, 'py': got2})
        if not do_model:
            # the same model object completed a second time, by the complementary definition
            defn2 = {kk: not v for kk, v in defn.items()}
            want2 = [[rows[o][i] if rows[o][i] != DontCare else defn2[(xs[i], o)] for i in range(N)] for o in range(m)]
            try:
                got3 = [list(r) for r in tm.define(dict(defn2)).get_truth_table()]
                got4 = [list(r) for r in pm.define(dict(defn2)).get_truth_table()]
            except Exception as e:  # noqa: BLE001
                ctx.violation('define.raises', f'second define on the same model raised {err_name(e)}', input={'n': n, 'rows': srows})
                continue
            if got3 != want2 or got4 != want2:
                ctx.violation('define.second_completion', 'the same model completed a second time: the result disagrees with the model '
                              'where it was defined, or with the second definition elsewhere',
                              input={'n': n, 'rows': srows, 'defn1': [[list(map(int, x)), o, bool(v)] for ((x, o), v) in defn.items()],
                                     'want': want2, 'tt': got3, 'py': got4})
            else:
                ctx.count('define:second_completion_ok')
    if do_model and reqs:
        model = ctx.driver.ask_many(reqs)
        for r, a, b in zip(reqs, expect, model):
            if a == b:
                ctx.count('agree:define')
            else:
                ctx.mismatch('define', r, a, b)


def correspondence(ctx):
    rng = ctx.rng('corr')
    run(ctx, rng, True)
    wrappers(ctx, rng, True)
    define_checks(ctx, rng, True)


def search(ctx):
    rng = ctx.rng('search')
    run(ctx, rng, False)
    wrappers(ctx, rng, False)
    define_checks(ctx, rng)


def replay(ctx, rp):
    search(ctx)
