"""C19 — local rewrites keep or specialise the function exactly as documented."""
import itertools
import json

import gen
from common import realize, circ_from_json, circ_to_json, err_name
from props.evalcommon import py_exec
from props.mutcommon import compare_mutate, py_mutate, check_wf
from props.slicegen import make_slice, sub_from_slice, add_dead_loop_closer, dead_loop_slice

RULE = ('random circuits (sharing, repeated operands, blocks, outputs that are inputs/repeated) x {rename of every '
        'gate to a fresh label (and to clashing/absent labels), replace_inputs for input subset pairs, remove_gate of '
        'every gate, replace_subcircuit on depth-bounded slices with shared fan-out using (i) an identical copy, '
        '(ii) a renamed copy, (iii) a re-expressed equivalent (double negation), (iv) an equivalent whose outputs read '
        'further frontier gates structurally (so the replacement can close a cycle), (v) deliberately '
        'incomplete mappings}; non-trivial = circuit with >=3 gates; distinct by (circuit, call)')
ASSUMPTIONS = ['starting circuits are well formed (WFU)']
TRUSTED = ['search oracle: truth tables through the real evaluator (certified in C01), cofactor computed in the '
           'harness, Lean checkWFU on resulting states']

DOCUMENTED = {'ReplaceSubcircuitError', 'DeleteBlockError', 'CreateBlockError', 'CircuitValidationError',
              'GateDoesntExistError', 'CircuitGateAlreadyExistsError', 'CircuitGateIsAbsentError', 'GateHasUsersError',
              'CircuitIsCyclicalError'}


def tt(j):
    return py_exec({'op': 'truth_table', 'c': j})


def gen_calls(ctx, rng, j):
    labels = [g[0] for g in j['gates']]
    calls = []
    for l in labels:
        calls.append([['rename_gate', l, 'fresh_' + l]])
        calls.append([['remove_gate', l]])
    if labels:
        calls.append([['rename_gate', labels[0], labels[-1]]])
        calls.append([['rename_gate', 'zz_absent', 'x']])
    ins = j['inputs']
    for _ in range(min(4, 2 ** len(ins))):
        t = [i for i in ins if rng.random() < 0.4]
        f = [i for i in ins if i not in t and rng.random() < 0.4]
        calls.append([['replace_inputs', t, f]])
    non_in = [l for l in labels if l not in ins]
    if non_in:
        calls.append([['replace_inputs', [rng.choice(non_in)], []]])
    for _ in range(ctx.scale(3, 6)):
        sl = make_slice(rng, j)
        if sl is None:
            break
        variant = rng.choice(['identical', 'renamed', 'renamed', 'reexpressed', 'entangled', 'entangled', 'incomplete', 'clash'])
        sub, im, om = sub_from_slice(j, sl, variant, rng)
        calls.append([['replace_subcircuit', sub, im, om]])
    sl = dead_loop_slice(j)
    if sl is not None:
        for variant in ('renamed', 'entangled'):
            sub, im, om = sub_from_slice(j, sl, variant, rng)
            calls.append([['replace_subcircuit', sub, im, om]])
    return calls


def gen_c19(ctx, rng):
    j, info = gen.gen_circuit(rng, max_inputs=4, max_gates=ctx.scale(10, 18), max_arity=3, blocks=(rng.random() < 0.3),
                              p_repeat_operand=0.25)
    j = realize(j)
    if rng.random() < 0.3:
        j = add_dead_loop_closer(rng, j)
    return j, info


def correspondence(ctx):
    rng = ctx.rng('corr')
    reqs = []
    for k in range(ctx.scale(60, 1500)):
        j, info = gen_c19(ctx, rng)
        for steps in gen_calls(ctx, rng, j):
            reqs.append({'op': 'mutate', 'c': j, 'steps': steps})
            ctx.case(json.dumps([j['gates'], j['outputs'], steps]), len(j['gates']) >= 3)
            ctx.count('op:' + steps[0][0])
        if k < 1:
            ctx.sample({'circuit': j, 'calls': [s[0][0] for s in gen_calls(ctx, rng, j)][:6]})
    compare_mutate(ctx, 'rewrite', reqs)


def cofactor(table, n, ins, t, f):
    """rows of the truth table restricted to t=True, f=False, remaining inputs in order"""
    keep = [i for i, l in enumerate(ins) if l not in t and l not in f]
    rows = []
    for r in table:
        row = ''
        for bits in itertools.product('01', repeat=len(keep)):
            full = ['1' if l in t else '0' for l in ins]
            for kpos, b in zip(keep, bits):
                full[kpos] = b
            row += r[int(''.join(full), 2)] if n else r[0]
        rows.append(row)
    return rows


def search(ctx):
    rng = ctx.rng('search')
    wf_states, wf_origin = [], []
    for k in range(ctx.scale(60, 1500)):
        j, info = gen_c19(ctx, rng)
        base_tt = tt(j)
        if 'err' in base_tt:
            continue
        n = len(j['inputs'])
        ops = {g[0]: g[2] for g in j['gates']}
        users = {l: [u for u, o in ops.items() if l in o] for l in ops}
        # the circuit's own input list as the argument (the accessor hands out the internal list)
        if n >= 2 and k % 3 == 0:
            from common import circ_from_json, circ_to_json
            for side in ('true', 'false'):
                ctx.case(json.dumps(['own_inputs', j['gates'], j['outputs'], side]))
                try:
                    c = circ_from_json(j)
                    c.replace_inputs(c.inputs, []) if side == 'true' else c.replace_inputs([], c.inputs)
                    r = circ_to_json(c)
                except Exception as e:  # noqa: BLE001
                    ctx.violation('replace_inputs.raises', f'replace_inputs(c.inputs) raised {err_name(e)}', input={'c': j, 'own_list': side})
                    continue
                col = ((1 << n) - 1) if side == 'true' else 0
                want = [row[col] for row in base_tt['ok']]
                got = tt(r)
                if r['inputs'] != [] or got.get('ok') != want:
                    ctx.violation('replace_inputs.cofactor', f'replace_inputs with the circuit\'s own input list ({side}): inputs left {r["inputs"]}, '
                                  f'result {got}, cofactor {want}', input={'c': j, 'own_list': side})
                else:
                    ctx.count('replace_inputs:own_list')
        for steps in gen_calls(ctx, rng, j):
            st = steps[0]
            ctx.case(json.dumps(['s', j['gates'], j['outputs'], steps]), len(j['gates']) >= 3)
            r = py_mutate({'c': j, 'steps': steps})['ok'][0]
            if st[0] == 'rename_gate':
                valid = st[1] in ops and st[2] not in ops
                if valid and 'err' in r:
                    ctx.violation('rename.raises', f'rename_gate raised {r["err"]}', input={'c': j, 'steps': steps})
                elif not valid and 'err' not in r:
                    ctx.violation('rename.accepts_invalid', 'rename_gate accepted an absent/existing label', input={'c': j, 'steps': steps})
                elif valid:
                    m = lambda x: st[2] if x == st[1] else x
                    exp = {'gates': sorted((m(g[0]), g[1], tuple(map(m, g[2]))) for g in j['gates']),
                           'inputs': list(map(m, j['inputs'])), 'outputs': list(map(m, j['outputs'])),
                           'blocks': sorted((b[0], tuple(map(m, b[1])), tuple(sorted(map(m, b[2]))), tuple(map(m, b[3]))) for b in j['blocks'])}
                    got = {'gates': sorted((g[0], g[1], tuple(g[2])) for g in r['gates']), 'inputs': r['inputs'], 'outputs': r['outputs'],
                           'blocks': sorted((b[0], tuple(b[1]), tuple(sorted(b[2])), tuple(b[3])) for b in r['blocks'])}
                    if got != exp:
                        ctx.violation('rename.references', 'after rename_gate some reference does not point at the renamed gate',
                                      input={'c': j, 'steps': steps})
                    elif tt(r) != base_tt:
                        ctx.violation('rename.truth_table', 'rename_gate changed the truth table', input={'c': j, 'steps': steps})
                    wf_states.append(r); wf_origin.append((j, steps))
            elif st[0] == 'remove_gate':
                ok = st[1] in ops and not users[st[1]]
                if ok != ('err' not in r):
                    ctx.violation('remove.condition', f'remove_gate {"failed" if ok else "succeeded"} for a gate with users={users.get(st[1])}',
                                  input={'c': j, 'steps': steps})
                elif ok:
                    if any(g[0] == st[1] for g in r['gates']) or st[1] in r['outputs'] or any(st[1] in u for _, u in r['users']):
                        ctx.violation('remove.leftover', 'removed gate is still referenced', input={'c': j, 'steps': steps})
                    wf_states.append(r); wf_origin.append((j, steps))
            elif st[0] == 'replace_inputs':
                allin = all(x in j['inputs'] for x in st[1] + st[2]) and len(set(st[1] + st[2])) == len(st[1] + st[2])
                if 'err' in r:
                    if allin:
                        ctx.violation('replace_inputs.raises', f'replace_inputs raised {r["err"]}', input={'c': j, 'steps': steps})
                    elif r['err'] not in ('GateNotInputError', 'Py:ValueError'):
                        ctx.violation('replace_inputs.wrong_error', f'raised {r["err"]}', input={'c': j, 'steps': steps})
                    continue
                if not allin:
                    continue
                if r['inputs'] != [i for i in j['inputs'] if i not in st[1] + st[2]]:
                    ctx.violation('replace_inputs.inputs', 'remaining inputs are not the original ones in order', input={'c': j, 'steps': steps})
                    continue
                want = cofactor(base_tt['ok'], n, j['inputs'], st[1], st[2])
                got = tt(r)
                if got != {'ok': want}:
                    ctx.violation('replace_inputs.cofactor', f'result computes {got}, cofactor is {want}', input={'c': j, 'steps': steps})
                wf_states.append(r); wf_origin.append((j, steps))
            elif st[0] == 'replace_subcircuit':
                if 'err' in r:
                    ctx.count('replace_subcircuit:' + r['err'])
                    if r['err'] not in DOCUMENTED:
                        ctx.violation('replace_subcircuit.undocumented_error', f'raised {r["err"]}', input={'c': j, 'steps': steps})
                    continue
                ctx.count('replace_subcircuit:ok')
                got = tt(r)
                if got != base_tt:
                    ctx.violation('replace_subcircuit.truth_table', f'truth table changed {base_tt} -> {got}', input={'c': j, 'steps': steps})
                wf_states.append(r); wf_origin.append((j, steps))
    for (j, steps), verdict in zip(wf_origin, check_wf(ctx, wf_states)):
        if verdict != 'ok':
            ctx.violation(steps[0][0] + '.not_wellformed', f'after {steps[0][0]}: {verdict}', input={'c': j, 'steps': steps})


def replay(ctx, rp):
    v = rp.get('violation') or {}
    inp = v.get('input') or {}
    if 'c' in inp and 'steps' in inp:
        print(json.dumps(py_mutate({'c': inp['c'], 'steps': inp['steps']}))[:1500])
    search(ctx)
