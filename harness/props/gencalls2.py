"""dispatch for multiplication/square generators (filled in by c08)"""


def call(c, name, a):
    raise ValueError('unknown generator ' + name)
