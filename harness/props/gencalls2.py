"""dispatch for multiplication/square generators"""


def call(c, name, a):
    from cirbo.synthesis.generation.arithmetics import multiplication as M, square as SQ
    be = {'big_endian': bool(a.get('big_endian', False))}
    muls = {'add_mul': M.add_mul, 'add_mul_alter': M.add_mul_alter, 'add_mul_pow2_m1': M.add_mul_pow2_m1,
            'add_mul_karatsuba': M.add_mul_karatsuba,
            'add_mul_karatsuba_with_efficient_sum': M.add_mul_karatsuba_with_efficient_sum,
            'add_mul_dadda': M.add_mul_dadda, 'add_mul_wallace': M.add_mul_wallace}
    if name in muls:
        return list(muls[name](c, a['a'], a['b'], **be))
    if name == 'add_square':
        return list(SQ.add_square(c, a['ins'], **be))
    if name == 'add_square_pow2_m1':
        return list(SQ.add_square_pow2_m1(c, a['ins'], **be))
    raise ValueError('unknown generator ' + name)
