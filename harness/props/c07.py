"""C07 — summation generators compute exact sums within the promised basis and size."""
import json

from common import circ_from_json, circ_to_json, err_name, realize
from props import gencommon as G

RULE = ('parameter sets: generator kind (sum2/sum3 blocks, easy, n-bit counter in XAIG/AIG with enum and any-case string '
        'bases, ripple adder, shifted adder incl. shift >= len(a), weighted sums efficient/naive, 2^k-1 splitter) x operand '
        'count x endianness x host (bare circuit or random circuit built through the public API) x operand choice (inputs or '
        'internal gates, repeated operands allowed); model and code compared on the whole resulting circuit, returned labels '
        'and uuid counter; search evaluates the real result on all assignments of the host inputs; distinct by request')
ASSUMPTIONS = ['host circuit well formed (built through the public API)', 'levels/weights are naturals']
TRUSTED = ['search oracle: per-gate truth tables through the real evaluator (C01) + integer arithmetic in CPython']

BASES = [None, ['enum', 'XAIG'], ['enum', 'AIG'], ['str', 'XAIG'], ['str', 'AIG'], ['str', 'aig'], ['str', 'xaig'], ['str', 'Aig']]


_DOC = None


def doc_bound(name, basis):
    global _DOC
    if _DOC is None:
        import tables_docbounds
        _DOC = tables_docbounds.doc_bounds()
    d = _DOC.get(name)
    return None if d is None else d['aig' if basis == 'AIG' else 'xaig']


def doc_easy():
    doc_bound('add_sum_n_bits', 'XAIG')
    return _DOC.get('add_sum_n_bits_easy')


def gen_request(ctx, rng, big=False):
    kind = rng.choice(['add_sum2', 'add_sum3', 'add_sum_n_bits_easy', 'add_sum_n_bits', 'add_sum_n_bits', 'add_sum_two_numbers',
                       'add_sum_two_numbers_with_shift', 'add_sum_n_weighted_bits', 'add_sum_n_weighted_bits',
                       'add_sum_n_weighted_bits_naive', 'add_sum_pow2_m1'])
    nmax = 40 if big else 9
    host = G.host_circuit(rng, n_inputs=rng.randint(1, 7 if not big else 10))
    a = {}
    if kind in ('add_sum2', 'add_sum3'):
        n = {'add_sum2': 2, 'add_sum3': 3}[kind]
        if rng.random() < 0.1:
            n += rng.choice([-1, 1])
        a['ins'] = G.pick_operands(rng, host, n)
    elif kind in ('add_sum_n_bits_easy', 'add_sum_n_bits', 'add_sum_pow2_m1'):
        n = rng.randint(1, nmax) if rng.random() < 0.95 else 0
        if kind == 'add_sum_pow2_m1' and rng.random() < 0.3:
            n = rng.randint(30, 70)
        a['ins'] = G.pick_operands(rng, host, n)
        a['big_endian'] = rng.random() < 0.4
        if kind != 'add_sum_n_bits_easy':
            a['basis'] = rng.choice(BASES)
            if rng.random() < 0.03:
                a['basis'] = ['str', 'nosuchbasis']
    elif kind in ('add_sum_two_numbers', 'add_sum_two_numbers_with_shift'):
        n, m = rng.randint(1, nmax // 2 + 1), rng.randint(1, nmax // 2 + 1)
        if rng.random() < 0.04:
            n = 0
        if rng.random() < 0.04:
            m = 0
        a['a'] = G.pick_operands(rng, host, n)
        a['b'] = G.pick_operands(rng, host, m)
        a['big_endian'] = rng.random() < 0.4
        if kind.endswith('shift'):
            a['shift'] = rng.choice([0, 1, 2, n - 1 if n > 0 else 0, n, n + 1, n + 2, 2 * n, 2 * n + 1, 2 * n + 3, rng.randint(0, 3 * n + 2)])
    else:
        n = rng.randint(1, nmax) if rng.random() < 0.97 else 0
        ops = G.pick_operands(rng, host, n)
        wmax = rng.choice([0, 1, 2, 4, 8])
        a['ins'] = [[rng.randint(0, wmax), l] for l in ops]
        a['basis'] = rng.choice(BASES)
    a = {k: v for k, v in a.items() if v is not None}
    return {'op': 'gen', 'c': host, 'ctr': rng.randint(0, 5), 'name': kind, 'args': a}


def correspondence(ctx):
    rng = ctx.rng('corr')
    reqs = []
    for k in range(ctx.scale(400, 6000)):
        r = gen_request(ctx, rng, big=(ctx.tier == 'thorough' and k % 10 == 0))
        reqs.append(r)
        ctx.case(json.dumps([r['name'], r['args'], r['c']['gates']]))
        ctx.count('kind=' + r['name'])
        if k < 2:
            ctx.sample({'name': r['name'], 'args': r['args'], 'host_gates': len(r['c']['gates'])})
    G.compare(ctx, 'gen', reqs)
    # the generate_* wrappers: bare circuit + add_* + set_outputs
    wr = []
    for k in range(ctx.scale(60, 600)):
        n = rng.randint(1, 12)
        b = rng.choice(BASES)
        be = rng.random() < 0.5
        wr.append((n, b, be))
    for n, b, be in wr:
        from cirbo.synthesis.generation.arithmetics import summation as S
        from props.mutcommon import UuidPatch
        host = circ_to_json(__import__('cirbo').core.circuit.Circuit.bare_circuit(n))
        try:
            with UuidPatch():
                cj = circ_to_json(S.generate_sum_n_bits(n, **G._basis(b), big_endian=be))
        except Exception as e:  # noqa: BLE001
            cj = {'err': err_name(e)}
        m = ctx.driver.ask({'op': 'gen', 'c': host, 'ctr': 0, 'name': 'add_sum_n_bits',
                            'args': {k: v for k, v in {'ins': host['inputs'], 'basis': b, 'big_endian': be}.items() if v is not None}})
        if 'ok' in m and 'err' not in cj:
            if m['ok']['c']['gates'] == cj['gates'] and m['ok']['ret'] == cj['outputs'] and cj['inputs'] == host['inputs']:
                ctx.count('agree:generate_sum_n_bits')
            else:
                ctx.mismatch('generate_sum_n_bits', {'n': n, 'basis': b, 'big_endian': be}, cj, m)
        elif ('err' in m) != ('err' in cj) or ('err' in m and m['err'] != cj['err']):
            ctx.mismatch('generate_sum_n_bits', {'n': n, 'basis': b, 'big_endian': be}, cj, m)
        ctx.case(json.dumps(['w', n, b, be]))


def weighted_value(tt, pairs, row):
    return sum((1 << lvl) for lvl, l in pairs if tt[l][row])


def check_result(ctx, r, res):
    """the property's clauses on one successful call of the real generator"""
    name, a, host = r['name'], r['args'], r['c']
    after, ret = res['c'], res['ret']
    inp = {'request': r}
    probs = G.frame_problems(host, after)
    if after['outputs'] != host['outputs']:
        probs.append('outputs changed')
    if probs:
        ctx.violation('sum.frame', f'{name}: ' + '; '.join(probs[:3]), input=inp)
        return
    new_gates = after['gates'][len(host['gates']):]
    basis = G.basis_norm(a.get('basis')) if 'weighted' in name or name in ('add_sum_n_bits', 'add_sum_pow2_m1') else 'XAIG'
    if basis == 'AIG':
        bad = [g for g in new_gates if g[1] in G.XOR_TYPES]
        if bad:
            ctx.violation('sum.basis', f'{name} with basis {a.get("basis")} emitted {bad[0][1]} gate(s) outside AIG', input=inp)
            return
    bad = [g for g in new_gates if len(g[2]) != 2 or g[1] in ('INPUT', 'NOT', 'IFF')]
    if bad:
        ctx.violation('sum.basis', f'{name} emitted a non-binary gate {bad[0]}', input=inp)
        return
    tt = G.gates_tt(after)
    rows = 1 << len(after['inputs'])
    be = a.get('big_endian', False)
    if name in ('add_sum2', 'add_sum3', 'add_sum_n_bits_easy', 'add_sum_n_bits'):
        ins = a['ins']
        outs = ret[::-1] if be else ret
        for row in range(rows):
            want = sum(1 for l in ins if tt[l][row])
            got = G.value(tt, outs, row)
            if want != got:
                ctx.violation('sum.value', f'{name}({len(ins)} bits, basis={a.get("basis")}, big_endian={be}): bits sum to {want}, result decodes to {got}',
                              input=inp, row=row)
                return
        n = len(ins)
        m = len(ret)
        if name == 'add_sum_n_bits' and n >= 1 and doc_bound('add_sum_n_bits', basis):
            A, B = doc_bound('add_sum_n_bits', basis)
            bound = (A * n - B * m) / 2
            if len(new_gates) > bound:
                ctx.violation('sum.size', f'{name}: {len(new_gates)} gates for n={n}, m={m}, bound {bound}', input=inp)
        if name == 'add_sum_n_bits_easy' and n >= 1 and doc_easy() and 2 * len(new_gates) > doc_easy() * n:
            ctx.violation('sum.size', f'{name}: {len(new_gates)} gates for n={n}', input=inp)
    elif name in ('add_sum_two_numbers', 'add_sum_two_numbers_with_shift'):
        A, B = a['a'], a['b']
        sh = a.get('shift', 0)
        if any(l not in tt for l in ret):
            ctx.violation('sum.labels', f'{name}(|a|={len(A)}, |b|={len(B)}, shift={sh}) returned labels that are not gates: '
                          f'{[l for l in ret if l not in tt][:3]}', input=inp)
            return
        for row in range(rows):
            want = G.value(tt, A, row, not be) + (G.value(tt, B, row, not be) << sh)
            got = G.value(tt, ret, row, not be)
            if want != got:
                ctx.violation('sum.value', f'{name}(|a|={len(A)}, |b|={len(B)}, shift={sh}, big_endian={be}): a+b*2^shift={want}, result decodes to {got}',
                              input=inp, row=row)
                return
    elif 'weighted' in name:
        ins = [tuple(p) for p in a['ins']]
        outs = [tuple(p) for p in ret]
        lv = [p[0] for p in outs]
        if len(set(lv)) != len(lv):
            ctx.violation('sum.levels', f'{name}: output levels not pairwise distinct: {lv}', input=inp)
            return
        for row in range(rows):
            want, got = weighted_value(tt, ins, row), weighted_value(tt, outs, row)
            if want != got:
                ctx.violation('sum.value', f'{name}(weights={[p[0] for p in ins]}, basis={a.get("basis")}): weighted input sum {want}, outputs {got}',
                              input=inp, row=row)
                return
        n, m = len(ins), len(outs)
        db = doc_bound(name, basis)
        if db and 2 * len(new_gates) > db[0] * n - db[1] * m:
            key = 'sum.size'
            if name == 'add_sum_n_weighted_bits' and basis != 'AIG' and 2 * len(new_gates) <= 9 * n - 3 * m:
                key = 'sum.size.weighted_xaig_documented_bound'
            ctx.violation(key, f'{name}: {len(new_gates)} gates for n={n}, m={m}, documented bound {(db[0] * n - db[1] * m) / 2}', input=inp)
    elif name == 'add_sum_pow2_m1':
        # out[j] = bits of weight 2^j whose total equals the number of true inputs
        ins = a['ins']
        for row in range(rows):
            want = sum(1 for l in ins if tt[l][row])
            got = sum((1 << j) for j, col in enumerate(ret) for l in col if tt[l][row])
            if want != got:
                ctx.violation('sum.value', f'{name}({len(ins)} bits): bits sum to {want}, columns decode to {got}', input=inp, row=row)
                return


def expected_error(r):
    """calls the property does not promise anything for (malformed arguments)"""
    name, a = r['name'], r['args']
    if a.get('basis') and a['basis'][0] == 'str' and a['basis'][1].upper() not in ('XAIG', 'AIG'):
        return True
    if name in ('add_sum2', 'add_sum3'):
        return len(a['ins']) != {'add_sum2': 2, 'add_sum3': 3}[name]
    if name in ('add_sum_two_numbers', 'add_sum_two_numbers_with_shift'):
        return len(a['a']) == 0 or len(a['b']) == 0
    if 'ins' in a and len(a['ins']) == 0:
        return True
    return False


def gen_independent(rng, kind=None):
    """operands are *distinct inputs* of a bare host, so every operand vector (all-ones included: the top carry)
    occurs among the assignments; weights all equal or from a small set — the shapes where level bookkeeping
    (sentinels, gaps, carries landing on an existing level) can go wrong"""
    kind = kind or rng.choice(['add_sum_n_weighted_bits', 'add_sum_n_weighted_bits_naive', 'add_sum_n_weighted_bits_naive',
                               'add_sum_n_bits', 'add_sum_n_bits_easy', 'add_sum_pow2_m1'])
    n = rng.choice([1, 2, 2, 3, 4, 4, 5, 6, 7, 8, 8, 9])
    host = realize({'gates': [[f'x{i}', 'INPUT', []] for i in range(n)], 'inputs': [f'x{i}' for i in range(n)],
                    'outputs': [], 'blocks': []})
    ops = [f'x{i}' for i in range(n)]
    rng.shuffle(ops)
    a = {}
    if 'weighted' in kind:
        mode = rng.choice(['equal', 'equal', 'two', 'ramp', 'gap'])
        w0 = rng.choice([0, 0, 1, 3])
        if mode == 'equal':
            ws = [w0] * n
        elif mode == 'two':
            ws = [w0 + rng.choice([0, 1]) for _ in range(n)]
        elif mode == 'ramp':
            ws = [w0 + i // 2 for i in range(n)]
        else:
            ws = [w0 + rng.choice([0, 2, 5]) for _ in range(n)]
        a['ins'] = [[w, l] for w, l in zip(ws, ops)]
        a['basis'] = rng.choice(BASES[:3])
    else:
        a['ins'] = ops
        a['big_endian'] = rng.random() < 0.4
        if kind != 'add_sum_n_bits_easy':
            a['basis'] = rng.choice(BASES[:3])
    a = {k: v for k, v in a.items() if v is not None}
    return {'op': 'gen', 'c': host, 'ctr': rng.randint(0, 3), 'name': kind, 'args': a}


def gate_count(fn, n, args_of, **kw):
    from cirbo.core.circuit import Circuit
    c = Circuit.bare_circuit(n)
    res = fn(c, args_of(list(c.inputs)), **kw)
    return len(c.gates) - n, len(res)


def size_search(ctx):
    """documented gate-count bounds on operand counts far beyond what the value oracle can enumerate (no truth tables
    here: only sizes). Weighted instances are drawn from level profiles (how many inputs per level), incl. the
    profile 4,4,3,3,3,... on which every level runs a simplified MDFA and a Stockmeyer block"""
    from cirbo.synthesis.generation.arithmetics import summation as S
    import tables_docbounds
    DOC = tables_docbounds.doc_bounds()      # the bounds the docstrings state NOW (also regenerated into Lean)
    rng = ctx.rng('size')

    def weighted(fn, ws, basis):
        return gate_count(fn, len(ws), lambda ins: [(w, l) for w, l in zip(ws, ins)], basis=basis)

    def judge(name, basis, n, m, g, inp):
        ctx.case(json.dumps(['size', name, basis, inp]))
        ctx.count('size:' + name + ':' + basis)
        doc = DOC.get(name)
        if doc is None:
            ctx.count('size:undocumented:' + name)
            return
        A, B = doc[basis.lower()]
        bound = (A * n - B * m) / 2
        if 2 * g <= A * n - B * m:
            return
        if name == 'add_sum_n_weighted_bits' and basis == 'XAIG' and 2 * g <= 9 * n - 3 * m:
            # the listed finding: the documented 4.5n - 2m is exceeded, the provable 4.5n - 1.5m is not
            ctx.violation('sum.size.weighted_xaig_documented_bound',
                          f'{name}(XAIG): {g} gates for n={n}, m={m}; documented bound {bound}', input=inp)
        else:
            ctx.violation('sum.size', f'{name}({basis}): {g} gates for n={n}, m={m}, documented bound {bound}', input=inp)

    profiles = [[4, 4] + [3] * k for k in (9, 10, 12, 20)]
    for k in range(ctx.scale(40, 400)):
        L = rng.randint(1, 14)
        profiles.append([rng.choice([0, 1, 2, 3, 3, 4, 5, 8]) for _ in range(L)])
    for prof in profiles:
        ws = [l for l, cnt in enumerate(prof) for _ in range(cnt)]
        if not ws:
            continue
        rng.shuffle(ws)
        for basis in ('XAIG', 'AIG'):
            for name, fn in (('add_sum_n_weighted_bits', S.add_sum_n_weighted_bits),
                             ('add_sum_n_weighted_bits_naive', S.add_sum_n_weighted_bits_naive)):
                try:
                    g, m = weighted(fn, ws, basis)
                except Exception as e:  # noqa: BLE001
                    ctx.violation('sum.raises', f'{name} raised {err_name(e)} on weights {ws}', input={'weights': ws, 'basis': basis})
                    continue
                judge(name, basis, len(ws), m, g, {'weights': ws, 'basis': basis, 'name': name})
    for n in list(range(1, 70)) + [100, 127, 128, 129, 255, 256, 257, 500]:
        for basis in ('XAIG', 'AIG'):
            g, m = gate_count(S.add_sum_n_bits, n, lambda ins: ins, basis=basis)
            judge('add_sum_n_bits', basis, n, m, g, {'n': n, 'basis': basis, 'name': 'add_sum_n_bits'})


def search(ctx):
    size_search(ctx)
    G.check_generate_weighted(ctx, ctx.rng('generate-weighted'), ctx.scale(40, 600))
    rng = ctx.rng('search')
    rng2 = ctx.rng('search-independent')
    for k in range(ctx.scale(150, 2500)):
        r = gen_independent(rng2)
        ctx.case(json.dumps(['si', r['name'], r['args']]))
        ctx.count('independent_operands')
        res = G.py_gen(r)
        if 'err' in res:
            ctx.violation('sum.raises', f'{r["name"]} raised {res["err"]} on valid arguments {json.dumps(r["args"])[:200]}', input={'request': r})
            continue
        check_result(ctx, r, res['ok'])
    for k in range(ctx.scale(300, 5000)):
        r = gen_request(ctx, rng, big=False)
        ctx.case(json.dumps(['s', r['name'], r['args'], r['c']['gates']]))
        res = G.py_gen(r)
        if 'err' in res:
            if not expected_error(r):
                ctx.violation('sum.raises', f'{r["name"]} raised {res["err"]} on valid arguments {json.dumps(r["args"])[:200]}', input={'request': r})
            continue
        check_result(ctx, r, res['ok'])


def replay(ctx, rp):
    v = rp.get('violation') or {}
    r = (v.get('input') or {}).get('request')
    if r:
        res = G.py_gen(r)
        print(json.dumps(res)[:1500])
        if 'ok' in res:
            check_result(ctx, r, res['ok'])
        elif not expected_error(r):
            ctx.violation('sum.raises', f'{r["name"]} raised {res["err"]}', input={'request': r})
    else:
        search(ctx)
